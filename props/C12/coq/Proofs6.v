(* C12 — copy preserves content: composition of C08's repacker (`repack_preserves_blobs`: every blob handed
   to the target packer carries the decoded bytes of its own source location) and C08's packer
   (`packer_pack_wellformed`: the packs written are the groups of the ops, offsets contiguous) with this
   property's `needed` / `copy_closed`.  Every blob copy needs ends up in a destination pack at an indexed
   location whose bytes decode to the source blob's bytes. *)
From Verif.Base Require Import Tactics.
From Verif.C08 Require Extracted Model Spec Repack ProofsCodec ProofsPacker ProofsRepack Props.
From Verif.C12 Require Import Extracted Model Proofs Proofs3.
Local Open Scope N_scope.

Module M8 := Verif.C08.Model.
Module S8 := Verif.C08.Spec.
Module R8 := Verif.C08.Repack.

(* ------------------------------------------------------------------ where a blob of a group lies in the pack file *)

Lemma slice_mid (p d t : M8.bytes) :
  M8.slice (p ++ d ++ t) (N.of_nat (length p)) (N.of_nat (length d)) = d.
Proof.
  unfold M8.slice. rewrite !Nat2N.id.
  rewrite skipn_app, skipn_all, Nat.sub_diag. cbn [skipn app].
  rewrite firstn_app, firstn_all, Nat.sub_diag. cbn [firstn]. apply app_nil_r.
Qed.

Lemma blobs_of_locate tpe g : forall off o, In o g ->
  exists b, In b (S8.blobs_of tpe off g) /\ M8.bid b = M8.op_id o /\ M8.btpe b = tpe /\ M8.bulen b = M8.op_ulen o /\
            forall pre tail, N.of_nat (length pre) = off ->
              M8.slice (pre ++ S8.data_of g ++ tail) (M8.boff b) (M8.blen b) = M8.op_data o.
Proof.
  induction g as [|a g IH]; intros off o Hin; [destruct Hin|]. cbn [S8.blobs_of].
  destruct Hin as [->|Hin].
  - eexists. split; [left; reflexivity|]. cbn [M8.bid M8.btpe M8.bulen M8.boff M8.blen]. repeat split.
    intros pre tail Hp. unfold S8.data_of. cbn [flat_map]. rewrite <- Hp, <- app_assoc. apply slice_mid.
  - destruct (IH (off + N.of_nat (length (M8.op_data a))) o Hin) as [b [Hb [H1 [H2 [H3 H4]]]]].
    exists b. split; [right; exact Hb|]. repeat split; try assumption.
    intros pre tail Hp. unfold S8.data_of in *. cbn [flat_map].
    specialize (H4 (pre ++ M8.op_data a) tail). rewrite app_length, Nat2N.inj_add, Hp in H4.
    rewrite <- !app_assoc in *. apply H4. reflexivity.
Qed.

Lemma pack_of_group_locate enc tpe g o : In o g ->
  exists b, In b (snd (S8.pack_of_group enc tpe g)) /\ M8.bid b = M8.op_id o /\ M8.btpe b = tpe /\
            M8.bulen b = M8.op_ulen o /\
            M8.slice (fst (S8.pack_of_group enc tpe g)) (M8.boff b) (M8.blen b) = M8.op_data o.
Proof.
  intro Hin. destruct (blobs_of_locate tpe g 0 o Hin) as [b [Hb [H1 [H2 [H3 H4]]]]].
  exists b. unfold S8.pack_of_group. cbn [fst snd]. repeat split; try assumption.
  unfold S8.pack_file. apply (H4 [] _ eq_refl).
Qed.

Lemma nodup_app_r {A} (l r : list A) : NoDup (l ++ r) -> NoDup r.
Proof. induction l as [|a l IH]; cbn [app]; intro H; [exact H | inv H; apply IH; assumption]. Qed.

(* every op with a fresh id lands in one of the packer's groups *)
Lemma spec_groups_covers : forall ops cur,
  NoDup (map M8.op_id (cur ++ ops)) ->
  forall o, In o (cur ++ ops) -> exists g, In g (S8.spec_groups cur ops) /\ In o g.
Proof.
  induction ops as [|a r IH]; intros cur Hnd o Hin; cbn [S8.spec_groups].
  - rewrite app_nil_r in Hin. destruct cur as [|c cur]; [destruct Hin|]. exists (c :: cur). split; [left; reflexivity | exact Hin].
  - assert (existsb (fun p => M8.bytes_eqb (M8.op_id p) (M8.op_id a)) cur = false) as Ex.
    { destruct (existsb _ cur) eqn:E; [|reflexivity]. exfalso. apply existsb_exists in E. destruct E as [p [Hp Ep]].
      apply Verif.C08.ProofsCodec.bytes_eqb_eq in Ep. rewrite map_app in Hnd. cbn [map] in Hnd.
      apply NoDup_remove_2 in Hnd. apply Hnd. apply in_or_app. left. rewrite <- Ep. apply in_map. exact Hp. }
    rewrite Ex.
    assert (In o (cur ++ [a]) \/ In o r) as Hcase.
    { apply in_app_or in Hin. destruct Hin as [H|[<-|H]]; [left; apply in_or_app; left; exact H | left; apply in_or_app; right; left; reflexivity | right; exact H]. }
    destruct (M8.op_save a).
    + destruct Hcase as [H|H]; [exists (cur ++ [a]); split; [left; reflexivity | exact H]|].
      assert (NoDup (map M8.op_id ([] ++ r))) as Hnr.
      { cbn [app]. rewrite map_app in Hnd. apply nodup_app_r in Hnd. cbn [map] in Hnd. inv Hnd. assumption. }
      destruct (IH [] Hnr o H) as [g [Hg Ho]].
      exists g. split; [right; exact Hg | exact Ho].
    + destruct (IH (cur ++ [a]) ltac:(rewrite <- app_assoc; exact Hnd) o) as [g [Hg Ho]].
      { rewrite <- app_assoc. cbn [app]. exact Hin. }
      exists g. split; assumption.
Qed.

(* ------------------------------------------------------------------ the copy of one blob type *)

Section CopyContent.
  (* source: pack store and blob decoder (decrypt with the source key, decompress, check the length) *)
  Variable sstore : M8.id -> option M8.bytes.
  Variable sdecode : M8.bytes -> option N -> option M8.bytes.
  (* destination: blob encoder of Packer::add (compress, encrypt with the destination key), its
     uncompressed-length field, the decoder of a reader, and the header encryption of the packer *)
  Variable denc : M8.bytes -> M8.bytes.
  Variable dulen : M8.bytes -> option N.
  Variable ddec : M8.bytes -> option N -> option M8.bytes.
  Variable enc : M8.bytes -> M8.bytes.
  Hypothesis Hddec : forall x, ddec (denc x) (dulen x) = Some x.
  Hypothesis Henc : forall x, length (enc x) = (length x + 32)%nat.

  (* BlobCopier::copy hands (id, decoded bytes) to Packer::add; `saves` = should_save after each blob *)
  Fixpoint dest_ops (out : list R8.handed) (saves : list bool) : list M8.pop :=
    match out with
    | [] => []
    | (i, pd, _) :: r =>
        M8.mkop (denc pd) i (dulen pd) (hd false saves) :: dest_ops r (tl saves)
    end.

  Lemma dest_ops_ids out : forall saves, map M8.op_id (dest_ops out saves) = map (fun h => fst (fst h)) out.
  Proof. induction out as [|[[i pd] u] r IH]; intro saves; cbn [dest_ops map fst M8.op_id]; [reflexivity | rewrite IH; reflexivity]. Qed.

  Lemma dest_ops_in out : forall saves i pd u, In (i, pd, u) out ->
    exists sv, In (M8.mkop (denc pd) i (dulen pd) sv) (dest_ops out saves).
  Proof.
    induction out as [|[[j qd] v] r IH]; intros saves i pd u Hin; [destruct Hin|]. cbn [dest_ops].
    destruct Hin as [E|Hin]; [inv E; eexists; left; reflexivity|].
    destruct (IH (tl saves) i pd u Hin) as [sv Hs]. exists sv. right. exact Hs.
  Qed.

  Lemma copy_preserves_content_lemma : forall tpe es out saves packs,
    NoDup (map R8.ce_id es) ->
    R8.repack true sstore sdecode es = M8.Ok out ->
    Forall S8.wf_op (dest_ops out saves) ->
    M8.packer_run enc tpe (dest_ops out saves) = M8.Ok packs ->
    forall e, In e es ->
      exists pd f bs b,
        R8.expected_of sstore sdecode e = Some (R8.ce_id e, pd, R8.l_ulen (R8.ce_loc e)) /\
        In (f, bs) packs /\ In b bs /\ M8.bid b = R8.ce_id e /\ M8.btpe b = tpe /\
        ddec (M8.slice f (M8.boff b) (M8.blen b)) (M8.bulen b) = Some pd.
  Proof.
    intros tpe es out saves packs Hnd Hrep Hwf Hrun e He.
    pose proof (Verif.C08.Props.repack_preserves_blobs sstore sdecode es out Hrep) as HF.
    (* the handed blob of e *)
    assert (exists h, In h out /\ R8.expected_of sstore sdecode e = Some h) as [h [Hh Eh]].
    { clear -HF He. induction HF as [|x y l l' Hxy HF IH]; [destruct He|].
      destruct He as [->|He]; [exists y; split; [left; reflexivity | exact Hxy]|].
      destruct (IH He) as [h [H1 H2]]. exists h. split; [right; exact H1 | exact H2]. }
    assert (exists pd, h = (R8.ce_id e, pd, R8.l_ulen (R8.ce_loc e))) as [pd ->].
    { unfold R8.expected_of in Eh. destruct (sstore (R8.ce_pack e)); [|discriminate].
      destruct (_ <=? _); [|discriminate]. destruct (sdecode _ _) as [d|]; [|discriminate]. inv Eh. eexists. reflexivity. }
    exists pd.
    (* ids of the ops are the ids of the entries: no duplicates *)
    assert (map (fun h => fst (fst h)) out = map R8.ce_id es) as Hids.
    { clear -HF. induction HF as [|x y l l' Hxy HF IH]; [reflexivity|]. cbn [map]. rewrite IH. f_equal.
      unfold R8.expected_of in Hxy. destruct (sstore (R8.ce_pack x)); [|discriminate].
      destruct (_ <=? _); [|discriminate]. destruct (sdecode _ _); [|discriminate]. inv Hxy. reflexivity. }
    destruct (Verif.C08.Props.packer_pack_wellformed enc tpe _ packs Henc Hwf Hrun) as [Hpacks _].
    destruct (dest_ops_in out saves _ _ _ Hh) as [sv Hop].
    destruct (spec_groups_covers (dest_ops out saves) [] ltac:(cbn [app]; rewrite dest_ops_ids, Hids; exact Hnd) _ Hop) as [g [Hg Hog]].
    destruct (pack_of_group_locate enc tpe g _ Hog) as [b [Hb [B1 [B2 [B3 B4]]]]].
    exists (fst (S8.pack_of_group enc tpe g)), (snd (S8.pack_of_group enc tpe g)), b.
    split; [exact Eh|]. split.
    - rewrite Hpacks. rewrite <- surjective_pairing. apply in_map. exact Hg.
    - split; [exact Hb|]. cbn [M8.op_id M8.op_ulen M8.op_data] in B1, B3, B4. split; [exact B1|]. split; [exact B2|].
      rewrite B4, B3. apply Hddec.
  Qed.
End CopyContent.

(* ------------------------------------------------------------------ restores identically (model level) *)

(* a chunk of a file anywhere in a snapshot tree is reachable *)
Lemma reach_file_chunk tid : forall d t, (depth t <= d)%nat -> forall pre p n i,
  In (p, n) (paths pre t) -> n_kind n = KFile -> In i (n_content n) -> In (Data, i) (flat_map (reach_node tid) t).
Proof.
  induction d as [|d IH]; intros t Hd pre p n i Hin Hk Hi.
  - destruct t as [|a r]; [destruct Hin|]. pose proof (depth_in (a :: r) a (or_introl eq_refl)). pose proof (depth_sub a). lia.
  - unfold paths in Hin. apply in_flat_map in Hin. destruct Hin as [x [Hx Hp]]. apply in_flat_map. exists x. split; [exact Hx|].
    destruct x as [a k m tg c s]. cbn [paths_node] in Hp. destruct Hp as [E|Hp].
    + inv E. cbn [n_kind] in Hk. subst k. cbn [reach_node n_content] in *. apply in_map. exact Hi.
    + destruct k; try (destruct Hp; fail). cbn [reach_node]. right.
      apply (IH s) with (pre := pre ++ [a]) (p := p) (n := n); try assumption.
      pose proof (depth_in t _ Hx) as H1. cbn [depth_node] in H1. unfold depth in *. lia.
Qed.

(* For plaintext lookups `src_plain`, `dst_plain` (index entry -> pack -> slice -> decode) of the two
   repositories: if blobs the destination already had are the same content (content addressing: equal
   (type, id) = equal plaintext) and every blob copy needed decodes in the destination to the source's bytes
   (copy_preserves_content), then EVERY reachable blob reads the same in the destination, so every file of
   every copied snapshot restores to the same bytes: same chunk list, same plaintext per chunk. *)
Lemma copy_restores_identically_lemma : forall tid src dst snaps (src_plain dst_plain : bt * N -> option (list N)),
  (forall b, In b (flat_map (reach tid) snaps) -> has src b = true) ->
  (forall b, In b (flat_map (reach tid) snaps) -> has dst b = true -> dst_plain b = src_plain b) ->
  (forall b, In b (needed tid src dst snaps) -> dst_plain b = src_plain b) ->
  (forall b, In b (flat_map (reach tid) snaps) -> dst_plain b = src_plain b) /\
  forall t p n, In t snaps -> In (p, n) (paths [] t) -> n_kind n = KFile ->
    map (fun i => dst_plain (Data, i)) (n_content n) = map (fun i => src_plain (Data, i)) (n_content n).
Proof.
  intros tid src dst snaps sp dp Hsrc Hold Hnew.
  assert (forall b, In b (flat_map (reach tid) snaps) -> dp b = sp b) as Hall.
  { intros b Hb. destruct (has dst b) eqn:Ed; [apply Hold; assumption|]. apply Hnew.
    unfold needed. apply filter_In. split; [apply seen_covers_reach; exact Hb|].
    change copy_skips_ids_unknown_to_source with true. cbv iota. rewrite Ed, (Hsrc b Hb). reflexivity. }
  split; [exact Hall|]. intros t p n Ht Hp Hk. apply map_ext_in. intros i Hi. apply Hall.
  apply in_flat_map. exists t. split; [exact Ht|]. unfold reach. right.
  eapply reach_file_chunk; [apply Nat.le_refl | exact Hp | exact Hk | exact Hi].
Qed.
