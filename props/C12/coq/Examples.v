(* C12 — the hypotheses of the theorems are satisfiable, and the functions do what the comments say
   on small inputs (vm_compute). *)
From Verif.Base Require Import Tactics.
From Verif.C12 Require Import Extracted Model Proofs Proofs2 Proofs3 Proofs4 Proofs5 Proofs6.
From Verif.C08 Require Model Spec Repack.
From Verif.C13 Require Extracted Model.
Local Open Scope N_scope.

Definition f (a mt tag : N) (c : list N) := Node a KFile mt tag c [].
Definition d (a mt tag : N) (s : tree) := Node a KDir mt tag [] s.
Definition l (a mt tag : N) := Node a KSymlink mt tag [] [].

(* two snapshots: name 1 is a file in the first and a directory in the second (newer); name 2 is a
   directory in both (equal mtime: the later input wins the tie, subtrees are merged) *)
Definition t1 : tree := [f 1 5 11 [3]; d 2 5 12 [f 7 6 13 [4]]].
Definition t2 : tree := [d 1 7 14 [f 9 5 15 []]; d 2 5 16 [f 7 9 17 [8]; l 8 1 18]].

Example cmp_mtime_preorder : preorder cmp_mtime.
Proof.
  unfold preorder, cmp_mtime. repeat split; intros.
  - rewrite N.compare_refl. discriminate.
  - rewrite N.compare_gt_iff in H. intro E. rewrite N.compare_gt_iff in E. lia.
  - intro E. rewrite N.compare_gt_iff in E. apply H0. rewrite N.compare_gt_iff.
    destruct (N.compare (n_mtime a) (n_mtime b)) eqn:E1; try congruence.
    + apply N.compare_eq in E1. lia.
    + rewrite N.compare_lt_iff in E1. lia.
Qed.
Example sched_id_perm : forall l, Permutation (sched_id l) l.
Proof. intro. apply Permutation_refl. Qed.
Example sched_rev_perm : forall l, Permutation (sched_rev l) l.
Proof. intro. apply Permutation_sym. apply Permutation_rev. Qed.
Example inputs_wf : Forall (fun t => wf_tree t = true) [t1; t2].
Proof. repeat constructor. Qed.

Example merge_example :
  merge cmp_mtime sched_id [t1; t2] =
  [d 1 7 14 [f 9 5 15 []]; d 2 5 16 [f 7 9 17 [8]; l 8 1 18]].
Proof. vm_compute. reflexivity. Qed.
(* with the inputs swapped the tie on name 2 goes to the other directory node; the file/dir clash on
   name 1 is still decided by the mtime *)
Example merge_example_swapped :
  merge cmp_mtime sched_id [t2; t1] =
  [d 1 7 14 [f 9 5 15 []]; d 2 5 12 [f 7 9 17 [8]; l 8 1 18]].
Proof. vm_compute. reflexivity. Qed.
(* a file that wins over a directory hides everything below the directory *)
Example merge_file_wins :
  merge cmp_mtime sched_id [[f 1 9 11 [3]]; [d 1 7 14 [f 9 5 15 []]]] = [f 1 9 11 [3]] /\
  lookup (merge cmp_mtime sched_id [[f 1 9 11 [3]]; [d 1 7 14 [f 9 5 15 []]]]) [1; 9] = None /\
  cands [[f 1 9 11 [3]]; [d 1 7 14 [f 9 5 15 []]]] [1; 9] <> [].
Proof. vm_compute. repeat split. discriminate. Qed.

(* rewrite: exclude path [2;7] and everything named 9 *)
Definition ex_excl (p : list N) (_ : bool) : bool :=
  list_eqb N.eqb p [2; 7] || match rev p with 9 :: _ => true | _ => false end.
Definition ex_modn (n : node) : node * bool := (n, false).
Example rewrite_example :
  result_tree t2 (rewrite_tree ex_excl ex_modn [] t2) = [d 1 7 14 []; d 2 5 16 [l 8 1 18]] /\
  map fst (kept ex_excl [] t2) = [[1]; [2]; [2; 8]].
Proof. vm_compute. split; reflexivity. Qed.
(* a glob that matches everything, the empty root path included (`!*`): the root itself is not excludable,
   its entries go one by one, the snapshot gets the empty tree (before the fix: Removed, snapshot unchanged) *)
Example rewrite_example_everything_excluded :
  rewrite_tree (fun _ _ => true) ex_modn [] t2 = Changed [].
Proof. vm_compute. reflexivity. Qed.
Example rewrite_example_nothing_excluded :
  rewrite_tree (fun _ _ => false) ex_modn [] t2 = Unchanged.
Proof. vm_compute. reflexivity. Qed.
Example ex_modn_frame : (forall n, n_name (fst (ex_modn n)) = n_name n /\ n_kind (fst (ex_modn n)) = n_kind n /\
                                   n_content (fst (ex_modn n)) = n_content n /\ n_sub (fst (ex_modn n)) = n_sub n) /\
                        (forall n, snd (ex_modn n) = false -> fst (ex_modn n) = n).
Proof. split; intros; cbn; auto. Qed.

(* repair: chunk 4 is lost; the subtree of directory 1 is unreadable *)
Definition ex_has (i : N) : bool := negb (i =? 4).
Definition ex_mark (a : N) : N := a + 100.
Definition ex_resize (t : N) (_ : list N) : N := t.
Definition ex_readable (t : tree) : bool := negb (tree_eqb t [f 9 5 15 []]).
Definition t3 : tree := [d 1 7 14 [f 9 5 15 []]; d 2 5 12 [f 7 6 13 [4; 8]; f 8 6 19 [8]]].
Example repair_example :
  result_tree t3 (repair_tree ex_has ex_mark ex_resize ex_readable t3) =
  [d 1 7 14 []; d 2 5 12 [f 8 6 19 [8]; f 107 6 13 [8]]].
Proof. vm_compute. reflexivity. Qed.
(* the marked file 7 -> 107 moved behind its sibling 8: the changed tree is sorted again.  Without the sort
   (before fix "TreeModifier keeps a changed tree sorted by name") the tree was [107; 8], and merging such a
   tree with itself lists names twice (merge_loop_unsorted_duplicates) *)
Example repair_intact_example :
  intact (fun _ => true) (fun _ => true) t3 = true /\
  repair_tree (fun _ => true) ex_mark ex_resize (fun _ => true) t3 = Unchanged.
Proof. vm_compute. split; reflexivity. Qed.

(* copy: the empty tree's id collides with a data blob id (both 0 under this toy id function) *)
Definition ex_tid (t : tree) : N := N.of_nat (length t).
Definition t4 : tree := [f 1 5 11 [0; 3]; d 2 5 12 []].
Example copy_example :
  reach ex_tid t4 = [(Tree, 2); (Data, 0); (Data, 3); (Tree, 0)] /\
  needed ex_tid (reach ex_tid t4) [(Data, 0)] [t4] = [(Tree, 2); (Data, 3); (Tree, 0)] /\
  copy_order (needed ex_tid (reach ex_tid t4) [(Data, 0)] [t4]) = [(Data, 3); (Tree, 2); (Tree, 0)].
Proof. vm_compute. repeat split. Qed.

(* The loop as written (merge_loop, exact BinaryHeap) on inputs that are NOT sorted in the compared order
   — the situation of backup-written trees before fix 54f57aa when names need escaping (here: rank 2 =
   "x\ty" escaped, rank 1 = "xAy"; the tree is stored in raw order [2; 1]): merging the tree with itself
   lists every name twice.  Replayed on the real code (corpus.txt line 1 before the fix; M cases with
   unsorted inputs in every run). *)
Definition t_unsorted : tree := [f 2 5 11 []; f 1 5 12 []].
Example merge_loop_unsorted_duplicates :
  merge_loop cmp_mtime [t_unsorted; t_unsorted] = [f 2 5 11 []; f 1 5 12 []; f 2 5 11 []; f 1 5 12 []].
Proof. vm_compute. reflexivity. Qed.
(* on sorted inputs the loop and the abstract k-way merge agree (here; tested on every generated case) *)
Example merge_loop_sorted_agrees :
  merge_loop cmp_mtime [t1; t2] = merge cmp_mtime sched_id [t1; t2] /\
  merge_loop cmp_mtime [t2; t1] = merge cmp_mtime sched_id [t2; t1].
Proof. vm_compute. split; reflexivity. Qed.

(* copy_closed: a complete run of the C13 pipeline for the two blobs copy needs here (one data blob, the
   root tree): data through its packer, then the tree through the other one, both ending indexed *)
Module X13 := Verif.C13.Model.
Definition t5 : tree := [f 1 5 11 [3]].
Definition ex_run : list X13.ev :=
  [X13.Send X13.Data 3; X13.Adv X13.Data 0; X13.Adv X13.Data 0; X13.Adv X13.Data 0; X13.Adv X13.Data 0; X13.Adv X13.Data 0;
   X13.Flush X13.Data; X13.WriteP X13.Data; X13.IndexP X13.Data;
   X13.Send X13.Tree 1; X13.Adv X13.Tree 0; X13.Adv X13.Tree 0; X13.Adv X13.Tree 0; X13.Adv X13.Tree 0; X13.Adv X13.Tree 0;
   X13.Flush X13.Tree; X13.WriteP X13.Tree; X13.IndexP X13.Tree].
Example copy_closed_hypotheses :
  needed ex_tid (reach ex_tid t5) [] [t5] = [(Tree, 1); (Data, 3)] /\
  exists s, X13.run X13.init ex_run = Some s /\ X13.final s = true /\
            (forall b, In b (needed ex_tid (reach ex_tid t5) [] [t5]) -> In (conv b) (X13.requested s)) /\
            indexed_blobs s = [(Data, 3); (Tree, 1)].
Proof.
  split; [vm_compute; reflexivity|]. eexists. split; [vm_compute; reflexivity|]. split; [vm_compute; reflexivity|].
  split; [|vm_compute; reflexivity]. intros b Hb. vm_compute in Hb. vm_compute. destruct Hb as [<-|[<-|[]]]; auto.
Qed.

(* merge_loop_paths / merge_loop_sorted: the loop over the simple priority queue on the example inputs *)
Example merge_loop_simple_pq :
  merge_loop_gen cmp_mtime (fun h x => x :: h) Proofs4.pop_min [t1; t2] = merge cmp_mtime sched_id [t1; t2].
Proof. vm_compute. reflexivity. Qed.

(* a destination holding the root tree of the snapshot but not the data below it (partial closure):
   the walk starts from every snapshot root, so the data blob is still found and requested *)
Example copy_partial_closure :
  copy_walk_from_all_snapshot_trees = true /\
  needed ex_tid (reach ex_tid t5) [(Tree, 1)] [t5] = [(Data, 3)].
Proof. vm_compute. split; reflexivity. Qed.

(* the BinaryHeap transcription on a heap-ordered vector: push three, pop the least *)
Definition hn (a : N) : hnode := (f a 1 1 [], []).
Example heap_example :
  heap_ok (heap_push (heap_push (heap_push [] (hn 5)) (hn 3)) (hn 4)) /\
  option_map (fun r => n_name (fst (fst r))) (heap_pop (heap_push (heap_push (heap_push [] (hn 5)) (hn 3)) (hn 4))) = Some 3.
Proof.
  split; [|vm_compute; reflexivity]. repeat apply heap_push_ok. apply heap_ok_nil.
Qed.

(* copy_preserves_content: one blob copied out of a two-blob source pack (decoders = identity, destination
   blob encoding = a 1-byte frame, header encryption = 16 + 16 bytes) *)
Module E8 := Verif.C08.Model.
Module ER := Verif.C08.Repack.
Example copy_preserves_content_hypotheses :
  let p1 := repeat 1 32 in
  let sstore := fun p => if E8.bytes_eqb p p1 then Some [10; 11; 12; 13; 14] else None in
  let es := [ER.mkce p1 (ER.mkloc 2 3 None) (repeat 8 32)] in
  let denc := fun x => 99 :: x in
  let enc := fun x => repeat 0 16 ++ x ++ repeat 0 16 in
  exists out packs,
    NoDup (map ER.ce_id es) /\
    ER.repack true sstore (fun d _ => Some d) es = E8.Ok out /\
    Forall Verif.C08.Spec.wf_op (Proofs6.dest_ops denc (fun _ => None) out [true]) /\
    E8.packer_run enc E8.Data (Proofs6.dest_ops denc (fun _ => None) out [true]) = E8.Ok packs /\
    length packs = 1%nat.
Proof.
  cbv zeta. eexists. eexists. split; [repeat constructor; intros []|].
  split; [vm_compute; reflexivity|]. split; [repeat constructor; cbn; lia|].
  split; [vm_compute; reflexivity | reflexivity].
Qed.

(* copy_closed_relative: a source that lost data blob 3: only the tree is requested *)
Example copy_damaged_source :
  needed ex_tid [(Tree, 1)] [] [t5] = [(Tree, 1)].
Proof. vm_compute. reflexivity. Qed.
