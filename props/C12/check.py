"""C12 — copy, merge, rewrite and repair preserve all content they keep.
Stages: Coq theorems (merge_paths & co. over the executable model); correspondence of the extracted
merge with the crate-private tree::merge_trees/merge_nodes (hook, in-memory saver) on generated trees with
clashing names/types, ties and nested clashes; end-to-end oracle = the property itself: copy between
repositories (different key/compression/pack sizes, overlapping snapshot sets, blobs already present,
data/tree id collisions), merge_snapshots of real backups against model + declarative oracle, rewrite with
exclude globs (matcher = oracle input), repair_snapshots on intact and damaged repositories."""
import os, sys, json
import vlib
from vlib import ROOT, REPO, sh2, log

KNOWN_ESC = "merge-escaped-name-order"


def run_lines(exe, lines, timeout=1500, env=None, mode=None):
    path = os.path.join(vlib.BUILD, "C12", "in_%d.txt" % os.getpid())
    open(path, "w").write("\n".join(lines) + "\n")
    rc, out, err = sh2([exe, path] + ([mode] if mode else []), timeout=timeout, env=env)
    os.remove(path)
    res = out.splitlines()
    if rc != 0 or len(res) != len(lines):
        raise RuntimeError("%s failed rc=%s (%d of %d lines)\n%s" % (exe, rc, len(res), len(lines), err[-2000:]))
    return res


# ---------------------------------------------------------------- trees as python values
# node = (name, kind, mtime, tag, content tuple, sub list)   kind: 0 file 1 dir 2 symlink 3 other

def parse_tree(toks, i):
    n = int(toks[i]); i += 1
    out = []
    for _ in range(n):
        name, kind, mtime, tag, nc = toks[i], int(toks[i + 1]), int(toks[i + 2]), int(toks[i + 3]), int(toks[i + 4])
        i += 5
        content = tuple(int(x) for x in toks[i:i + nc]); i += nc
        sub = []
        if kind == 1:
            sub, i = parse_tree(toks, i)
        out.append((name, kind, mtime, tag, content, sub))
    return out, i


def fmt_tree(t, namef=str):
    s = [str(len(t))]
    for (name, kind, mtime, tag, content, sub) in t:
        s += [namef(name), str(kind), str(mtime), str(tag), str(len(content))] + [str(c) for c in content]
        if kind == 1:
            s.append(fmt_tree(sub, namef))
    return " ".join(s)


def map_names(t, f):
    return [(f(n), k, m, tg, c, map_names(s, f) if k == 1 else []) for (n, k, m, tg, c, s) in t]


def all_names(t, acc):
    for (n, k, m, tg, c, s) in t:
        acc.add(n)
        if k == 1:
            all_names(s, acc)
    return acc


def py_cmp(mode, a, b):
    """the comparison handed to merge (same four as harness/src/bin/c12.rs and Model.v)"""
    def c(x, y): return (x > y) - (x < y)
    if mode == 0: return c(a[2], b[2])
    if mode == 1: return c(a[3], b[3])
    if mode == 2: return 0
    return c((a[1] == 1, a[2]), (b[1] == 1, b[2]))


def oracle_merge(mode, ts, r, st):
    """the property: union of names; per name a cmp-greatest node; a directory winner carries the merge of
    ALL same-named directories.  Returns None if ok else a text; st collects statistics."""
    names = set()
    for t in ts:
        ns = [n[0] for n in t]
        if len(set(ns)) != len(ns):
            return "precondition: duplicate names in one input tree"
        names.update(ns)
    rn = [n[0] for n in r]
    if rn != sorted(names):
        return "result names %s are not the sorted union %s" % (rn[:8], sorted(names)[:8])
    for n in r:
        g = [x for t in ts for x in t if x[0] == n[0]]
        mx = [w for w in g if all(py_cmp(mode, y, w) <= 0 for y in g)]
        if len(g) > 1: st["clash"] = st.get("clash", 0) + 1
        if len(set(x[1] for x in g)) > 1: st["type_clash"] = st.get("type_clash", 0) + 1
        if len(set((w[1], w[2], w[3], w[4]) for w in mx)) > 1: st["tie"] = st.get("tie", 0) + 1
        ok = False
        why = "node %s is not a greatest candidate" % (n[0],)
        for w in mx:
            if (w[1], w[2], w[3], w[4]) != (n[1], n[2], n[3], n[4]):
                continue
            if w[1] != 1:
                ok = True; break
            e = oracle_merge(mode, [x[5] for x in g if x[1] == 1], n[5], st)
            if e is None:
                ok = True; break
            why = e
        if not ok:
            return why
    return None


def needs_escape(name):
    """does escape_filename change this raw name? (then the escaped order may differ from the raw order)"""
    try:
        name.decode("utf-8")
    except UnicodeDecodeError:
        return True
    return any(b in b'\\"\x07\x08\x0c\n\r\t\x0b' for b in name)


def any_escape(t):
    return any(needs_escape(n[0]) or (n[1] == 1 and any_escape(n[5])) for n in t)


def subtree_at(t, comps):
    for n in t:
        if n[0] == comps[0]:
            return n[5] if len(comps) == 1 else subtree_at(n[5], comps[1:])
    return None


def same_tree(a, b, loose):
    """equality of trees; `loose`: the metadata tag (hash of the whole node) is not compared on nodes whose
    content list differs from... (repair rewrites size and content of marked files)"""
    if len(a) != len(b): return False
    for x, y in zip(a, b):
        if (x[0], x[1], x[2], x[4]) != (y[0], y[1], y[2], y[4]): return False
        if x[3] != y[3] and not (loose and x[0] in loose): return False
        if x[1] == 1 and not same_tree(x[5], y[5], loose): return False
    return True


def sorted_rec(t):
    ns = [n[0] for n in t]
    return all(a < b for a, b in zip(ns, ns[1:])) and all(sorted_rec(n[5]) for n in t if n[1] == 1)


# ---------------------------------------------------------------- generator for mode M

NAMES = [b"a", b"a0", b"a-", b"b", b"B", b"c", b"c.txt", b"d", b"dir", b"e", b"zz", b"Z", b"0", b"_x", b"k1", b"k10", b"k2",
         # names whose order changes under escaping (tab -> \\t, 0xff -> \\xff, backslash, quote)
         b"x\ty", b"xAy", b"q\xffz", b"qzz", b"x\\y", b"x]y", b"x\"y", b"x#y"]


def gen_tree(rng, depth, pool, tagc, mt):
    t = []
    for name in sorted(rng.sample(pool, rng.randint(0, min(len(pool), 5)))):
        r = rng.random()
        kind = 1 if (r < 0.35 and depth > 0) else 0 if r < 0.75 else 2 if r < 0.9 else 3
        mtime = rng.choice(mt)
        tagc[0] += 1
        tag = tagc[0] if rng.random() < 0.85 else rng.randint(1, 3)
        content = tuple(rng.randint(1, 6) for _ in range(rng.randint(0, 3))) if kind == 0 else ()
        sub = gen_tree(rng, depth - 1, pool, tagc, mt) if kind == 1 else []
        t.append((name, kind, mtime, tag, content, sub))
    return t


def shuffle_rec(rng, t, ctr):
    """unsorted variant of a tree: every level shuffled, all mtimes distinct (no ties)"""
    t = list(t); rng.shuffle(t)
    out = []
    for (n, k, m, tg, c, s) in t:
        ctr[0] += 1
        out.append((n, k, ctr[0], tg, c, shuffle_rec(rng, s, ctr) if k == 1 else []))
    return out


def gen_m_case(rng):
    if rng.random() < 0.06:
        # one input has the SAME name twice at a level (what a repair marker colliding with a sibling leaves behind):
        # outside the premise of the theorems; the literal loop model must still reproduce the implementation
        mode, ts, _ = gen_m_case(rng)
        cand = [t for t in ts if t]
        if cand:
            t = rng.choice(cand); i = rng.randrange(len(t)); n = t[i]
            t.insert(i + 1, (n[0], rng.choice([0, 2]), rng.choice([4, 5, 6]), 900 + rng.randint(0, 50), (), []))
        return mode, ts, False
    if rng.random() < 0.12:
        # inputs NOT sorted in the compared order (what backup-written trees were for the unfixed merge):
        # only the literal loop model is compared with the implementation here
        mode, ts, _ = gen_m_case(rng)
        ctr = [100]
        return 0, [shuffle_rec(rng, t, ctr) for t in ts], False
    k = rng.choice([0, 1, 1, 2, 2, 2, 3, 3, 4, 6])
    pool = rng.sample(NAMES, rng.choice([2, 3, 4, 6]))
    if rng.random() < 0.3:      # a pair whose order flips under escaping
        pool = sorted(set(pool + rng.choice([[b"x\ty", b"xAy"], [b"q\xffz", b"qzz"], [b'x"y', b"x#y"]])))
    mt = rng.choice([[5], [5, 6], [0, 5, 6, 7], [1, 2, 3, 4, 5, 6, 7, 8, 9]])
    tagc = [10]
    ts = [gen_tree(rng, rng.choice([0, 1, 2, 3]), pool, tagc, mt) for _ in range(k)]
    if k >= 2 and rng.random() < 0.2:
        ts[1] = ts[0]                      # merging a tree with itself
    return rng.choice([0, 0, 0, 1, 2, 3]), ts, True


def kv(line):
    d = {}
    for tok in line.split():
        if "=" in tok:
            a, b = tok.split("=", 1); d[a] = b
    return d


def run(ctx):
    rng, cov = ctx.rng, ctx.coverage
    meta13, err13 = vlib.regen_extracted("C13")       # Copy proofs import the C13 pipeline (typed indexer fact)
    meta12, err12 = vlib.regen_extracted("C12")       # copy's walk start, rewrite's root guard, the modifier's sort
    meta08, err08 = vlib.regen_extracted("C08")       # copy_preserves_content imports the C08 repacker/packer development
    r = vlib.proof_stage(ctx)
    if err13:
        r["ok"] = False; r["failures"].append("fact extraction (C13: Indexer.indexed element type) failed: " + err13)
    if err08:
        r["ok"] = False; r["failures"].append("fact extraction (C08: pack header constants) failed: " + err08)
    if err12:
        r["ok"] = False; r["failures"].append("fact extraction (C12: copy's walk start / rewrite root guard / modifier sort) failed: " + err12)
    cov["source_facts"] = {"C13": meta13, "C12": meta12, "C08": meta08}
    cov["trusted_base"] += ["std::collections::BinaryHeap pops a greatest element (in the abstract model its order among equally named nodes is the parameter `sched`, theorems hold for every permutation; the literal model re-implements std's sift_up / sift_down_to_bottom and is compared exactly)",
                            "the `ignore` crate's override matcher (oracle input for rewrite, not modelled)",
                            "props/C12/extract.py (starting set of copy's tree walk in copy.rs, root guard of Rewriter::rewrite_tree, sort of a changed tree in TreeModifier::modify_tree)",
                            "props/C08/extract.py and the C08 development (repacker, packer) imported by copy_preserves_content",
                            "props/C13/extract.py (Indexer.indexed element type)"]
    ctx.assumptions += [
        "tree ids are collision-free hashes of the serialised tree: equality of ids is modelled as equality of tree values (node_eqb)",
        "names are ordered as the raw (unescaped) file names, bytewise - the order trees are stored in and, since fix 54f57aa, the order merge compares; input trees of merge are strictly sorted in that order at every level (wf_tree), checked on every case; unsorted inputs are only run through the literal loop model",
        "the loop as written (merge_loop_gen) is proved correct for every priority queue meeting the specification, and the BinaryHeap transcription (heap_push/heap_pop) is proved to meet it on heap-ordered vectors (heap_meets_pq_spec); that the transcription IS std's algorithm is validated by exact comparison with the implementation on every case, ties included",
        "copy_preserves_content: AEAD/zstd of both repositories enter as `sdecode` (any function) and `ddec (denc x) = Some x`; header encryption adds 32 bytes; needed entries have distinct ids (BTreeSet in copy.rs); blobs the destination already had are the same content as the source's (content addressing, hypothesis of copy_restores_identically)",
        "cmp is a total preorder (reflexive, transitive, Gt antisymmetric): holds for last_modified_node and the other comparisons used",
        "TreeModifier visitor caches (changed/unchanged maps keyed by tree id resp. (path, id)) are memoisation of a function of the key and are not modelled",
        "copy: the blobs reach the destination through the packer pipeline of C13 (any interleaving); source repository closed (every reachable blob indexed in the source)",
        "e2e: chunk/pack contents are compared through ls + dump (sha256) and check(read_data); one real restore per copy case when variant bit 16 is set"]
    try:
        model = vlib.build_model("C12")
    except RuntimeError as e:
        model = None
        if r["ok"]:
            r["ok"] = False; r["failures"].append("extracted model no longer builds: " + str(e)[-400:])
    impl = vlib.build_harness("c12")
    th = ctx.thorough()
    wide = 1 if r["ok"] else 3
    viol, mism, samples = [], [], []
    hist = {}
    nontriv = set()

    # ------------------------------------------------------------ merge: model vs tree::merge_trees
    nm = (12000 if th else 1500) * wide
    mcases = []
    corpus = os.path.join(ctx.pdir, "corpus.txt")
    if os.path.exists(corpus):
        for ln in open(corpus):
            ln = ln.split("#")[0].strip()
            if ln.startswith("M "):
                toks = ln.split()
                mode, k = int(toks[1]), int(toks[2]); i = 3; ts = []
                for _ in range(k):
                    t, i = parse_tree(toks, i); ts.append(map_names(t, lambda h: bytes.fromhex(h)))
                mcases.append((mode, ts, all(sorted_rec(t) for t in ts)))
    while len(mcases) < nm:
        mcases.append(gen_m_case(rng))
    hexn = lambda s: s.hex()
    ilines = ["M %d %d %s" % (mode, len(ts), " ".join(fmt_tree(t, hexn) for t in ts)) for mode, ts, _ in mcases]
    iout = run_lines(impl, ilines)
    mlines, ranks = [], []
    for mode, ts, _ in mcases:
        ns = set()
        for t in ts: all_names(t, ns)
        order = sorted(ns)
        rk = {n: i for i, n in enumerate(order)}
        ranks.append(order)
        for s in (0, 1, 2):
            mlines.append("%d %d %d %s" % (mode, s, len(ts), " ".join(fmt_tree(t, lambda n: str(rk[n])) for t in ts)))
    mout = run_lines(model, mlines) if model else None
    NS = 3
    def model_tree(ci, s_):
        mo = mout[NS * ci + s_]
        if not mo.startswith("ok"): return None
        return map_names(parse_tree(mo.split()[2:], 0)[0], lambda i: ranks[ci][int(i)])
    for ci, ((mode, ts, is_sorted), io) in enumerate(zip(mcases, iout)):
        st = {}
        if not is_sorted:
            # outside the premise of the theorems: only the literal loop model vs the implementation
            hist["M_unsorted_inputs"] = hist.get("M_unsorted_inputs", 0) + 1
            if mout:
                rt = map_names(parse_tree(io.split()[1:], 0)[0], lambda h: bytes.fromhex(h) if h != "-" else b"") if io.startswith("ok") else None
                lp = model_tree(ci, 2)
                if rt is None or lp != rt:
                    mism.append((ilines[ci], mout[NS * ci + 2], "literal loop model differs from tree::merge_trees on unsorted inputs; impl: " + io[:300]))
                elif len([n[0] for n in rt]) != len(set(n[0] for n in rt)):
                    hist["M_unsorted_duplicates_reproduced"] = hist.get("M_unsorted_duplicates_reproduced", 0) + 1
            continue
        if not io.startswith("ok"):
            viol.append(("tree::merge_trees fails on well-formed trees: " + io.split()[0], ilines[ci], io, None)); continue
        rt, _ = parse_tree(io.split()[1:], 0)
        rt = map_names(rt, lambda h: bytes.fromhex(h) if h != "-" else b"")
        e = oracle_merge(mode, ts, rt, st)
        for k_, v in st.items(): hist["M_" + k_] = hist.get("M_" + k_, 0) + v
        hist["M_k=%d" % len(ts)] = hist.get("M_k=%d" % len(ts), 0) + 1
        if st.get("clash"): nontriv.add(ilines[ci])
        if e is not None:
            viol.append(("merged tree is not the union of the inputs with conflicts resolved by the ordering", ilines[ci], io + " :: " + e,
                         KNOWN_ESC if any(any_escape(t) for t in ts) else None)); continue
        if mout:
            res = []
            for s in (0, 1, 2):
                mo = mout[NS * ci + s]
                res.append(model_tree(ci, s) if mo.startswith("ok wf=1") else None)
            if res[0] is None:
                mism.append((ilines[ci], mout[NS * ci], "generated case is not well-formed for the model")); continue
            for s in (0, 1, 2):
                e2 = oracle_merge(mode, ts, res[s], {})
                if e2 is not None:
                    mism.append((ilines[ci], mout[NS * ci + s], "extracted model violates the declarative oracle: " + e2))
            if rt != res[0] and rt != res[1] and not st.get("tie"):
                mism.append((ilines[ci], mout[NS * ci], "impl: " + io))
            # tested refinement: the loop as written = the abstract k-way merge on sorted inputs
            if res[2] != res[0] and not st.get("tie"):
                mism.append((ilines[ci], mout[NS * ci + 2], "literal loop model differs from the abstract merge on a sorted tie-free case"))
            # the literal loop with std's BinaryHeap algorithm must reproduce the implementation exactly, ties included
            if rt == res[2]: hist["M_equal_loop_model"] = hist.get("M_equal_loop_model", 0) + 1
            else: mism.append((ilines[ci], mout[NS * ci + 2], "literal loop model (exact BinaryHeap) differs from tree::merge_trees; impl: " + io[:300]))
            if rt == res[0]: hist["M_equal_model_sched_id"] = hist.get("M_equal_model_sched_id", 0) + 1
            elif rt == res[1]: hist["M_equal_model_sched_rev"] = hist.get("M_equal_model_sched_rev", 0) + 1
            else: hist["M_tie_other_choice"] = hist.get("M_tie_other_choice", 0) + 1
        if len(samples) < 2 and st.get("type_clash") and len(ilines[ci]) < 400:
            samples.append({"case": ilines[ci], "impl": io, "model": mout[NS * ci] if mout else None})

    # ------------------------------------------------------------ e2e
    def seeds(n): return [rng.randrange(1, 2 ** 40) for _ in range(n)]
    nC, nG, nW, nR = ((100, 300, 320, 240) if th else (14, 40, 48, 32))
    nC, nG, nW, nR = nC * wide, nG * wide, nW * wide, nR * wide
    elines = []
    for i, s in enumerate(seeds(nC)):
        # bit 32: the destination loses a pack that holds no root tree (bit 64: a tree pack) + repair_index, then
        # everything is copied again (destination holds a PARTIAL closure incl. the root trees)
        fixed = [1 | 2 | 4 | 16, 32 | 2 | 4, 32 | 64 | 2 | 1, 1 | 4 | 8, 32 | 8 | 16, 32 | 64 | 2 | 8, 2 | 4 | 8 | 16, 32, 1 | 8, 32 | 64 | 4]
        v = fixed[i] if i < len(fixed) else rng.randrange(128)
        elines.append("C %d %d" % (s, v))
    for i, s in enumerate(seeds(nG)):
        elines.append("G %d %d %d" % (s, rng.choice([2, 2, 3, 4]), 1 if i % 5 == 4 else 0))
    for i, s in enumerate(seeds(nW)):
        # bit 4: one tree blob at several paths (directories of hard links) + anchored excludes below one occurrence
        # bit 8: a glob that also matches the empty root path (`!*`, `!**`, `!/**`, ...)
        elines.append("W %d %d" % (s, [0, 4, 2, 6, 8, 1, 4, 2, 0, 10][i % 10]))
    for i, s in enumerate(seeds(nR)):
        # bit 8: a file whose marked name sorts after its siblings (`k` -> `k.repaired` > `k+`, `k-1`) loses its data
        elines.append("R %d %d" % (s, (i % 8) if i % 4 else (8 | (i % 8 & 2))))
    # S: copy from a source that lost a data pack; F: the k-th pack upload of copy/merge/rewrite/repair fails
    nS, nFk = ((40, 8) if th else (4, 3))
    if not r["ok"]:
        nS, nFk = nS * 2, 8          # an obligation is broken: sweep every pack write of every command
    for s_ in seeds(nS):
        elines.append("S %d" % s_)
    fseeds = seeds(3 if (th or not r["ok"]) else 1)
    for s_ in fseeds:
        for op_ in range(4):
            for k_ in range(nFk):
                elines.append("F %d %d %d" % (s_, op_, k_))
    if ctx.replay:
        rp = json.load(open(ctx.replay))
        c = rp["witness"].get("case", "")
        elines = [c] if c and c[0] in "CGWRSF" else []
    eout = []
    per = 20
    for i in range(0, len(elines), per):
        eout += run_lines(impl, elines[i:i + per], timeout=1200)
    glines = []
    wr_jobs = []          # (mode, case, model line, expected, name order, loose names)
    def tie_modifier(m, ln, segs, jobs):
        key = lambda h: bytes.fromhex(h) if h != "-" else b""
        O, N, U, L, X = [], {}, {}, [], []
        for sg in segs:
            tk = sg.split()
            if tk[0] == "O": O.append(map_names(parse_tree(tk[1:], 0)[0], key))
            elif tk[0] == "N" and m == "W": N[0] = map_names(parse_tree(tk[1:], 0)[0], key)
            elif tk[0] == "N": N[int(tk[1])] = map_names(parse_tree(tk[2:], 0)[0], key)
            elif tk[0] == "U": U[int(tk[1])] = tk[3:3 + int(tk[2])]
            elif tk[0] == "L": L = tk[2:2 + int(tk[1])]
            elif tk[0] == "X": X = tk[2:2 + int(tk[1])]
        ns = set()
        for t in O + list(N.values()): all_names(t, ns)
        marked = {}
        if m == "R":
            fl = set()
            def files(t):
                for n in t:
                    if n[1] == 0: fl.add(n[0])
                    if n[1] == 1: files(n[5])
            for t in O: files(t)
            marked = {n: n + b".repaired" for n in fl}
            ns.update(marked.values())
        order = sorted(ns); rk = {n: i for i, n in enumerate(order)}
        rkf = lambda n: str(rk[n])
        if m == "W":
            xs = []
            for p_ in X:
                comps = [rk[bytes.fromhex(c)] for c in p_.split("/")]
                xs.append("%d %s" % (len(comps), " ".join(map(str, comps))))
            jobs.append(("rw", ln, "%d %s %s" % (len(xs), " ".join(xs), fmt_tree(O[0], rkf)), (O[0], N.get(0)), order, None))
        else:
            unread = []
            for oi, ps in U.items():
                for p_ in ps:
                    v = O[oi] if p_ == "-" else subtree_at(O[oi], [bytes.fromhex(c) for c in p_.split("/")])
                    if v is not None and v not in unread: unread.append(v)
            head = "%d %s %d %s %d %s" % (len(L), " ".join(L), len(unread), " ".join(fmt_tree(v, rkf) for v in unread),
                                          len(marked), " ".join("%d %d" % (rk[a], rk[b]) for a, b in sorted(marked.items())))
            for oi, t in enumerate(O):
                jobs.append(("rp", ln, head + " " + fmt_tree(t, rkf), (t, N.get(oi)), order, set(marked.values())))
    cp_jobs = []          # (case, run, model line, set of (type, id) the run added to the destination index)
    def tie_copy(ln, segs, jobs):
        key = lambda h: bytes.fromhex(h) if h != "-" else b""
        T, I, Q, B, D, S = [], {}, {}, {}, {}, {}
        for sg in segs:
            tk = sg.split()
            if tk[0] == "T": T.append(map_names(parse_tree(tk[1:], 0)[0], key))
            elif tk[0] == "I":
                n = int(tk[3]); I[int(tk[1])] = (int(tk[2]), {tk[4 + 2 * j]: int(tk[5 + 2 * j]) for j in range(n)})
            elif tk[0] == "Q": Q[int(tk[1])] = [int(x) for x in tk[3:3 + int(tk[2])]]
            elif tk[0] in "BDS":
                n = int(tk[2]); st_ = set((int(tk[3 + 2 * j]), int(tk[4 + 2 * j])) for j in range(n))
                {"B": B, "D": D, "S": S}[tk[0]][int(tk[1])] = st_
        ns = set()
        for t in T: all_names(t, ns)
        order = sorted(ns); rk = {n: i for i, n in enumerate(order)}
        rkf = lambda n: str(rk[n])
        table, src = [], set()
        def walk(t, tid_, path, dirs):
            table.append((tid_, t)); src.add((1, tid_))
            for n in t:
                if n[1] == 0:
                    for c in n[4]: src.add((0, c))
                if n[1] == 1:
                    p_ = path + [n[0].hex()]
                    walk(n[5], dirs["/".join(p_)], p_, dirs)
        for i, t in enumerate(T):
            walk(t, I[i][0], [], I[i][1])
        tabs = " ".join("%d %s" % (i_, fmt_tree(t_, rkf)) for i_, t_ in table)
        for k in sorted(Q):
            srck = S.get(k, src)          # S: what the (damaged) source index really knows; else the source is closed
            srcs = " ".join("%d %d" % x for x in sorted(srck))
            snaps_ = " ".join(fmt_tree(T[i], rkf) for i in Q[k])
            dsts = " ".join("%d %d" % x for x in sorted(B[k]))
            jobs.append((ln, k, "%d %s %d %s %d %s %d %s" % (len(table), tabs, len(Q[k]), snaps_, len(srck), srcs, len(B[k]), dsts), D[k]))
    for ln, out in zip(elines, eout):
        m = ln[0]
        hist["e2e_" + m] = hist.get("e2e_" + m, 0) + 1
        if out.startswith("err") or out.startswith("panic"):
            viol.append(({"C": "copy", "G": "merge_snapshots", "W": "rewrite", "R": "repair", "S": "copy from a damaged source", "F": "fault-injection"}[m] + " run fails (error or panic)", ln, out[:600], None)); continue
        if m == "G":
            segs = [x.strip() for x in out.split("|")]
            d = kv(segs[0]); ts = []; res = None
            for sg in segs[1:]:
                tk = sg.split()
                if tk[0] == "T": ts.append(parse_tree(tk[1:], 0)[0])
                elif tk[0] == "R": res = parse_tree(tk[1:], 0)[0]
                else: d.update(kv(sg))
            key = lambda h: bytes.fromhex(h) if h != "-" else b""
            ts = [map_names(t, key) for t in ts]; res = map_names(res, key)
            st = {}
            e = oracle_merge(0, ts, res, st)
            wf = all(sorted_rec(t) for t in ts)
            for k_, v in st.items(): hist["G_" + k_] = hist.get("G_" + k_, 0) + v
            hist["G_inputs_sorted_by_raw_name" if wf else "G_inputs_NOT_sorted_by_raw_name"] = hist.get("G_inputs_sorted_by_raw_name" if wf else "G_inputs_NOT_sorted_by_raw_name", 0) + 1
            if st.get("clash"): nontriv.add(ln)
            if d.get("check") != "1" or d.get("dump_failures") != "0":
                viol.append(("merged snapshot is not intact (check / dump)", ln, segs[0] + " " + segs[-1], None))
            if e is not None:
                viol.append(("merge_snapshots: result is not the union of the paths with conflicts resolved by last_modified_node", ln, e,
                             KNOWN_ESC if any(any_escape(t) for t in ts) else None))
            elif wf and model:
                ns = set()
                for t in ts + [res]: all_names(t, ns)
                order = sorted(ns); rk = {n: i for i, n in enumerate(order)}
                body = "%d %s" % (len(ts), " ".join(fmt_tree(t, lambda n: str(rk[n])) for t in ts))
                glines.append((ln, order, ts, res, st, "0 0 " + body, "0 2 " + body))
        else:
            segs = [x.strip() for x in out.split("|")]
            out = segs[0]
            if m in "WR" and len(segs) > 1:
                tie_modifier(m, ln, segs[1:], wr_jobs)
            if m in "CS" and len(segs) > 1:
                tie_copy(ln, segs[1:], cp_jobs)
            d = kv(out)
            for k_ in ("coll", "coll_tree", "prepop", "excluded", "marked", "repaired", "tree_pack", "unsorted", "present_before", "needed", "needed_ok", "damaged", "lost_tree_pack", "lost_blobs", "shared_dirs", "root_ignored", "lookup_ok", "merge_self_ok", "lost", "intact_files"):
                if k_ in d and d[k_].isdigit():
                    hist["%s_%s" % (m, k_)] = hist.get("%s_%s" % (m, k_), 0) + int(d[k_])
            if m == "C" and int(d.get("present_before", 0)) + int(d.get("coll", 0)) + int(d.get("coll_tree", 0)) + int(d.get("damaged", 0)) > 0: nontriv.add(ln)
            if m == "W" and int(d.get("shared_dirs", 0)) > 1 and "src/s" in d.get("globs", ""): hist["W_anchored_exclude_below_shared_tree"] = hist.get("W_anchored_exclude_below_shared_tree", 0) + 1
            if m == "W" and int(d.get("excluded", 0)) > 0: nontriv.add(ln)
            if m == "R" and int(d.get("damaged", 0)) > 0: nontriv.add(ln)
            if m == "S" and int(d.get("lost", 0)) > 0: nontriv.add(ln)
            if m == "F":
                if d.get("fault_hit") == "1": nontriv.add(ln)
                hist["F_op%s_%s%s" % (d.get("op"), "fault_" if d.get("fault_hit") == "1" else "nofault_", d.get("returned"))] = hist.get("F_op%s_%s%s" % (d.get("op"), "fault_" if d.get("fault_hit") == "1" else "nofault_", d.get("returned")), 0) + 1
            if not out.startswith("ok"):
                what = {"S": "copy from a source with missing data blobs: fails, adds other blobs than `needed`, or a file whose chunks the source has does not dump identically",
                        "F": "a pack upload failed, the command reported success, and a snapshot it wrote is incomplete (check / ls / dump fails)",
                        "C": "copied snapshot does not restore identically from the destination",
                        "W": "rewrite does not remove exactly the excluded paths",
                        "R": "repair_snapshots: intact repository changed, or a file kept without the marker lost its content"}[m]
                if m == "R" and d.get("merge_self_ok") == "0":
                    what = "repair_snapshots: a repaired snapshot does not merge to the union of its paths (a tree written by repair is out of name order)"
                elif m == "R" and d.get("lookup_ok") == "0":
                    what = "repair_snapshots: an entry of a repaired snapshot is not found by path"
                viol.append((what, ln, out[:600], None))
            if len(samples) < 8 and m in "CWRSF" and not any(s.get("case", "")[0] == m for s in samples):
                samples.append({"case": ln, "impl": out[:400]})
    if glines and model:
        mo = run_lines(model, [g[5] for g in glines])
        mo2 = run_lines(model, [g[6] for g in glines])
        for (ln, order, ts, res, st, ml, ml2), o, o2 in zip(glines, mo, mo2):
            lt = map_names(parse_tree(o2.split()[2:], 0)[0], lambda i: order[int(i)]) if o2.startswith("ok") else None
            if lt != res:
                mism.append((ln, o2[:300], "merge_snapshots result differs from the literal loop model (exact BinaryHeap)"))
            else:
                hist["G_equal_loop_model"] = hist.get("G_equal_loop_model", 0) + 1
            if not o.startswith("ok wf=1"):
                mism.append((ln, o, "model rejects inputs that python finds sorted")); continue
            mt_, _ = parse_tree(o.split()[2:], 0)
            mt_ = map_names(mt_, lambda i: order[int(i)])
            if mt_ != res and not st.get("tie"):
                mism.append((ln, o, "merge_snapshots result differs from the extracted model (no ties)"))
            hist["G_equal_model" if mt_ == res else "G_tie_other_choice"] = hist.get("G_equal_model" if mt_ == res else "G_tie_other_choice", 0) + 1

    # TreeModifier models (rewrite, repair) against the trees the implementation wrote
    if model:
        for mode_ in ("rw", "rp"):
            js = [j for j in wr_jobs if j[0] == mode_]
            if not js: continue
            mo = run_lines(model, [j[2] for j in js], mode=mode_)
            for (md, ln, ml, (orig, new), order, loose), o in zip(js, mo):
                tk = o.split()
                hist["%s_model_%s" % (md, tk[1] if len(tk) > 1 else "?")] = hist.get("%s_model_%s" % (md, tk[1] if len(tk) > 1 else "?"), 0) + 1
                if tk[:2] == ["ok", "changed"]:
                    mt_ = map_names(parse_tree(tk[2:], 0)[0], lambda i: order[int(i)])
                    good = new is not None and same_tree(mt_, new, loose)
                elif tk[:2] == ["ok", "unchanged"]:
                    good = new is None or same_tree(orig, new, None)
                else:
                    good = False
                if not good:
                    mism.append((ln, o[:300], "%s model differs from the tree the implementation wrote (%s)" % (md, "no new tree" if new is None else "new tree")))
    # the extracted copy model: needed = seen - destination's typed index, against the index delta of every run
    if model and cp_jobs:
        mo = run_lines(model, [j[2] for j in cp_jobs], mode="cp")
        for (ln, k, ml, delta), o in zip(cp_jobs, mo):
            tk = o.split()
            if tk[0] != "ok":
                mism.append((ln, o[:200], "copy model fails on run %d" % k)); continue
            n = int(tk[1]); lst = [(int(tk[2 + 2 * j]), int(tk[3 + 2 * j])) for j in range(n)]
            types = [t_ for t_, _ in lst]
            if set(lst) != delta or types != sorted(types):
                mism.append((ln, o[:200], "run %d: extracted `needed` (%d blobs) differs from the (type, id) pairs the copy added to the destination index (%d)" % (k, len(set(lst)), len(delta))))
            else:
                hist["cp_model_equals_index_delta"] = hist.get("cp_model_equals_index_delta", 0) + 1
                hist["cp_model_blobs"] = hist.get("cp_model_blobs", 0) + len(delta)
    cov.update({"evaluations": len(mcases) + len(elines), "distinct_nontrivial": len(nontriv),
                "rule": "M: k in 0..6 hand-built trees over a small name pool incl. pairs whose order flips under escaping (overlapping names; file/dir/symlink/fifo under one name; mtimes from 1, 2, 4 or 9 values incl. None; depth <= 3; a tree merged with itself; 12% with unsorted levels for the literal loop model) x cmp in {mtime, tag, always-Equal, dirs-first}; non-trivial = some name occurs in two inputs.  e2e: C copy (src/dst with different key, compression, pack sizes 1 B..400 kB, two overlapping copy runs, optional pre-populated destination, optional third run after the destination lost a data or non-root tree pack + repair_index (partial closure under present root trees), optional data blob = empty tree blob and data blob = stored non-empty tree blob), G merge_snapshots of 2..4 real backups with clashing names/types and 3 mtime values, W rewrite with 0..3 exclude globs (literal path, bare name, prefix*, path/*; globs matching the empty root path; 3 of 8 cases: directories of hard links sharing one tree blob at 5 paths with anchored excludes below one or two occurrences), R repair_snapshots on the intact repository and after removing one data or tree pack + repair_index (1 in 4: a file whose marked name sorts after its siblings), repaired snapshots looked up by path and merged with themselves; non-trivial = collision/pre-populated, clash, something excluded, something damaged",
                "samples": samples, "distribution": hist,
                "traces_validated_against_impl": len(mcases) + len(glines) + len(wr_jobs) + len(cp_jobs),
                "disagreements_checked": len(mism) + len(viol), "model_impl_mismatches": len(mism), "oracle_violations": len(viol)})
    for what, case, detail, sig in viol[:25]:
        ctx.violation(what, {"case": case, "detail": detail,
                             "how_to_replay": "echo '<case>' | .cache/target*/debug/c12 -   (format: harness/src/bin/c12.rs)"}, signature=sig)
    if mism and not viol:
        ctx.violation("correspondence broken: extracted merge model and tree::merge_trees disagree on a tie-free case, or the model violates the declarative oracle (%d cases)" % len(mism),
                      {"first": {"case": mism[0][0], "model": mism[0][1], "detail": mism[0][2]}}, no_input=True)
    vlib.finish_broken_obligations(ctx)
