"""C09 — retention decisions follow the documented keep rules.
Stages: regenerate Extracted.v from forget.rs / grouping.rs / snapshotfile.rs; build + audit the
Coq theorems; validate the calendar model against jiff; correspondence of the extracted model
with KeepOptions::apply, oracle = extracted documented spec (doc_apply); correspondence of the
command level (Grouped::from_items, ForgetGroups::*) with the extracted pipeline, oracles =
key classes / documented rules per group / forget ids / delete marks computed from the case."""
import os, sys, json, calendar, datetime
import vlib
from vlib import ROOT, REPO, sh, log
sys.path.insert(0, os.path.dirname(__file__))
import importlib.util
_spec = importlib.util.spec_from_file_location("c09_extract", os.path.join(os.path.dirname(__file__), "extract.py"))
ext = importlib.util.module_from_spec(_spec); _spec.loader.exec_module(ext)
from rustscan import ExtractError

PN = {"PLast": "last", "PMinute": "minute", "PHour": "hour", "PDay": "day", "PWeek": "week",
      "PMonth": "month", "PQuarter": "quarter", "PHalf": "half", "PYear": "year"}
UNITS = [60, 3600, 86400, 7 * 86400, 30 * 86400, 91 * 86400, 182 * 86400, 365 * 86400]


def ts(y, mo=1, d=1, h=0, mi=0, s=0):
    return calendar.timegm(datetime.datetime(y, mo, d, h, mi, s).timetuple())


def gen_case(rng, maxn):
    """One case: (header tokens, list of snapshot token lists)."""
    # anchor near a boundary of some period
    y = rng.choice([rng.randint(1971, 2100), rng.randint(1971, 2100), rng.randint(1700, 2400)])
    kind = rng.randint(0, 7)
    if kind == 0: anchor = ts(y, rng.randint(1, 12), rng.randint(1, 28), rng.randint(0, 23), rng.randint(0, 59))
    elif kind == 1: anchor = ts(y, rng.randint(1, 12), rng.randint(1, 28), rng.randint(0, 23))
    elif kind == 2: anchor = ts(y, rng.randint(1, 12), rng.randint(1, 28))
    elif kind == 3:  # a Monday near new year (ISO week-year edges)
        a = ts(y, 1, 1) + rng.randint(-7, 7) * 86400
        anchor = a - ((a // 86400 + 3) % 7) * 86400
    elif kind == 4: anchor = ts(y, rng.randint(1, 12), 1)
    elif kind == 5: anchor = ts(y, rng.choice([1, 4, 7, 10]), 1)
    elif kind == 6: anchor = ts(y, rng.choice([1, 7]), 1)
    else: anchor = ts(y, 1, 1)
    n = rng.choice([0, 1, 2, 3, 5, 8, 13, maxn // 2, maxn])
    n = rng.randint(0, max(n, 0))
    mixed_off = rng.random() < 0.15
    base_off = rng.choice([0, 0, 0, 3600, -5 * 3600, 5 * 3600 + 1800, 14 * 3600, -12 * 3600, 7 * 3600 + 123])
    insts = []
    for i in range(n):
        r = rng.random()
        if r < 0.2:
            t = anchor + rng.randint(-3, 3)
        elif r < 0.4:
            # a few units of every granularity around the boundary (e.g. the days of the ISO week
            # that straddles new year, the hours around midnight)
            t = anchor + rng.choice([60, 3600, 86400, 86400, 7 * 86400]) * rng.randint(-6, 6) + rng.choice([0, 0, -1, 1, rng.randint(0, 86399)])
        elif r < 0.7:
            u = rng.choice(UNITS)
            t = anchor - u * rng.randint(-2, 6) + rng.choice([0, 0, -1, 1, rng.randint(-u // 2, u // 2)])
        elif r < 0.8 and insts:
            t = rng.choice(insts)  # duplicate instant
        else:
            t = anchor - rng.randint(0, 3 * 365 * 86400)
        insts.append(t)
    ids = rng.sample(range(1, 65536), n)
    snaps = []
    newest = max(insts) if insts else anchor
    now = newest + rng.choice([0, 1, 3600, 86400, rng.randint(0, 10 ** 7)])
    for i in range(n):
        off = rng.choice([0, 3600, -3600, 9 * 3600, base_off]) if mixed_off else base_off
        tags = rng.sample(range(4), rng.choice([0, 0, 1, 2]))
        r = rng.random()
        if r < 0.8: dl = [0]
        elif r < 0.87: dl = [1]
        else: dl = [2, now + rng.choice([-1, 0, 1, -86400, 86400, rng.randint(-10 ** 6, 10 ** 6)])]
        tree = rng.randint(1, 3) if rng.random() < 0.5 else 100 + i
        snaps.append([insts[i], off, ids[i], len(tags)] + tags + dl + [tree])
    hdr = [now, 0]
    style = rng.randint(0, 7)
    single = rng.randint(0, 8)          # styles 6/7: exactly one rule, so that its effect is not masked
    for p in range(9):
        r = rng.random()
        if style >= 6:
            hdr += [1, rng.choice([1, 2, 2, 3, 4, -1])] if (p == single and style == 6) else [0]
        elif style == 0 and r < 0.8 or r < 0.4: hdr += [0]
        else: hdr += [1, rng.choice([0, 1, 1, 2, 2, 3, 5, -1, -1, rng.randint(-3, 12)])]
    for p in range(9):
        if style == 6 or (style == 7 and p != single): hdr += [0]
        elif style != 7 and rng.random() < (0.75 if style != 1 else 0.3): hdr += [0]
        else:
            sp = [0] * 7
            for _ in range(rng.choice([1, 1, 2])):
                u = rng.randint(0, 6)
                sp[u] = rng.choice([0, 1, 1, 2, 3, rng.randint(0, [5, 14, 9, 40, 50, 100, 4000][u])])
            hdr += [1] + sp
    hdr += [1 if rng.random() < 0.1 else 0, 1 if rng.random() < 0.2 else 0]
    ntl = rng.choice([0, 0, 0, 1, 2])
    hdr += [ntl]
    for _ in range(ntl):
        tl = rng.sample(range(4), rng.choice([0, 1, 1, 2]))
        hdr += [len(tl)] + tl
    nid = rng.choice([0, 0, 0, 1, 2])
    hdr += [nid]
    for _ in range(nid):
        if snaps and rng.random() < 0.7:
            hx = "%04x" % rng.choice(snaps)[2]
            pre = [int(c, 16) for c in hx[:rng.randint(0, 4)]]
            if rng.random() < 0.2: pre += [0] * rng.randint(1, 3)
        else:
            pre = [rng.randint(0, 16) for _ in range(rng.randint(0, 3))]
        hdr += [len(pre)] + pre
    return hdr, snaps


def line_of(hdr, snaps):
    t = list(hdr) + [len(snaps)]
    for s in snaps: t += s
    return " ".join(str(x) for x in t)


def canon_impl(line, rmap):
    """'ok id:k:reasons ...' -> (order of ids, canonical string)"""
    if not line.startswith("ok"): return None, line.strip()
    ids, parts = [], []
    for tok in line.split()[1:]:
        i, k, rs = tok.split(":", 2)
        ids.append(int(i))
        rr = [rmap.get(r, "?" + r) for r in rs.split("+")] if rs else []
        parts.append("%s:%s:%s" % (i, k, "+".join(rr)))
    return ids, ("ok " + " ".join(parts)).strip()


def run_lines(exe, lines, mode=None, timeout=1800):
    path = os.path.join(vlib.BUILD, "C09", "in_%d.txt" % os.getpid())
    open(path, "w").write("\n".join(lines) + "\n")
    rc, out, err = vlib.sh2([exe, path] + ([mode] if mode else []), timeout=timeout)
    os.remove(path)
    res = out.splitlines()
    if rc != 0 or len(res) != len(lines):
        raise RuntimeError("%s failed rc=%s (%d of %d lines)\n%s" % (exe, rc, len(res), len(lines), err[-2000:]))
    return res


# ------------------------------------------------------------------ command level (forget)
def gen_forget_case(rng, maxn):
    """criterion + keep options + snapshots with host / label / paths: few distinct key values so that
    groups have several members; tag and path lists unsorted and with repetitions (a StringList is a set)."""
    hdr, snaps = gen_case(rng, maxn)
    for _ in range(3):
        if len(snaps) >= 3 or rng.random() < 0.15: break
        hdr, snaps = gen_case(rng, maxn)      # mostly cases with enough snapshots to form groups
    crit = rng.choice([[1, 1, 1, 0], [1, 1, 1, 0], [1, 0, 0, 0], [0, 1, 0, 0], [0, 0, 1, 0], [0, 0, 0, 1],
                       [0, 0, 0, 0], [1, 1, 1, 1], [rng.randint(0, 1) for _ in range(4)]])
    nh, nl, npth = rng.choice([1, 2, 3]), rng.choice([1, 1, 2]), rng.choice([1, 2, 3])
    hosts = rng.sample(range(0, 6), nh)
    labels = rng.sample(range(0, 4), nl)
    pathsets = [[rng.randint(0, 3) for _ in range(rng.choice([0, 1, 1, 2, 3]))] for _ in range(npth)]
    tagsets = [[rng.randint(0, 3) for _ in range(rng.choice([0, 0, 1, 2, 3]))] for _ in range(rng.choice([1, 2, 3]))]
    out = []
    for sn in snaps:
        # sn = [inst, off, id, ntags, tags..., del..., tree]
        nt = sn[3]
        rest = sn[4 + nt:]
        tg = list(rng.choice(tagsets))
        if rng.random() < 0.3: rng.shuffle(tg)            # same set, other order
        if tg and rng.random() < 0.2: tg.append(rng.choice(tg))   # same set, a repetition
        ps = list(rng.choice(pathsets))
        if rng.random() < 0.3: rng.shuffle(ps)
        if ps and rng.random() < 0.2: ps.append(rng.choice(ps))
        out.append(sn[:3] + [len(tg)] + tg + rest + [rng.choice(hosts), rng.choice(labels), len(ps)] + ps)
    return crit, hdr, out


def forget_line(crit, hdr, snaps):
    return " ".join(str(x) for x in crit) + " " + line_of(hdr, snaps)


def parse_forget_line(t):
    crit = t[:4]
    hdr = t[4:4 + header_len(t[4:])]
    i = 4 + len(hdr)
    n = t[i]; i += 1
    snaps = []
    for _ in range(n):
        j = i + 3
        nt = t[j]; j += 1 + nt
        j += 2 if t[j] == 2 else 1
        j += 1          # tree
        j += 2          # host label
        j += 1 + t[j]   # paths
        snaps.append(t[i:j]); i = j
    return crit, hdr, snaps


def snap_fields(sn):
    """(inst, off, id, tags, del, delt, tree, host, label, paths) of an extended snapshot token list"""
    nt = sn[3]; j = 4 + nt
    dl = sn[j]; delt = sn[j + 1] if dl == 2 else None
    j += 2 if dl == 2 else 1
    tree = sn[j]; host = sn[j + 1]; label = sn[j + 2]; npth = sn[j + 3]
    return sn[0], sn[1], sn[2], sn[4:4 + nt], dl, delt, tree, host, label, sn[j + 4:j + 4 + npth]


def parse_groups(txt, rmap):
    """'key id:k:r ... ; key ...' -> [(key, [(id, keep, reasons)])] with reasons mapped to model names"""
    gs = []
    txt = txt.strip()
    if not txt: return gs
    for g in txt.split(" ; "):
        toks = g.split()
        items = []
        for tok in toks[1:]:
            i, k, rs = tok.split(":", 2)
            rr = [(rmap.get(x, "?" + x) if rmap is not None else x) for x in rs.split("+")] if rs else []
            items.append((int(i), int(k), "+".join(rr)))
        gs.append((toks[0], items))
    return gs


def groups_canon(gs):
    return " ; ".join(" ".join([k] + ["%d:%d:%s" % it for it in items]) for k, items in gs)


def parse_result(txt, rmap):
    """'ok <groups> | ids=a,b' or 'err' -> (groups or None, ids or None, canonical text)"""
    txt = txt.strip()
    if not txt.startswith("ok"): return None, None, txt
    body, _, ids = txt[2:].partition(" | ids=")
    gs = parse_groups(body, rmap)
    idl = [int(x) for x in ids.split(",") if x]
    return gs, idl, "ok " + groups_canon(gs) + " | ids=" + ",".join(map(str, idl))


def forget_stage(ctx, model, impl, rmap, broken, only_case=None):
    rng = ctx.rng
    ncases = 7000 if ctx.thorough() else 1000
    maxn = 60 if ctx.thorough() else 40
    if broken: ncases *= 3
    cases = []
    corpus = os.path.join(ctx.pdir, "corpus_forget.txt")
    if os.path.exists(corpus):
        for ln in open(corpus):
            ln = ln.split("#")[0].strip()
            if ln: cases.append(parse_forget_line([int(x) for x in ln.split()]))
    while len(cases) < ncases:
        cases.append(gen_forget_case(rng, maxn))
    if only_case is not None:
        cases = [parse_forget_line([int(x) for x in only_case.split()])]
    in_lines = [forget_line(*c) for c in cases]
    impl_out = run_lines(impl, in_lines, "forget")
    idmap = dict(rmap); idmap["if_argument"] = "if_argument"
    parsed, model_lines = [], []
    for (crit, hdr, snaps), out in zip(cases, impl_out):
        parts = out.split(" | fs=")
        main = parts[0]
        fs_txt, _, fsids = (parts[1] if len(parts) > 1 else "").partition(" | fsids=")
        gs, ids, can = parse_result(main, rmap)
        fs = parse_groups(fs_txt, idmap)
        parsed.append((gs, ids, can, fs, [int(x) for x in fsids.split(",") if x], out))
        if gs is None:
            arr = "-1"
        else:
            arr = " ".join([str(len(gs))] + [" ".join([str(len(items))] + [str(i) for i, _, _ in items]) for _, items in gs])
        model_lines.append(forget_line(crit, hdr, snaps) + " " + arr)
    mism, viol = [], []
    hist, nontriv, samples = {}, set(), []
    n_groups, n_distinct, n_multi, n_mono_groups, n_tie_cases = 0, 0, 0, 0, 0
    def bump(k, n=1): hist[k] = hist.get(k, 0) + n
    if model:
        known_ids_bad = 0
        # the model needs every id of the arrangement to exist in the input: check first
        safe_lines = []
        for (crit, hdr, snaps), (gs, ids, can, fs, fsids, out), ml in zip(cases, parsed, model_lines):
            inp = sorted(snap_fields(sn)[2] for sn in snaps)
            got = sorted(i for _, items in (gs or []) for i, _, _ in items)
            if gs is not None and got != inp:
                safe_lines.append(forget_line(crit, hdr, snaps) + " -1")
            else:
                safe_lines.append(ml)
        model_out = run_lines_par(model, safe_lines, "forget")
        for idx, ((crit, hdr, snaps), (gs, ids, can, fs, fsids, out), mo) in enumerate(zip(cases, parsed, model_out)):
            case = in_lines[idx]
            if out.strip().startswith("panic"):
                viol.append(("forget pipeline panics", case, out, "")); continue
            sec = dict((x.split(" ", 1) + [""])[:2] for x in mo.split(" || "))
            ex_gs, ex_ids, ex_can = parse_result(sec.get("EXEC", ""), None)
            sp_can = parse_result(sec.get("SPEC", ""), None)[2]
            arr_can = parse_result(sec.get("ARR", ""), None)[2] if sec.get("ARR", "none") != "none" else None
            o = dict(x.split("=", 1) for x in sec.get("O", "").split())
            fields = [snap_fields(sn) for sn in snaps]
            inp_ids = sorted(f[2] for f in fields)
            now = hdr[0]
            bump("crit_" + "".join(map(str, crit)))
            bump("snaps_%s" % ("0" if not snaps else "1-5" if len(snaps) <= 5 else "6-20" if len(snaps) <= 20 else ">20"))
            # ---- from_snapshots: oracle computed here from the case itself
            exp_fs_rm = [f[2] for f in fields if not (f[4] == 1 or (f[4] == 2 and f[5] >= now))]
            exp_fs = [("h=-,l=-,p=-,t=-", [(f[2], 0 if f[2] in exp_fs_rm else 1, "if_argument" if f[2] in exp_fs_rm else "snapshot") for f in fields])]
            if fsids != exp_fs_rm or fs != exp_fs:
                viol.append(("from_snapshots does not keep exactly the snapshots protected by their own delete mark", case, out,
                             "expected fs=%s fsids=%s" % (groups_canon(exp_fs), exp_fs_rm)))
            m_fs = sec.get("FS", "")
            if "fs=%s | fsids=%s" % (groups_canon(fs), ",".join(map(str, fsids))) != m_fs.strip():
                mism.append((case, "from_snapshots", "fs=%s | fsids=%s" % (groups_canon(fs), ",".join(map(str, fsids))), m_fs))
            # ---- retention per group
            if gs is None:
                bump("err")
                if ex_can != can: mism.append((case, "error/ok", can, ex_can))
                continue
            got = sorted(i for _, items in gs for i, _, _ in items)
            if got != inp_ids:
                viol.append(("grouping is not a partition of the input: snapshots lost or duplicated", case, out, "input ids %s" % inp_ids)); continue
            if o.get("wf") != "1":
                viol.append(("groups are not the key classes in ascending key order with members sorted newest first", case, out, "")); continue
            # key classes computed here (independent of the model): same group iff same selected fields
            def pykey(f):
                return (f[7] if crit[0] else None, f[8] if crit[1] else None,
                        tuple(sorted(set(f[9]))) if crit[2] else None, tuple(sorted(set(f[3]))) if crit[3] else None)
            kof = {f[2]: pykey(f) for f in fields}
            classes = {}
            for f in fields: classes.setdefault(pykey(f), set()).add(f[2])
            got_classes = [set(i for i, _, _ in items) for _, items in gs]
            if sorted(map(sorted, classes.values())) != sorted(map(sorted, got_classes)):
                viol.append(("two snapshots are in the same group although their keys differ, or apart although equal", case, out,
                             "expected classes %s" % sorted(map(sorted, classes.values())))); continue
            n_groups += len(gs)
            if any(len(items) > 1 for _, items in gs): n_multi += 1
            if len(gs) > 1: bump("cases_with_several_groups")
            if can != arr_can:
                mism.append((case, "retention per group (order taken from the implementation)", can, arr_can))
            if o.get("distinct") == "1":
                n_distinct += 1
                if can != ex_can: mism.append((case, "result depends on the sorts although times are distinct inside every group", can, ex_can))
                if ex_can != sp_can: mism.append((case, "executable pipeline vs sort-free reading", ex_can, sp_can))
            else:
                n_tie_cases += 1
            # documented rules per group
            docs = o.get("doc", "").split(",") if gs else []
            monos = o.get("mono", "")
            exp_rm, all_mono = [], True
            for gi, (key, items) in enumerate(gs):
                flags = "".join(str(k) for _, k, _ in items)
                for f in flags: bump("keep" if f == "1" else "remove")
                for _, _, rs in items:
                    for rr in rs.split("+"):
                        if rr: bump("reason_" + rr)
                if gi < len(monos) and monos[gi] == "1":
                    n_mono_groups += 1
                    if flags != docs[gi]:
                        viol.append(("kept set of a group differs from the documented keep rules applied to that group", case, out,
                                     "group %s: documented keep flags (newest first) %s" % (key, docs[gi])))
                    exp_rm += [i for (i, _, _), d in zip(items, docs[gi]) if d == "0"]
                else:
                    all_mono = False
                    exp_rm += [i for i, k, _ in items if k == 0]
            if ids != exp_rm or len(set(ids)) != len(ids):
                viol.append(("into_forget_ids does not return exactly the snapshots the rules remove, each once", case, out, "expected ids %s" % exp_rm))
            if ids and len(ids) < len(inp_ids) and len(gs) > 1: nontriv.add(case)
            if len(samples) < 3 and 2 <= len(snaps) <= 6 and len(gs) > 1:
                samples.append({"case": case, "impl": can, "model": sec.get("ARR"), "oracle": sec.get("O")})
    cov = ctx.coverage
    cov["forget_level"] = {
        "evaluations": len(cases), "distinct_nontrivial": len(nontriv),
        "rule": "cases = group criterion (16 combinations, default host+label+paths weighted) x keep options (as above) x up to %d snapshots over 1-3 hosts, 1-2 labels, 1-3 path sets, 1-3 tag sets (unsorted, repeated elements, empty), equal times, delete marks; non-trivial = several groups, some but not all ids returned" % maxn,
        "groups_total": n_groups, "cases_with_a_multi_member_group": n_multi, "cases_times_distinct_per_group": n_distinct,
        "cases_with_equal_times_in_a_group": n_tie_cases, "groups_checked_against_documented_rules": n_mono_groups,
        "model_impl_mismatches": len(mism), "oracle_violations": len(viol), "distribution": hist, "samples": samples}
    cov["evaluations"] = cov.get("evaluations", 0) + len(cases)
    cov["distinct_nontrivial"] = cov.get("distinct_nontrivial", 0) + len(nontriv)
    cov["traces_validated_against_impl"] = cov.get("traces_validated_against_impl", 0) + len(cases)
    cov["disagreements_checked"] = cov.get("disagreements_checked", 0) + len(mism) + len(viol)
    for what, case, out, extra in viol[:50]:
        ctx.violation(what, {"mode": "forget", "case": case, "impl": out, "expected": extra,
                             "how_to_replay": "echo '<case>' > f; .cache/target*/debug/c09 f forget   (format: harness/src/bin/c09.rs forget_case)"},
                      signature=None)
    return mism, viol


def run_lines_par(exe, lines, mode=None, nproc=4):
    """the extracted model is the slow side (doc_apply is quadratic over exact integer arithmetic, a few
    large cases dominate): deal the cases round-robin to up to four processes; output order = input order"""
    if len(lines) < 200 or nproc < 2:
        return run_lines(exe, lines, mode)
    import subprocess
    chunks, procs = [], []
    for i in range(nproc):
        ch = lines[i::nproc]
        path = os.path.join(vlib.BUILD, "C09", "in_%d_%d.txt" % (os.getpid(), i))
        open(path, "w").write("\n".join(ch) + "\n")
        chunks.append((path, len(ch)))
        procs.append(subprocess.Popen(["nice", "-n", "10", exe, path] + ([mode] if mode else []),
                                      stdout=subprocess.PIPE, stderr=subprocess.PIPE, text=True))
    outs = [None] * len(lines)
    for i, ((path, n), pr) in enumerate(zip(chunks, procs)):
        try:
            out, err = pr.communicate(timeout=1800)
        finally:
            os.remove(path)
        res = out.splitlines()
        if pr.returncode != 0 or len(res) != n:
            raise RuntimeError("%s failed rc=%s (%d of %d lines)\n%s" % (exe, pr.returncode, len(res), n, err[-2000:]))
        outs[i::nproc] = res
    return outs


def run(ctx):
    rng = ctx.rng
    cov = ctx.coverage
    import time as _t
    stage_t = {}; _t0 = _t.time()
    # 1. facts from the source
    extract_fail = None
    try:
        txt, meta = ext.gen(REPO)
        p = os.path.join(ctx.pdir, "coq", "Extracted.v")
        if not os.path.exists(p) or open(p).read() != txt:
            open(p, "w").write(txt)
    except ExtractError as e:
        extract_fail = str(e)
        try:
            meta = ext.gen_base(REPO)[1]     # the reason strings, so that the correspondence below still reads the output
        except ExtractError:
            meta = None
    # 2. theorems
    r = vlib.proof_stage(ctx)
    if extract_fail:
        r["ok"] = False
        r["failures"].append("fact extraction from forget.rs failed: " + extract_fail)
    cov["trusted_base"] += ["props/C09/extract.py (translator of equal_* predicates, keep_checks rows, is_valid, group key / order / equality, sort closures, into_forget_ids filter, from_snapshots keep flag into Extracted.v; exact-shape checks of from_items, from_grouped_snapshots_with_retention, must_keep, must_delete)",
                            "jiff civil-time fields and span addition (validated against Calendar.v on every run, not proved)"]
    ctx.assumptions += ["time zones are fixed UTC offsets (TimeZone::fixed); DST transitions of named zones are not modelled",
                        "instants are whole seconds",
                        "the two unstable sorts (Grouped::from_items by group key, KeepOptions::apply by time) return a sorted permutation of their input: theorems quantify over all such functions; the specification is checked on every generated case (grouping_wf)",
                        "order of snapshots with equal instants is whatever the unstable sort yields; the model is run on the order the implementation produced, and additionally with its own stable sorts whenever times are distinct inside every group",
                        "keys_monotone (premise of runs_are_periods) is derived for lists sorted by time whose snapshots share one UTC offset (keys_monotone_derived); for mixed offsets it stays a decidable premise evaluated per case (coverage.keys_monotone_true)",
                        "hostname / label strings are numbers in the model; the harness maps them to strings order-preservingly"]
    stage_t["proofs"] = round(_t.time() - _t0, 1); _t0 = _t.time()
    # 3. builds
    try:
        model = vlib.build_model("C09")
    except RuntimeError as e:
        model = None
        if r["ok"]:
            r["ok"] = False; r["failures"].append("extracted model no longer builds: " + str(e)[-500:])
    impl = vlib.build_harness("c09")
    # reasons table
    rmap = {"id": "id", "tags": "tags", "snapshot": "snapshot", "unchanged": "unchanged"}
    if meta:
        for (p, r1, w, r2) in meta["reasons"]:
            rmap[r1.replace(" ", "_")] = "c:" + PN[p]
            rmap[r2.replace(" ", "_")] = "w:" + PN[w]
    stage_t["builds"] = round(_t.time() - _t0, 1); _t0 = _t.time()
    # 4. calendar validation against jiff
    ncal = 0
    cal_bad = []
    if model:
        lines = []
        days = range(-25567, 157400) if ctx.thorough() else range(-25567, 157400, 7)   # 1900-01-01 .. 2400-12-31
        for i, d in enumerate(days):
            sod = rng.choice([0, 86399, rng.randint(0, 86399)])
            off = rng.choice([0, 0, 3600, -7200, 19800, 50400, -43200])
            lines.append("%d %d 0 0 0 0 0 0 0" % (d * 86400 + sod - off, off))
        nsp = 20000 if ctx.thorough() else 3000
        for _ in range(nsp):
            t = rng.randint(ts(1700), ts(2400))
            if rng.random() < 0.5:  # month ends / leap days
                yy = rng.randint(1700, 2399); mm = rng.randint(1, 12)
                t = ts(yy, mm, 1) + 86400 * rng.choice([27, 28, 29, 30]) + rng.randint(0, 86399)
            off = rng.choice([0, 3600, -18000, 34200, 50400, -43200, rng.randint(-50000, 50000)])
            sp = [rng.choice([0, 0, 1, rng.randint(0, 30)]), rng.choice([0, 1, rng.randint(0, 40)]),
                  rng.choice([0, 0, rng.randint(0, 60)]), rng.choice([0, 1, rng.randint(0, 400)]),
                  rng.choice([0, 0, rng.randint(0, 100)]), rng.choice([0, 0, rng.randint(0, 1000)]),
                  rng.choice([0, 0, rng.randint(0, 100000)])]
            if rng.random() < 0.2: sp = [-x for x in sp]   # a jiff span has one sign for all its units
            lines.append("%d %d %s" % (t, off, " ".join(map(str, sp))))
        a = run_lines(impl, lines, "cal")
        b = run_lines(model, lines, "cal")
        ncal = len(lines)
        for l, x, y in zip(lines, a, b):
            if x != y: cal_bad.append({"case": l, "jiff": x, "model": y})
        if cal_bad:
            # model mismatch against the library the code calls: the model is wrong or jiff changed;
            # not a defect of the property by itself -> correspondence broken
            r["ok"] = False
            r["failures"].append("calendar model disagrees with jiff on %d of %d cases, e.g. %s" % (len(cal_bad), ncal, cal_bad[0]))
    cov["calendar_cases_vs_jiff"] = ncal
    cov["calendar_exhaustive_days_1900_2400"] = bool(ctx.thorough())
    stage_t["calendar"] = round(_t.time() - _t0, 1); _t0 = _t.time()
    # 5. correspondence
    ncases = 12000 if ctx.thorough() else 2500
    maxn = 60 if ctx.thorough() else 40
    if not r["ok"]:
        ncases *= 4        # an obligation is broken: widen the search for a concrete failing input
    cases = []
    corpus = os.path.join(ctx.pdir, "corpus.txt")
    if os.path.exists(corpus):
        for ln in open(corpus):
            ln = ln.split("#")[0].strip()
            if ln: cases.append(("corpus", ln))
    while len(cases) < ncases:
        h, s = gen_case(rng, maxn)
        cases.append(("gen", (h, s)))
    replay_forget = None
    if ctx.replay:
        rp = json.load(open(ctx.replay))
        if rp["witness"].get("mode") == "forget":
            replay_forget = rp["witness"]["case"]; cases = []
        else:
            cases = [("corpus", rp["witness"]["case"])]
    # implementation on the unsorted input
    in_lines = []
    parsed = []
    for kind, c in cases:
        if kind == "corpus":
            toks = c.split()
            # split header / snaps: re-parse
            hs = parse_line([int(x) for x in toks])
            parsed.append(hs); in_lines.append(c)
        else:
            parsed.append(c); in_lines.append(line_of(*c))
    impl_out = run_lines(impl, in_lines)
    model_lines, orders, impl_canon = [], [], []
    for (h, s), out in zip(parsed, impl_out):
        ids, can = canon_impl(out, rmap)
        impl_canon.append(can)
        if ids is None:
            model_lines.append(line_of(h, sorted(s, key=lambda x: -x[0]))); orders.append(None); continue
        byid = {x[2]: x for x in s}
        if sorted(ids) != sorted(byid):
            orders.append("bad"); model_lines.append(line_of(h, sorted(s, key=lambda x: -x[0]))); continue
        model_lines.append(line_of(h, [byid[i] for i in ids])); orders.append(ids)
    mism, viol, nontriv, mono_true, hist = [], [], set(), 0, {}
    samples = []
    if model:
        model_out = run_lines_par(model, model_lines)
        for idx, ((h, s), ic, mo, ml, order) in enumerate(zip(parsed, impl_canon, model_out, model_lines, orders)):
            mc, _, oracle = mo.partition(" | ")
            hist["snaps_%s" % ("0" if not s else "1-5" if len(s) <= 5 else "6-20" if len(s) <= 20 else ">20")] = hist.get("snaps_%s" % ("0" if not s else "1-5" if len(s) <= 5 else "6-20" if len(s) <= 20 else ">20"), 0) + 1
            if ic == "err" or mc == "err":
                hist["err"] = hist.get("err", 0) + 1
            if order == "bad" or mc.strip() == "unsorted" or ic.strip() == "panic":
                viol.append(("implementation result is not the input sorted newest first" if ic.strip() != "panic" else "KeepOptions::apply panics", in_lines[idx], ic, mc))
                continue
            if ic != mc:
                mism.append((in_lines[idx], ml, ic, mc))
            if oracle:
                o = dict(x.split("=") for x in oracle.split())
                if o["mono"] == "1": mono_true += 1
                flags = "".join(t.split(":")[1] for t in ic.split()[1:]) if ic.startswith("ok") else None
                if flags is not None:
                    if "0" in flags and "1" in flags: nontriv.add(ml)
                    for f in flags: hist["keep" if f == "1" else "remove"] = hist.get("keep" if f == "1" else "remove", 0) + 1
                    for t in ic.split()[1:]:
                        for rr in t.split(":", 2)[2].split("+"):
                            if rr: hist["reason_" + rr] = hist.get("reason_" + rr, 0) + 1
                    if o["mono"] == "1" and flags != o["doc"]:
                        viol.append(("kept set differs from the documented keep rules", in_lines[idx], ic, "documented keep flags (sorted order): " + o["doc"]))
            if len(samples) < 3 and s and len(s) <= 6 and ic.startswith("ok"):
                samples.append({"case": in_lines[idx], "impl": ic, "model": mc, "oracle": oracle})
    cov.update({"evaluations": len(cases) + ncal, "distinct_nontrivial": len(nontriv),
                "rule": "cases = keep options (every count unset/0/1/small/-1/negative, spans, tags, id prefixes, keep_none, delete_unchanged) x up to %d snapshots clustered around minute/hour/day/ISO-week/month/quarter/half-year/year boundaries with duplicates, several UTC offsets, delete marks; non-trivial = at least one snapshot kept and one removed; distinct by full case text" % maxn,
                "samples": samples, "distribution": hist, "keys_monotone_true": mono_true,
                "traces_validated_against_impl": len(cases), "disagreements_checked": len(mism) + len(viol) + len(cal_bad),
                "model_impl_mismatches": len(mism), "oracle_violations": len(viol), "calendar_mismatches": len(cal_bad)})
    # 6. decide
    for what, case, ic, extra in viol[:50]:
        sig = classify(case, ic, extra)
        ctx.violation(what, {"case": case, "impl": ic, "expected": extra,
                             "how_to_replay": "echo '<case>' | .cache/target/debug/c09 -   (format: harness/src/bin/c09.rs)"}, signature=sig)
    stage_t["apply_level"] = round(_t.time() - _t0, 1); _t0 = _t.time()
    # 7. the command level: grouping, retention per group, into_forget_ids, from_snapshots
    fmism, fviol = [], []
    if model and (replay_forget is not None or not ctx.replay):
        fmism, fviol = forget_stage(ctx, model, impl, rmap, not r["ok"], replay_forget)
    stage_t["forget_level"] = round(_t.time() - _t0, 1)
    cov["stage_wall_s"] = stage_t
    if fmism and not fviol and not viol:
        ctx.violation("correspondence broken: extracted model of the forget pipeline (grouping / retention per group / into_forget_ids / from_snapshots) disagrees with the implementation (%d cases) although every oracle holds" % len(fmism),
                      {"correspondence": "props/C09 Groups.v vs Grouped::from_items + ForgetGroups", "first": {"case": fmism[0][0], "what": fmism[0][1], "impl": fmism[0][2], "model": fmism[0][3]}}, no_input=True)
    if mism and not viol:
        # the model and the code disagree, but the documented result is still met on every case:
        # the correspondence is broken, the property is no longer shown to hold
        ctx.violation("correspondence broken: extracted model of KeepOptions::apply disagrees with the implementation (%d cases) although kept sets match the documented rules" % len(mism),
                      {"correspondence": "props/C09 Model.apply_sorted vs KeepOptions::apply", "first": {"case": mism[0][0], "impl": mism[0][2], "model": mism[0][3]}}, no_input=True)
    vlib.finish_broken_obligations(ctx)


def header_len(t):
    i = 2
    for _ in range(9):
        i += 2 if t[i] == 1 else 1
    for _ in range(9):
        i += 8 if t[i] == 1 else 1
    i += 2
    for _ in range(2):
        n = t[i]; i += 1
        for _ in range(n):
            i += 1 + t[i]
    return i


def parse_line(t):
    """inverse of line_of for corpus lines"""
    i = header_len(t)
    hdr = t[:i]
    n = t[i]; i += 1
    snaps = []
    for _ in range(n):
        j = i + 3
        nt = t[j]; j += 1 + nt
        j += 2 if t[j] == 2 else 1
        j += 1
        snaps.append(t[i:j]); i = j
    return hdr, snaps


def classify(case, ic, extra):
    return None
