(* C09 — data types shared by the generated Extracted.v and the model. *)
From Verif.Base Require Import Tactics.
From Verif.C09 Require Import Calendar.
Local Open Scope Z_scope.

Inductive period := PLast | PMinute | PHour | PDay | PWeek | PMonth | PQuarter | PHalf | PYear.

Definition period_eqb (p q : period) : bool :=
  match p, q with
  | PLast, PLast | PMinute, PMinute | PHour, PHour | PDay, PDay | PWeek, PWeek
  | PMonth, PMonth | PQuarter, PQuarter | PHalf, PHalf | PYear, PYear => true
  | _, _ => false
  end.

Definition all_periods := [PLast; PMinute; PHour; PDay; PWeek; PMonth; PQuarter; PHalf; PYear].

(* one row of `keep_checks`: the period predicate, the counter field it decrements
   and the keep-within field it tests *)
Record rowdef := mkrow { rd_eq : civil -> civil -> bool; rd_p : period; rd_w : period }.

Inductive delopt := DNotSet | DNever | DAfter (t : Z).

(* A snapshot as far as `forget` looks at it.  s_id: the hex form of the id as a
   list of nibbles; s_tags: tag numbers (a `StringList` is a BTreeSet<String>: the list is
   read as a set, see `canon`); s_host / s_label: the hostname and label strings as numbers
   (the harness maps numbers to strings order-preservingly); s_paths: a StringList again. *)
Record snap := { s_inst : Z; s_offs : Z; s_id : list N; s_tags : list N; s_del : delopt; s_tree : N;
                 s_host : N; s_label : N; s_paths : list N }.

Record keep := {
  k_count : period -> option Z;        (* keep_last, keep_minutely, ... (i32; -1 = all) *)
  k_within : period -> option span;    (* keep_within, keep_within_minutely, ... *)
  k_tags : list (list N);
  k_ids : list (list N);               (* each a string of characters; 0..15 = hex digit, other = non-hex *)
  k_none : bool;
  k_delete_unchanged : bool }.

Definition is_nil {A} (l : list A) : bool := match l with [] => true | _ => false end.
Definition isSome {A} (o : option A) : bool := match o with Some _ => true | None => false end.

(* ---------------------------------------------------------------- grouping (grouping.rs) *)
(* SnapshotGroupCriterion *)
Record crit := { cr_host : bool; cr_label : bool; cr_paths : bool; cr_tags : bool }.
(* SnapshotGroup: `None` = not grouped by this field *)
Record gkeyT := { gk_host : option N; gk_label : option N;
                  gk_paths : option (list N); gk_tags : option (list N) }.

(* BTreeSet<String> built from a list: strictly ascending, duplicate-free *)
Fixpoint ins (x : N) (l : list N) : list N :=
  match l with
  | [] => [x]
  | y :: t => match N.compare x y with Lt => x :: l | Eq => l | Gt => y :: ins x t end
  end.
Definition canon (l : list N) : list N := fold_right ins [] l.

(* the orders Rust derives / the std library defines *)
Definition then_cmp (a b : comparison) : comparison := match a with Eq => b | _ => a end.   (* Ordering::then *)
Definition cmp_opt {A} (c : A -> A -> comparison) (x y : option A) : comparison :=      (* Option<T>: None < Some *)
  match x, y with
  | None, None => Eq | None, Some _ => Lt | Some _, None => Gt | Some a, Some b => c a b
  end.
Fixpoint cmp_list {A} (c : A -> A -> comparison) (x y : list A) : comparison :=         (* Iterator::cmp: lexicographic *)
  match x, y with
  | [], [] => Eq | [], _ :: _ => Lt | _ :: _, [] => Gt
  | a :: x', b :: y' => then_cmp (c a b) (cmp_list c x' y')
  end.
Definition cmp_str : N -> N -> comparison := N.compare.
Definition cmp_strlist : list N -> list N -> comparison := cmp_list N.compare.
Definition opt_eqb {A} (e : A -> A -> bool) (x y : option A) : bool :=
  match x, y with None, None => true | Some a, Some b => e a b | _, _ => false end.
Fixpoint list_eqb {A} (e : A -> A -> bool) (x y : list A) : bool :=
  match x, y with [], [] => true | a :: x', b :: y' => e a b && list_eqb e x' y' | _, _ => false end.
Definition eqb_str : N -> N -> bool := N.eqb.
Definition eqb_strlist : list N -> list N -> bool := list_eqb N.eqb.
