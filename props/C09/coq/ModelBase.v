(* C09 — data types shared by the generated Extracted.v and the model. *)
From Verif.Base Require Import Tactics.
From Verif.C09 Require Import Calendar.
Local Open Scope Z_scope.

Inductive period := PLast | PMinute | PHour | PDay | PWeek | PMonth | PQuarter | PHalf | PYear.

Definition period_eqb (p q : period) : bool :=
  match p, q with
  | PLast, PLast | PMinute, PMinute | PHour, PHour | PDay, PDay | PWeek, PWeek
  | PMonth, PMonth | PQuarter, PQuarter | PHalf, PHalf | PYear, PYear => true
  | _, _ => false
  end.

Definition all_periods := [PLast; PMinute; PHour; PDay; PWeek; PMonth; PQuarter; PHalf; PYear].

(* one row of `keep_checks`: the period predicate, the counter field it decrements
   and the keep-within field it tests *)
Record rowdef := mkrow { rd_eq : civil -> civil -> bool; rd_p : period; rd_w : period }.

Inductive delopt := DNotSet | DNever | DAfter (t : Z).

(* A snapshot as far as `forget` looks at it.  s_id: the hex form of the id as a
   list of nibbles; s_tags: tag numbers. *)
Record snap := { s_inst : Z; s_offs : Z; s_id : list N; s_tags : list N; s_del : delopt; s_tree : N }.

Record keep := {
  k_count : period -> option Z;        (* keep_last, keep_minutely, ... (i32; -1 = all) *)
  k_within : period -> option span;    (* keep_within, keep_within_minutely, ... *)
  k_tags : list (list N);
  k_ids : list (list N);               (* each a string of characters; 0..15 = hex digit, other = non-hex *)
  k_none : bool;
  k_delete_unchanged : bool }.

Definition is_nil {A} (l : list A) : bool := match l with [] => true | _ => false end.
Definition isSome {A} (o : option A) : bool := match o with Some _ => true | None => false end.
