(* C09 — lemmas, part 5: the civil-calendar keys are monotone in the instant, for ALL
   instants (no range bound), analytically from Hinnant's era / day-of-era / year-of-era
   arithmetic.  Hence `keys_monotone` holds for every list that is sorted by time and
   whose snapshots share one UTC offset, and the premise of runs_are_periods /
   apply_is_documented is derived. *)
From Verif.Base Require Import Tactics.
From Verif.C09 Require Import Calendar ModelBase Extracted Model Spec Proofs Proofs2.
Local Open Scope Z_scope.

(* ------------------------------------------------------------ year of era *)
Definition yoe_of (doe : Z) : Z := (doe - doe / 1460 + doe / 36524 - doe / 146096) / 365.
Definition year_start (yoe : Z) : Z := 365 * yoe + yoe / 4 - yoe / 100.

Lemma yoe_range doe : 0 <= doe <= 146096 -> 0 <= yoe_of doe <= 399.
Proof. intros. unfold yoe_of. lia. Qed.

(* the year of era found by the formula is the one whose days contain doe *)
Lemma doy_range doe : 0 <= doe <= 146096 -> 0 <= doe - year_start (yoe_of doe) <= 365.
Proof. intros. unfold yoe_of, year_start. lia. Qed.

Lemma yoe_mono d1 d2 : 0 <= d1 -> d1 <= d2 -> d2 <= 146096 -> yoe_of d1 <= yoe_of d2.
Proof. intros. unfold yoe_of. lia. Qed.

(* ------------------------------------------------------------ March-based year, day of year *)
Definition mkey (z0 : Z) : Z * Z :=
  let z := z0 + 719468 in
  let era := z / 146097 in
  let doe := z - era * 146097 in
  let yoe := yoe_of doe in
  (yoe + era * 400, doe - year_start yoe).

Lemma mkey_doy_range z : 0 <= snd (mkey z) <= 365.
Proof.
  unfold mkey. cbn [snd]. apply doy_range. lia.
Qed.

Lemma mkey_mono z1 z2 : z1 <= z2 ->
  fst (mkey z1) < fst (mkey z2) \/ (fst (mkey z1) = fst (mkey z2) /\ snd (mkey z1) <= snd (mkey z2)).
Proof.
  intro H. unfold mkey. cbn [fst snd].
  set (e1 := (z1 + 719468) / 146097). set (e2 := (z2 + 719468) / 146097).
  set (d1 := z1 + 719468 - e1 * 146097). set (d2 := z2 + 719468 - e2 * 146097).
  assert (R1 : 0 <= d1 <= 146096) by (subst d1 e1; lia).
  assert (R2 : 0 <= d2 <= 146096) by (subst d2 e2; lia).
  assert (E : e1 <= e2) by (subst e1 e2; lia).
  pose proof (yoe_range d1 R1) as Y1. pose proof (yoe_range d2 R2) as Y2.
  destruct (Z.eq_dec e1 e2) as [Ee|Ne].
  - assert (D : d1 <= d2) by (subst d1 d2; rewrite Ee; lia).
    pose proof (yoe_mono d1 d2 (proj1 R1) D (proj2 R2)) as M.
    destruct (Z.eq_dec (yoe_of d1) (yoe_of d2)) as [Ey|Ny].
    + right. rewrite Ey, Ee. split; [reflexivity | lia].
    + left. lia.
  - left. lia.
Qed.

(* civil_from_days through mkey *)
Definition month_of_mp (mp : Z) : Z := if mp <? 10 then mp + 3 else mp - 9.
Definition mp_of (doy : Z) : Z := (5 * doy + 2) / 153.

Lemma cfd_mkey z :
  civil_from_days z =
  let m := month_of_mp (mp_of (snd (mkey z))) in
  ((if m <=? 2 then fst (mkey z) + 1 else fst (mkey z)), m,
   snd (mkey z) - (153 * mp_of (snd (mkey z)) + 2) / 5 + 1).
Proof. reflexivity. Qed.

Definition year_of (z : Z) : Z := fst (fst (civil_from_days z)).
Definition month_of (z : Z) : Z := snd (fst (civil_from_days z)).

(* (year, month) never decreases with the day number *)
Lemma ym_mono z1 z2 : z1 <= z2 ->
  year_of z1 < year_of z2 \/ (year_of z1 = year_of z2 /\ month_of z1 <= month_of z2).
Proof.
  intro H. unfold year_of, month_of. rewrite !cfd_mkey. cbn [fst snd].
  pose proof (mkey_mono z1 z2 H) as M.
  pose proof (mkey_doy_range z1) as R1. pose proof (mkey_doy_range z2) as R2.
  set (y1 := fst (mkey z1)) in *. set (y2 := fst (mkey z2)) in *.
  set (d1 := snd (mkey z1)) in *. set (d2 := snd (mkey z2)) in *.
  unfold month_of_mp, mp_of.
  assert (P1 : 0 <= (5 * d1 + 2) / 153 <= 11) by lia.
  assert (P2 : 0 <= (5 * d2 + 2) / 153 <= 11) by lia.
  assert (PM : y1 = y2 -> (5 * d1 + 2) / 153 <= (5 * d2 + 2) / 153) by (intro; lia).
  set (p1 := (5 * d1 + 2) / 153) in *. set (p2 := (5 * d2 + 2) / 153) in *.
  destruct (p1 <? 10) eqn:A1; destruct (p2 <? 10) eqn:A2;
    repeat match goal with |- context [?a <=? 2] => destruct (a <=? 2) eqn:? end; lia.
Qed.

Lemma year_mono z1 z2 : z1 <= z2 -> year_of z1 <= year_of z2.
Proof. intro H. destruct (ym_mono z1 z2 H); lia. Qed.

Lemma month_mono z1 z2 : z1 <= z2 -> year_of z1 = year_of z2 -> month_of z1 <= month_of z2.
Proof. intros H E. destruct (ym_mono z1 z2 H); lia. Qed.

(* ------------------------------------------------------------ the civil fields *)
Definition thursday (days : Z) : Z := days - ((days + 3) mod 7 + 1 - 1) + 3.

Lemma civ_fields i o :
  let days := (i + o) / 86400 in
  let sod := (i + o) mod 86400 in
  let c := civil_of i o in
  c_year c = year_of days /\ c_month c = month_of days /\
  c_doy c = days - days_from_civil (year_of days) 1 1 + 1 /\
  c_hour c = sod / 3600 /\ c_minute c = (sod mod 3600) / 60 /\
  c_iso_year c = year_of (thursday days) /\
  c_iso_week c = (thursday days - days_from_civil (year_of (thursday days)) 1 1) / 7 + 1.
Proof.
  cbv zeta. unfold civil_of, year_of, month_of, thursday.
  destruct (civil_from_days ((i + o) / 86400)) as [[y m] d].
  destruct (civil_from_days _) as [[iy im] id]. cbn [fst snd c_year c_month c_doy c_hour c_minute c_iso_year c_iso_week].
  repeat split; reflexivity.
Qed.

Lemma thursday_mono d1 d2 : d1 <= d2 -> thursday d1 <= thursday d2.
Proof. unfold thursday. lia. Qed.

(* ------------------------------------------------------------ the period keys *)
Lemma lex_leb_refl_eq a : lex_leb a a = true.
Proof. induction a as [|x a IH]; [reflexivity|]. cbn [lex_leb]. rewrite IH. lia. Qed.

(* every documented period key is monotone in the local time *)
Lemma key_mono p i1 i2 o : i1 <= i2 ->
  lex_leb (key p (civil_of i1 o)) (key p (civil_of i2 o)) = true.
Proof.
  intro H.
  destruct (civ_fields i1 o) as (Y1 & M1 & D1 & H1 & N1 & IY1 & IW1).
  destruct (civ_fields i2 o) as (Y2 & M2 & D2 & H2 & N2 & IY2 & IW2).
  cbv zeta in *.
  set (c1 := civil_of i1 o) in *. set (c2 := civil_of i2 o) in *.
  set (days1 := (i1 + o) / 86400) in *. set (days2 := (i2 + o) / 86400) in *.
  set (sod1 := (i1 + o) mod 86400) in *. set (sod2 := (i2 + o) mod 86400) in *.
  assert (DM : days1 <= days2) by (subst days1 days2; lia).
  assert (SM : days1 = days2 -> sod1 <= sod2) by (subst days1 days2 sod1 sod2; lia).
  assert (S1 : 0 <= sod1 < 86400) by (subst sod1; lia).
  assert (S2 : 0 <= sod2 < 86400) by (subst sod2; lia).
  pose proof (ym_mono days1 days2 DM) as YM.
  pose proof (ym_mono _ _ (thursday_mono _ _ DM)) as TYM.
  pose proof (thursday_mono _ _ DM) as TM.
  (* same year => day of year ordered like the day number *)
  assert (DOY : c_year c1 = c_year c2 -> c_doy c1 <= c_doy c2 /\ (c_doy c1 = c_doy c2 -> days1 = days2)).
  { intro E. rewrite Y1, Y2 in E. rewrite D1, D2, E. lia. }
  assert (WK : c_iso_year c1 = c_iso_year c2 -> c_iso_week c1 <= c_iso_week c2).
  { intro E. rewrite IY1, IY2 in E. rewrite IW1, IW2, E. lia. }
  assert (HR : days1 = days2 -> c_hour c1 <= c_hour c2 /\ (c_hour c1 = c_hour c2 -> c_minute c1 <= c_minute c2)).
  { intro E. specialize (SM E). rewrite H1, H2, N1, N2. lia. }
  assert (YY : c_year c1 < c_year c2 \/ (c_year c1 = c_year c2 /\ c_month c1 <= c_month c2))
    by (rewrite Y1, Y2, M1, M2; exact YM).
  assert (IY : c_iso_year c1 <= c_iso_year c2) by (rewrite IY1, IY2; lia).
  clear Y1 Y2 M1 M2 D1 D2 H1 H2 N1 N2 IY1 IY2 IW1 IW2 YM TYM.
  destruct p; cbn [key lex_leb].
  - reflexivity.
  - (* minute *)
    destruct YY as [L|[E L]]; [lia|]. destruct (DOY E) as [Q1 Q2].
    destruct (Z.eq_dec (c_doy c1) (c_doy c2)) as [Ed|Nd]; [|lia].
    destruct (HR (Q2 Ed)) as [Q3 Q4].
    destruct (Z.eq_dec (c_hour c1) (c_hour c2)) as [Eh|Nh]; [|lia].
    specialize (Q4 Eh). lia.
  - (* hour *)
    destruct YY as [L|[E L]]; [lia|]. destruct (DOY E) as [Q1 Q2].
    destruct (Z.eq_dec (c_doy c1) (c_doy c2)) as [Ed|Nd]; [|lia].
    destruct (HR (Q2 Ed)) as [Q3 Q4]. lia.
  - (* day *)
    destruct YY as [L|[E L]]; [lia|]. destruct (DOY E) as [Q1 Q2]. lia.
  - (* week *)
    destruct (Z.eq_dec (c_iso_year c1) (c_iso_year c2)) as [E|N]; [specialize (WK E)|]; lia.
  - (* month *) lia.
  - (* quarter *) destruct YY as [L|[E L]]; [lia|]. assert ((c_month c1 - 1) / 3 <= (c_month c2 - 1) / 3) by lia. lia.
  - (* half year *) destruct YY as [L|[E L]]; [lia|]. assert ((c_month c1 - 1) / 6 <= (c_month c2 - 1) / 6) by lia. lia.
  - (* year *) lia.
Qed.

(* ------------------------------------------------------------ sorted + one offset => keys_monotone *)
Fixpoint same_offset (l : list snap) : bool :=
  match l with
  | a :: (b :: _) as t => (s_offs a =? s_offs b) && same_offset t
  | _ => true
  end.

Lemma sorted_keys_monotone_p p : forall l,
  sorted_desc l = true -> same_offset l = true -> keys_monotone_p p l = true.
Proof.
  induction l as [|a [|b l] IH]; intros S O; try reflexivity.
  cbn [sorted_desc same_offset keys_monotone_p] in *.
  apply andb_true_iff in S. destruct S as [S1 S2]. apply andb_true_iff in O. destruct O as [O1 O2].
  rewrite (IH S2 O2), andb_true_r. unfold civ.
  replace (s_offs a) with (s_offs b) by lia. apply key_mono. lia.
Qed.

Lemma sorted_keys_monotone l : sorted_desc l = true -> same_offset l = true -> keys_monotone l = true.
Proof.
  intros S O. unfold keys_monotone. apply forallb_forall. intros p _. apply sorted_keys_monotone_p; assumption.
Qed.

(* the documented reading without the premise keys_monotone *)
Theorem apply_is_documented_sorted_lemma k now l res :
  sorted_desc l = true -> same_offset l = true -> apply_sorted k now l = Some res ->
  map snap_of res = l /\ map flag res = doc_apply k now l.
Proof.
  intros S O H. apply apply_is_documented_lemma; [apply sorted_keys_monotone; assumption | assumption].
Qed.

Lemma same_offset_all l : (forall a b, In a l -> In b l -> s_offs a = s_offs b) -> same_offset l = true.
Proof.
  induction l as [|a [|b l] IH]; intro H; try reflexivity.
  change (same_offset (a :: b :: l)) with ((s_offs a =? s_offs b) && same_offset (b :: l)).
  rewrite IH by (intros; apply H; right; assumption).
  rewrite (H a b) by (simpl; auto). lia.
Qed.

(* non-vacuity: 2015-12-31 23:59:59 / 2016-01-01 00:00:00 at +05:30, both orders of keys *)
Example ex_key_mono :
  forallb (fun p => lex_leb (key p (civil_of 1451586599 19800)) (key p (civil_of 1451586600 19800))) all_periods = true
  /\ same_offset ex_list = true /\ sorted_desc ex_list = true.
Proof. repeat split; vm_compute; reflexivity. Qed.
