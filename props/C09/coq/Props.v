(* C09 — property theorems.  Nothing but statements closed by `exact`, each followed
   by Print Assumptions.  The model (Model.v) mirrors KeepOptions::apply/matches; the
   period predicates, the keep_checks rows and is_valid are regenerated from the
   source into Extracted.v on every run. *)
From Verif.Base Require Import Tactics.
From Verif.C09 Require Import Calendar ModelBase Extracted Model Spec Proofs Proofs2.
Local Open Scope Z_scope.

(* The decrementing-counter loop keeps exactly the snapshots of the declarative
   count-based reading (Spec.spec_go with the adjacency leader test), for every option
   record, every `now` and every list (sorted or not). *)
Theorem apply_meets_spec : forall k now l res,
  apply_sorted k now l = Some res ->
  map snap_of res = l /\ map flag res = adj_apply k now l.
Proof. exact apply_meets_spec_lemma. Qed.
Print Assumptions apply_meets_spec.

(* The nine predicates found in the source are the documented periods: same minute
   = same (year, day-of-year, hour, minute), same week = same (ISO year, ISO week), ... *)
Theorem source_predicates_are_documented_periods : forall p a b, eq_of p a b = same_period p a b.
Proof. exact preds_are_periods. Qed.
Print Assumptions source_predicates_are_documented_periods.

(* When period keys never increase along the list (true for lists sorted by time whose
   snapshots share a UTC offset; evaluated on every generated case), comparing with the
   previous snapshot finds exactly the newest snapshot of each period. *)
Theorem runs_are_periods : forall k now l,
  keys_monotone l = true -> adj_apply k now l = doc_apply k now l.
Proof. exact runs_are_periods_lemma. Qed.
Print Assumptions runs_are_periods.

(* Hence: kept iff a documented rule applies (doc_apply is the documented reading). *)
Theorem apply_is_documented : forall k now l res,
  keys_monotone l = true -> apply_sorted k now l = Some res ->
  map snap_of res = l /\ map flag res = doc_apply k now l.
Proof. exact apply_is_documented_lemma. Qed.
Print Assumptions apply_is_documented.

(* Raising any keep count (negative = unlimited is the top) never removes a snapshot. *)
Theorem raising_count_monotone : forall k k' now l res res',
  same_but_counts k k' ->
  apply_sorted k now l = Some res -> apply_sorted k' now l = Some res' ->
  flags_le (map flag res) (map flag res').
Proof. exact raising_count_monotone_lemma. Qed.
Print Assumptions raising_count_monotone.

(* delete-never / delete-after in the future protect; a passed delete-after removes. *)
Theorem marks_override : forall k now l res sn kp rs,
  apply_sorted k now l = Some res -> In (sn, kp, rs) res ->
  (must_keep sn now = true -> kp = true) /\
  (must_keep sn now = false -> must_delete sn now = true -> kp = false).
Proof. exact marks_override_lemma. Qed.
Print Assumptions marks_override.

(* the reasons reported at the rule stage are exactly the rules that hold *)
Theorem reasons_are_rules : forall k cs seen sn prev rest latest x,
  inv_cs k cs seen ->
  In x (fst (matches k cs sn (hd_error prev) (negb (is_nil rest)) latest)) <->
  reason_holds L_adj k latest seen prev sn rest x = true.
Proof. exact matches_reasons. Qed.
Print Assumptions reasons_are_rules.
