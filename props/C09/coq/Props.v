(* C09 — property theorems.  Nothing but statements closed by `exact`, each followed
   by Print Assumptions.  The model (Model.v) mirrors KeepOptions::apply/matches; the
   period predicates, the keep_checks rows and is_valid are regenerated from the
   source into Extracted.v on every run.  Groups.v mirrors the command level above it
   (Grouped::from_items, the sort apply does itself, the ForgetGroups functions); the group key, its equality
   and order, the order `apply` sorts by, the filter of into_forget_ids and the keep flag
   of from_snapshots are regenerated from the source as well. *)
From Verif.Base Require Import Tactics.
Require Import Coq.Sorting.Permutation.
From Verif.C09 Require Import Calendar ModelBase Extracted Model Spec Proofs Proofs2 Groups Proofs3 Proofs4 Proofs5 Proofs6.
Local Open Scope Z_scope.

(* The decrementing-counter loop keeps exactly the snapshots of the declarative
   count-based reading (Spec.spec_go with the adjacency leader test), for every option
   record, every `now` and every list (sorted or not). *)
Theorem apply_meets_spec : forall k now l res,
  apply_sorted k now l = Some res ->
  map snap_of res = l /\ map flag res = adj_apply k now l.
Proof. exact apply_meets_spec_lemma. Qed.
Print Assumptions apply_meets_spec.

(* The nine predicates found in the source are the documented periods: same minute
   = same (year, day-of-year, hour, minute), same week = same (ISO year, ISO week), ... *)
Theorem source_predicates_are_documented_periods : forall p a b, eq_of p a b = same_period p a b.
Proof. exact preds_are_periods. Qed.
Print Assumptions source_predicates_are_documented_periods.

(* When period keys never increase along the list (true for lists sorted by time whose
   snapshots share a UTC offset; evaluated on every generated case), comparing with the
   previous snapshot finds exactly the newest snapshot of each period. *)
Theorem runs_are_periods : forall k now l,
  keys_monotone l = true -> adj_apply k now l = doc_apply k now l.
Proof. exact runs_are_periods_lemma. Qed.
Print Assumptions runs_are_periods.

(* Hence: kept iff a documented rule applies (doc_apply is the documented reading). *)
Theorem apply_is_documented : forall k now l res,
  keys_monotone l = true -> apply_sorted k now l = Some res ->
  map snap_of res = l /\ map flag res = doc_apply k now l.
Proof. exact apply_is_documented_lemma. Qed.
Print Assumptions apply_is_documented.

(* Raising any keep count (negative = unlimited is the top) never removes a snapshot. *)
Theorem raising_count_monotone : forall k k' now l res res',
  same_but_counts k k' ->
  apply_sorted k now l = Some res -> apply_sorted k' now l = Some res' ->
  flags_le (map flag res) (map flag res').
Proof. exact raising_count_monotone_lemma. Qed.
Print Assumptions raising_count_monotone.

(* delete-never / delete-after in the future protect; a passed delete-after removes. *)
Theorem marks_override : forall k now l res sn kp rs,
  apply_sorted k now l = Some res -> In (sn, kp, rs) res ->
  (must_keep sn now = true -> kp = true) /\
  (must_keep sn now = false -> must_delete sn now = true -> kp = false).
Proof. exact marks_override_lemma. Qed.
Print Assumptions marks_override.

(* the reasons reported at the rule stage are exactly the rules that hold *)
Theorem reasons_are_rules : forall k cs seen sn prev rest latest x,
  inv_cs k cs seen ->
  In x (fst (matches k cs sn (hd_error prev) (negb (is_nil rest)) latest)) <->
  reason_holds L_adj k latest seen prev sn rest x = true.
Proof. exact matches_reasons. Qed.
Print Assumptions reasons_are_rules.

(* ======================================================================== calendar *)
(* Every documented period key (minute ... year, ISO week) is monotone in the instant, in
   every fixed-offset zone, for ALL instants. *)
Theorem calendar_keys_monotone : forall p i1 i2 o, i1 <= i2 ->
  lex_leb (key p (civil_of i1 o)) (key p (civil_of i2 o)) = true.
Proof. exact key_mono. Qed.
Print Assumptions calendar_keys_monotone.

(* The premise of runs_are_periods is derived: sorted by time, one UTC offset. *)
Theorem keys_monotone_derived : forall l,
  sorted_desc l = true -> same_offset l = true -> keys_monotone l = true.
Proof. exact sorted_keys_monotone. Qed.
Print Assumptions keys_monotone_derived.

Theorem apply_is_documented_sorted : forall k now l res,
  sorted_desc l = true -> same_offset l = true -> apply_sorted k now l = Some res ->
  map snap_of res = l /\ map flag res = doc_apply k now l.
Proof. exact apply_is_documented_sorted_lemma. Qed.
Print Assumptions apply_is_documented_sorted.

(* ======================================================================== command level *)
(* What was regenerated from the source is what the model assumes: `apply` sorts newest
   first; the order on group keys is a total order whose equality is equality of all four
   fields; must_keep / must_delete as modelled; from_items = sort by key + chunk_by key;
   retention = apply per group. *)
Theorem source_facts :
  (forall l, sorted_by apply_order l = sorted_desc l) /\
  ord_ok gkey_cmp /\
  (forall a b, gkey_eqb a b = true <-> a = b) /\
  (forall s now, must_keep s now = must_keep_src (s_del s) now) /\
  (forall s now, must_delete s now = must_delete_src (s_del s) now) /\
  from_items_sorts_by_group_key = true /\ retention_is_apply_per_group = true.
Proof. exact source_facts_lemma. Qed.
Print Assumptions source_facts.

(* The specification of the two unstable sorts is satisfiable (insertion sorts). *)
Theorem sort_specs_inhabited : ksort_spec ksort_stable /\ tsort_spec tsort_stable.
Proof. exact sorts_exist. Qed.
Print Assumptions sort_specs_inhabited.

(* Two snapshots have the same group key iff they agree on every field the criterion
   selects (string lists compared as sets). *)
Theorem same_group_iff : forall c a b,
  gkey c a = gkey c b <->
  (cr_host c = true -> s_host a = s_host b) /\
  (cr_label c = true -> s_label a = s_label b) /\
  (cr_paths c = true -> forall x, In x (s_paths a) <-> In x (s_paths b)) /\
  (cr_tags c = true -> forall x, In x (s_tags a) <-> In x (s_tags b)).
Proof. exact same_key_iff_lemma. Qed.
Print Assumptions same_group_iff.

(* Grouped::from_items, for every sort function that meets the specification: the groups
   are the key classes of the input, keys strictly ascending (so pairwise different), no
   group empty, every snapshot in the group of its key, nothing lost or duplicated. *)
Theorem grouping_is_partition : forall ksort, ksort_spec ksort -> forall c l,
  keys_ascending (from_items ksort c l) = true /\
  NoDup (map fst (from_items ksort c l)) /\
  Permutation (concat (map snd (from_items ksort c l))) l /\
  (forall g items, In (g, items) (from_items ksort c l) ->
     items <> [] /\ items = filter (keyis c g) (ksort c l) /\ Permutation items (own_group c l g)) /\
  (forall s, In s l -> exists items, In (gkey c s, items) (from_items ksort c l) /\ In s items) /\
  map fst (from_items ksort c l) = group_keys c l.
Proof. exact grouping_is_partition_lemma. Qed.
Print Assumptions grouping_is_partition.

(* With a stable sort the members of a group appear in input order. *)
Theorem stable_grouping_keeps_input_order : forall c l g items,
  In (g, items) (from_items ksort_stable c l) -> items = own_group c l g.
Proof. exact stable_grouping_lemma. Qed.
Print Assumptions stable_grouping_keeps_input_order.

(* The sort `apply` does itself: any two results show the same sequence of times; they
   can differ only in the arrangement of snapshots with equal times, and not at all when
   the times are pairwise distinct. *)
Theorem time_sort_determined : forall l1 l2,
  Permutation l1 l2 -> sorted_desc l1 = true -> sorted_desc l2 = true ->
  map s_inst l1 = map s_inst l2 /\ (NoDup (map s_inst l1) -> l1 = l2).
Proof. exact time_sort_determined_lemma. Qed.
Print Assumptions time_sort_determined.

(* The order in which the loop of `apply` walks group g: a newest-first permutation of the
   snapshots of the input that carry key g; the stable one when their times are distinct. *)
Theorem arrangement_is_own_group_newest_first : forall ksort tsort, ksort_spec ksort -> tsort_spec tsort ->
  forall c l g,
  Permutation (own_group c l g) (arrangement ksort tsort c l g) /\
  sorted_desc (arrangement ksort tsort c l g) = true /\
  (NoDup (map s_inst (own_group c l g)) -> arrangement ksort tsort c l g = tsort_stable (own_group c l g)).
Proof. exact arrangement_lemma. Qed.
Print Assumptions arrangement_is_own_group_newest_first.

(* into_forget_ids returns exactly the ids of the snapshots that the retention loop, run on
   the snapshot's own group, does not keep. *)
Theorem forget_ids_exact : forall ksort tsort, ksort_spec ksort -> tsort_spec tsort ->
  forall c k now l ids,
  forget ksort tsort c k now l = Some ids ->
  forall i, In i ids <->
    exists s res rs, In s l /\ s_id s = i /\
      apply_sorted k now (arrangement ksort tsort c l (gkey c s)) = Some res /\ In (s, false, rs) res.
Proof. exact forget_ids_exact_thm. Qed.
Print Assumptions forget_ids_exact.

(* ... and, when the snapshots of one group share a UTC offset, exactly the snapshots the
   documented rules (doc_apply: newest of the newest N periods of the group, keep-within,
   tags, ids, delete marks) remove from that group. *)
Theorem forget_ids_documented : forall ksort tsort, ksort_spec ksort -> tsort_spec tsort ->
  forall c k now l ids,
  forget ksort tsort c k now l = Some ids ->
  (forall a b, In a l -> In b l -> gkey c a = gkey c b -> s_offs a = s_offs b) ->
  forall i, In i ids <->
    exists s, In s l /\ s_id s = i /\
      In (s, false) (combine (arrangement ksort tsort c l (gkey c s))
                             (doc_apply k now (arrangement ksort tsort c l (gkey c s)))).
Proof. exact forget_ids_documented_thm. Qed.
Print Assumptions forget_ids_documented.

(* Every snapshot is either reported for removal or kept, never both, none lost; with
   distinct ids every id is returned at most once. *)
Theorem forget_partition : forall ksort tsort, ksort_spec ksort -> tsort_spec tsort ->
  forall c k now l fgs,
  forget_groups ksort tsort c k now l = Some fgs ->
  into_forget_ids fgs = map s_id (flat_map (fun fg : fgroup => removed_of (snd fg)) fgs) /\
  Permutation (flat_map (fun fg : fgroup => removed_of (snd fg)) fgs ++
               flat_map (fun fg : fgroup => kept_of (snd fg)) fgs) l /\
  (NoDup (map s_id l) -> NoDup (into_forget_ids fgs)).
Proof. exact forget_partition_thm. Qed.
Print Assumptions forget_partition.

(* The entry of key g is apply on g's own arrangement; with distinct times inside every
   group the whole result is the sort-free reading forget_groups_spec, whatever the sorts. *)
Theorem forget_decision_is_local : forall ksort tsort, ksort_spec ksort -> tsort_spec tsort ->
  forall c k now l,
  (forall fgs, forget_groups ksort tsort c k now l = Some fgs ->
     map fst fgs = group_keys c l /\
     forall g res, In (g, res) fgs <->
       In g (group_keys c l) /\ apply_sorted k now (arrangement ksort tsort c l g) = Some res) /\
  ((forall g, NoDup (map s_inst (own_group c l g))) ->
     forget_groups ksort tsort c k now l = forget_groups_spec c k now l).
Proof. exact forget_local_thm. Qed.
Print Assumptions forget_decision_is_local.

(* Adding snapshots of other groups changes nothing for group g. *)
Theorem others_do_not_matter : forall c k now l extra f1 f2 g,
  forget_groups_spec c k now l = Some f1 -> forget_groups_spec c k now (l ++ extra) = Some f2 ->
  Forall (fun s => gkey c s <> g) extra ->
  forall res, In (g, res) f1 <-> In (g, res) f2.
Proof. exact others_do_not_matter_thm. Qed.
Print Assumptions others_do_not_matter.

(* The command fails iff no keep option is given and there is a snapshot. *)
Theorem forget_errors_iff : forall ksort tsort, ksort_spec ksort -> forall c k now l,
  forget_groups ksort tsort c k now l = None <-> is_valid k = false /\ l <> [].
Proof. exact forget_errors_thm. Qed.
Print Assumptions forget_errors_iff.

(* "forget by explicit ids": one default group in input order; kept = delete-never or
   delete-after not yet passed; everything else is returned. *)
Theorem from_snapshots_keeps_marked : forall now l,
  from_snapshots now l =
    [ (default_key, map (fun s => (s, must_keep s now, if must_keep s now then FSnapshot else FIfArgument)) l) ] /\
  from_snapshots_forget_ids now l = map s_id (filter (fun s => negb (must_keep s now)) l) /\
  (forall s, must_keep s now = true <-> s_del s = DNever \/ exists t, s_del s = DAfter t /\ now <= t).
Proof. exact from_snapshots_thm. Qed.
Print Assumptions from_snapshots_keeps_marked.

(* Raising any keep count never adds an id to the list returned by the command. *)
Theorem forget_raising_count_monotone : forall ksort tsort, ksort_spec ksort -> tsort_spec tsort ->
  forall c k k' now l ids ids',
  same_but_counts k k' ->
  forget ksort tsort c k now l = Some ids -> forget ksort tsort c k' now l = Some ids' ->
  forall i, In i ids' -> In i ids.
Proof. exact forget_raising_count_thm. Qed.
Print Assumptions forget_raising_count_monotone.
