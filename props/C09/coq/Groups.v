(* C09 — executable model of the command level above KeepOptions::apply:
   Grouped::from_items (grouping.rs), the sort KeepOptions::apply does itself,
   ForgetGroups::from_grouped_snapshots_with_retention / from_snapshots /
   into_forget_ids (commands/forget.rs).  Definitions only.

   The group key (`gkey`), its equality and order (`gkey_eqb`, `gkey_cmp`), the order
   `apply` sorts by (`apply_order`), the filter of `into_forget_ids` (`forget_pick`) and
   the keep flag of `from_snapshots` (`from_snapshots_keep`) come from Extracted.v, i.e.
   from the current source.

   The two sorts of the code are unstable (`sort_unstable_by_key`, `sort_unstable_by`):
   deterministic functions of their input of which only "a permutation of the input that
   is sorted" is known.  They enter as parameters `ksort` / `tsort` of the pipeline; the
   theorems quantify over every pair of functions with that specification.  `ksort_stable`
   and `tsort_stable` (insertion sorts) are one instance, used to run the model. *)
From Verif.Base Require Import Tactics.
From Verif.C09 Require Import Calendar ModelBase Extracted Model.
Local Open Scope Z_scope.

Definition not_gt (c : comparison) : bool := match c with Gt => false | _ => true end.

(* sorted w.r.t. a three-way comparison: no adjacent pair is out of order *)
Fixpoint sorted_by {A} (cmp : A -> A -> comparison) (l : list A) : bool :=
  match l with
  | a :: (b :: _) as t => not_gt (cmp a b) && sorted_by cmp t
  | _ => true
  end.

(* stable insertion sort: x goes before the first element that is not smaller *)
Fixpoint insert_by {A} (cmp : A -> A -> comparison) (x : A) (l : list A) : list A :=
  match l with
  | [] => [x]
  | y :: t => if not_gt (cmp x y) then x :: l else y :: insert_by cmp x t
  end.
Definition sort_by {A} (cmp : A -> A -> comparison) (l : list A) : list A :=
  fold_right (insert_by cmp) [] l.

(* ---------------------------------------------------------------- Grouped::from_items *)
Definition key_order (c : crit) (a b : snap) : comparison := gkey_cmp (gkey c a) (gkey c b).
Definition key_sorted (c : crit) (l : list snap) : bool := sorted_by (key_order c) l.
Definition keyis (c : crit) (g : gkeyT) (s : snap) : bool := gkey_eqb (gkey c s) g.

Definition group := (gkeyT * list snap)%type.

(* itertools `chunk_by`: maximal runs of consecutive items with equal (`==`) key *)
Fixpoint chunk_by (c : crit) (l : list snap) : list group :=
  match l with
  | [] => []
  | s :: t =>
      match chunk_by c t with
      | (g, items) :: gs =>
          if gkey_eqb (gkey c s) g then (g, s :: items) :: gs
          else (gkey c s, [s]) :: (g, items) :: gs
      | [] => [(gkey c s, [s])]
      end
  end.

Definition ksort_stable (c : crit) (l : list snap) : list snap := sort_by (key_order c) l.
Definition tsort_stable (l : list snap) : list snap := sort_by apply_order l.

(* ---------------------------------------------------------------- ForgetGroups *)
Definition fsnap := (snap * bool * list reason)%type.
Definition fgroup := (gkeyT * list fsnap)%type.

Definition fs_keep (e : fsnap) : bool := snd (fst e).
Definition fs_snap (e : fsnap) : snap := fst (fst e).

Fixpoint filter_map {A B} (f : A -> option B) (l : list A) : list B :=
  match l with
  | [] => []
  | x :: t => match f x with Some y => y :: filter_map f t | None => filter_map f t end
  end.

(* `.collect::<RusticResult<_>>()`: the first error wins *)
Fixpoint traverse {A B} (f : A -> option B) (l : list A) : option (list B) :=
  match l with
  | [] => Some []
  | x :: t => match f x with
              | None => None
              | Some y => match traverse f t with Some r => Some (y :: r) | None => None end
              end
  end.

(* generic in the type of the reasons: used for both constructors of ForgetGroups *)
Definition into_forget_ids {R} (fgs : list (gkeyT * list (snap * bool * R))) : list (list N) :=
  flat_map (fun fg : gkeyT * list (snap * bool * R) =>
              filter_map (fun e : snap * bool * R => forget_pick (snd (fst e)) (s_id (fst (fst e)))) (snd fg)) fgs.

(* the default SnapshotGroup: no field set *)
Definition default_key : gkeyT := {| gk_host := None; gk_label := None; gk_paths := None; gk_tags := None |}.

(* ForgetGroups::from_snapshots; the two reason strings are "snapshot" / "if argument" *)
Inductive freason := FSnapshot | FIfArgument.
Definition from_snapshots (now : Z) (l : list snap) : list (gkeyT * list (snap * bool * freason)) :=
  [ (default_key,
     map (fun s => let kp := from_snapshots_keep (must_keep s now) (must_delete s now) in
                   (s, kp, if kp then FSnapshot else FIfArgument)) l) ].
Definition from_snapshots_forget_ids (now : Z) (l : list snap) : list (list N) :=
  into_forget_ids (from_snapshots now l).

Section Pipeline.
  Variable ksort : crit -> list snap -> list snap.   (* items.sort_unstable_by_key(get_group) *)
  Variable tsort : list snap -> list snap.           (* snapshots.sort_unstable_by(cmp.reverse()) *)

  Definition from_items (c : crit) (l : list snap) : list group := chunk_by c (ksort c l).

  (* KeepOptions::apply including its own sort *)
  Definition apply (k : keep) (now : Z) (l : list snap) : option (list fsnap) :=
    apply_sorted k now (tsort l).

  Definition with_retention (k : keep) (now : Z) (gs : list group) : option (list fgroup) :=
    traverse (fun g : group => match apply k now (snd g) with
                               | Some r => Some (fst g, r) | None => None end) gs.

  (* the `forget` command on a list of snapshots: group, apply, collect *)
  Definition forget_groups (c : crit) (k : keep) (now : Z) (l : list snap) : option (list fgroup) :=
    with_retention k now (from_items c l).
  Definition forget (c : crit) (k : keep) (now : Z) (l : list snap) : option (list (list N)) :=
    match forget_groups c k now l with Some fgs => Some (into_forget_ids fgs) | None => None end.
End Pipeline.

(* ---------------------------------------------------------------- sort-free reading *)
(* the distinct group keys of the input, ascending *)
Definition group_keys (c : crit) (l : list snap) : list gkeyT := map fst (chunk_by c (ksort_stable c l)).
(* the snapshots of the input that carry key g, in input order *)
Definition own_group (c : crit) (l : list snap) (g : gkeyT) : list snap := filter (keyis c g) l.
(* per key: the retention rules on the group's own snapshots, newest first *)
Definition forget_groups_spec (c : crit) (k : keep) (now : Z) (l : list snap) : option (list fgroup) :=
  traverse (fun g => match apply_sorted k now (tsort_stable (own_group c l g)) with
                     | Some r => Some (g, r) | None => None end) (group_keys c l).

(* the runnable instance *)
Definition forget_groups_exec := forget_groups ksort_stable tsort_stable.
Definition forget_exec := forget ksort_stable tsort_stable.

(* what the correspondence check runs on the arrangement the implementation produced:
   `arr` = the items of all groups in the implementation's order before `apply` is not
   observable, so the check passes, per group, the order after apply's sort. *)
Definition apply_groups_sorted (k : keep) (now : Z) (gs : list group) : option (list fgroup) :=
  traverse (fun g : group => match apply_sorted k now (snd g) with
                             | Some r => Some (fst g, r) | None => None end) gs.

(* executable checks of the specification of the two sorts on an observed arrangement *)
Fixpoint keys_ascending (gs : list group) : bool :=
  match gs with
  | a :: (b :: _) as t => match gkey_cmp (fst a) (fst b) with Lt => keys_ascending t | _ => false end
  | _ => true
  end.
Definition group_wf (c : crit) (g : group) : bool :=
  negb (is_nil (snd g)) && forallb (keyis c (fst g)) (snd g) && sorted_by apply_order (snd g).
Definition grouping_wf (c : crit) (gs : list group) : bool := keys_ascending gs && forallb (group_wf c) gs.
