(* C09 — lemmas, part 2: the source's period predicates are the documented periods;
   on lists whose period keys are monotone the adjacency test finds exactly the newest
   snapshot of each period; raising a count never removes; delete marks override. *)
From Verif.Base Require Import Tactics.
From Verif.C09 Require Import Calendar ModelBase Extracted Model Spec Proofs.
Local Open Scope Z_scope.

(* ------------------------------------------- predicates of the source = documented keys *)
Lemma preds_are_periods p a b : eq_of p a b = same_period p a b.
Proof.
  destruct p; cbv [eq_of find row_table rd_p rd_eq period_eqb same_period key zlist_eqb
                   always_false equal_year equal_half_year equal_quarter_year equal_month equal_week
                   equal_day equal_hour equal_minute];
    try reflexivity;
    repeat match goal with |- context [?x =? ?y] => destruct (x =? y) end; reflexivity.
Qed.

(* ------------------------------------------------------------ lexicographic keys *)
Lemma lex_leb_trans : forall a b c, lex_leb a b = true -> lex_leb b c = true -> lex_leb a c = true.
Proof.
  induction a as [|x a IH]; intros b c H1 H2; [reflexivity|].
  destruct b as [|y b]; [discriminate|]. destruct c as [|z c]; [discriminate|].
  cbn [lex_leb] in *.
  apply orb_true_iff in H1. apply orb_true_iff in H2. apply orb_true_iff.
  destruct H1 as [H1|H1], H2 as [H2|H2]; try (apply andb_true_iff in H1; destruct H1 as [H1 H1']);
    try (apply andb_true_iff in H2; destruct H2 as [H2 H2']).
  - left. lia.
  - left. lia.
  - left. lia.
  - right. apply andb_true_iff. split; [lia|]. eapply IH; eassumption.
Qed.

Lemma lex_sandwich : forall a b c,
  lex_leb a b = true -> lex_leb b c = true -> zlist_eqb a c = true -> zlist_eqb a b = true.
Proof.
  induction a as [|x a IH]; intros b c H1 H2 H3.
  - destruct c; [|discriminate]. destruct b; [reflexivity|discriminate].
  - destruct c as [|z c]; [discriminate|]. destruct b as [|y b]; [discriminate|].
    cbn [lex_leb zlist_eqb] in *.
    apply andb_true_iff in H3. destruct H3 as [H3 H3'].
    apply orb_true_iff in H1. apply orb_true_iff in H2.
    destruct H1 as [H1|H1], H2 as [H2|H2]; try (apply andb_true_iff in H1; destruct H1 as [H1 H1']);
      try (apply andb_true_iff in H2; destruct H2 as [H2 H2']); try lia.
    apply andb_true_iff. split; [lia|]. eapply IH; eassumption.
Qed.

(* prev is the walked part, nearest first: keys never decrease going back *)
Fixpoint mono_prev (p : period) (x : snap) (prev : list snap) : bool :=
  match prev with
  | [] => true
  | o :: prev' => lex_leb (key p (civ x)) (key p (civ o)) && mono_prev p o prev'
  end.

Lemma mono_prev_all p : forall prev x o,
  mono_prev p x prev = true -> In o prev -> lex_leb (key p (civ x)) (key p (civ o)) = true.
Proof.
  induction prev as [|o' prev IH]; intros x o M Hin; [inversion Hin|].
  cbn [mono_prev] in M. apply andb_true_iff in M. destruct M as [M1 M2].
  destruct Hin as [->|Hin]; [assumption|].
  eapply lex_leb_trans; [exact M1|]. apply IH; assumption.
Qed.

Lemma same_period_key p a b : p <> PLast -> same_period p a b = zlist_eqb (key p a) (key p b).
Proof. destruct p; intro H; try reflexivity. contradiction. Qed.

Lemma leaders_agree p prev sn rest :
  mono_prev p sn prev = true -> L_adj p prev sn rest = L_doc p prev sn rest.
Proof.
  intro M. unfold L_adj, L_doc, cond. rewrite negb_involutive. f_equal.
  destruct prev as [|o prev']; [reflexivity|].
  cbn [hd_error existsb]. rewrite preds_are_periods.
  destruct (same_period p (civ sn) (civ o)) eqn:S; [reflexivity|].
  cbn [orb negb]. symmetry. apply negb_true_iff. apply not_true_is_false. intro H.
  apply existsb_exists in H. destruct H as [o2 [Hin Ho2]].
  destruct p; try (cbn [same_period] in Ho2; discriminate);
    rewrite same_period_key in S, Ho2 by discriminate;
    cbn [mono_prev] in M; apply andb_true_iff in M; destruct M as [M1 M2];
    (rewrite (lex_sandwich _ _ _ M1 (mono_prev_all _ _ _ _ M2 Hin) Ho2) in S; discriminate).
Qed.

Lemma spec_keep_ext L L' k now latest seen seen' prev sn rest :
  (forall p, seen p = seen' p) -> (forall p, L p prev sn rest = L' p prev sn rest) ->
  spec_keep L k now latest seen prev sn rest = spec_keep L' k now latest seen' prev sn rest.
Proof.
  intros Hs HL. unfold spec_keep. destruct (stage_of k now sn rest); try reflexivity.
  unfold rules_keep. apply existsb_ext_local. intros r _.
  destruct r as [| |p|p| |]; cbn [reason_holds]; try reflexivity.
  - rewrite HL, Hs. reflexivity.
  - rewrite HL. reflexivity.
Qed.

Lemma spec_go_adj_doc k now latest : forall l seen seen' prev,
  (forall p, seen p = seen' p) ->
  (forall p, keys_monotone_p p l = true) ->
  (forall p, match l with sn :: _ => mono_prev p sn prev = true | [] => True end) ->
  spec_go L_adj k now latest seen prev l = spec_go L_doc k now latest seen' prev l.
Proof.
  induction l as [|sn rest IH]; intros seen seen' prev Hs HM HP; [reflexivity|].
  cbn [spec_go]. f_equal.
  - apply spec_keep_ext; [assumption|]. intro p. apply leaders_agree. apply HP.
  - apply IH.
    + intro p. rewrite !bump_ext, Hs. rewrite (leaders_agree p prev sn rest (HP p)). reflexivity.
    + intro p. specialize (HM p). cbn [keys_monotone_p] in HM. destruct rest as [|b rest']; [reflexivity|].
      apply andb_true_iff in HM. apply HM.
    + intro p. destruct rest as [|b rest']; [exact I|].
      cbn [mono_prev]. specialize (HM p). cbn [keys_monotone_p] in HM.
      apply andb_true_iff in HM. destruct HM as [HM _]. rewrite HM. apply HP.
Qed.

Lemma keys_monotone_all l : keys_monotone l = true -> forall p, keys_monotone_p p l = true.
Proof.
  unfold keys_monotone. intros H p. rewrite forallb_forall in H. apply H.
  destruct p; simpl; tauto.
Qed.

Theorem runs_are_periods_lemma k now l :
  keys_monotone l = true -> adj_apply k now l = doc_apply k now l.
Proof.
  intro H. unfold adj_apply, doc_apply. destruct l as [|s0 l']; [reflexivity|].
  apply spec_go_adj_doc; [reflexivity | apply keys_monotone_all; assumption | reflexivity].
Qed.

Theorem apply_is_documented_lemma k now l res :
  keys_monotone l = true -> apply_sorted k now l = Some res ->
  map snap_of res = l /\ map flag res = doc_apply k now l.
Proof.
  intros M H. apply apply_meets_spec_lemma in H. destruct H as [H1 H2].
  split; [assumption|]. rewrite H2. apply runs_are_periods_lemma. assumption.
Qed.

(* ------------------------------------------------------------ raising a count *)
Definition raised (c c' : option Z) : Prop :=
  match c, c' with
  | None, _ => True
  | Some n, Some n' => n' < 0 \/ (0 <= n /\ n <= n')
  | Some _, None => False
  end.

Definition same_but_counts (k k' : keep) : Prop :=
  k_within k' = k_within k /\ k_tags k' = k_tags k /\ k_ids k' = k_ids k /\
  k_delete_unchanged k' = k_delete_unchanged k /\ forall p, raised (k_count k p) (k_count k' p).

Definition flags_le (a b : list bool) : Prop := Forall2 (fun x y => x = true -> y = true) a b.

Lemma stage_of_same k k' now sn rest :
  k_delete_unchanged k' = k_delete_unchanged k -> stage_of k' now sn rest = stage_of k now sn rest.
Proof. intro H. unfold stage_of. rewrite H. reflexivity. Qed.

Lemma spec_go_raise L k k' now latest : same_but_counts k k' -> forall l seen prev,
  (forall p, 0 <= seen p) ->
  flags_le (spec_go L k now latest seen prev l) (spec_go L k' now latest seen prev l).
Proof.
  intros (Hw & Ht & Hi & Hd & Hc). induction l as [|sn rest IH]; intros seen prev Hs; [constructor|].
  cbn [spec_go]. constructor.
  - unfold spec_keep. rewrite (stage_of_same k k') by assumption.
    destruct (stage_of k now sn rest); auto.
    unfold rules_keep. intro H. apply existsb_exists in H. destruct H as [r [Hin Hr]].
    apply existsb_exists. exists r. split; [assumption|].
    destruct r as [| |p|p| |]; cbn [reason_holds] in *; try discriminate.
    + rewrite Hi. assumption.
    + rewrite Ht. assumption.
    + apply andb_true_iff in Hr. destruct Hr as [Hl Hn]. rewrite Hl. cbn [andb].
      specialize (Hc p). specialize (Hs p). unfold raised in Hc.
      destruct (k_count k p) as [n|]; [|discriminate].
      destruct (k_count k' p) as [n'|]; [|contradiction]. lia.
    + rewrite Hw. assumption.
  - assert (E : forall p, bump L k' now seen prev sn rest p = bump L k now seen prev sn rest p).
    { intro p. rewrite !bump_ext. rewrite (stage_of_same k k') by assumption. reflexivity. }
    assert (G : forall s s', (forall p, s p = s' p) -> forall pv ll,
               spec_go L k' now latest s pv ll = spec_go L k' now latest s' pv ll).
    { intros s s' Hss pv ll. revert s s' Hss pv. induction ll as [|a ll IHl]; intros s s' Hss pv; [reflexivity|].
      cbn [spec_go]. f_equal.
      - apply spec_keep_ext; [assumption | reflexivity].
      - apply IHl. intro p. rewrite !bump_ext, Hss. reflexivity. }
    rewrite (G _ _ E). apply IH. intro p. rewrite bump_ext. specialize (Hs p).
    destruct (is_rules _ && L p prev sn rest); lia.
Qed.

Theorem raising_count_monotone_lemma k k' now l res res' :
  same_but_counts k k' ->
  apply_sorted k now l = Some res -> apply_sorted k' now l = Some res' ->
  flags_le (map flag res) (map flag res').
Proof.
  intros S H H'. apply apply_meets_spec_lemma in H. apply apply_meets_spec_lemma in H'.
  destruct H as [_ ->]. destruct H' as [_ ->].
  unfold adj_apply. destruct l as [|s0 l']; [constructor|].
  apply spec_go_raise; [assumption | intro; lia].
Qed.

(* ------------------------------------------------------------ delete marks override *)
Lemma go_marks k now latest : forall l cs last sn kp rs,
  In (sn, kp, rs) (go k now latest cs last l) ->
  (must_keep sn now = true -> kp = true) /\
  (must_keep sn now = false -> must_delete sn now = true -> kp = false).
Proof.
  induction l as [|a rest IH]; intros cs last sn kp rs Hin; [inversion Hin|].
  cbn [go] in Hin. unfold stage_of in Hin.
  destruct (must_keep a now) eqn:MK.
  - destruct Hin as [Hin|Hin]; [inv Hin; split; [reflexivity | congruence] | eapply IH; exact Hin].
  - destruct (must_delete a now) eqn:MD.
    + destruct Hin as [Hin|Hin]; [inv Hin; split; [congruence | reflexivity] | eapply IH; exact Hin].
    + destruct (k_delete_unchanged k && next_same_tree a rest).
      * destruct Hin as [Hin|Hin]; [inv Hin; split; congruence | eapply IH; exact Hin].
      * destruct (matches k cs a last (negb (is_nil rest)) latest) as [rs' cs'].
        destruct Hin as [Hin|Hin]; [inv Hin; split; congruence | eapply IH; exact Hin].
Qed.

Theorem marks_override_lemma k now l res sn kp rs :
  apply_sorted k now l = Some res -> In (sn, kp, rs) res ->
  (must_keep sn now = true -> kp = true) /\
  (must_keep sn now = false -> must_delete sn now = true -> kp = false).
Proof.
  unfold apply_sorted. destruct (negb (is_valid k)); [discriminate|].
  destruct l as [|s0 l']; intros H Hin; injection H as <-; [inversion Hin|].
  exact (go_marks k now (s_inst s0) (s0 :: l') (k_count k) None sn kp rs Hin).
Qed.

(* reasons of the model are exactly the rules that hold (adjacency reading) *)
Lemma go_reasons k now latest : forall l cs seen prev pre sn rest e,
  inv_cs k cs seen ->
  l = pre ++ sn :: rest ->
  nth_error (go k now latest cs (hd_error prev) l) (length pre) = Some e ->
  snap_of e = sn.
Proof.
  intros l cs seen prev pre sn rest e _ -> H.
  pose proof (go_snaps k now latest (pre ++ sn :: rest) cs (hd_error prev)) as G.
  apply (f_equal (fun x => nth_error x (length pre))) in G.
  rewrite nth_error_map, H in G. cbn in G.
  rewrite nth_error_app2 in G by lia. rewrite Nat.sub_diag in G. cbn in G. congruence.
Qed.

(* ------------------------------------------------------------ non-vacuity *)
Definition mk_snap (inst : Z) (id : N) : snap :=
  {| s_inst := inst; s_offs := 0; s_id := [id]; s_tags := []; s_del := DNotSet; s_tree := id; s_host := 0; s_label := 0; s_paths := [] |}.
Definition ex_keep : keep :=
  {| k_count := fun p => match p with PMinute => Some 2 | PWeek => Some 2 | _ => None end;
     k_within := fun _ => None; k_tags := []; k_ids := []; k_none := false; k_delete_unchanged := false |}.
(* 2014-09-03/02/01 10:20:30 UTC, newest first: three different minutes *)
Definition ex_list := [mk_snap 1409739630 3; mk_snap 1409653230 2; mk_snap 1409566830 1].
Example ex_premises : keys_monotone ex_list = true /\ sorted_desc ex_list = true /\
  exists res, apply_sorted ex_keep 1500000000 ex_list = Some res /\ map flag res = [true; true; true].
Proof. split; [vm_compute; reflexivity|]. split; [vm_compute; reflexivity|]. eexists. split; vm_compute; reflexivity. Qed.
(* 2016-01-01, 2015-12-31 (same ISO week 2015-W53), 2015-12-20 *)
Definition ex_week := [mk_snap 1451606400 3; mk_snap 1451520000 2; mk_snap 1450569600 1].
Definition ex_keep_w : keep :=
  {| k_count := fun p => match p with PWeek => Some 2 | _ => None end;
     k_within := fun _ => None; k_tags := []; k_ids := []; k_none := false; k_delete_unchanged := false |}.
Example ex_week_ok : doc_apply ex_keep_w 1500000000 ex_week = [true; false; true]
  /\ exists res, apply_sorted ex_keep_w 1500000000 ex_week = Some res /\ map flag res = [true; false; true].
Proof. split; [vm_compute; reflexivity|]. eexists. split; vm_compute; reflexivity. Qed.
