(* C09 — civil calendar arithmetic used by the retention rules.
   Executable definitions only.  Instants are whole seconds since the Unix epoch,
   zones are fixed UTC offsets in seconds (jiff `TimeZone::fixed`).  The functions
   are validated against jiff by the correspondence check (`c09 cal`). *)
From Verif.Base Require Import Tactics.
Local Open Scope Z_scope.

(* Howard Hinnant's days_from_civil / civil_from_days on Z (floor division). *)
Definition days_from_civil (y m d : Z) : Z :=
  let y' := if m <=? 2 then y - 1 else y in
  let era := y' / 400 in
  let yoe := y' - era * 400 in
  let mp := if 2 <? m then m - 3 else m + 9 in
  let doy := (153 * mp + 2) / 5 + d - 1 in
  let doe := yoe * 365 + yoe / 4 - yoe / 100 + doy in
  era * 146097 + doe - 719468.

Definition civil_from_days (z0 : Z) : Z * Z * Z :=
  let z := z0 + 719468 in
  let era := z / 146097 in
  let doe := z - era * 146097 in
  let yoe := (doe - doe / 1460 + doe / 36524 - doe / 146096) / 365 in
  let y := yoe + era * 400 in
  let doy := doe - (365 * yoe + yoe / 4 - yoe / 100) in
  let mp := (5 * doy + 2) / 153 in
  let d := doy - (153 * mp + 2) / 5 + 1 in
  let m := if mp <? 10 then mp + 3 else mp - 9 in
  ((if m <=? 2 then y + 1 else y), m, d).

Definition is_leap (y : Z) : bool :=
  ((y mod 4 =? 0) && negb (y mod 100 =? 0)) || (y mod 400 =? 0).

Definition days_in_month (y m : Z) : Z :=
  if m =? 2 then (if is_leap y then 29 else 28)
  else if (m =? 4) || (m =? 6) || (m =? 9) || (m =? 11) then 30 else 31.

(* The civil fields the keep rules look at. *)
Record civil := {
  c_year : Z; c_month : Z; c_day : Z; c_doy : Z; c_hour : Z; c_minute : Z;
  c_iso_year : Z; c_iso_week : Z
}.

Definition civil_of (inst offs : Z) : civil :=
  let loc := inst + offs in
  let days := loc / 86400 in
  let sod := loc mod 86400 in
  let '(y, m, d) := civil_from_days days in
  let doy := days - days_from_civil y 1 1 + 1 in
  (* ISO: Monday = 1 .. Sunday = 7; 1970-01-01 was a Thursday *)
  let wd := (days + 3) mod 7 + 1 in
  let thu := days - (wd - 1) + 3 in
  let '(iy, _, _) := civil_from_days thu in
  let iw := (thu - days_from_civil iy 1 1) / 7 + 1 in
  {| c_year := y; c_month := m; c_day := d; c_doy := doy;
     c_hour := sod / 3600; c_minute := (sod mod 3600) / 60;
     c_iso_year := iy; c_iso_week := iw |}.

(* jiff spans: calendar units act on the civil date (years and months first, day
   clamped to the month's length, then weeks and days), the clock units on the
   instant. *)
Record span := { sp_y : Z; sp_mo : Z; sp_w : Z; sp_d : Z; sp_h : Z; sp_mi : Z; sp_s : Z }.

Definition add_span (inst offs : Z) (sp : span) : Z :=
  let tsec := sp_h sp * 3600 + sp_mi sp * 60 + sp_s sp in
  if (sp_y sp =? 0) && (sp_mo sp =? 0) && (sp_w sp =? 0) && (sp_d sp =? 0) then inst + tsec
  else
    let loc := inst + offs in
    let days := loc / 86400 in
    let sod := loc mod 86400 in
    let '(y, m, d) := civil_from_days days in
    let mt := y * 12 + (m - 1) + sp_y sp * 12 + sp_mo sp in
    let y' := mt / 12 in
    let m' := mt mod 12 + 1 in
    let d' := Z.min d (days_in_month y' m') in
    let days' := days_from_civil y' m' d' + sp_w sp * 7 + sp_d sp in
    days' * 86400 + sod - offs + tsec.
