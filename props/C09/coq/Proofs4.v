(* C09 — lemmas, part 4: chunk_by on a key-sorted list; the forget pipeline
   (from_items, apply with its own sort, from_grouped_snapshots_with_retention,
   into_forget_ids, from_snapshots) for every pair of sort functions that meet their
   specification. *)
From Verif.Base Require Import Tactics.
Require Import Coq.Sorting.Permutation.
From Verif.C09 Require Import Calendar ModelBase Extracted Model Spec Proofs Proofs2 Groups Proofs3.
Local Open Scope Z_scope.

(* ------------------------------------------------------------ small list facts *)
Lemma filter_all_true {A} (f : A -> bool) l : Forall (fun x => f x = true) l -> filter f l = l.
Proof. induction 1; simpl; [reflexivity|]. rewrite H, IHForall. reflexivity. Qed.
Lemma filter_all_false {A} (f : A -> bool) l : Forall (fun x => f x = false) l -> filter f l = [].
Proof. induction 1; simpl; [reflexivity|]. rewrite H, IHForall. reflexivity. Qed.

Lemma filter_map_in {A B} (f : A -> option B) l y :
  In y (filter_map f l) <-> exists x, In x l /\ f x = Some y.
Proof.
  induction l as [|a l IH]; simpl.
  - split; [tauto | intros [x [[] _]]].
  - destruct (f a) as [b|] eqn:E; simpl; rewrite IH; split.
    + intros [<-|[x [H1 H2]]]; [exists a; auto | exists x; auto].
    + intros [x [[<-|H1] H2]]; [left; congruence | right; exists x; auto].
    + intros [x [H1 H2]]. exists x. auto.
    + intros [x [[<-|H1] H2]]; [congruence | exists x; auto].
Qed.

Lemma traverse_some {A B} (f : A -> option B) l : forall r,
  traverse f l = Some r -> Forall2 (fun x y => f x = Some y) l r.
Proof.
  induction l as [|a l IH]; simpl; intros r H.
  - injection H as <-. constructor.
  - destruct (f a) as [b|] eqn:E; [|discriminate].
    destruct (traverse f l) as [r'|]; [|discriminate]. injection H as <-. constructor; auto.
Qed.

Lemma traverse_none {A B} (f : A -> option B) l :
  traverse f l = None <-> exists x, In x l /\ f x = None.
Proof.
  induction l as [|a l IH]; simpl.
  - split; [discriminate | intros [x [[] _]]].
  - destruct (f a) as [b|] eqn:E.
    + destruct (traverse f l) as [r'|].
      * split; [discriminate|]. intros [x [[<-|H1] H2]]; [congruence|].
        assert (HH : exists x, In x l /\ f x = None) by (exists x; auto). apply IH in HH. discriminate.
      * split; [|reflexivity]. intros _. destruct (proj1 IH eq_refl) as [x [H1 H2]]. exists x. auto.
    + split; [|reflexivity]. intros _. exists a. auto.
Qed.

Lemma traverse_ext {A B} (f g : A -> option B) l :
  (forall x, In x l -> f x = g x) -> traverse f l = traverse g l.
Proof.
  induction l as [|a l IH]; intro H; simpl; [reflexivity|].
  rewrite (H a (or_introl eq_refl)), IH by (intros; apply H; right; assumption). reflexivity.
Qed.

Lemma traverse_map {A B C} (h : A -> B) (f : B -> option C) l :
  traverse f (map h l) = traverse (fun x => f (h x)) l.
Proof. induction l as [|a l IH]; simpl; [reflexivity|]. rewrite IH. reflexivity. Qed.

Lemma Forall2_in_r {A B} (R : A -> B -> Prop) l r y :
  Forall2 R l r -> In y r -> exists x, In x l /\ R x y.
Proof.
  induction 1; intro Hin; [inversion Hin|].
  destruct Hin as [<-|Hin]; [exists x; simpl; auto|].
  destruct (IHForall2 Hin) as [x' [H1 H2]]. exists x'. simpl. auto.
Qed.
Lemma Forall2_in_l {A B} (R : A -> B -> Prop) l r x :
  Forall2 R l r -> In x l -> exists y, In y r /\ R x y.
Proof.
  induction 1; intro Hin; [inversion Hin|].
  destruct Hin as [<-|Hin]; [exists y; simpl; auto|].
  destruct (IHForall2 Hin) as [y' [H1 H2]]. exists y'. simpl. auto.
Qed.

Lemma Permutation_split {A} (f : A -> bool) l :
  Permutation (filter f l ++ filter (fun x => negb (f x)) l) l.
Proof.
  induction l as [|a l IH]; simpl; [constructor|].
  destruct (f a); simpl; [apply perm_skip; assumption|].
  apply Permutation_sym. apply Permutation_cons_app. apply Permutation_sym. assumption.
Qed.

Lemma Permutation_flat_map_app {A B} (f g : A -> list B) l :
  Permutation (flat_map f l ++ flat_map g l) (flat_map (fun x => f x ++ g x) l).
Proof.
  induction l as [|a l IH]; simpl; [constructor|].
  rewrite <- app_assoc. rewrite <- app_assoc. apply Permutation_app_head.
  eapply perm_trans; [|apply Permutation_app_head; exact IH].
  rewrite !app_assoc. apply Permutation_app_tail. apply Permutation_app_comm.
Qed.

Lemma Permutation_flat_map_pointwise {A B} (f g : A -> list B) l :
  (forall x, In x l -> Permutation (f x) (g x)) -> Permutation (flat_map f l) (flat_map g l).
Proof.
  induction l as [|a l IH]; intro H; simpl; [constructor|].
  apply Permutation_app; [apply H; left; reflexivity | apply IH; intros; apply H; right; assumption].
Qed.

Lemma NoDup_app_l {A} (a b : list A) : NoDup (a ++ b) -> NoDup a.
Proof.
  induction a as [|x a IH]; intro H; [constructor|].
  simpl in H. inversion H as [|? ? Hn ND]; subst. constructor; [|apply IH; assumption].
  intro Hin. apply Hn. apply in_or_app. left. assumption.
Qed.

(* ------------------------------------------------------------ chunk_by *)
Definition group_ok (c : crit) (g : group) : Prop :=
  snd g <> [] /\ Forall (fun s => gkey c s = fst g) (snd g).

Lemma chunk_by_concat c l : concat (map snd (chunk_by c l)) = l.
Proof.
  induction l as [|s t IH]; [reflexivity|].
  cbn [chunk_by]. destruct (chunk_by c t) as [|[g items] gs]; [simpl in *; subst; reflexivity|].
  destruct (gkey_eqb (gkey c s) g); simpl in *; rewrite IH; reflexivity.
Qed.

Lemma chunk_by_ok c l : Forall (group_ok c) (chunk_by c l).
Proof.
  induction l as [|s t IH]; [constructor|].
  cbn [chunk_by]. destruct (chunk_by c t) as [|[g items] gs].
  - constructor; [|constructor]. split; simpl; [discriminate | constructor; auto].
  - inversion IH as [|? ? [H1 H2] H3]; subst. simpl in *.
    destruct (gkey_eqb (gkey c s) g) eqn:E.
    + apply gkey_eqb_eq in E. constructor; [|assumption]. split; simpl; [discriminate | constructor; auto].
    + constructor; [split; simpl; [discriminate | constructor; auto]|]. assumption.
Qed.

Lemma chunk_by_head c s t : exists items gs, chunk_by c (s :: t) = (gkey c s, s :: items) :: gs.
Proof.
  cbn [chunk_by]. destruct (chunk_by c t) as [|[g items] gs]; [exists [], []; reflexivity|].
  destruct (gkey_eqb (gkey c s) g) eqn:E.
  - apply gkey_eqb_eq in E. subst g. exists items, gs. reflexivity.
  - exists [], ((g, items) :: gs). reflexivity.
Qed.

Lemma keys_ascending_items g a b gs : keys_ascending ((g, a) :: gs) = keys_ascending ((g, b) :: gs).
Proof. destruct gs; reflexivity. Qed.

Lemma chunk_by_ascending c l : key_sorted c l = true -> keys_ascending (chunk_by c l) = true.
Proof.
  induction l as [|s t IH]; intro H; [reflexivity|].
  destruct t as [|s2 t']; [reflexivity|].
  unfold key_sorted in H. cbn [sorted_by] in H. apply andb_true_iff in H. destruct H as [H1 H2].
  specialize (IH H2).
  destruct (chunk_by_head c s2 t') as [items [gs E]].
  change (chunk_by c (s :: s2 :: t')) with
    (match chunk_by c (s2 :: t') with
     | (g, items) :: gs => if gkey_eqb (gkey c s) g then (g, s :: items) :: gs else (gkey c s, [s]) :: (g, items) :: gs
     | [] => [(gkey c s, [s])] end).
  rewrite E in *. destruct (gkey_eqb (gkey c s) (gkey c s2)) eqn:Q.
  - rewrite (keys_ascending_items _ _ (s2 :: items)). assumption.
  - cbn [keys_ascending fst]. unfold key_order in H1.
    destruct (gkey_cmp (gkey c s) (gkey c s2)) eqn:C; try discriminate; [|assumption].
    apply (ok_eq _ ord_gkey) in C. apply gkey_eqb_false in Q. contradiction.
Qed.

Lemma keys_ascending_tail a gs : keys_ascending (a :: gs) = true -> keys_ascending gs = true.
Proof.
  destruct gs as [|b gs]; [reflexivity|]. cbn [keys_ascending]. destruct (gkey_cmp (fst a) (fst b)); try discriminate. auto.
Qed.

Lemma keys_ascending_lt : forall gs a, keys_ascending (a :: gs) = true ->
  forall g, In g (map fst gs) -> gkey_cmp (fst a) g = Lt.
Proof.
  induction gs as [|b gs IH]; intros a H g Hin; [inversion Hin|].
  cbn [keys_ascending] in H. destruct (gkey_cmp (fst a) (fst b)) eqn:C; try discriminate.
  destruct Hin as [<-|Hin]; [assumption|].
  eapply (ok_trans _ ord_gkey); [exact C|]. apply IH; assumption.
Qed.

Lemma keys_ascending_nodup gs : keys_ascending gs = true -> NoDup (map fst gs).
Proof.
  induction gs as [|a gs IH]; intro H; [constructor|].
  simpl. constructor; [|apply IH; eapply keys_ascending_tail; eassumption].
  intro Hin. pose proof (keys_ascending_lt gs a H _ Hin) as L.
  rewrite (ok_refl _ ord_gkey) in L. discriminate.
Qed.

(* two strictly ascending key lists with the same elements are equal *)
Fixpoint asc_keys (l : list gkeyT) : bool :=
  match l with
  | a :: (b :: _) as t => match gkey_cmp a b with Lt => asc_keys t | _ => false end
  | _ => true
  end.
Lemma keys_ascending_asc gs : keys_ascending gs = asc_keys (map fst gs).
Proof. induction gs as [|a [|b gs] IH]; try reflexivity. cbn [keys_ascending map asc_keys] in *. rewrite IH. reflexivity. Qed.
Lemma asc_keys_tail a l : asc_keys (a :: l) = true -> asc_keys l = true.
Proof. destruct l as [|b l]; [reflexivity|]. cbn [asc_keys]. destruct (gkey_cmp a b); try discriminate; auto. Qed.
Lemma asc_keys_lt : forall l a, asc_keys (a :: l) = true -> forall g, In g l -> gkey_cmp a g = Lt.
Proof.
  induction l as [|b l IH]; intros a H g Hin; [inversion Hin|].
  cbn [asc_keys] in H. destruct (gkey_cmp a b) eqn:C; try discriminate.
  destruct Hin as [<-|Hin]; [assumption|]. eapply (ok_trans _ ord_gkey); [exact C|]. apply IH; assumption.
Qed.
Lemma asc_keys_ext : forall a b, asc_keys a = true -> asc_keys b = true -> (forall x, In x a <-> In x b) -> a = b.
Proof.
  induction a as [|x a IH]; intros b Ha Hb H.
  - destruct b as [|y b]; [reflexivity|]. exfalso. apply (H y). left. reflexivity.
  - destruct b as [|y b]; [exfalso; apply (H x); left; reflexivity|].
    assert (x = y).
    { pose proof (proj1 (H x) (or_introl eq_refl)) as H1. pose proof (proj2 (H y) (or_introl eq_refl)) as H2.
      destruct H1 as [H1|H1]; [auto|]. destruct H2 as [H2|H2]; [auto|].
      pose proof (asc_keys_lt _ _ Ha _ H2) as L1. pose proof (asc_keys_lt _ _ Hb _ H1) as L2.
      apply (ok_gt_lt _ ord_gkey) in L2. congruence. }
    subst y. f_equal. apply IH; [eapply asc_keys_tail; eassumption | eapply asc_keys_tail; eassumption|].
    intro z. split; intro Hz.
    + destruct (proj1 (H z) (or_intror Hz)) as [E|E]; [|assumption].
      subst z. pose proof (asc_keys_lt _ _ Ha _ Hz) as L. rewrite (ok_refl _ ord_gkey) in L. discriminate.
    + destruct (proj2 (H z) (or_intror Hz)) as [E|E]; [|assumption].
      subst z. pose proof (asc_keys_lt _ _ Hb _ Hz) as L. rewrite (ok_refl _ ord_gkey) in L. discriminate.
Qed.

Lemma filter_other_groups c g gs :
  Forall (group_ok c) gs -> ~ In g (map fst gs) -> filter (keyis c g) (concat (map snd gs)) = [].
Proof.
  induction 1 as [|[g0 it0] gs [_ H1] H2 IH]; intro Hn; [reflexivity|].
  simpl in *. rewrite filter_app, IH by tauto. rewrite app_nil_r.
  apply filter_all_false. eapply Forall_impl; [|exact H1]. intros s Hs. simpl in Hs.
  apply not_true_is_false. intro K. apply keyis_iff in K. apply Hn. left. congruence.
Qed.

Lemma group_filter c gs :
  Forall (group_ok c) gs -> NoDup (map fst gs) ->
  forall g items, In (g, items) gs -> filter (keyis c g) (concat (map snd gs)) = items.
Proof.
  induction 1 as [|[g0 it0] gs [_ H1] H2 IH]; intros ND g items Hin; [inversion Hin|].
  simpl in *. inversion ND as [|? ? Hn ND']; subst. rewrite filter_app.
  destruct Hin as [E|Hin].
  - injection E as -> ->. rewrite (filter_other_groups c g gs H2 Hn), app_nil_r.
    apply filter_all_true. eapply Forall_impl; [|exact H1]. intros s Hs. apply keyis_iff. exact Hs.
  - rewrite (IH ND' g items Hin).
    replace (filter (keyis c g) it0) with (@nil snap); [reflexivity|]. symmetry.
    apply filter_all_false. eapply Forall_impl; [|exact H1]. intros s Hs. simpl in Hs.
    apply not_true_is_false. intro K. apply keyis_iff in K. apply Hn.
    replace g0 with g by congruence. apply (in_map fst _ _ Hin).
Qed.

(* on a key-sorted list chunk_by yields exactly the key classes *)
Lemma chunk_by_groups c l :
  key_sorted c l = true ->
  keys_ascending (chunk_by c l) = true /\
  (forall g items, In (g, items) (chunk_by c l) -> items <> [] /\ items = filter (keyis c g) l) /\
  (forall s, In s l -> exists items, In (gkey c s, items) (chunk_by c l) /\ In s items).
Proof.
  intro KS. pose proof (chunk_by_ascending c l KS) as ASC.
  pose proof (chunk_by_ok c l) as OK. pose proof (chunk_by_concat c l) as CC.
  split; [assumption|]. split.
  - intros g items Hin. split.
    + rewrite Forall_forall in OK. apply (OK _ Hin).
    + rewrite <- CC at 1. symmetry. apply group_filter; [assumption | apply keys_ascending_nodup; assumption | assumption].
  - intros s Hs. rewrite <- CC in Hs. apply in_concat in Hs. destruct Hs as [items [H1 H2]].
    apply in_map_iff in H1. destruct H1 as [[g it] [E Hin]]. simpl in E. subst it.
    exists items. split; [|assumption].
    rewrite Forall_forall in OK. destruct (OK _ Hin) as [_ F]. rewrite Forall_forall in F.
    simpl in F. rewrite (F s H2). assumption.
Qed.

Lemma chunk_by_as_map c l :
  key_sorted c l = true ->
  chunk_by c l = map (fun g => (g, filter (keyis c g) l)) (map fst (chunk_by c l)).
Proof.
  intro KS. destruct (chunk_by_groups c l KS) as (_ & H & _).
  revert H. generalize (chunk_by c l) as gs. induction gs as [|[g items] gs IH]; intro H; [reflexivity|].
  simpl. f_equal.
  - f_equal. apply (H g items). left. reflexivity.
  - apply IH. intros g' it' Hin. apply H. right. assumption.
Qed.

(* ------------------------------------------------------------ sorting by time *)
Fixpoint desc_z (l : list Z) : bool :=
  match l with
  | a :: (b :: _) as t => (b <=? a) && desc_z t
  | _ => true
  end.
Lemma sorted_desc_map l : sorted_desc l = desc_z (map s_inst l).
Proof. induction l as [|a [|b l] IH]; try reflexivity. cbn [sorted_desc map desc_z] in *. rewrite IH. reflexivity. Qed.
Lemma desc_z_tail a l : desc_z (a :: l) = true -> desc_z l = true.
Proof. destruct l; [reflexivity|]. cbn [desc_z]. rewrite andb_true_iff. tauto. Qed.
Lemma desc_z_head : forall l a, desc_z (a :: l) = true -> forall x, In x l -> x <= a.
Proof.
  induction l as [|b l IH]; intros a H x Hin; [inversion Hin|].
  cbn [desc_z] in H. apply andb_true_iff in H. destruct H as [H1 H2].
  destruct Hin as [<-|Hin]; [lia|]. specialize (IH b H2 x Hin). lia.
Qed.
Lemma desc_z_unique : forall a b, Permutation a b -> desc_z a = true -> desc_z b = true -> a = b.
Proof.
  induction a as [|x a IH]; intros b P Ha Hb.
  - apply Permutation_nil in P. subst. reflexivity.
  - destruct b as [|y b]; [apply Permutation_sym, Permutation_nil in P; discriminate|].
    assert (x = y).
    { assert (H1 : In x (y :: b)) by (eapply Permutation_in; [exact P | left; reflexivity]).
      assert (H2 : In y (x :: a)) by (eapply Permutation_in; [apply Permutation_sym; exact P | left; reflexivity]).
      destruct H1 as [H1|H1]; [auto|]. destruct H2 as [H2|H2]; [auto|].
      pose proof (desc_z_head _ _ Ha _ H2). pose proof (desc_z_head _ _ Hb _ H1). lia. }
    subst y. f_equal. apply IH; [eapply Permutation_cons_inv; exact P | eapply desc_z_tail; eassumption | eapply desc_z_tail; eassumption].
Qed.

(* any two results of sorting by time show the same sequence of instants *)
Lemma sorted_insts_unique l1 l2 :
  Permutation l1 l2 -> sorted_desc l1 = true -> sorted_desc l2 = true -> map s_inst l1 = map s_inst l2.
Proof.
  intros P H1 H2. apply desc_z_unique; [apply Permutation_map; assumption | |]; rewrite <- sorted_desc_map; assumption.
Qed.

Lemma perm_same_insts : forall l1 l2,
  Permutation l1 l2 -> map s_inst l1 = map s_inst l2 -> NoDup (map s_inst l1) -> l1 = l2.
Proof.
  induction l1 as [|a l1 IH]; intros l2 P E ND.
  - apply Permutation_nil in P. subst. reflexivity.
  - destruct l2 as [|b l2]; [discriminate|]. simpl in E. injection E as E1 E2.
    inversion ND as [|? ? Hn ND']; subst.
    assert (a = b).
    { assert (H1 : In a (b :: l2)) by (eapply Permutation_in; [exact P | left; reflexivity]).
      destruct H1 as [H1|H1]; [auto|]. exfalso. apply Hn. rewrite E2. apply in_map. assumption. }
    subst b. f_equal. apply IH; [eapply Permutation_cons_inv; exact P | assumption | assumption].
Qed.

(* with pairwise distinct times the result of the sort is determined *)
Lemma sorted_desc_unique l1 l2 :
  Permutation l1 l2 -> sorted_desc l1 = true -> sorted_desc l2 = true -> NoDup (map s_inst l1) -> l1 = l2.
Proof.
  intros P H1 H2 ND. apply perm_same_insts; [assumption | apply sorted_insts_unique; assumption | assumption].
Qed.

(* ------------------------------------------------------------ apply *)
Lemma apply_sorted_none k now l : apply_sorted k now l = None <-> is_valid k = false.
Proof.
  unfold apply_sorted. destruct (is_valid k); simpl; [|tauto].
  destruct l; split; discriminate.
Qed.

Lemma apply_sorted_snaps k now l res : apply_sorted k now l = Some res -> map snap_of res = l.
Proof. intro H. apply (apply_meets_spec_lemma k now l res H). Qed.

Lemma forget_pick_spec kp id : forget_pick kp id = if kp then None else Some id.
Proof. destruct kp; reflexivity. Qed.

Lemma into_forget_ids_in {R} (fgs : list (gkeyT * list (snap * bool * R))) i :
  In i (into_forget_ids fgs) <-> exists g res s r, In (g, res) fgs /\ In (s, false, r) res /\ s_id s = i.
Proof.
  unfold into_forget_ids. rewrite in_flat_map. split.
  - intros [[g res] [H1 H2]]. simpl in H2. apply filter_map_in in H2. destruct H2 as [[[s kp] r] [H2 H3]].
    simpl in H3. rewrite forget_pick_spec in H3. destruct kp; [discriminate|]. injection H3 as <-.
    exists g, res, s, r. auto.
  - intros (g & res & s & r & H1 & H2 & <-). exists (g, res). split; [assumption|]. simpl.
    apply filter_map_in. exists (s, false, r). split; [assumption|]. simpl. rewrite forget_pick_spec. reflexivity.
Qed.

(* the ids returned are the ids of the removed snapshots, in order *)
Definition removed_of {R} (res : list (snap * bool * R)) : list snap :=
  map (fun e => fst (fst e)) (filter (fun e => negb (snd (fst e))) res).
Definition kept_of {R} (res : list (snap * bool * R)) : list snap :=
  map (fun e => fst (fst e)) (filter (fun e => negb (negb (snd (fst e)))) res).

Lemma filter_map_pick {R} (res : list (snap * bool * R)) :
  filter_map (fun e : snap * bool * R => forget_pick (snd (fst e)) (s_id (fst (fst e)))) res = map s_id (removed_of res).
Proof.
  unfold removed_of. induction res as [|[[s kp] r] res IH]; [reflexivity|].
  simpl. rewrite forget_pick_spec. destruct kp; simpl; rewrite IH; reflexivity.
Qed.

Lemma into_forget_ids_removed {R} (fgs : list (gkeyT * list (snap * bool * R))) :
  into_forget_ids fgs = map s_id (flat_map (fun fg => removed_of (snd fg)) fgs).
Proof.
  unfold into_forget_ids. induction fgs as [|fg fgs IH]; [reflexivity|].
  simpl. rewrite map_app, IH, filter_map_pick. reflexivity.
Qed.

Lemma removed_kept_perm {R} (res : list (snap * bool * R)) :
  Permutation (removed_of res ++ kept_of res) (map (fun e => fst (fst e)) res).
Proof.
  unfold removed_of, kept_of. rewrite <- map_app. apply Permutation_map.
  apply (Permutation_split (fun e : snap * bool * R => negb (snd (fst e)))).
Qed.

(* ------------------------------------------------------------ the pipeline *)
Section PipelineProofs.
  Variable ksort : crit -> list snap -> list snap.
  Variable tsort : list snap -> list snap.
  Hypothesis ksort_ok : forall c l, Permutation l (ksort c l) /\ key_sorted c (ksort c l) = true.
  Hypothesis tsort_ok : forall l, Permutation l (tsort l) /\ sorted_desc (tsort l) = true.

  (* --- Grouped::from_items is the partition of the input by group key *)
  Lemma from_items_partition_lemma c l :
    keys_ascending (from_items ksort c l) = true /\
    Permutation (concat (map snd (from_items ksort c l))) l /\
    (forall g items, In (g, items) (from_items ksort c l) ->
       items <> [] /\ items = filter (keyis c g) (ksort c l) /\ Permutation items (own_group c l g)) /\
    (forall s, In s l -> exists items, In (gkey c s, items) (from_items ksort c l) /\ In s items).
  Proof.
    unfold from_items. destruct (ksort_ok c l) as [P KS].
    destruct (chunk_by_groups c (ksort c l) KS) as (H1 & H2 & H3).
    split; [assumption|]. split; [rewrite chunk_by_concat; apply Permutation_sym; assumption|]. split.
    - intros g items Hin. destruct (H2 g items Hin) as [N E]. split; [assumption|]. split; [assumption|].
      rewrite E. apply Permutation_sym. apply Permutation_filter. assumption.
    - intros s Hs. apply H3. eapply Permutation_in; eassumption.
  Qed.

  Lemma from_items_keys c l : map fst (from_items ksort c l) = group_keys c l.
  Proof.
    unfold group_keys. destruct (from_items_partition_lemma c l) as (A1 & _ & B1 & C1).
    destruct (ksort_stable_ok c l) as [P2 KS2].
    destruct (chunk_by_groups c (ksort_stable c l) KS2) as (A2 & B2 & C2).
    apply asc_keys_ext; [rewrite <- keys_ascending_asc; assumption | rewrite <- keys_ascending_asc; assumption|].
    intro g. rewrite !in_map_iff. split.
    - intros [[g' items] [E Hin]]. simpl in E. subst g'.
      destruct (B1 g items Hin) as (N & _ & P). destruct items as [|s items]; [contradiction|].
      assert (Hs : In s (own_group c l g)) by (eapply Permutation_in; [exact P | left; reflexivity]).
      unfold own_group in Hs. apply filter_In in Hs. destruct Hs as [Hs K]. apply keyis_iff in K.
      destruct (C2 s) as [it2 [H _]]; [eapply Permutation_in; eassumption|].
      exists (gkey c s, it2). split; [simpl; congruence | assumption].
    - intros [[g' items] [E Hin]]. simpl in E. subst g'.
      destruct (B2 g items Hin) as (N & E). destruct items as [|s items]; [contradiction|].
      assert (Hs : In s (filter (keyis c g) (ksort_stable c l))) by (rewrite <- E; left; reflexivity).
      apply filter_In in Hs. destruct Hs as [Hs K]. apply keyis_iff in K.
      destruct (C1 s) as [it1 [H _]]; [eapply Permutation_in; [apply Permutation_sym; exact P2 | exact Hs]|].
      exists (gkey c s, it1). split; [simpl; congruence | assumption].
  Qed.

  Lemma group_keys_in c l g : In g (group_keys c l) <-> exists s, In s l /\ gkey c s = g.
  Proof.
    rewrite <- from_items_keys. destruct (from_items_partition_lemma c l) as (_ & _ & B & C).
    rewrite in_map_iff. split.
    - intros [[g' items] [E Hin]]. simpl in E. subst g'.
      destruct (B g items Hin) as (N & _ & P). destruct items as [|s items]; [contradiction|].
      assert (Hs : In s (own_group c l g)) by (eapply Permutation_in; [exact P | left; reflexivity]).
      apply filter_In in Hs. destruct Hs as [Hs K]. apply keyis_iff in K. exists s. auto.
    - intros [s [Hs <-]]. destruct (C s Hs) as [items [H _]]. exists (gkey c s, items). auto.
  Qed.

  (* --- the order in which the loop of `apply` sees the snapshots of group g *)
  Definition arrangement (c : crit) (l : list snap) (g : gkeyT) : list snap :=
    tsort (filter (keyis c g) (ksort c l)).

  Lemma arrangement_spec c l g :
    Permutation (own_group c l g) (arrangement c l g) /\ sorted_desc (arrangement c l g) = true.
  Proof.
    unfold arrangement, own_group. destruct (tsort_ok (filter (keyis c g) (ksort c l))) as [P S].
    split; [|assumption]. eapply perm_trans; [|exact P]. apply Permutation_filter. apply ksort_ok.
  Qed.

  Lemma arrangement_distinct c l g :
    NoDup (map s_inst (own_group c l g)) -> arrangement c l g = tsort_stable (own_group c l g).
  Proof.
    intro ND. destruct (arrangement_spec c l g) as [P S]. destruct (tsort_stable_ok (own_group c l g)) as [P2 S2].
    symmetry. apply sorted_desc_unique; [|assumption|assumption|].
    - eapply perm_trans; [apply Permutation_sym; exact P2 | exact P].
    - eapply Permutation_NoDup; [|exact ND]. apply Permutation_map. assumption.
  Qed.

  (* --- from_grouped_snapshots_with_retention (from_items ...) per key *)
  Lemma forget_groups_canonical c k now l :
    forget_groups ksort tsort c k now l =
    traverse (fun g => match apply_sorted k now (arrangement c l g) with
                       | Some r => Some (g, r) | None => None end) (group_keys c l).
  Proof.
    unfold forget_groups, with_retention, apply. rewrite <- from_items_keys.
    unfold from_items at 1. rewrite chunk_by_as_map by apply ksort_ok.
    rewrite traverse_map. fold (from_items ksort c l). reflexivity.
  Qed.

  Lemma forget_groups_entries c k now l fgs :
    forget_groups ksort tsort c k now l = Some fgs ->
    map fst fgs = group_keys c l /\
    (forall g res, In (g, res) fgs <-> In g (group_keys c l) /\ apply_sorted k now (arrangement c l g) = Some res).
  Proof.
    rewrite forget_groups_canonical. intro H. apply traverse_some in H.
    split.
    - induction H as [|g [g' r] ks fs H1 H2 IH]; [reflexivity|]. simpl. rewrite IH.
      destruct (apply_sorted k now (arrangement c l g)); [|discriminate]. injection H1 as <- _. reflexivity.
    - intros g res. split.
      + intro Hin. destruct (Forall2_in_r _ _ _ _ H Hin) as [g' [H1 H2]].
        destruct (apply_sorted k now (arrangement c l g')) eqn:E; [|discriminate]. injection H2 as <- <-. auto.
      + intros [H1 H2]. destruct (Forall2_in_l _ _ _ _ H H1) as [[g' r] [H3 H4]].
        rewrite H2 in H4. injection H4 as <- <-. assumption.
  Qed.

  Lemma forget_groups_none c k now l :
    forget_groups ksort tsort c k now l = None <-> is_valid k = false /\ l <> [].
  Proof.
    rewrite forget_groups_canonical, traverse_none. split.
    - intros [g [H1 H2]]. destruct (apply_sorted k now (arrangement c l g)) eqn:E; [discriminate|].
      apply apply_sorted_none in E. split; [assumption|]. apply group_keys_in in H1.
      destruct H1 as [s [Hs _]]. intro. subst. inversion Hs.
    - intros [H1 H2]. destruct l as [|s l']; [contradiction|]. exists (gkey c s). split.
      + apply group_keys_in. exists s. split; [left|]; reflexivity.
      + apply apply_sorted_none with (now := now) (l := arrangement c (s :: l') (gkey c s)) in H1. rewrite H1. reflexivity.
  Qed.

  (* --- into_forget_ids: an id is returned iff the retention rules, run on the snapshot's own
     group (in the order `arrangement`), remove the snapshot *)
  Lemma forget_ids_exact_lemma c k now l ids :
    forget ksort tsort c k now l = Some ids ->
    forall i, In i ids <->
      exists s res rs, In s l /\ s_id s = i /\
        apply_sorted k now (arrangement c l (gkey c s)) = Some res /\ In (s, false, rs) res.
  Proof.
    unfold forget. destruct (forget_groups ksort tsort c k now l) as [fgs|] eqn:F; [|discriminate].
    intro H. injection H as <-. destruct (forget_groups_entries c k now l fgs F) as [_ EN].
    intro i. rewrite into_forget_ids_in. split.
    - intros (g & res & s & r & H1 & H2 & H3). apply EN in H1. destruct H1 as [H1 H4].
      assert (Hs : In s (arrangement c l g)).
      { rewrite <- (apply_sorted_snaps _ _ _ _ H4). apply (in_map snap_of _ _ H2). }
      destruct (arrangement_spec c l g) as [P _].
      apply (Permutation_in _ (Permutation_sym P)) in Hs. apply filter_In in Hs. destruct Hs as [Hs K].
      apply keyis_iff in K. subst g. exists s, res, r. auto.
    - intros (s & res & rs & H1 & H2 & H3 & H4). exists (gkey c s), res, s, rs.
      split; [|auto]. apply EN. split; [|assumption]. apply group_keys_in. exists s. auto.
  Qed.

  (* --- every snapshot is either reported for removal or kept, never both *)
  Lemma all_snaps_perm c k now l fgs :
    forget_groups ksort tsort c k now l = Some fgs ->
    Permutation (flat_map (fun fg : fgroup => map snap_of (snd fg)) fgs) l.
  Proof.
    intro F. unfold forget_groups, with_retention in F. apply traverse_some in F.
    eapply perm_trans; [|destruct (from_items_partition_lemma c l) as (_ & P & _); exact P].
    rewrite <- flat_map_concat_map.
    induction F as [|g [g' r] gs fs H1 H2 IH]; [constructor|].
    simpl. apply Permutation_app; [|exact IH].
    unfold apply in H1. destruct (apply_sorted k now (tsort (snd g))) eqn:E; [|discriminate].
    injection H1 as _ <-. rewrite (apply_sorted_snaps _ _ _ _ E). apply Permutation_sym. apply tsort_ok.
  Qed.

  Lemma forget_partition_lemma c k now l fgs :
    forget_groups ksort tsort c k now l = Some fgs ->
    into_forget_ids fgs = map s_id (flat_map (fun fg : fgroup => removed_of (snd fg)) fgs) /\
    Permutation (flat_map (fun fg : fgroup => removed_of (snd fg)) fgs ++
                 flat_map (fun fg : fgroup => kept_of (snd fg)) fgs) l.
  Proof.
    intro F. split; [apply into_forget_ids_removed|].
    eapply perm_trans; [apply Permutation_flat_map_app|].
    eapply perm_trans; [|apply (all_snaps_perm c k now l fgs F)].
    apply Permutation_flat_map_pointwise. intros fg _. apply removed_kept_perm.
  Qed.

  Lemma forget_ids_nodup_lemma c k now l ids :
    forget ksort tsort c k now l = Some ids -> NoDup (map s_id l) -> NoDup ids.
  Proof.
    unfold forget. destruct (forget_groups ksort tsort c k now l) as [fgs|] eqn:F; [|discriminate].
    intro H. injection H as <-. intro ND. destruct (forget_partition_lemma c k now l fgs F) as [E P].
    rewrite E. apply (Permutation_map s_id) in P. apply Permutation_sym in P.
    pose proof (Permutation_NoDup P ND) as ND2. rewrite map_app in ND2.
    apply NoDup_app_l in ND2. assumption.
  Qed.

  (* --- with pairwise distinct times inside each group the result does not depend on the sorts *)
  Lemma forget_groups_deterministic c k now l :
    (forall g, NoDup (map s_inst (own_group c l g))) ->
    forget_groups ksort tsort c k now l = forget_groups_spec c k now l.
  Proof.
    intro ND. rewrite forget_groups_canonical. unfold forget_groups_spec.
    apply traverse_ext. intros g _. rewrite arrangement_distinct by apply ND. reflexivity.
  Qed.
End PipelineProofs.

(* the sort-free reading: the entry of key g is a function of g's own snapshots only *)
Lemma forget_groups_spec_entries c k now l fgs :
  forget_groups_spec c k now l = Some fgs ->
  forall g res, In (g, res) fgs <->
    In g (group_keys c l) /\ apply_sorted k now (tsort_stable (own_group c l g)) = Some res.
Proof.
  unfold forget_groups_spec. intro H. apply traverse_some in H. intros g res. split.
  - intro Hin. destruct (Forall2_in_r _ _ _ _ H Hin) as [g' [H1 H2]].
    destruct (apply_sorted k now (tsort_stable (own_group c l g'))) eqn:E; [|discriminate]. injection H2 as <- <-. auto.
  - intros [H1 H2]. destruct (Forall2_in_l _ _ _ _ H H1) as [[g' r] [H3 H4]].
    rewrite H2 in H4. injection H4 as <- <-. assumption.
Qed.

(* ------------------------------------------------------------ from_snapshots *)
Lemma must_keep_src_eq s now : must_keep s now = must_keep_src (s_del s) now.
Proof. unfold must_keep, must_keep_src. destruct (s_del s); try reflexivity. lia. Qed.
Lemma must_delete_src_eq s now : must_delete s now = must_delete_src (s_del s) now.
Proof. reflexivity. Qed.

Lemma from_snapshots_ids_lemma now l :
  from_snapshots_forget_ids now l = map s_id (filter (fun s => negb (must_keep s now)) l).
Proof.
  unfold from_snapshots_forget_ids, from_snapshots, into_forget_ids. simpl. rewrite app_nil_r.
  induction l as [|s l IH]; [reflexivity|].
  simpl. rewrite forget_pick_spec. unfold from_snapshots_keep at 1.
  destruct (must_keep s now); simpl; rewrite IH; reflexivity.
Qed.

Lemma from_snapshots_flags_lemma now l :
  from_snapshots now l =
  [ (default_key, map (fun s => (s, must_keep s now, if must_keep s now then FSnapshot else FIfArgument)) l) ].
Proof. reflexivity. Qed.

Lemma must_keep_iff s now :
  must_keep s now = true <-> s_del s = DNever \/ exists t, s_del s = DAfter t /\ now <= t.
Proof.
  unfold must_keep. destruct (s_del s) as [| |t].
  - split; [discriminate | intros [H|[t [H _]]]; discriminate].
  - split; auto.
  - rewrite Z.leb_le. split; [intro H; right; exists t; auto | intros [H|[t' [H H']]]; [discriminate | injection H as ->; assumption]].
Qed.
