(* C09 — executable model of KeepOptions::apply / matches (commands/forget.rs) and
   of SnapshotFile::must_keep / must_delete, StringList::matches.
   The period predicates, the row table and is_valid come from Extracted.v, i.e.
   from the current source. *)
From Verif.Base Require Import Tactics.
From Verif.C09 Require Import Calendar ModelBase Extracted.
Local Open Scope Z_scope.

Inductive reason := RId | RTags | RCount (p : period) | RWithin (p : period) | RSnapshot | RUnchanged.

Definition civ (s : snap) : civil := civil_of (s_inst s) (s_offs s).

Definition must_keep (s : snap) (now : Z) : bool :=
  match s_del s with DNever => true | DAfter t => now <=? t | DNotSet => false end.
Definition must_delete (s : snap) (now : Z) : bool :=
  match s_del s with DAfter t => t <? now | _ => false end.

Fixpoint prefix_of (p l : list N) : bool :=
  match p, l with
  | [], _ => true
  | x :: p', y :: l' => N.eqb x y && prefix_of p' l'
  | _ :: _, [] => false
  end.
Definition mem_N (x : N) (l : list N) : bool := existsb (N.eqb x) l.
Definition subset_N (a b : list N) : bool := forallb (fun x => mem_N x b) a.
(* StringList::matches: empty list of lists matches; else contains all of one *)
Definition tags_match (tags : list N) (sls : list (list N)) : bool :=
  is_nil sls || existsb (fun sl => subset_N sl tags) sls.

(* `!has_next || last.is_none() || !check_fun(sn, last)` *)
Definition cond (eqf : civil -> civil -> bool) (sn : snap) (last : option snap) (has_next : bool) : bool :=
  negb has_next || match last with None => true | Some l => negb (eqf (civ sn) (civ l)) end.

Definition upd (cs : period -> option Z) (p : period) (v : option Z) : period -> option Z :=
  fun q => if period_eqb q p then v else cs q.

(* one iteration of the `for (check_fun, counter, reason1, within, reason2)` loop *)
Definition row_step (k : keep) (r : rowdef) (cs : period -> option Z)
           (sn : snap) (last : option snap) (has_next : bool) (latest : Z)
  : list reason * (period -> option Z) :=
  if cond (rd_eq r) sn last has_next then
    let '(rs1, cs') :=
      match cs (rd_p r) with
      | Some n => if n =? 0 then ([], cs)
                  else ([RCount (rd_p r)], if 0 <? n then upd cs (rd_p r) (Some (n - 1)) else cs)
      | None => ([], cs)
      end in
    let rs2 := match k_within k (rd_w r) with
               | Some sp => if latest <? add_span (s_inst sn) (s_offs sn) sp then [RWithin (rd_w r)] else []
               | None => [] end in
    (rs1 ++ rs2, cs')
  else ([], cs).

Fixpoint rows_step (k : keep) (tbl : list rowdef) (cs : period -> option Z)
         (sn : snap) (last : option snap) (has_next : bool) (latest : Z)
  : list reason * (period -> option Z) :=
  match tbl with
  | [] => ([], cs)
  | r :: tbl' =>
      let '(rs, cs1) := row_step k r cs sn last has_next latest in
      let '(rs', cs2) := rows_step k tbl' cs1 sn last has_next latest in
      (rs ++ rs', cs2)
  end.

Definition matches (k : keep) (cs : period -> option Z) (sn : snap) (last : option snap)
           (has_next : bool) (latest : Z) : list reason * (period -> option Z) :=
  let r_id := if existsb (fun p => prefix_of p (s_id sn)) (k_ids k) then [RId] else [] in
  let r_tg := if negb (is_nil (k_tags k)) && tags_match (s_tags sn) (k_tags k) then [RTags] else [] in
  let '(rs, cs') := rows_step k row_table cs sn last has_next latest in
  (r_id ++ r_tg ++ rs, cs').

Definition next_same_tree (sn : snap) (rest : list snap) : bool :=
  match rest with nx :: _ => N.eqb (s_tree nx) (s_tree sn) | [] => false end.

Inductive stage := SKeep | SDelete | SUnchanged | SRules.
Definition stage_of (k : keep) (now : Z) (sn : snap) (rest : list snap) : stage :=
  if must_keep sn now then SKeep
  else if must_delete sn now then SDelete
  else if k_delete_unchanged k && next_same_tree sn rest then SUnchanged
  else SRules.

(* the `while let Some(sn) = iter.next()` loop on the already sorted list *)
Fixpoint go (k : keep) (now latest : Z) (cs : period -> option Z) (last : option snap)
         (l : list snap) : list (snap * bool * list reason) :=
  match l with
  | [] => []
  | sn :: rest =>
      let has_next := negb (is_nil rest) in
      let '(kp, rs, cs') :=
        match stage_of k now sn rest with
        | SKeep => (true, [RSnapshot], cs)
        | SDelete => (false, [RSnapshot], cs)
        | SUnchanged => (false, [RUnchanged], cs)
        | SRules => let '(rs, cs') := matches k cs sn last has_next latest in
                    (negb (is_nil rs), rs, cs')
        end in
      (sn, kp, rs) :: go k now latest cs' (Some sn) rest
  end.

(* `snapshots.sort_unstable_by(|a, b| a.cmp(b).reverse())`: newest first, order of
   equal instants unspecified.  The model takes the sorted list. *)
Fixpoint sorted_desc (l : list snap) : bool :=
  match l with
  | a :: (b :: _) as t => (s_inst b <=? s_inst a) && sorted_desc t
  | _ => true
  end.

Definition apply_sorted (k : keep) (now : Z) (l : list snap) : option (list (snap * bool * list reason)) :=
  if negb (is_valid k) then None
  else match l with
       | [] => Some []
       | s0 :: _ => Some (go k now (s_inst s0) (k_count k) None l)
       end.
