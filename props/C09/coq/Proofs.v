(* C09 — lemmas: the counter-decrementing loop of the model computes the
   declarative count-based reading (Spec.v), for every option record and every list. *)
From Verif.Base Require Import Tactics.
From Verif.C09 Require Import Calendar ModelBase Extracted Model Spec.
Local Open Scope Z_scope.

(* ------------------------------------------------------------------ periods *)
Lemma period_eqb_eq p q : period_eqb p q = true <-> p = q.
Proof. destruct p, q; simpl; split; intro H; try reflexivity; try discriminate; congruence. Qed.
Lemma period_eqb_refl p : period_eqb p p = true.
Proof. destruct p; reflexivity. Qed.
Lemma period_eqb_neq p q : period_eqb p q = false <-> p <> q.
Proof.
  split; intro H.
  - intro E. subst. rewrite period_eqb_refl in H. discriminate.
  - destruct (period_eqb p q) eqn:E; [apply period_eqb_eq in E; contradiction | reflexivity].
Qed.

(* ------------------------------------------------------------------ counters *)
Definition dec (c : option Z) : option Z :=
  match c with Some n => if 0 <? n then Some (n - 1) else Some n | None => None end.

Definition cnt_after (n0 : option Z) (m : Z) : option Z :=
  match n0 with None => None | Some n => if n <=? 0 then Some n else Some (Z.max 0 (n - m)) end.

Lemma dec_cnt_after n0 m : 0 <= m -> dec (cnt_after n0 m) = cnt_after n0 (m + 1).
Proof.
  intros Hm. destruct n0 as [n|]; simpl; [|reflexivity].
  destruct (n <=? 0) eqn:E; simpl.
  - destruct (0 <? n) eqn:E2; [lia | reflexivity].
  - destruct (0 <? Z.max 0 (n - m)) eqn:E2; f_equal; lia.
Qed.

Definition live (c : option Z) : bool := match c with Some n => negb (n =? 0) | None => false end.

Lemma live_cnt_after n0 m : 0 <= m ->
  live (cnt_after n0 m) = match n0 with Some n => (n <? 0) || (m <? n) | None => false end.
Proof.
  intros Hm. destruct n0 as [n|]; simpl; [|reflexivity].
  destruct (n <=? 0) eqn:E; simpl; lia.
Qed.

(* ------------------------------------------------------------------ one row *)
Definition within_b (k : keep) (w : period) (sn : snap) (latest : Z) : bool :=
  match k_within k w with
  | Some sp => latest <? add_span (s_inst sn) (s_offs sn) sp
  | None => false end.

Lemma row_step_fst k r cs sn last hn latest :
  fst (row_step k r cs sn last hn latest) =
  if cond (rd_eq r) sn last hn
  then (if live (cs (rd_p r)) then [RCount (rd_p r)] else []) ++
       (if within_b k (rd_w r) sn latest then [RWithin (rd_w r)] else [])
  else [].
Proof.
  unfold row_step, within_b, live.
  destruct (cond (rd_eq r) sn last hn); [|reflexivity].
  destruct (cs (rd_p r)) as [n|]; simpl.
  - destruct (n =? 0); simpl; destruct (k_within k (rd_w r)); simpl; try reflexivity;
      destruct (latest <? _); reflexivity.
  - destruct (k_within k (rd_w r)); simpl; try reflexivity; destruct (latest <? _); reflexivity.
Qed.

Lemma row_step_snd k r cs sn last hn latest q :
  snd (row_step k r cs sn last hn latest) q =
  if cond (rd_eq r) sn last hn && period_eqb q (rd_p r) then dec (cs q) else cs q.
Proof.
  unfold row_step.
  destruct (cond (rd_eq r) sn last hn); simpl; [|reflexivity].
  destruct (period_eqb q (rd_p r)) eqn:E.
  - apply period_eqb_eq in E. subst q.
    destruct (cs (rd_p r)) as [n|] eqn:C; simpl.
    + destruct (n =? 0) eqn:E0; simpl.
      * rewrite C. simpl. destruct (0 <? n) eqn:E1; [lia | reflexivity].
      * destruct (0 <? n) eqn:E1; simpl.
        -- unfold upd. rewrite period_eqb_refl. reflexivity.
        -- rewrite C. reflexivity.
    + rewrite C. reflexivity.
  - destruct (cs (rd_p r)) as [n|] eqn:C; simpl; [|reflexivity].
    destruct (n =? 0); simpl; [reflexivity|].
    destruct (0 <? n); simpl; [|reflexivity].
    unfold upd. rewrite E. reflexivity.
Qed.

(* ------------------------------------------------------------------ all rows *)
Lemma rows_step_snd_notin k tbl : forall cs sn last hn latest q,
  ~ In q (map rd_p tbl) -> snd (rows_step k tbl cs sn last hn latest) q = cs q.
Proof.
  induction tbl as [|r tbl IH]; intros cs sn last hn latest q Hq; simpl; [reflexivity|].
  destruct (row_step k r cs sn last hn latest) as [rs cs1] eqn:E1.
  destruct (rows_step k tbl cs1 sn last hn latest) as [rs' cs2] eqn:E2. simpl.
  assert (H2 : cs2 q = cs1 q).
  { change cs2 with (snd (rs', cs2)). rewrite <- E2. apply IH. intro HH. apply Hq. simpl. auto. }
  rewrite H2. change cs1 with (snd (rs, cs1)). rewrite <- E1. rewrite row_step_snd.
  destruct (period_eqb q (rd_p r)) eqn:E; [|rewrite andb_false_r; reflexivity].
  apply period_eqb_eq in E. exfalso. apply Hq. simpl. auto.
Qed.

Definition row_fires (tbl : list rowdef) (q : period) sn last hn : bool :=
  existsb (fun r => period_eqb q (rd_p r) && cond (rd_eq r) sn last hn) tbl.

Lemma row_fires_cons r tbl q sn last hn :
  row_fires (r :: tbl) q sn last hn =
  (period_eqb q (rd_p r) && cond (rd_eq r) sn last hn) || row_fires tbl q sn last hn.
Proof. reflexivity. Qed.

Lemma row_fires_notin tbl q sn last hn : ~ In q (map rd_p tbl) -> row_fires tbl q sn last hn = false.
Proof.
  intro Hn. apply not_true_is_false. intro HH. unfold row_fires in HH. apply existsb_exists in HH.
  destruct HH as [r' [Hin Hr']]. apply andb_true_iff in Hr'. destruct Hr' as [Hr' _].
  apply period_eqb_eq in Hr'. apply Hn. rewrite Hr'. apply in_map. assumption.
Qed.

Lemma rows_step_snd k tbl : forall cs sn last hn latest q,
  NoDup (map rd_p tbl) ->
  snd (rows_step k tbl cs sn last hn latest) q =
  if row_fires tbl q sn last hn then dec (cs q) else cs q.
Proof.
  induction tbl as [|r tbl IH]; intros cs sn last hn latest q ND; [reflexivity|].
  cbn [rows_step map] in *. rewrite row_fires_cons.
  inversion ND as [|a b Hnotin ND']; subst.
  destruct (row_step k r cs sn last hn latest) as [rs cs1] eqn:E1.
  destruct (rows_step k tbl cs1 sn last hn latest) as [rs' cs2] eqn:E2. cbn [snd].
  assert (Hq1 : cs1 q = if cond (rd_eq r) sn last hn && period_eqb q (rd_p r) then dec (cs q) else cs q).
  { change cs1 with (snd (rs, cs1)). rewrite <- E1. apply row_step_snd. }
  destruct (period_eqb q (rd_p r)) eqn:E.
  - apply period_eqb_eq in E. subst q.
    assert (H2' : cs2 (rd_p r) = cs1 (rd_p r)).
    { change cs2 with (snd (rs', cs2)). rewrite <- E2. apply rows_step_snd_notin. assumption. }
    rewrite H2', Hq1. rewrite andb_true_r. rewrite (row_fires_notin tbl (rd_p r)) by assumption.
    rewrite orb_false_r. cbn [andb]. reflexivity.
  - cbn [andb orb]. assert (H2 : cs2 q = if row_fires tbl q sn last hn then dec (cs1 q) else cs1 q).
    { change cs2 with (snd (rs', cs2)). rewrite <- E2. apply IH. assumption. }
    rewrite H2, Hq1. rewrite andb_false_r. reflexivity.
Qed.

Lemma rows_step_fst k tbl : forall cs sn last hn latest,
  NoDup (map rd_p tbl) ->
  fst (rows_step k tbl cs sn last hn latest) =
  flat_map (fun r => fst (row_step k r cs sn last hn latest)) tbl.
Proof.
  induction tbl as [|r tbl IH]; intros cs sn last hn latest ND; simpl; [reflexivity|].
  inv ND.
  destruct (row_step k r cs sn last hn latest) as [rs cs1] eqn:E1.
  destruct (rows_step k tbl cs1 sn last hn latest) as [rs' cs2] eqn:E2. simpl.
  f_equal.
  change rs' with (fst (rs', cs2)). rewrite <- E2. rewrite IH by assumption.
  apply flat_map_ext_In. intros r' Hin.
  rewrite !row_step_fst.
  assert (Hc : cs1 (rd_p r') = cs (rd_p r')).
  { change cs1 with (snd (rs, cs1)). rewrite <- E1. rewrite row_step_snd.
    destruct (period_eqb (rd_p r') (rd_p r)) eqn:E; [|rewrite andb_false_r; reflexivity].
    apply period_eqb_eq in E. exfalso.
    match goal with H : ~ In _ _ |- _ => apply H end. rewrite <- E. apply in_map. assumption. }
  rewrite Hc. reflexivity.
Qed.

(* ------------------------------------------------------- the table of the source *)
(* These two facts are about the generated row_table: every period has exactly one
   row, in the documented order, and a row tests the keep-within option of its own
   period.  They are re-checked against the source on every run. *)
Lemma table_periods : map (fun r => (rd_p r, rd_w r)) row_table = map (fun p => (p, p)) all_periods.
Proof. reflexivity. Qed.

Lemma table_rd_p : map rd_p row_table = all_periods.
Proof.
  change (map rd_p row_table) with (map fst (map (fun r => (rd_p r, rd_w r)) row_table)).
  rewrite table_periods. reflexivity.
Qed.

Lemma table_nodup : NoDup (map rd_p row_table).
Proof.
  rewrite table_rd_p. unfold all_periods.
  repeat (constructor; [simpl; intuition discriminate|]). constructor.
Qed.

Lemma table_w_eq_p r : In r row_table -> rd_w r = rd_p r.
Proof.
  intro Hin.
  assert (H : In (rd_p r, rd_w r) (map (fun r => (rd_p r, rd_w r)) row_table)).
  { apply (in_map (fun r => (rd_p r, rd_w r))). assumption. }
  rewrite table_periods in H. apply in_map_iff in H. destruct H as [p [Hp _]].
  inversion Hp. congruence.
Qed.

Lemma find_row p : exists r, find (fun r => period_eqb (rd_p r) p) row_table = Some r /\ In r row_table /\ rd_p r = p.
Proof.
  destruct (find (fun r => period_eqb (rd_p r) p) row_table) as [r|] eqn:F.
  - exists r. split; [reflexivity|]. apply find_some in F. destruct F as [Hin He].
    apply period_eqb_eq in He. auto.
  - exfalso. assert (Hp : In p (map rd_p row_table)) by (rewrite table_rd_p; destruct p; simpl; tauto).
    apply in_map_iff in Hp. destruct Hp as [r [Hr Hin]].
    apply (find_none _ _ F) in Hin. subst p. rewrite period_eqb_refl in Hin. discriminate.
Qed.

Lemma row_unique r1 r2 : In r1 row_table -> In r2 row_table -> rd_p r1 = rd_p r2 -> r1 = r2.
Proof.
  pose proof table_nodup as ND. revert ND.
  generalize row_table as tbl. induction tbl as [|r tbl IH]; intros ND H1 H2 E; [inversion H1|].
  inv ND. destruct H1 as [H1|H1], H2 as [H2|H2]; subst; try reflexivity.
  - exfalso. match goal with H : ~ In _ _ |- _ => apply H end. rewrite E. apply in_map. assumption.
  - exfalso. match goal with H : ~ In _ _ |- _ => apply H end. rewrite <- E. apply in_map. assumption.
  - apply IH; assumption.
Qed.

Lemma eq_of_row r : In r row_table -> eq_of (rd_p r) = rd_eq r.
Proof.
  intro Hin. unfold eq_of. destruct (find_row (rd_p r)) as [r' [F [Hin' E]]]. rewrite F.
  f_equal. apply row_unique; assumption.
Qed.

Lemma row_fires_table q sn last hn :
  row_fires row_table q sn last hn = cond (eq_of q) sn last hn.
Proof.
  destruct (find_row q) as [r [F [Hin E]]].
  destruct (cond (eq_of q) sn last hn) eqn:C.
  - unfold row_fires. apply existsb_exists. exists r. split; [assumption|].
    subst q. rewrite period_eqb_refl. rewrite <- (eq_of_row r Hin). rewrite C. reflexivity.
  - apply not_true_is_false. intro H. unfold row_fires in H. apply existsb_exists in H.
    destruct H as [r' [Hin' H']]. apply andb_true_iff in H'. destruct H' as [H1 H2].
    apply period_eqb_eq in H1. rewrite H1 in C. rewrite (eq_of_row r' Hin') in C. congruence.
Qed.

(* membership in the reasons produced by the rows *)
Lemma rows_reasons k cs sn last hn latest x :
  In x (fst (rows_step k row_table cs sn last hn latest)) <->
  match x with
  | RCount p => cond (eq_of p) sn last hn = true /\ live (cs p) = true
  | RWithin p => cond (eq_of p) sn last hn = true /\ within_b k p sn latest = true
  | _ => False
  end.
Proof.
  rewrite rows_step_fst by apply table_nodup.
  rewrite in_flat_map. split.
  - intros [r [Hin Hx]]. rewrite row_step_fst in Hx. rewrite <- (eq_of_row r Hin) in Hx.
    rewrite (table_w_eq_p r Hin) in Hx.
    destruct (cond (eq_of (rd_p r)) sn last hn) eqn:C; [|inversion Hx].
    apply in_app_or in Hx. destruct Hx as [Hx|Hx].
    + destruct (live (cs (rd_p r))) eqn:Lv; [|inversion Hx].
      destruct Hx as [Hx|[]]. subst x. auto.
    + destruct (within_b k (rd_p r) sn latest) eqn:W; [|inversion Hx].
      destruct Hx as [Hx|[]]. subst x. auto.
  - intro H. destruct x as [| |p|p| |]; try contradiction; destruct H as [C H];
      destruct (find_row p) as [r [F [Hin E]]]; exists r; (split; [assumption|]);
      rewrite row_step_fst; rewrite <- (eq_of_row r Hin); rewrite (table_w_eq_p r Hin);
      rewrite E, C, H; apply in_or_app; [left|right].
    + left. reflexivity.
    + left. reflexivity.
Qed.

(* ------------------------------------------------------------ matches vs. spec *)
Definition inv_cs (k : keep) (cs : period -> option Z) (seen : period -> Z) : Prop :=
  forall p, 0 <= seen p /\ cs p = cnt_after (k_count k p) (seen p).

Lemma matches_reasons k cs seen sn prev rest latest x :
  inv_cs k cs seen ->
  In x (fst (matches k cs sn (hd_error prev) (negb (is_nil rest)) latest)) <->
  reason_holds L_adj k latest seen prev sn rest x = true.
Proof.
  intro I. unfold matches.
  destruct (rows_step k row_table cs sn (hd_error prev) (negb (is_nil rest)) latest) as [rs cs'] eqn:E.
  simpl. rewrite !in_app_iff.
  assert (R : forall y, In y rs <-> _) by
    (intro y; change rs with (fst (rs, cs')); rewrite <- E; apply rows_reasons).
  destruct x as [| |p|p| |]; simpl.
  - destruct (existsb _ (k_ids k)); simpl.
    + split; auto.
    + split; [intros [[]|[H|H]]|discriminate].
      * destruct (negb (is_nil (k_tags k)) && tags_match (s_tags sn) (k_tags k)); simpl in H; intuition discriminate.
      * apply R in H. contradiction.
  - destruct (negb (is_nil (k_tags k)) && tags_match (s_tags sn) (k_tags k)); simpl.
    + split; auto.
    + split; [intros [H|[[]|H]]|discriminate].
      * destruct (existsb _ (k_ids k)); simpl in H; intuition discriminate.
      * apply R in H. contradiction.
  - unfold L_adj. destruct (I p) as [Hs Hc]. rewrite <- live_cnt_after by assumption. rewrite <- Hc.
    rewrite andb_true_iff. rewrite <- (R (RCount p)). split.
    + intros [H|[H|H]]; [| |assumption].
      * destruct (existsb _ (k_ids k)); simpl in H; intuition discriminate.
      * destruct (negb (is_nil (k_tags k)) && tags_match (s_tags sn) (k_tags k)); simpl in H; intuition discriminate.
    + auto.
  - unfold L_adj. rewrite andb_true_iff. fold (within_b k p sn latest). rewrite <- (R (RWithin p)). split.
    + intros [H|[H|H]]; [| |assumption].
      * destruct (existsb _ (k_ids k)); simpl in H; intuition discriminate.
      * destruct (negb (is_nil (k_tags k)) && tags_match (s_tags sn) (k_tags k)); simpl in H; intuition discriminate.
    + auto.
  - split; [|discriminate]. intros [H|[H|H]].
    + destruct (existsb _ (k_ids k)); simpl in H; intuition discriminate.
    + destruct (negb (is_nil (k_tags k)) && tags_match (s_tags sn) (k_tags k)); simpl in H; intuition discriminate.
    + apply R in H. contradiction.
  - split; [|discriminate]. intros [H|[H|H]].
    + destruct (existsb _ (k_ids k)); simpl in H; intuition discriminate.
    + destruct (negb (is_nil (k_tags k)) && tags_match (s_tags sn) (k_tags k)); simpl in H; intuition discriminate.
    + apply R in H. contradiction.
Qed.

Lemma matches_inv k cs seen sn prev rest latest :
  inv_cs k cs seen ->
  inv_cs k (snd (matches k cs sn (hd_error prev) (negb (is_nil rest)) latest))
         (fun p => if L_adj p prev sn rest then seen p + 1 else seen p).
Proof.
  intros I p. unfold matches.
  destruct (rows_step k row_table cs sn (hd_error prev) (negb (is_nil rest)) latest) as [rs cs'] eqn:E.
  simpl. change cs' with (snd (rs, cs')). rewrite <- E.
  rewrite rows_step_snd by apply table_nodup. rewrite row_fires_table.
  unfold L_adj. destruct (I p) as [Hs Hc].
  destruct (cond (eq_of p) sn (hd_error prev) (negb (is_nil rest))).
  - split; [lia|]. rewrite Hc. apply dec_cnt_after. assumption.
  - auto.
Qed.

Lemma all_reasons_complete x f :
  (f RSnapshot = false) -> (f RUnchanged = false) ->
  f x = true -> existsb f all_reasons = true.
Proof.
  intros H1 H2 Hx. apply existsb_exists. exists x. split; [|assumption].
  destruct x as [| |p|p| |]; try congruence; unfold all_reasons, all_periods; simpl;
    try destruct p; tauto.
Qed.

Lemma matches_keep k cs seen sn prev rest latest :
  inv_cs k cs seen ->
  negb (is_nil (fst (matches k cs sn (hd_error prev) (negb (is_nil rest)) latest))) =
  rules_keep L_adj k latest seen prev sn rest.
Proof.
  intro I. unfold rules_keep.
  destruct (fst (matches k cs sn (hd_error prev) (negb (is_nil rest)) latest)) as [|x rs] eqn:E; cbn [is_nil negb].
  - symmetry. apply not_true_is_false. intro H. apply existsb_exists in H. destruct H as [x [_ Hx]].
    apply (matches_reasons k cs seen sn prev rest latest x I) in Hx. rewrite E in Hx. inversion Hx.
  - symmetry. apply (all_reasons_complete x); [reflexivity | reflexivity |].
    apply (matches_reasons k cs seen sn prev rest latest x I). rewrite E. left. reflexivity.
Qed.

(* ------------------------------------------------------------------ the loop *)
Definition flag (e : snap * bool * list reason) : bool := snd (fst e).
Definition reasons (e : snap * bool * list reason) : list reason := snd e.
Definition snap_of (e : snap * bool * list reason) : snap := fst (fst e).

Lemma go_snaps k now latest : forall l cs last, map snap_of (go k now latest cs last l) = l.
Proof.
  induction l as [|sn rest IH]; intros cs last; simpl; [reflexivity|].
  destruct (stage_of k now sn rest); simpl; try (rewrite IH; reflexivity).
  destruct (matches k cs sn last (negb (is_nil rest)) latest) as [rs cs'] eqn:E. simpl.
  rewrite IH. reflexivity.
Qed.

Lemma bump_ext L k now seen prev sn rest :
  forall p, bump L k now seen prev sn rest p =
            if is_rules (stage_of k now sn rest) && L p prev sn rest then seen p + 1 else seen p.
Proof. reflexivity. Qed.

Lemma inv_cs_ext k cs seen seen' : (forall p, seen p = seen' p) -> inv_cs k cs seen -> inv_cs k cs seen'.
Proof. intros E I p. rewrite <- E. apply I. Qed.

Lemma go_flags k now latest : forall l cs seen prev,
  inv_cs k cs seen ->
  map flag (go k now latest cs (hd_error prev) l) = spec_go L_adj k now latest seen prev l.
Proof.
  induction l as [|sn rest IH]; intros cs seen prev I; [reflexivity|].
  cbn [go spec_go]. unfold spec_keep.
  destruct (stage_of k now sn rest) eqn:St; cbn [map flag fst snd].
  - f_equal. change (Some sn) with (hd_error (sn :: prev)). apply IH.
    eapply inv_cs_ext; [|exact I]. intro p. rewrite bump_ext, St. reflexivity.
  - f_equal. change (Some sn) with (hd_error (sn :: prev)). apply IH.
    eapply inv_cs_ext; [|exact I]. intro p. rewrite bump_ext, St. reflexivity.
  - f_equal. change (Some sn) with (hd_error (sn :: prev)). apply IH.
    eapply inv_cs_ext; [|exact I]. intro p. rewrite bump_ext, St. reflexivity.
  - pose proof (matches_keep k cs seen sn prev rest latest I) as MK.
    pose proof (matches_inv k cs seen sn prev rest latest I) as MI.
    destruct (matches k cs sn (hd_error prev) (negb (is_nil rest)) latest) as [rs cs'] eqn:E.
    cbn [map flag fst snd] in *. f_equal; [exact MK|].
    change (Some sn) with (hd_error (sn :: prev)). apply IH.
    eapply inv_cs_ext; [|exact MI]. intro p. rewrite bump_ext, St. reflexivity.
Qed.

Lemma inv_init k : inv_cs k (k_count k) (fun _ => 0).
Proof.
  intro p. split; [lia|]. unfold cnt_after. destruct (k_count k p) as [n|]; [|reflexivity].
  destruct (n <=? 0) eqn:E; [reflexivity|]. f_equal. lia.
Qed.

Theorem apply_meets_spec_lemma k now l res :
  apply_sorted k now l = Some res ->
  map snap_of res = l /\ map flag res = adj_apply k now l.
Proof.
  unfold apply_sorted, adj_apply. destruct (negb (is_valid k)); [discriminate|].
  destruct l as [|s0 l']; intro H; injection H as <-; [split; reflexivity|].
  split; [exact (go_snaps k now (s_inst s0) (s0 :: l') (k_count k) None)|].
  exact (go_flags k now (s_inst s0) (s0 :: l') (k_count k) (fun _ => 0) [] (inv_init k)).
Qed.
