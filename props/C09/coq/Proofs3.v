(* C09 — lemmas, part 3: orders and sorting; Grouped::from_items is a partition of the
   input by group key. *)
From Verif.Base Require Import Tactics.
Require Import Coq.Sorting.Permutation.
From Verif.C09 Require Import Calendar ModelBase Extracted Model Spec Proofs Proofs2 Groups.
Local Open Scope Z_scope.

(* ------------------------------------------------------------ three-way comparisons *)
Record ord_ok {A} (c : A -> A -> comparison) : Prop := {
  ok_eq : forall a b, c a b = Eq <-> a = b;
  ok_sym : forall a b, c b a = CompOpp (c a b);
  ok_trans : forall a b d, c a b = Lt -> c b d = Lt -> c a d = Lt }.

Lemma ord_N : ord_ok N.compare.
Proof.
  constructor.
  - intros a b. apply N.compare_eq_iff.
  - intros a b. apply N.compare_antisym.
  - intros a b d H1 H2. rewrite N.compare_lt_iff in *. lia.
Qed.

Lemma then_cmp_eq p q : then_cmp p q = Eq <-> p = Eq /\ q = Eq.
Proof. destruct p, q; simpl; intuition discriminate. Qed.
Lemma then_cmp_lt p q : then_cmp p q = Lt <-> p = Lt \/ (p = Eq /\ q = Lt).
Proof. destruct p, q; simpl; intuition discriminate. Qed.
Lemma then_cmp_opp p q : CompOpp (then_cmp p q) = then_cmp (CompOpp p) (CompOpp q).
Proof. destruct p, q; reflexivity. Qed.

Lemma ord_opt {A} (c : A -> A -> comparison) : ord_ok c -> ord_ok (cmp_opt c).
Proof.
  intros [E S T]. constructor.
  - intros [a|] [b|]; simpl; try (split; intro H; discriminate); [|tauto].
    rewrite E. split; intro H; [subst; reflexivity | injection H; auto].
  - intros [a|] [b|]; simpl; auto.
  - intros [a|] [b|] [d|]; simpl; try discriminate; auto. apply T.
Qed.

Lemma ord_list {A} (c : A -> A -> comparison) : ord_ok c -> ord_ok (cmp_list c).
Proof.
  intros [E S T]. constructor.
  - induction a as [|x a IH]; destruct b as [|y b]; simpl; try (split; intro H; discriminate); [tauto|].
    rewrite then_cmp_eq, E, IH. split; [intros [-> ->]; reflexivity | intro H; injection H; auto].
  - induction a as [|x a IH]; destruct b as [|y b]; simpl; auto.
    rewrite then_cmp_opp, <- S, <- IH. reflexivity.
  - induction a as [|x a IH]; destruct b as [|y b]; destruct d as [|z d]; simpl; try discriminate; auto.
    rewrite !then_cmp_lt. intros [H1|[H1 H1']] [H2|[H2 H2']].
    + left. eapply T; eassumption.
    + apply E in H2. subst. auto.
    + apply E in H1. subst. auto.
    + right. apply E in H1. apply E in H2. subst. split; [apply E; reflexivity|]. eapply IH; eassumption.
Qed.

Definition cmp_pair {A B} (c1 : A -> A -> comparison) (c2 : B -> B -> comparison) (x y : A * B) : comparison :=
  then_cmp (c1 (fst x) (fst y)) (c2 (snd x) (snd y)).

Lemma ord_pair {A B} (c1 : A -> A -> comparison) (c2 : B -> B -> comparison) :
  ord_ok c1 -> ord_ok c2 -> ord_ok (cmp_pair c1 c2).
Proof.
  intros [E1 S1 T1] [E2 S2 T2]. constructor.
  - intros [a1 a2] [b1 b2]. unfold cmp_pair. simpl. rewrite then_cmp_eq, E1, E2.
    split; [intros [-> ->]; reflexivity | intro H; injection H; auto].
  - intros [a1 a2] [b1 b2]. unfold cmp_pair. simpl. rewrite then_cmp_opp, <- S1, <- S2. reflexivity.
  - intros [a1 a2] [b1 b2] [d1 d2]. unfold cmp_pair. simpl. rewrite !then_cmp_lt.
    intros [H1|[H1 H1']] [H2|[H2 H2']].
    + left. eapply T1; eassumption.
    + apply E1 in H2. subst. auto.
    + apply E1 in H1. subst. auto.
    + right. apply E1 in H1. apply E1 in H2. subst. split; [apply E1; reflexivity|]. eapply T2; eassumption.
Qed.

Lemma ord_inj {A B} (f : A -> B) (c : B -> B -> comparison) :
  (forall a b, f a = f b -> a = b) -> ord_ok c -> ord_ok (fun a b => c (f a) (f b)).
Proof.
  intros Inj [E S T]. constructor.
  - intros a b. rewrite E. split; [apply Inj | intros ->; reflexivity].
  - intros a b. apply S.
  - intros a b d. apply T.
Qed.

(* consequences *)
Section OrdFacts.
  Context {A} (c : A -> A -> comparison) (O : ord_ok c).
  Lemma ok_refl a : c a a = Eq.
  Proof. apply (ok_eq c O). reflexivity. Qed.
  Lemma ok_gt_lt a b : c a b = Gt <-> c b a = Lt.
  Proof. rewrite (ok_sym c O a b). destruct (c a b); simpl; intuition discriminate. Qed.
  Lemma ok_le_trans a b d : not_gt (c a b) = true -> not_gt (c b d) = true -> not_gt (c a d) = true.
  Proof.
    intros H1 H2. destruct (c a b) eqn:E1; try discriminate; destruct (c b d) eqn:E2; try discriminate.
    - apply (ok_eq c O) in E1. subst. rewrite E2. reflexivity.
    - apply (ok_eq c O) in E1. subst. rewrite E2. reflexivity.
    - apply (ok_eq c O) in E2. subst. rewrite E1. reflexivity.
    - rewrite (ok_trans c O a b d E1 E2). reflexivity.
  Qed.
  Lemma ok_lt_le_trans a b d : c a b = Lt -> not_gt (c b d) = true -> c a d = Lt.
  Proof.
    intros H1 H2. destruct (c b d) eqn:E2; try discriminate.
    - apply (ok_eq c O) in E2. subst. assumption.
    - eapply (ok_trans c O); eassumption.
  Qed.
  Lemma ok_lt_neq a b : c a b = Lt -> a <> b.
  Proof. intros H E. subst. rewrite ok_refl in H. discriminate. Qed.
  Lemma ok_antisym a b : not_gt (c a b) = true -> not_gt (c b a) = true -> a = b.
  Proof.
    intros H1 H2. destruct (c a b) eqn:E1; try discriminate.
    - apply (ok_eq c O). assumption.
    - rewrite (ok_sym c O a b), E1 in H2. discriminate.
  Qed.
End OrdFacts.

(* ------------------------------------------------------------ the group key *)
Definition key_tuple (g : gkeyT) := (gk_host g, gk_label g, gk_paths g, gk_tags g).

Lemma key_tuple_inj a b : key_tuple a = key_tuple b -> a = b.
Proof. destruct a, b. unfold key_tuple. simpl. intro H. injection H. intros. subst. reflexivity. Qed.

(* the order found in the source is the lexicographic order of (hostname, label, paths, tags) *)
Lemma gkey_cmp_tuple a b :
  gkey_cmp a b =
  cmp_pair (cmp_pair (cmp_pair (cmp_opt N.compare) (cmp_opt N.compare)) (cmp_opt (cmp_list N.compare)))
           (cmp_opt (cmp_list N.compare)) (key_tuple a) (key_tuple b).
Proof. reflexivity. Qed.

Lemma ord_gkey : ord_ok gkey_cmp.
Proof.
  pose proof (ord_inj key_tuple _ key_tuple_inj
    (ord_pair _ _ (ord_pair _ _ (ord_pair _ _ (ord_opt _ ord_N) (ord_opt _ ord_N)) (ord_opt _ (ord_list _ ord_N)))
                  (ord_opt _ (ord_list _ ord_N)))) as H.
  destruct H as [E S T]. constructor; intros; rewrite ?gkey_cmp_tuple in *; auto.
  eapply T; eassumption.
Qed.

Lemma list_eqb_N a : forall b, list_eqb N.eqb a b = true <-> a = b.
Proof.
  induction a as [|x a IH]; destruct b as [|y b]; simpl; try (split; intro H; discriminate); [tauto|].
  rewrite andb_true_iff, N.eqb_eq, IH. split; [intros [-> ->]; reflexivity | intro H; injection H; auto].
Qed.

Lemma opt_eqb_eq {A} (e : A -> A -> bool) : (forall a b, e a b = true <-> a = b) ->
  forall x y, opt_eqb e x y = true <-> x = y.
Proof.
  intros H [a|] [b|]; simpl; try (split; intro H'; discriminate); [|tauto].
  rewrite H. split; [intros ->; reflexivity | intro H'; injection H'; auto].
Qed.

(* the derived `==` of the source is equality of all four fields *)
Lemma gkey_eqb_eq a b : gkey_eqb a b = true <-> a = b.
Proof.
  unfold gkey_eqb, eqb_str, eqb_strlist. rewrite !andb_true_iff.
  rewrite !(opt_eqb_eq N.eqb N.eqb_eq), !(opt_eqb_eq (list_eqb N.eqb) list_eqb_N).
  split.
  - intros [[[H1 H2] H3] H4]. destruct a, b. simpl in *. subst. reflexivity.
  - intros ->. auto.
Qed.

Lemma gkey_eqb_refl a : gkey_eqb a a = true.
Proof. apply gkey_eqb_eq. reflexivity. Qed.

Lemma gkey_eqb_false a b : gkey_eqb a b = false <-> a <> b.
Proof.
  split.
  - intros H E. apply gkey_eqb_eq in E. congruence.
  - intro H. destruct (gkey_eqb a b) eqn:E; [apply gkey_eqb_eq in E; contradiction | reflexivity].
Qed.

Lemma keyis_iff c g s : keyis c g s = true <-> gkey c s = g.
Proof. apply gkey_eqb_eq. Qed.

(* ------------------------------------------------------------ sets as canonical lists *)
Fixpoint strict_asc (l : list N) : Prop :=
  match l with
  | a :: (b :: _) as t => (a < b)%N /\ strict_asc t
  | _ => True
  end.

Lemma strict_asc_tail a l : strict_asc (a :: l) -> strict_asc l.
Proof. destruct l; simpl; tauto. Qed.

Lemma strict_asc_lt a l : strict_asc (a :: l) -> forall x, In x l -> (a < x)%N.
Proof.
  revert a. induction l as [|b l IH]; intros a H x Hin; [inversion Hin|].
  simpl in H. destruct H as [H1 H2]. destruct Hin as [->|Hin]; [assumption|].
  specialize (IH b H2 x Hin). lia.
Qed.

Lemma ins_in x l y : In y (ins x l) <-> y = x \/ In y l.
Proof.
  induction l as [|z l IH]; simpl; [intuition|].
  destruct (N.compare x z) eqn:E; simpl.
  - apply N.compare_eq_iff in E. subst. intuition.
  - intuition.
  - rewrite IH. intuition.
Qed.

Lemma ins_asc x l : strict_asc l -> strict_asc (ins x l).
Proof.
  induction l as [|z l IH]; intro H; simpl; [exact I|].
  destruct (N.compare x z) eqn:E.
  - assumption.
  - apply N.compare_lt_iff in E. simpl. auto.
  - apply N.compare_gt_iff in E. specialize (IH (strict_asc_tail _ _ H)).
    destruct (ins x l) as [|w r] eqn:EI; [exact I|]. split; [|assumption].
    assert (Hw : In w (ins x l)) by (rewrite EI; left; reflexivity).
    apply ins_in in Hw. destruct Hw as [->|Hw]; [assumption|]. eapply strict_asc_lt; eassumption.
Qed.

Lemma canon_in l y : In y (canon l) <-> In y l.
Proof.
  induction l as [|x l IH]; simpl; [tauto|]. rewrite ins_in, IH. intuition.
Qed.

Lemma canon_asc l : strict_asc (canon l).
Proof. induction l as [|x l IH]; simpl; [exact I | apply ins_asc; assumption]. Qed.

Lemma strict_asc_ext : forall a b, strict_asc a -> strict_asc b -> (forall x, In x a <-> In x b) -> a = b.
Proof.
  induction a as [|x a IH]; intros b Ha Hb H.
  - destruct b as [|y b]; [reflexivity|]. exfalso. apply (H y). left. reflexivity.
  - destruct b as [|y b]; [exfalso; apply (H x); left; reflexivity|].
    assert (x = y).
    { pose proof (proj1 (H x) (or_introl eq_refl)) as H1. pose proof (proj2 (H y) (or_introl eq_refl)) as H2.
      destruct H1 as [H1|H1]; [auto|]. destruct H2 as [H2|H2]; [auto|].
      pose proof (strict_asc_lt _ _ Ha _ H2). pose proof (strict_asc_lt _ _ Hb _ H1). lia. }
    subst y. f_equal. apply IH; [eapply strict_asc_tail; eassumption | eapply strict_asc_tail; eassumption|].
    intro z. split; intro Hz.
    + destruct (proj1 (H z) (or_intror Hz)) as [E|E]; [|assumption].
      subst z. pose proof (strict_asc_lt _ _ Ha _ Hz). lia.
    + destruct (proj2 (H z) (or_intror Hz)) as [E|E]; [|assumption].
      subst z. pose proof (strict_asc_lt _ _ Hb _ Hz). lia.
Qed.

(* two string lists have the same canonical form iff they are equal as sets *)
Lemma canon_eq_iff a b : canon a = canon b <-> (forall x, In x a <-> In x b).
Proof.
  split.
  - intros H x. rewrite <- (canon_in a), <- (canon_in b), H. tauto.
  - intro H. apply strict_asc_ext; try apply canon_asc. intro x. rewrite !canon_in. apply H.
Qed.

(* when are two snapshots in the same group *)
Lemma same_key_iff_lemma c a b :
  gkey c a = gkey c b <->
  (cr_host c = true -> s_host a = s_host b) /\
  (cr_label c = true -> s_label a = s_label b) /\
  (cr_paths c = true -> forall x, In x (s_paths a) <-> In x (s_paths b)) /\
  (cr_tags c = true -> forall x, In x (s_tags a) <-> In x (s_tags b)).
Proof.
  unfold gkey. rewrite <- !canon_eq_iff. split.
  - intro H. injection H. intros H4 H3 H2 H1.
    destruct (cr_host c), (cr_label c), (cr_paths c), (cr_tags c);
      repeat split; intros; try discriminate; congruence.
  - intros (H1 & H2 & H3 & H4).
    destruct (cr_host c), (cr_label c), (cr_paths c), (cr_tags c);
      rewrite ?H1, ?H2, ?H3, ?H4 by reflexivity; reflexivity.
Qed.

(* ------------------------------------------------------------ sorting *)
Section Sorting.
  Context {A} (cmp : A -> A -> comparison).
  Hypothesis le_total : forall a b, not_gt (cmp a b) = false -> not_gt (cmp b a) = true.
  Hypothesis le_trans : forall a b d, not_gt (cmp a b) = true -> not_gt (cmp b d) = true -> not_gt (cmp a d) = true.

  Lemma sorted_by_tail a l : sorted_by cmp (a :: l) = true -> sorted_by cmp l = true.
  Proof. destruct l; simpl; [reflexivity|]. rewrite andb_true_iff. tauto. Qed.

  Lemma sorted_by_head a l : sorted_by cmp (a :: l) = true -> forall b, In b l -> not_gt (cmp a b) = true.
  Proof.
    revert a. induction l as [|x l IH]; intros a H b Hin; [inversion Hin|].
    cbn [sorted_by] in H. apply andb_true_iff in H. destruct H as [H1 H2].
    destruct Hin as [->|Hin]; [assumption|]. eapply le_trans; [exact H1|]. apply IH; assumption.
  Qed.

  Lemma insert_perm x l : Permutation (x :: l) (insert_by cmp x l).
  Proof.
    induction l as [|y l IH]; simpl; [apply Permutation_refl|].
    destruct (not_gt (cmp x y)); [apply Permutation_refl|].
    eapply perm_trans; [apply perm_swap|]. apply perm_skip. assumption.
  Qed.

  Lemma insert_sorted x l : sorted_by cmp l = true -> sorted_by cmp (insert_by cmp x l) = true.
  Proof.
    induction l as [|y l IH]; intro H; [reflexivity|].
    cbn [insert_by]. destruct (not_gt (cmp x y)) eqn:E.
    - cbn [sorted_by]. rewrite E. assumption.
    - specialize (IH (sorted_by_tail _ _ H)). apply le_total in E.
      destruct l as [|z l]; cbn [insert_by] in *.
      + cbn [sorted_by]. rewrite E. reflexivity.
      + destruct (not_gt (cmp x z)) eqn:E2.
        * cbn [sorted_by] in *. rewrite E, E2. cbn [andb]. apply andb_true_iff in H. apply H.
        * cbn [sorted_by] in H |- *. apply andb_true_iff in H. destruct H as [H1 H2]. rewrite H1. exact IH.
  Qed.

  Lemma sort_by_perm l : Permutation l (sort_by cmp l).
  Proof.
    induction l as [|x l IH]; simpl; [constructor|].
    eapply perm_trans; [apply perm_skip; exact IH | apply insert_perm].
  Qed.

  Lemma sort_by_sorted l : sorted_by cmp (sort_by cmp l) = true.
  Proof. induction l as [|x l IH]; simpl; [reflexivity | apply insert_sorted; assumption]. Qed.

  (* stability, in the form needed: the elements that satisfy a predicate closed under
     "equivalent" keep their input order *)
  Lemma insert_filter (f : A -> bool) x l :
    (forall y, f x = true -> not_gt (cmp x y) = false -> f y = false) ->
    filter f (insert_by cmp x l) = filter f (x :: l).
  Proof.
    intro Hf. induction l as [|y l IH]; [reflexivity|].
    cbn [insert_by]. destruct (not_gt (cmp x y)) eqn:E; [reflexivity|].
    cbn [filter] in *. rewrite IH. destruct (f x) eqn:Fx; [|reflexivity].
    rewrite (Hf y eq_refl E). reflexivity.
  Qed.

  Lemma sort_by_filter (f : A -> bool) l :
    (forall x y, f x = true -> not_gt (cmp x y) = false -> f y = false) ->
    filter f (sort_by cmp l) = filter f l.
  Proof.
    intro Hf. induction l as [|x l IH]; [reflexivity|].
    cbn [sort_by fold_right]. fold (sort_by cmp l). rewrite insert_filter by (apply Hf).
    cbn [filter]. rewrite IH. reflexivity.
  Qed.
End Sorting.

Lemma Permutation_filter {A} (f : A -> bool) l l' : Permutation l l' -> Permutation (filter f l) (filter f l').
Proof.
  induction 1; simpl.
  - constructor.
  - destruct (f x); [apply perm_skip|]; assumption.
  - destruct (f x), (f y); try apply Permutation_refl. apply perm_swap.
  - eapply perm_trans; eassumption.
Qed.

(* the two orders of the source are total preorders *)
Lemma key_order_total c a b : not_gt (key_order c a b) = false -> not_gt (key_order c b a) = true.
Proof.
  unfold key_order. intro H. destruct (gkey_cmp (gkey c a) (gkey c b)) eqn:E; try discriminate.
  apply (ok_gt_lt _ ord_gkey) in E. rewrite E. reflexivity.
Qed.
Lemma key_order_trans c a b d :
  not_gt (key_order c a b) = true -> not_gt (key_order c b d) = true -> not_gt (key_order c a d) = true.
Proof. unfold key_order. apply (ok_le_trans _ ord_gkey). Qed.

Lemma apply_order_le a b : not_gt (apply_order a b) = (s_inst b <=? s_inst a).
Proof.
  unfold apply_order, snap_cmp. destruct (Z.compare_spec (s_inst a) (s_inst b)); simpl; lia.
Qed.
Lemma apply_order_total a b : not_gt (apply_order a b) = false -> not_gt (apply_order b a) = true.
Proof. rewrite !apply_order_le. lia. Qed.
Lemma apply_order_trans a b d :
  not_gt (apply_order a b) = true -> not_gt (apply_order b d) = true -> not_gt (apply_order a d) = true.
Proof. rewrite !apply_order_le. lia. Qed.

(* the order `apply` sorts by (from the source) is "newest first" *)
Lemma sorted_apply_order l : sorted_by apply_order l = sorted_desc l.
Proof.
  induction l as [|a [|b l] IH]; try reflexivity.
  cbn [sorted_by sorted_desc] in *. rewrite IH, apply_order_le. reflexivity.
Qed.

Lemma ksort_stable_ok c l : Permutation l (ksort_stable c l) /\ key_sorted c (ksort_stable c l) = true.
Proof.
  split; [apply sort_by_perm|]. apply sort_by_sorted. apply key_order_total.
Qed.
Lemma tsort_stable_ok l : Permutation l (tsort_stable l) /\ sorted_desc (tsort_stable l) = true.
Proof.
  split; [apply sort_by_perm|]. rewrite <- sorted_apply_order.
  apply sort_by_sorted. apply apply_order_total.
Qed.

(* the stable key sort keeps the input order inside each group *)
Lemma ksort_stable_filter c g l : filter (keyis c g) (ksort_stable c l) = filter (keyis c g) l.
Proof.
  apply sort_by_filter. intros x y Hx Hxy. apply keyis_iff in Hx.
  apply not_true_is_false. intro Hy. apply keyis_iff in Hy.
  unfold key_order in Hxy. rewrite Hx, Hy, (ok_refl _ ord_gkey) in Hxy. discriminate.
Qed.
