(* C09 — extraction of the executable model and oracle (ExtrOcamlBasic only). *)
Require Extraction.
Require Import ExtrOcamlBasic.
From Verif.C09 Require Import Calendar ModelBase Extracted Model Spec Groups.
Extraction "model_ml.ml" apply_sorted civil_of add_span sorted_desc mkrow doc_apply adj_apply keys_monotone
  forget_groups_exec forget_groups_spec into_forget_ids apply_groups_sorted grouping_wf gkey default_key
  from_snapshots from_snapshots_forget_ids.
