(* C09 — lemmas, part 6: the command level in terms of the documented rules; locality
   (a snapshot's decision depends on its own group only); examples. *)
From Verif.Base Require Import Tactics.
Require Import Coq.Sorting.Permutation.
From Verif.C09 Require Import Calendar ModelBase Extracted Model Spec Proofs Proofs2 Groups Proofs3 Proofs4 Proofs5.
Local Open Scope Z_scope.

Lemma in_res_combine (res : list fsnap) e :
  In e res -> In (snap_of e, flag e) (combine (map snap_of res) (map flag res)).
Proof.
  induction res as [|x res IH]; intro H; [inversion H|].
  simpl. destruct H as [->|H]; [left; reflexivity | right; apply IH; assumption].
Qed.

Lemma combine_in_res (res : list fsnap) s b :
  In (s, b) (combine (map snap_of res) (map flag res)) -> exists rs, In (s, b, rs) res.
Proof.
  induction res as [|[[s' b'] rs'] res IH]; intro H; [inversion H|].
  simpl in H. destruct H as [H|H].
  - injection H as <- <-. exists rs'. left. reflexivity.
  - destruct (IH H) as [rs Hin]. exists rs. right. assumption.
Qed.

Lemma same_offset_perm l l' :
  Permutation l l' -> (forall a b, In a l -> In b l -> s_offs a = s_offs b) -> same_offset l' = true.
Proof.
  intros P H. apply same_offset_all. intros a b Ha Hb.
  apply H; eapply Permutation_in; try (apply Permutation_sym; exact P); assumption.
Qed.

Section Documented.
  Variable ksort : crit -> list snap -> list snap.
  Variable tsort : list snap -> list snap.
  Hypothesis ksort_ok : forall c l, Permutation l (ksort c l) /\ key_sorted c (ksort c l) = true.
  Hypothesis tsort_ok : forall l, Permutation l (tsort l) /\ sorted_desc (tsort l) = true.

  Let arr := arrangement ksort tsort.

  (* the ids returned are exactly the snapshots that the documented rules, applied to the
     snapshot's own group (newest first), do not keep *)
  Lemma forget_ids_documented_lemma c k now l ids :
    forget ksort tsort c k now l = Some ids ->
    (forall a b, In a l -> In b l -> gkey c a = gkey c b -> s_offs a = s_offs b) ->
    forall i, In i ids <->
      exists s, In s l /\ s_id s = i /\
        In (s, false) (combine (arr c l (gkey c s)) (doc_apply k now (arr c l (gkey c s)))).
  Proof.
    intros F OFF i.
    assert (DOC : forall s res, In s l -> apply_sorted k now (arr c l (gkey c s)) = Some res ->
              map snap_of res = arr c l (gkey c s) /\ map flag res = doc_apply k now (arr c l (gkey c s))).
    { intros s res Hs A. destruct (arrangement_spec ksort tsort ksort_ok tsort_ok c l (gkey c s)) as [P S].
      apply apply_is_documented_sorted_lemma; [exact S | | exact A].
      eapply same_offset_perm; [exact P|]. intros a b Ha Hb. unfold own_group in Ha, Hb.
      apply filter_In in Ha. apply filter_In in Hb. destruct Ha as [Ha Ka]. destruct Hb as [Hb Kb].
      apply keyis_iff in Ka. apply keyis_iff in Kb. apply OFF; congruence. }
    rewrite (forget_ids_exact_lemma ksort tsort ksort_ok tsort_ok c k now l ids F i). split.
    - intros (s & res & rs & H1 & H2 & H3 & H4). exists s. split; [assumption|]. split; [assumption|].
      destruct (DOC s res H1 H3) as [E1 E2]. unfold arr in *. rewrite <- E2, <- E1.
      apply (in_res_combine res (s, false, rs) H4).
    - intros (s & H1 & H2 & H3).
      unfold forget in F. destruct (forget_groups ksort tsort c k now l) as [fgs|] eqn:FG; [|discriminate].
      destruct (forget_groups_entries ksort tsort ksort_ok c k now l fgs FG) as [_ EN].
      assert (K : In (gkey c s) (group_keys c l)) by (apply (group_keys_in ksort ksort_ok); exists s; auto).
      destruct (apply_sorted k now (arr c l (gkey c s))) as [res|] eqn:A.
      + destruct (DOC s res H1 A) as [E1 E2]. unfold arr in *. rewrite <- E2, <- E1 in H3.
        apply combine_in_res in H3. destruct H3 as [rs H3]. exists s, res, rs. auto.
      + exfalso. apply apply_sorted_none in A.
        assert (N : forget_groups ksort tsort c k now l = None).
        { apply (forget_groups_none ksort tsort ksort_ok). split; [assumption|]. intro. subst. inversion H1. }
        congruence.
  Qed.
End Documented.

(* ------------------------------------------------------------ locality *)
Lemma group_keys_in_own c l g : In g (group_keys c l) <-> own_group c l g <> [].
Proof.
  rewrite (group_keys_in ksort_stable ksort_stable_ok). split.
  - intros [s [H1 H2]] E. assert (In s (own_group c l g)) by (apply filter_In; split; [assumption | apply keyis_iff; assumption]).
    rewrite E in H. inversion H.
  - intro N. destruct (own_group c l g) as [|s r] eqn:E; [contradiction|].
    assert (H : In s (own_group c l g)) by (rewrite E; left; reflexivity).
    apply filter_In in H. destruct H as [H K]. apply keyis_iff in K. exists s. auto.
Qed.

(* in the sort-free reading the entry of a key is determined by the snapshots that carry the
   key: snapshots of other groups can be added or removed without changing it *)
Lemma others_do_not_matter_lemma c k now l1 l2 f1 f2 g :
  forget_groups_spec c k now l1 = Some f1 -> forget_groups_spec c k now l2 = Some f2 ->
  own_group c l1 g = own_group c l2 g ->
  forall res, In (g, res) f1 <-> In (g, res) f2.
Proof.
  intros F1 F2 E res.
  rewrite (forget_groups_spec_entries c k now l1 f1 F1), (forget_groups_spec_entries c k now l2 f2 F2).
  rewrite !group_keys_in_own, E. tauto.
Qed.

Lemma own_group_app_other c l extra g :
  Forall (fun s => gkey c s <> g) extra -> own_group c (l ++ extra) g = own_group c l g.
Proof.
  intro H. unfold own_group. rewrite filter_app.
  replace (filter (keyis c g) extra) with (@nil snap); [apply app_nil_r|]. symmetry.
  apply filter_all_false. eapply Forall_impl; [|exact H]. intros s Hs. simpl in Hs.
  apply not_true_is_false. intro K. apply keyis_iff in K. contradiction.
Qed.

Lemma NoDup_insts_filter (f : snap -> bool) l : NoDup (map s_inst l) -> NoDup (map s_inst (filter f l)).
Proof.
  induction l as [|a l IH]; intro H; [constructor|].
  simpl in *. inversion H as [|? ? Hn ND]; subst. destruct (f a); [|apply IH; assumption].
  simpl. constructor; [|apply IH; assumption]. intro Hin. apply Hn.
  apply in_map_iff in Hin. destruct Hin as [x [E Hx]]. apply filter_In in Hx. rewrite <- E. apply in_map. apply Hx.
Qed.

(* ------------------------------------------------------------ examples (premises inhabited) *)
Definition mk_gsnap (inst : Z) (id host : N) (tags : list N) : snap :=
  {| s_inst := inst; s_offs := 0; s_id := [id]; s_tags := tags; s_del := DNotSet; s_tree := id;
     s_host := host; s_label := 0%N; s_paths := [1%N] |}.
Definition ex_crit : crit := {| cr_host := true; cr_label := true; cr_paths := true; cr_tags := false |}.
Definition ex_keep_last1 : keep :=
  {| k_count := fun p => match p with PLast => Some 1 | _ => None end;
     k_within := fun _ => None; k_tags := []; k_ids := []; k_none := false; k_delete_unchanged := false |}.
(* two hosts; host 2 has two snapshots, host 1 one *)
Definition ex_snaps := [mk_gsnap 100 1 2 [1; 2]%N; mk_gsnap 300 2 1 []; mk_gsnap 200 3 2 [2; 1; 2]%N].

Example ex_forget :
  forget_exec ex_crit ex_keep_last1 1000 ex_snaps = Some [[1%N]]
  /\ map fst (from_items ksort_stable ex_crit ex_snaps) = group_keys ex_crit ex_snaps
  /\ length (group_keys ex_crit ex_snaps) = 2%nat
  /\ (forall g, NoDup (map s_inst (own_group ex_crit ex_snaps g)))
  /\ NoDup (map s_id ex_snaps).
Proof.
  split; [vm_compute; reflexivity|]. split; [vm_compute; reflexivity|]. split; [vm_compute; reflexivity|]. split.
  - intro g. apply NoDup_insts_filter. vm_compute. repeat constructor; simpl; intuition discriminate.
  - vm_compute. repeat constructor; simpl; intuition discriminate.
Qed.

(* tag lists that are equal as sets give the same key when grouping by tags *)
Example ex_same_tags :
  gkey {| cr_host := false; cr_label := false; cr_paths := false; cr_tags := true |} (mk_gsnap 100 1 2 [1; 2]%N)
  = gkey {| cr_host := false; cr_label := false; cr_paths := false; cr_tags := true |} (mk_gsnap 200 3 1 [2; 1; 2]%N).
Proof. vm_compute. reflexivity. Qed.

Example ex_from_snapshots :
  from_snapshots_forget_ids 1000
    [mk_gsnap 100 1 1 []; {| s_inst := 5; s_offs := 0; s_id := [7%N]; s_tags := []; s_del := DAfter 1000; s_tree := 1%N;
                             s_host := 0%N; s_label := 0%N; s_paths := [] |};
     {| s_inst := 6; s_offs := 0; s_id := [8%N]; s_tags := []; s_del := DAfter 999; s_tree := 1%N;
        s_host := 0%N; s_label := 0%N; s_paths := [] |}] = [[1%N]; [8%N]].
Proof. vm_compute. reflexivity. Qed.

(* ------------------------------------------------------------ final statements (used by Props.v) *)
Definition ksort_spec (ksort : crit -> list snap -> list snap) : Prop :=
  forall c l, Permutation l (ksort c l) /\ key_sorted c (ksort c l) = true.
Definition tsort_spec (tsort : list snap -> list snap) : Prop :=
  forall l, Permutation l (tsort l) /\ sorted_desc (tsort l) = true.

Lemma sorts_exist : ksort_spec ksort_stable /\ tsort_spec tsort_stable.
Proof. split; [exact ksort_stable_ok | exact tsort_stable_ok]. Qed.

Lemma source_facts_lemma :
  (forall l, sorted_by apply_order l = sorted_desc l) /\
  ord_ok gkey_cmp /\
  (forall a b, gkey_eqb a b = true <-> a = b) /\
  (forall s now, must_keep s now = must_keep_src (s_del s) now) /\
  (forall s now, must_delete s now = must_delete_src (s_del s) now) /\
  from_items_sorts_by_group_key = true /\ retention_is_apply_per_group = true.
Proof.
  split; [exact sorted_apply_order|]. split; [exact ord_gkey|]. split; [exact gkey_eqb_eq|].
  split; [exact must_keep_src_eq|]. split; [exact must_delete_src_eq|]. split; reflexivity.
Qed.

Lemma grouping_is_partition_lemma ksort : ksort_spec ksort -> forall c l,
  keys_ascending (from_items ksort c l) = true /\
  NoDup (map fst (from_items ksort c l)) /\
  Permutation (concat (map snd (from_items ksort c l))) l /\
  (forall g items, In (g, items) (from_items ksort c l) ->
     items <> [] /\ items = filter (keyis c g) (ksort c l) /\ Permutation items (own_group c l g)) /\
  (forall s, In s l -> exists items, In (gkey c s, items) (from_items ksort c l) /\ In s items) /\
  map fst (from_items ksort c l) = group_keys c l.
Proof.
  intros K c l. destruct (from_items_partition_lemma ksort K c l) as (A & B & C & D).
  split; [assumption|]. split; [apply keys_ascending_nodup; assumption|].
  split; [assumption|]. split; [assumption|]. split; [assumption|]. apply from_items_keys. assumption.
Qed.

Lemma stable_grouping_lemma c l g items :
  In (g, items) (from_items ksort_stable c l) -> items = own_group c l g.
Proof.
  intro H. destruct (from_items_partition_lemma ksort_stable ksort_stable_ok c l) as (_ & _ & B & _).
  destruct (B g items H) as (_ & E & _). rewrite E. apply ksort_stable_filter.
Qed.

Lemma time_sort_determined_lemma l1 l2 :
  Permutation l1 l2 -> sorted_desc l1 = true -> sorted_desc l2 = true ->
  map s_inst l1 = map s_inst l2 /\ (NoDup (map s_inst l1) -> l1 = l2).
Proof.
  intros P S1 S2. split; [apply sorted_insts_unique; assumption | intro ND; apply sorted_desc_unique; assumption].
Qed.

Lemma arrangement_lemma ksort tsort : ksort_spec ksort -> tsort_spec tsort -> forall c l g,
  Permutation (own_group c l g) (arrangement ksort tsort c l g) /\
  sorted_desc (arrangement ksort tsort c l g) = true /\
  (NoDup (map s_inst (own_group c l g)) -> arrangement ksort tsort c l g = tsort_stable (own_group c l g)).
Proof.
  intros K T c l g. destruct (arrangement_spec ksort tsort K T c l g) as [P S].
  split; [assumption|]. split; [assumption|]. apply arrangement_distinct; assumption.
Qed.

Lemma forget_ids_exact_thm ksort tsort : ksort_spec ksort -> tsort_spec tsort -> forall c k now l ids,
  forget ksort tsort c k now l = Some ids ->
  forall i, In i ids <->
    exists s res rs, In s l /\ s_id s = i /\
      apply_sorted k now (arrangement ksort tsort c l (gkey c s)) = Some res /\ In (s, false, rs) res.
Proof. intros K T. apply forget_ids_exact_lemma; assumption. Qed.

Lemma forget_ids_documented_thm ksort tsort : ksort_spec ksort -> tsort_spec tsort -> forall c k now l ids,
  forget ksort tsort c k now l = Some ids ->
  (forall a b, In a l -> In b l -> gkey c a = gkey c b -> s_offs a = s_offs b) ->
  forall i, In i ids <->
    exists s, In s l /\ s_id s = i /\
      In (s, false) (combine (arrangement ksort tsort c l (gkey c s))
                             (doc_apply k now (arrangement ksort tsort c l (gkey c s)))).
Proof. intros K T. apply forget_ids_documented_lemma; assumption. Qed.

Lemma forget_partition_thm ksort tsort : ksort_spec ksort -> tsort_spec tsort -> forall c k now l fgs,
  forget_groups ksort tsort c k now l = Some fgs ->
  into_forget_ids fgs = map s_id (flat_map (fun fg : fgroup => removed_of (snd fg)) fgs) /\
  Permutation (flat_map (fun fg : fgroup => removed_of (snd fg)) fgs ++
               flat_map (fun fg : fgroup => kept_of (snd fg)) fgs) l /\
  (NoDup (map s_id l) -> NoDup (into_forget_ids fgs)).
Proof.
  intros K T c k now l fgs F. destruct (forget_partition_lemma ksort tsort K T c k now l fgs F) as [A B].
  split; [assumption|]. split; [assumption|]. intro ND.
  apply (forget_ids_nodup_lemma ksort tsort K T c k now l); [|assumption]. unfold forget. rewrite F. reflexivity.
Qed.

Lemma forget_local_thm ksort tsort : ksort_spec ksort -> tsort_spec tsort -> forall c k now l,
  (forall fgs, forget_groups ksort tsort c k now l = Some fgs ->
     map fst fgs = group_keys c l /\
     forall g res, In (g, res) fgs <->
       In g (group_keys c l) /\ apply_sorted k now (arrangement ksort tsort c l g) = Some res) /\
  ((forall g, NoDup (map s_inst (own_group c l g))) ->
     forget_groups ksort tsort c k now l = forget_groups_spec c k now l).
Proof.
  intros K T c k now l. split.
  - intros fgs F. apply (forget_groups_entries ksort tsort K c k now l fgs F).
  - apply forget_groups_deterministic; assumption.
Qed.

Lemma others_do_not_matter_thm c k now l extra f1 f2 g :
  forget_groups_spec c k now l = Some f1 -> forget_groups_spec c k now (l ++ extra) = Some f2 ->
  Forall (fun s => gkey c s <> g) extra ->
  forall res, In (g, res) f1 <-> In (g, res) f2.
Proof.
  intros F1 F2 H. apply (others_do_not_matter_lemma c k now l (l ++ extra) f1 f2 g F1 F2).
  symmetry. apply own_group_app_other. assumption.
Qed.

Lemma forget_errors_thm ksort tsort : ksort_spec ksort -> forall c k now l,
  forget_groups ksort tsort c k now l = None <-> is_valid k = false /\ l <> [].
Proof. intros K. apply forget_groups_none. assumption. Qed.

Lemma from_snapshots_thm now l :
  from_snapshots now l =
    [ (default_key, map (fun s => (s, must_keep s now, if must_keep s now then FSnapshot else FIfArgument)) l) ] /\
  from_snapshots_forget_ids now l = map s_id (filter (fun s => negb (must_keep s now)) l) /\
  (forall s, must_keep s now = true <-> s_del s = DNever \/ exists t, s_del s = DAfter t /\ now <= t).
Proof.
  split; [apply from_snapshots_flags_lemma|]. split; [apply from_snapshots_ids_lemma|]. intro s. apply must_keep_iff.
Qed.

(* ------------------------------------------------------------ raising a count, command level *)
Lemma flags_le_in : forall (res res' : list fsnap),
  map snap_of res = map snap_of res' -> flags_le (map flag res) (map flag res') ->
  forall s rs', In (s, false, rs') res' -> exists rs, In (s, false, rs) res.
Proof.
  induction res as [|e r IH]; intros res' E L s rs' Hin.
  - destruct res'; [inversion Hin | discriminate].
  - destruct res' as [|e' r']; [discriminate|].
    simpl in E. injection E as E1 E2. simpl in L. inversion L as [|? ? ? ? L1 L2]; subst.
    destruct Hin as [Hin|Hin].
    + subst e'. destruct e as [[s0 b0] rs0]. unfold snap_of, flag in *. simpl in *. subst s0.
      destruct b0; [specialize (L1 eq_refl); discriminate|]. exists rs0. left. reflexivity.
    + destruct (IH r' E2 L2 s rs' Hin) as [rs H]. exists rs. right. assumption.
Qed.

Lemma forget_raising_count_thm ksort tsort : ksort_spec ksort -> tsort_spec tsort ->
  forall c k k' now l ids ids',
  same_but_counts k k' ->
  forget ksort tsort c k now l = Some ids -> forget ksort tsort c k' now l = Some ids' ->
  forall i, In i ids' -> In i ids.
Proof.
  intros K T c k k' now l ids ids' S F F' i Hi.
  apply (forget_ids_exact_thm ksort tsort K T c k' now l ids' F') in Hi.
  destruct Hi as (s & res' & rs' & H1 & H2 & H3 & H4).
  apply (forget_ids_exact_thm ksort tsort K T c k now l ids F).
  destruct (apply_sorted k now (arrangement ksort tsort c l (gkey c s))) as [res|] eqn:A.
  - pose proof (raising_count_monotone_lemma k k' now _ res res' S A H3) as L.
    pose proof (apply_sorted_snaps _ _ _ _ A) as E1. pose proof (apply_sorted_snaps _ _ _ _ H3) as E2.
    destruct (flags_le_in res res' (eq_trans E1 (eq_sym E2)) L s rs' H4) as [rs Hin].
    exists s, res, rs. auto.
  - exfalso. apply apply_sorted_none in A.
    assert (N : forget_groups ksort tsort c k now l = None).
    { apply (forget_errors_thm ksort tsort K). split; [assumption|]. intro. subst. inversion H1. }
    unfold forget in F. rewrite N in F. discriminate.
Qed.
