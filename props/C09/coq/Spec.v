(* C09 — the declarative reading of the keep rules (executable, so that it can be
   extracted and used as the oracle when a proof or the correspondence breaks).

   Walking the list newest first, a snapshot that is neither protected, expired nor
   dropped as "unchanged" reaches the rule stage.  For a period p its *leader* test
   is a parameter L:
     - L_adj: the test the code performs (differs from the previous element under the
       period predicate taken from the source, or is the oldest snapshot);
     - L_doc: the documented one (no newer snapshot lies in the same period — period
       = equal documented key —, or is the oldest snapshot).
   A leader that reaches the rule stage is an *event* of p; `seen p` counts the
   events so far.  Rule p keeps a leader iff its count n is negative (-1 = all) or
   seen p < n.  Nothing here mentions a decreasing counter. *)
From Verif.Base Require Import Tactics.
From Verif.C09 Require Import Calendar ModelBase Extracted Model.
Local Open Scope Z_scope.

(* documented period keys *)
Definition key (p : period) (c : civil) : list Z :=
  match p with
  | PLast => []
  | PMinute => [c_year c; c_doy c; c_hour c; c_minute c]
  | PHour => [c_year c; c_doy c; c_hour c]
  | PDay => [c_year c; c_doy c]
  | PWeek => [c_iso_year c; c_iso_week c]
  | PMonth => [c_year c; c_month c]
  | PQuarter => [c_year c; (c_month c - 1) / 3]
  | PHalf => [c_year c; (c_month c - 1) / 6]
  | PYear => [c_year c]
  end.

Fixpoint zlist_eqb (a b : list Z) : bool :=
  match a, b with
  | [], [] => true
  | x :: a', y :: b' => (x =? y) && zlist_eqb a' b'
  | _, _ => false
  end.

(* same documented period; `last` has no period: every snapshot is its own *)
Definition same_period (p : period) (a b : civil) : bool :=
  match p with PLast => false | _ => zlist_eqb (key p a) (key p b) end.

(* the predicate the source uses for the row that decrements counter p *)
Definition eq_of (p : period) : civil -> civil -> bool :=
  match find (fun r => period_eqb (rd_p r) p) row_table with
  | Some r => rd_eq r
  | None => fun _ _ => false
  end.

Definition leader := period -> list snap -> snap -> list snap -> bool.
(* prev: the snapshots already walked, nearest (next newer) first *)
Definition L_adj : leader := fun p prev sn rest => cond (eq_of p) sn (hd_error prev) (negb (is_nil rest)).
Definition L_doc : leader := fun p prev sn rest =>
  is_nil rest || negb (existsb (fun o => same_period p (civ sn) (civ o)) prev).

Definition is_rules (s : stage) : bool := match s with SRules => true | _ => false end.

Definition reason_holds (L : leader) (k : keep) (latest : Z) (seen : period -> Z)
           (prev : list snap) (sn : snap) (rest : list snap) (r : reason) : bool :=
  match r with
  | RId => existsb (fun p => prefix_of p (s_id sn)) (k_ids k)
  | RTags => negb (is_nil (k_tags k)) && tags_match (s_tags sn) (k_tags k)
  | RCount p => L p prev sn rest &&
                match k_count k p with Some n => (n <? 0) || (seen p <? n) | None => false end
  | RWithin p => L p prev sn rest &&
                 match k_within k p with
                 | Some sp => latest <? add_span (s_inst sn) (s_offs sn) sp
                 | None => false end
  | RSnapshot | RUnchanged => false
  end.

Definition all_reasons : list reason :=
  [RId; RTags] ++ flat_map (fun p => [RCount p; RWithin p]) all_periods.

(* kept at the rule stage iff some stated rule applies *)
Definition rules_keep L k latest seen prev sn rest : bool :=
  existsb (reason_holds L k latest seen prev sn rest) all_reasons.

Definition spec_keep L k now latest seen prev sn rest : bool :=
  match stage_of k now sn rest with
  | SKeep => true
  | SDelete | SUnchanged => false
  | SRules => rules_keep L k latest seen prev sn rest
  end.

Definition bump (L : leader) (k : keep) (now : Z) (seen : period -> Z) prev sn rest : period -> Z :=
  fun p => if is_rules (stage_of k now sn rest) && L p prev sn rest then seen p + 1 else seen p.

Fixpoint spec_go (L : leader) (k : keep) (now latest : Z) (seen : period -> Z)
         (prev l : list snap) : list bool :=
  match l with
  | [] => []
  | sn :: rest =>
      spec_keep L k now latest seen prev sn rest
      :: spec_go L k now latest (bump L k now seen prev sn rest) (sn :: prev) rest
  end.

(* the documented result for a list sorted newest first *)
Definition doc_apply (k : keep) (now : Z) (l : list snap) : list bool :=
  match l with
  | [] => []
  | s0 :: _ => spec_go L_doc k now (s_inst s0) (fun _ => 0) [] l
  end.
Definition adj_apply (k : keep) (now : Z) (l : list snap) : list bool :=
  match l with
  | [] => []
  | s0 :: _ => spec_go L_adj k now (s_inst s0) (fun _ => 0) [] l
  end.

(* lexicographic order on keys; premise of runs_are_periods *)
Fixpoint lex_leb (a b : list Z) : bool :=
  match a, b with
  | [], _ => true
  | _ :: _, [] => false
  | x :: a', y :: b' => (x <? y) || ((x =? y) && lex_leb a' b')
  end.

(* along the list (newest first) the period keys never increase *)
Fixpoint keys_monotone_p (p : period) (l : list snap) : bool :=
  match l with
  | a :: (b :: _) as t => lex_leb (key p (civ b)) (key p (civ a)) && keys_monotone_p p t
  | _ => true
  end.
Definition keys_monotone (l : list snap) : bool := forallb (fun p => keys_monotone_p p l) all_periods.
