(* prelude: zn *)
(* C09 driver: same case lines as harness/src/bin/c09.rs.  Mode "cal": civil fields. *)
let rd_span t =
  let y = ni t in let mo = ni t in let w = ni t in let d = ni t in
  let h = ni t in let mi = ni t in let s = ni t in
  { sp_y = z_of_int y; sp_mo = z_of_int mo; sp_w = z_of_int w; sp_d = z_of_int d;
    sp_h = z_of_int h; sp_mi = z_of_int mi; sp_s = z_of_int s }

let periods = [| PLast; PMinute; PHour; PDay; PWeek; PMonth; PQuarter; PHalf; PYear |]
let pidx = function PLast -> 0 | PMinute -> 1 | PHour -> 2 | PDay -> 3 | PWeek -> 4
  | PMonth -> 5 | PQuarter -> 6 | PHalf -> 7 | PYear -> 8
let pname p = [| "last"; "minute"; "hour"; "day"; "week"; "month"; "quarter"; "half"; "year" |].(pidx p)

let rd_list t f = let n = ni t in ntimes n (fun () -> f t)
let rd_nlist t = rd_list t (fun t -> n_of_int (ni t))

(* the 16-bit id as the hex string of the 32-byte id: 4 nibbles then 60 zeros *)
let id_nibbles v =
  [ (v lsr 12) land 15; (v lsr 8) land 15; (v lsr 4) land 15; v land 15 ]
  @ List.init 60 (fun _ -> 0)

let reason_str = function
  | RId -> "id" | RTags -> "tags" | RSnapshot -> "snapshot" | RUnchanged -> "unchanged"
  | RCount p -> "c:" ^ pname p | RWithin p -> "w:" ^ pname p

let apply_case line =
  let t = toks line in
  let now = ni t in let _ = ni t in
  let cnt = Array.make 9 None in
  for i = 0 to 8 do if ni t = 1 then cnt.(i) <- Some (z_of_int (ni t)) done;
  let wi = Array.make 9 None in
  for i = 0 to 8 do if ni t = 1 then wi.(i) <- Some (rd_span t) done;
  let k_none = ni t = 1 in
  let du = ni t = 1 in
  let tags = rd_list t rd_nlist in
  let ids = rd_list t rd_nlist in
  let ns = ni t in
  let ids_of = Hashtbl.create 16 in
  let snaps = ntimes ns (fun () ->
    let inst = ni t in let off = ni t in let id = ni t in
    let tg = rd_nlist t in
    let del = match ni t with 0 -> DNotSet | 1 -> DNever | _ -> DAfter (z_of_int (ni t)) in
    let tree = ni t in
    let s = { s_inst = z_of_int inst; s_offs = z_of_int off;
              s_id = List.map n_of_int (id_nibbles id); s_tags = tg; s_del = del; s_tree = n_of_int tree } in
    Hashtbl.replace ids_of (inst, id) id; (s, id)) in
  let k = { k_count = (fun p -> cnt.(pidx p)); k_within = (fun p -> wi.(pidx p));
            k_tags = tags; k_ids = ids; k_none = k_none; k_delete_unchanged = du } in
  let l = List.map fst snaps in
  if not (sorted_desc l) then "unsorted" else
  match apply_sorted k (z_of_int now) l with
  | None -> "err"
  | Some res ->
    let b = Buffer.create 256 in
    Buffer.add_string b "ok";
    List.iter2 (fun ((_, kp), rs) (_, id) ->
      Buffer.add_string b (Printf.sprintf " %d:%d:%s" id (if kp then 1 else 0)
        (String.concat "+" (List.map reason_str rs)))) res snaps;
    (* oracle: documented keep flags, the adjacency reading, and the premise of runs_are_periods *)
    let flags f = String.concat "" (List.map (fun x -> if x then "1" else "0") f) in
    Buffer.add_string b (Printf.sprintf " | doc=%s adj=%s mono=%d"
      (flags (doc_apply k (z_of_int now) l)) (flags (adj_apply k (z_of_int now) l))
      (if keys_monotone l then 1 else 0));
    Buffer.contents b

let cal_case line =
  let t = toks line in
  let inst = ni t in let off = ni t in
  let sp = rd_span t in
  let c = civil_of (z_of_int inst) (z_of_int off) in
  Printf.sprintf "%d %d %d %d %d %d %d %d" (int_of_z c.c_year) (int_of_z c.c_month) (int_of_z c.c_doy)
    (int_of_z c.c_hour) (int_of_z c.c_minute) (int_of_z c.c_iso_year) (int_of_z c.c_iso_week)
    (int_of_z (add_span (z_of_int inst) (z_of_int off) sp))

let () =
  let mode = if Array.length Sys.argv > 2 then Sys.argv.(2) else "apply" in
  main_loop (if mode = "cal" then cal_case else apply_case)
