(* prelude: zn *)
(* C09 driver: same case lines as harness/src/bin/c09.rs.  Mode "cal": civil fields;
   mode "forget": the command level (grouping, retention per group, into_forget_ids, from_snapshots). *)
let rd_span t =
  let y = ni t in let mo = ni t in let w = ni t in let d = ni t in
  let h = ni t in let mi = ni t in let s = ni t in
  { sp_y = z_of_int y; sp_mo = z_of_int mo; sp_w = z_of_int w; sp_d = z_of_int d;
    sp_h = z_of_int h; sp_mi = z_of_int mi; sp_s = z_of_int s }

let periods = [| PLast; PMinute; PHour; PDay; PWeek; PMonth; PQuarter; PHalf; PYear |]
let pidx = function PLast -> 0 | PMinute -> 1 | PHour -> 2 | PDay -> 3 | PWeek -> 4
  | PMonth -> 5 | PQuarter -> 6 | PHalf -> 7 | PYear -> 8
let pname p = [| "last"; "minute"; "hour"; "day"; "week"; "month"; "quarter"; "half"; "year" |].(pidx p)

let rd_list t f = let n = ni t in ntimes n (fun () -> f t)
let rd_nlist t = rd_list t (fun t -> n_of_int (ni t))

(* the 16-bit id as the hex string of the 32-byte id: 4 nibbles then 60 zeros *)
let id_nibbles v =
  [ (v lsr 12) land 15; (v lsr 8) land 15; (v lsr 4) land 15; v land 15 ]
  @ List.init 60 (fun _ -> 0)

let reason_str = function
  | RId -> "id" | RTags -> "tags" | RSnapshot -> "snapshot" | RUnchanged -> "unchanged"
  | RCount p -> "c:" ^ pname p | RWithin p -> "w:" ^ pname p

let rd_keep t =
  let now = ni t in let _ = ni t in
  let cnt = Array.make 9 None in
  for i = 0 to 8 do if ni t = 1 then cnt.(i) <- Some (z_of_int (ni t)) done;
  let wi = Array.make 9 None in
  for i = 0 to 8 do if ni t = 1 then wi.(i) <- Some (rd_span t) done;
  let k_none = ni t = 1 in
  let du = ni t = 1 in
  let tags = rd_list t rd_nlist in
  let ids = rd_list t rd_nlist in
  (now, { k_count = (fun p -> cnt.(pidx p)); k_within = (fun p -> wi.(pidx p));
          k_tags = tags; k_ids = ids; k_none = k_none; k_delete_unchanged = du })

(* `ns` then per snapshot `inst off id <tags> del tree`, with ext: `host label <paths>` *)
let rd_snaps t ext =
  let ns = ni t in
  ntimes ns (fun () ->
    let inst = ni t in let off = ni t in let id = ni t in
    let tg = rd_nlist t in
    let del = match ni t with 0 -> DNotSet | 1 -> DNever | _ -> DAfter (z_of_int (ni t)) in
    let tree = ni t in
    let (h, lb, ps) = if ext then (let h = ni t in let lb = ni t in let ps = rd_nlist t in (h, lb, ps)) else (0, 0, []) in
    let s = { s_inst = z_of_int inst; s_offs = z_of_int off;
              s_id = List.map n_of_int (id_nibbles id); s_tags = tg; s_del = del; s_tree = n_of_int tree;
              s_host = n_of_int h; s_label = n_of_int lb; s_paths = ps } in
    (s, id))

let flags f = String.concat "" (List.map (fun x -> if x then "1" else "0") f)

let apply_case line =
  let t = toks line in
  let (now, k) = rd_keep t in
  let snaps = rd_snaps t false in
  let l = List.map fst snaps in
  if not (sorted_desc l) then "unsorted" else
  match apply_sorted k (z_of_int now) l with
  | None -> "err"
  | Some res ->
    let b = Buffer.create 256 in
    Buffer.add_string b "ok";
    List.iter2 (fun ((_, kp), rs) (_, id) ->
      Buffer.add_string b (Printf.sprintf " %d:%d:%s" id (if kp then 1 else 0)
        (String.concat "+" (List.map reason_str rs)))) res snaps;
    (* oracle: documented keep flags, the adjacency reading, and the premise of runs_are_periods *)
    Buffer.add_string b (Printf.sprintf " | doc=%s adj=%s mono=%d"
      (flags (doc_apply k (z_of_int now) l)) (flags (adj_apply k (z_of_int now) l))
      (if keys_monotone l then 1 else 0));
    Buffer.contents b

(* ---- command level: same strings as harness/src/bin/c09.rs *)
let id_of_nibbles nb =
  match List.map int_of_n nb with a :: b :: c :: d :: _ -> (a lsl 12) lor (b lsl 8) lor (c lsl 4) lor d | _ -> -1
let sid s = id_of_nibbles s.s_id
let host_str n = if n = 0 then "" else Printf.sprintf "h%02d" n
let label_str n = if n = 0 then "" else Printf.sprintf "l%02d" n
let path_str n = if n = 0 then "" else Printf.sprintf "/p%d" n
let tag_str n = Printf.sprintf "t%d" n
let key_str g =
  let o f = function None -> "-" | Some n -> "[" ^ f (int_of_n n) ^ "]" in
  let l f = function None -> "-" | Some ns ->
    Printf.sprintf "[%d:%s]" (List.length ns) (String.concat "," (List.map (fun n -> f (int_of_n n)) ns)) in
  Printf.sprintf "h=%s,l=%s,p=%s,t=%s" (o host_str g.gk_host) (o label_str g.gk_label) (l path_str g.gk_paths) (l tag_str g.gk_tags)
let group_str rstr (g, items) =
  String.concat " " (key_str g :: List.map (fun ((s, kp), r) ->
    Printf.sprintf "%d:%d:%s" (sid s) (if kp then 1 else 0) (rstr r)) items)
let groups_str rstr gs = String.concat " ; " (List.map (group_str rstr) gs)
let ids_str ids = String.concat "," (List.map (fun nb -> string_of_int (id_of_nibbles nb)) ids)
let rs_str rs = String.concat "+" (List.map reason_str rs)
let result_str = function
  | None -> "err"
  | Some fgs -> Printf.sprintf "ok %s | ids=%s" (groups_str rs_str fgs) (ids_str (into_forget_ids fgs))

(* `<4 criterion flags> <keep options> <snapshots, ext> <arrangement>`; arrangement: -1, or the number
   of groups and per group the number of items and their ids, as the implementation returned them *)
let forget_case line =
  let t = toks line in
  let b1 () = ni t = 1 in
  let h = b1 () in let lb = b1 () in let ps = b1 () in let tg = b1 () in
  let cr = { cr_host = h; cr_label = lb; cr_paths = ps; cr_tags = tg } in
  let (now, k) = rd_keep t in
  let snaps = rd_snaps t true in
  let l = List.map fst snaps in
  let nowz = z_of_int now in
  let byid = Hashtbl.create 16 in
  List.iter (fun (s, id) -> Hashtbl.replace byid id s) snaps;
  let exec = result_str (forget_groups_exec cr k nowz l) in
  let spec = result_str (forget_groups_spec cr k nowz l) in
  let fs = from_snapshots nowz l in
  let fs_str = Printf.sprintf "fs=%s | fsids=%s"
    (groups_str (function FSnapshot -> "snapshot" | FIfArgument -> "if_argument") fs)
    (ids_str (from_snapshots_forget_ids nowz l)) in
  let ng = ni t in
  let arr, oracle =
    if ng < 0 then ("none", "wf=1 distinct=0 doc= mono=") else begin
      let gs = ntimes ng (fun () ->
        let n = ni t in
        let items = ntimes n (fun () -> Hashtbl.find byid (ni t)) in
        ((match items with s :: _ -> gkey cr s | [] -> default_key), items)) in
      let wf = grouping_wf cr gs in
      let distinct = List.for_all (fun (_, items) ->
        let ts = List.map (fun s -> int_of_z s.s_inst) items in
        List.length (List.sort_uniq compare ts) = List.length ts) gs in
      let docs = List.map (fun (_, items) -> flags (doc_apply k nowz items)) gs in
      let monos = List.map (fun (_, items) -> if keys_monotone items then "1" else "0") gs in
      (result_str (apply_groups_sorted k nowz gs),
       Printf.sprintf "wf=%d distinct=%d doc=%s mono=%s" (if wf then 1 else 0) (if distinct then 1 else 0)
         (String.concat "," docs) (String.concat "" monos))
    end in
  Printf.sprintf "EXEC %s || SPEC %s || ARR %s || FS %s || O %s" exec spec arr fs_str oracle

let cal_case line =
  let t = toks line in
  let inst = ni t in let off = ni t in
  let sp = rd_span t in
  let c = civil_of (z_of_int inst) (z_of_int off) in
  Printf.sprintf "%d %d %d %d %d %d %d %d" (int_of_z c.c_year) (int_of_z c.c_month) (int_of_z c.c_doy)
    (int_of_z c.c_hour) (int_of_z c.c_minute) (int_of_z c.c_iso_year) (int_of_z c.c_iso_week)
    (int_of_z (add_span (z_of_int inst) (z_of_int off) sp))

let () =
  let mode = if Array.length Sys.argv > 2 then Sys.argv.(2) else "apply" in
  main_loop (if mode = "cal" then cal_case else if mode = "forget" then forget_case else apply_case)
