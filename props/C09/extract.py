"""C09 fact extractor: regenerates props/C09/coq/Extracted.v from
crates/core/src/commands/forget.rs — the nine period predicates (`equal_*`), the
rows of `keep_checks` in `KeepOptions::matches`, the field list of `is_valid`, the
sort order `apply` uses, the `filter_map` of `into_forget_ids`, the keep decision of
`from_snapshots`, the shape of `from_grouped_snapshots_with_retention` —, from
repofile/snapshotfile/grouping.rs — the fields of the group key, its equality and order,
sort + chunk_by of `Grouped::from_items` — and from repofile/snapshotfile.rs — the order
on snapshot files, `must_keep`, `must_delete`."""
import re, sys, os
sys.path.insert(0, os.path.join(os.path.dirname(__file__), "..", "..", "lib"))
from rustscan import *

FIELD = {"year": "c_year", "month": "c_month", "day": "c_day", "day_of_year": "c_doy",
         "hour": "c_hour", "minute": "c_minute"}
PERIOD = {"keep_last": "PLast", "keep_minutely": "PMinute", "keep_hourly": "PHour", "keep_daily": "PDay",
          "keep_weekly": "PWeek", "keep_monthly": "PMonth", "keep_quarter_yearly": "PQuarter",
          "keep_half_yearly": "PHalf", "keep_yearly": "PYear"}
WITHIN = {"keep_within": "PLast", "keep_within_minutely": "PMinute", "keep_within_hourly": "PHour",
          "keep_within_daily": "PDay", "keep_within_weekly": "PWeek", "keep_within_monthly": "PMonth",
          "keep_within_quarter_yearly": "PQuarter", "keep_within_half_yearly": "PHalf",
          "keep_within_yearly": "PYear"}

def tr_pred(body):
    e = " ".join(body.split())
    v = {"sn1": "a", "sn2": "b", "_sn1": "a", "_sn2": "b"}
    e = re.sub(r"\b(_?sn[12])\.time(?:\.clone\(\))?\.iso_week_date\(\)\.week\(\)", lambda m: "(c_iso_week %s)" % v[m.group(1)], e)
    e = re.sub(r"\b(_?sn[12])\.time(?:\.clone\(\))?\.iso_week_date\(\)\.year\(\)", lambda m: "(c_iso_year %s)" % v[m.group(1)], e)
    def fld(m):
        if m.group(2) not in FIELD:
            raise ExtractError("unknown civil field " + m.group(2))
        return "(%s %s)" % (FIELD[m.group(2)], v[m.group(1)])
    e = re.sub(r"\b(_?sn[12])\.time(?:\.clone\(\))?\.(\w+)\(\)", fld, e)
    e = re.sub(r"\b(equal_\w+|always_false)\(\s*sn1\s*,\s*sn2\s*\)", r"(\1 a b)", e)
    e = e.replace("==", "=?")
    chk = re.sub(r"\b(c_\w+|equal_\w+|always_false|a|b|false|true|\d+)\b", "", e)
    chk = re.sub(r"=\?|&&|\|\||[()\s+\-*/]", "", chk)
    if chk:
        raise ExtractError("predicate body has an unrecognised shape: %r (left: %r)" % (body.strip(), chk))
    # make every conjunct a parenthesised comparison
    parts = [p.strip() for p in e.split("&&")]
    return " && ".join("(%s)" % p for p in parts)

def norm(x):
    """one-line form: single spaces, no space before a method-call dot"""
    return re.sub(r"\s+\.(?=\w)", ".", " ".join(x.split()))

def impl_block(src, header_re, what):
    m = re.search(header_re, src)
    if not m: raise ExtractError(what + " not found")
    b = src.find("{", m.end() - 1)
    return src[b + 1:match_brace(src, b)]

# group-key fields: (field of SnapshotGroup, type) -> Coq projections and comparators
GFIELD = {"hostname": ("gk_host", "cr_host", "s_host", "String"), "label": ("gk_label", "cr_label", "s_label", "String"),
          "paths": ("gk_paths", "cr_paths", "s_paths", "StringList"), "tags": ("gk_tags", "cr_tags", "s_tags", "StringList")}
GCMP = {"String": "cmp_str", "StringList": "cmp_strlist"}
GEQB = {"String": "eqb_str", "StringList": "eqb_strlist"}

def gen_grouping(repo, out):
    g = read(repo, "crates/core/src/repofile/snapshotfile/grouping.rs")
    # struct SnapshotGroup: its fields and the derived equality
    m = re.search(r"((?:#\[[^\]]*\]\s*)*)pub struct SnapshotGroup\s*\{", g)
    if not m: raise ExtractError("struct SnapshotGroup not found")
    attrs = m.group(1)
    if not re.search(r"derive\([^)]*\bPartialEq\b[^)]*\bEq\b", attrs):
        raise ExtractError("SnapshotGroup no longer derives PartialEq, Eq")
    b = g.find("{", m.end() - 1)
    fields = re.findall(r"pub\s+(\w+)\s*:\s*Option<\s*(\w+)\s*>", g[b:match_brace(g, b)])
    if [f for f, _ in fields] != list(GFIELD) or any(GFIELD[f][3] != t for f, t in fields):
        raise ExtractError("SnapshotGroup fields are not hostname/label: Option<String>, paths/tags: Option<StringList>: %r" % fields)
    # SnapshotGroup::from_snapshot: which snapshot field feeds which key field under which criterion flag
    body = norm(fn_body(g, "from_snapshot"))
    mm = re.fullmatch(r"Self \{ (.*?),? \}", body)
    if not mm: raise ExtractError("SnapshotGroup::from_snapshot has an unrecognised shape: " + body)
    rows = re.findall(r"(\w+): crit\.(\w+)\.then\(\|\| sn\.(\w+)\.clone\(\)\)", mm.group(1))
    rest = re.sub(r"(\w+): crit\.(\w+)\.then\(\|\| sn\.(\w+)\.clone\(\)\)", "", mm.group(1)).replace(",", "").strip()
    if rest or sorted(r[0] for r in rows) != sorted(GFIELD):
        raise ExtractError("SnapshotGroup::from_snapshot fields not recognised: " + body)
    ks = []
    for (gf, cf, sf) in rows:
        if cf not in GFIELD or sf not in GFIELD: raise ExtractError("from_snapshot uses unknown field %s/%s" % (cf, sf))
        if GFIELD[sf][3] != GFIELD[gf][3]: raise ExtractError("from_snapshot: type of %s does not fit %s" % (sf, gf))
        val = "(%s s)" % GFIELD[sf][2]
        if GFIELD[sf][3] == "StringList": val = "(canon %s)" % val
        ks.append("%s := if %s c then Some %s else None" % (GFIELD[gf][0], GFIELD[cf][1], val))
    out.append("(* SnapshotGroup::from_snapshot *)")
    out.append("Definition gkey (c : crit) (s : snap) : gkeyT :=\n  {| " + ";\n     ".join(ks) + " |}.")
    # derived PartialEq: all fields
    out.append("(* #[derive(PartialEq, Eq)] on SnapshotGroup *)")
    out.append("Definition gkey_eqb (a b : gkeyT) : bool :=\n  " + " && ".join(
        "opt_eqb %s (%s a) (%s b)" % (GEQB[t], GFIELD[f][0], GFIELD[f][0]) for f, t in fields) + ".")
    # impl Ord for SnapshotGroup
    ob = norm(fn_body(impl_block(g, r"impl\s+Ord\s+for\s+SnapshotGroup\s*\{", "impl Ord for SnapshotGroup"), "cmp"))
    ob = ob.replace("( ", "(").replace(" )", ")")
    mm = re.fullmatch(r"self\.(\w+)\.cmp\(&other\.(\w+)\)((?:\.then\(self\.\w+\.cmp\(&other\.\w+\)\))*)", ob)
    if not mm: raise ExtractError("Ord for SnapshotGroup has an unrecognised shape: " + ob)
    chain = [(mm.group(1), mm.group(2))] + re.findall(r"\.then\(self\.(\w+)\.cmp\(&other\.(\w+)\)\)", mm.group(3))
    e = None
    for (fa, fb) in chain:
        if fa not in GFIELD or fb not in GFIELD: raise ExtractError("Ord for SnapshotGroup compares unknown field " + fa)
        t = "cmp_opt %s (%s a) (%s b)" % (GCMP[GFIELD[fa][3]], GFIELD[fa][0], GFIELD[fb][0])
        e = t if e is None else "then_cmp (%s) (%s)" % (e, t)
    out.append("(* impl Ord for SnapshotGroup *)")
    out.append("Definition gkey_cmp (a b : gkeyT) : comparison :=\n  %s." % e)
    # impl Grouping for SnapshotFile, Grouped::from_items
    gb = norm(fn_body(impl_block(g, r"impl\s+Grouping\s+for\s+SnapshotFile\s*\{", "impl Grouping for SnapshotFile"), "get_group"))
    if gb != "SnapshotGroup::from_snapshot(self, c)":
        raise ExtractError("SnapshotFile::get_group is no longer SnapshotGroup::from_snapshot(self, c): " + gb)
    fi = norm(fn_body(g, "from_items"))
    want = ("items.sort_unstable_by_key(|item| item.get_group(criterion)); let mut groups = Vec::new(); "
            "for (group, snaps) in &items.into_iter().chunk_by(|item| item.get_group(criterion)) { "
            "groups.push(Group { group_key: group, items: snaps.collect(), }); } Self { criterion, groups }")
    if fi != want:
        raise ExtractError("Grouped::from_items is no longer `sort by group key; chunk_by group key`: " + fi)
    out.append("(* Grouped::from_items: sort_unstable_by_key(get_group) then chunk_by(get_group); fact checked by the extractor *)")
    out.append("Definition from_items_sorts_by_group_key : bool := true.")

def tr_bool(e, env):
    """tiny boolean expression translator: identifiers of env, `!`, `&&`, `||`, parentheses"""
    e = e.strip()
    toks = re.findall(r"&&|\|\||!|\(|\)|[\w.]+(?:\(\w*\))?", e)
    if "".join(toks) != e.replace(" ", ""): raise ExtractError("boolean expression not recognised: " + e)
    o = []
    for t in toks:
        if t == "&&" or t == "||" or t in "()": o.append(t)
        elif t == "!": o.append("negb")
        elif t in env: o.append(env[t])
        else: raise ExtractError("unknown operand %s in %s" % (t, e))
    return " ".join(o)

def gen_forget(repo, src, out):
    sf = read(repo, "crates/core/src/repofile/snapshotfile.rs")
    ob = norm(fn_body(impl_block(sf, r"impl\s+Ord\s+for\s+SnapshotFile\s*\{", "impl Ord for SnapshotFile"), "cmp"))
    if ob != "self.time.cmp(&other.time)":
        raise ExtractError("Ord for SnapshotFile is no longer the order of `time`: " + ob)
    out.append("(* impl Ord for SnapshotFile: by time (jiff compares the instants) *)")
    out.append("Definition snap_cmp (a b : snap) : comparison := Z.compare (s_inst a) (s_inst b).")
    ap = norm(fn_body(src, "apply"))
    m = re.search(r"snapshots\.sort_unstable_by\(\|sn1, sn2\| (.*?)\);", ap)
    if not m: raise ExtractError("the sort in KeepOptions::apply was not found")
    srt = {"sn1.cmp(sn2).reverse()": "CompOpp (snap_cmp a b)", "sn2.cmp(sn1)": "snap_cmp b a",
           "sn1.cmp(sn2)": "snap_cmp a b", "sn2.cmp(sn1).reverse()": "CompOpp (snap_cmp b a)"}
    if m.group(1) not in srt: raise ExtractError("sort closure of KeepOptions::apply not recognised: " + m.group(1))
    out.append("(* the closure of `snapshots.sort_unstable_by` in KeepOptions::apply *)")
    out.append("Definition apply_order (a b : snap) : comparison := %s." % srt[m.group(1)])
    if "let latest_time = snapshots[0].time.clone();" not in ap:
        raise ExtractError("KeepOptions::apply: latest_time is no longer the time of the first sorted snapshot")
    # must_keep / must_delete
    mk = norm(fn_body(sf, "must_keep"))
    if mk != "match &self.delete { DeleteOption::Never => true, DeleteOption::After(time) if time >= now => true, _ => false, }":
        raise ExtractError("SnapshotFile::must_keep has an unrecognised shape: " + mk)
    md = norm(fn_body(sf, "must_delete"))
    if md != "matches!(&self.delete, DeleteOption::After(time) if time < now)":
        raise ExtractError("SnapshotFile::must_delete has an unrecognised shape: " + md)
    out.append("(* SnapshotFile::must_keep / must_delete *)")
    out.append("Definition must_keep_src (d : delopt) (now : Z) : bool :=\n  match d with DNever => true | DAfter t => t >=? now | DNotSet => false end.")
    out.append("Definition must_delete_src (d : delopt) (now : Z) : bool :=\n  match d with DAfter t => t <? now | _ => false end.")
    # into_forget_ids
    fi = norm(fn_body(src, "into_forget_ids"))
    m = re.fullmatch(r"self\.0\.into_iter\(\)\.flat_map\(\|fg\| \{ fg\.items\.into_iter\(\)\.filter_map\(\|fsn\| \((.*?)\)\.then_some\((.*?)\)\) \}\)\.collect\(\)", fi)
    if not m: raise ExtractError("ForgetGroups::into_forget_ids has an unrecognised shape: " + fi)
    if m.group(2) != "fsn.snapshot.id": raise ExtractError("into_forget_ids no longer returns fsn.snapshot.id: " + m.group(2))
    out.append("(* ForgetGroups::into_forget_ids: the filter_map over the items of every group *)")
    out.append("Definition forget_pick (keep : bool) (id : list N) : option (list N) :=\n  if %s then Some id else None." % tr_bool(m.group(1), {"fsn.keep": "keep"}))
    # from_grouped_snapshots_with_retention
    fr = norm(fn_body(src, "from_grouped_snapshots_with_retention"))
    want = ("let groups = g.groups.into_iter().map(|group| -> RusticResult<_> { Ok(Group { group_key: group.group_key, "
            "items: keep.apply(group.items, now)?, }) }).collect::<RusticResult<_>>()?; Ok(Self(groups))")
    if fr != want:
        raise ExtractError("from_grouped_snapshots_with_retention is no longer `apply on the items of every group`: " + fr)
    out.append("(* from_grouped_snapshots_with_retention: keep.apply(group.items, now) per group, key unchanged; checked by the extractor *)")
    out.append("Definition retention_is_apply_per_group : bool := true.")
    # from_snapshots
    fs = norm(fn_body(src, "from_snapshots"))
    m = re.fullmatch(r"let snapshots = snapshots\.into_iter\(\)\.map\(\|sn\| \{ let keep = (.*?); ForgetSnapshot \{ snapshot: sn, keep, "
                     r"reasons: vec!\[if keep \{ \"(.*?)\" \} else \{ \"(.*?)\" \}\.to_string\(\)\], \} \}\)\.collect\(\); "
                     r"let group = Group::default_group\(snapshots\); Self\(vec!\[group\]\)", fs)
    if not m: raise ExtractError("ForgetGroups::from_snapshots has an unrecognised shape: " + fs)
    out.append("(* ForgetGroups::from_snapshots: the keep flag as a function of must_keep(now) / must_delete(now) *)")
    out.append("Definition from_snapshots_keep (mk md : bool) : bool := %s." % tr_bool(m.group(1), {"sn.must_keep(now)": "mk", "sn.must_delete(now)": "md", "true": "true", "false": "false"}))
    return {"from_snapshots_reasons": (m.group(2), m.group(3))}

def gen(repo):
    out, meta, src = gen_base(repo)
    out.append("")
    gen_grouping(repo, out)
    out.append("")
    meta.update(gen_forget(repo, src, out))
    return "\n".join(out) + "\n", meta

def gen_base(repo):
    """the facts about KeepOptions::matches / is_valid; returns (lines, meta, source text)"""
    src = read(repo, "crates/core/src/commands/forget.rs")
    out = ["(* GENERATED by props/C09/extract.py from crates/core/src/commands/forget.rs - do not edit *)",
           "From Verif.Base Require Import Tactics.",
           "From Verif.C09 Require Import Calendar ModelBase.",
           "Local Open Scope Z_scope.", ""]
    names = ["always_false", "equal_year", "equal_half_year", "equal_quarter_year", "equal_month",
             "equal_week", "equal_day", "equal_hour", "equal_minute"]
    bodies = {n: fn_body(src, n) for n in names}
    # order definitions so that callees come first
    done, order = set(), []
    def visit(n, stack=()):
        if n in done: return
        if n in stack: raise ExtractError("recursive predicate " + n)
        for d in re.findall(r"\b(equal_\w+|always_false)\s*\(", bodies[n]):
            if d not in bodies: raise ExtractError("predicate calls unknown fn " + d)
            visit(d, stack + (n,))
        done.add(n); order.append(n)
    for n in names: visit(n)
    for n in order:
        out.append("Definition %s (a b : civil) : bool := %s." % (n, tr_pred(bodies[n])))
    m = fn_body(src, "matches")
    i = m.find("keep_checks")
    if i < 0: raise ExtractError("keep_checks not found in matches")
    j = m.find("[", m.find("=", i))
    arr = m[j:match_brace(m, j, "[", "]") + 1]
    rows = re.findall(r"\(\s*(\w+)\s*,\s*&mut\s+self\.(\w+)\s*,\s*\"([^\"]*)\"\s*,\s*self\.(\w+)\s*,\s*\"([^\"]*)\"\s*,?\s*\)", arr)
    if not rows: raise ExtractError("keep_checks rows not recognised")
    rl, reasons = [], []
    for (fn, cnt, r1, w, r2) in rows:
        if fn not in bodies or cnt not in PERIOD or w not in WITHIN:
            raise ExtractError("keep_checks row not recognised: %s %s %s" % (fn, cnt, w))
        rl.append("mkrow %s %s %s" % (fn, PERIOD[cnt], WITHIN[w]))
        reasons.append((PERIOD[cnt], r1, WITHIN[w], r2))
    out.append("")
    out.append("Definition row_table : list rowdef :=\n  [ " + ";\n    ".join(rl) + " ].")
    # is_valid
    v = fn_body(src, "is_valid")
    terms = [t.strip() for t in " ".join(v.split()).split("||")]
    ts = []
    for t in terms:
        mm = re.fullmatch(r"self\.(\w+)\.is_some\(\)", t)
        if mm and mm.group(1) in PERIOD: ts.append("isSome (k_count k %s)" % PERIOD[mm.group(1)]); continue
        if mm and mm.group(1) in WITHIN: ts.append("isSome (k_within k %s)" % WITHIN[mm.group(1)]); continue
        if t == "!self.keep_tags.is_empty()": ts.append("negb (is_nil (k_tags k))"); continue
        if t == "!self.keep_ids.is_empty()": ts.append("negb (is_nil (k_ids k))"); continue
        if t == "self.keep_none": ts.append("k_none k"); continue
        raise ExtractError("is_valid term not recognised: " + t)
    out.append("")
    out.append("Definition is_valid (k : keep) : bool :=\n  " + "\n  || ".join(ts) + ".")
    return out, {"reasons": reasons}, src

if __name__ == "__main__":
    repo = sys.argv[1] if len(sys.argv) > 1 else "/repo"
    txt, meta = gen(repo)
    sys.stdout.write(txt)
