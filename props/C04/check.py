"""C04 — stored data is authenticated ciphertext; tampering is always detected.
Stages: regenerate Extracted.v (write-site inventory, framing constants); build + audit the Coq
theorems; correspondence of the extracted framing/key-management model (toy ideal primitives,
fed with the zstd frames observed on the real code) with the hooked implementation; nonce
distinctness; end-to-end: plaintext scan of every stored file after every operation, tamper
matrix on every stored file, key-management histories.  Oracle = the property itself."""
import os, sys, json
import vlib
from vlib import ROOT, REPO, log

ERR = {"short", "mac", "zstd", "unsupported", "len", "conv", "idmismatch", "notfound"}
SIG_SWAP = "same-type-file-substitution-undetected"
SIG_PACK = "pack-substitution-undetected-by-partial-reads"
SIG_LATEST = "latest-skips-unreadable-snapshot-files"


def hx(b):
    return b.hex() if b else "-"


def run_lines(exe, lines, tag, timeout=1500):
    path = os.path.join(vlib.BUILD, "C04", "in_%s_%d.txt" % (tag, os.getpid()))
    open(path, "w").write("\n".join(lines) + "\n")
    rc, out, err = vlib.sh2([exe, path], timeout=timeout)
    if not os.environ.get('C04_KEEP'): os.remove(path)
    res = out.splitlines()
    if rc != 0 or len(res) != len(lines):
        raise RuntimeError("%s failed rc=%s (%d of %d lines)\n%s" % (exe, rc, len(res), len(lines), err[-2000:]))
    return res


def fields(line):
    """'ok a=1 b=2' -> ('ok', {a:1,b:2})"""
    t = line.split()
    return t[0] if t else "", dict(x.split("=", 1) for x in t[1:] if "=" in x)


def gen_plain(rng, large):
    k = rng.randint(0, 11)
    rb = lambda n: bytes(rng.getrandbits(8) for _ in range(n))
    if k == 0: return "empty", b""
    if k == 1: return "one", bytes([rng.choice([0, 2, 0x7b, 0x5b, 0xff, rng.getrandbits(8)])])
    if k == 2: return "json", json.dumps({"tree": "ab" * rng.randint(1, 40), "n": rng.randint(0, 10 ** 9), "l": [1, 2, 3] * rng.randint(0, 30)}).encode()
    if k == 3: return "jsonlist", json.dumps([rng.randint(0, 99) for _ in range(rng.randint(0, 200))]).encode()
    if k == 4: return "bin{", b"{" + rb(rng.randint(0, 300))
    if k == 5: return "bin[", b"[" + rb(rng.randint(0, 300))
    if k == 6: return "bin2", b"\x02" + rb(rng.randint(0, 300))
    if k == 7: return "random", rb(rng.randint(2, 2000))
    if k == 8: return "zeros", bytes(rng.randint(1, 5000))
    if k == 9: return "periodic", (rb(rng.randint(1, 40)) * 400)[:rng.randint(1, 6000)]
    if k == 10: return "zstdmagic", b"\x28\xb5\x2f\xfd" + rb(rng.randint(0, 100))
    return "large", (b"{" if rng.random() < 0.5 else b"") + (rb(997) * (large // 997 + 1))[:rng.randint(large // 2, large)]


# passwords: some END in white space (so that "the same without its trailing white space" is a wrong password)
BASE_PW_PLAIN = ["secret", "Mixed Case", "P\u00e4ssw\u00f6rd", " lead", "a\tb", "x"]
BASE_PW_WS = ["pass phrase ", "tab\t", "line\n", "crlf\r\n", "two  ", "ff\x0c"]


def hexpw(p):
    return p.encode("utf-8").hex() if p else "-"


def near_misses(p):
    """wrong passwords close to p (trailing white space variants first); none is byte-equal to p"""
    import unicodedata
    ws = " \t\n\r\x0c\x0b"
    c = [p + " ", p + "\t", p + "\n", p + "\r\n", p + "\r", p + "\x0c", p.rstrip(ws), p.rstrip(), p.rstrip(ws) + " ", p.strip(),
         " " + p, "\t" + p, "\n" + p, p.lstrip(ws), p.swapcase(), p.lower(), p.upper(), p + "x", p + "\x01", p[:-1], p[1:], "",
         unicodedata.normalize("NFD", p), unicodedata.normalize("NFC", p), unicodedata.normalize("NFKC", p), p.replace(" ", "\u00a0"), p + "\u00a0", p + p]
    return [x for x in dict.fromkeys(c) if x.encode("utf-8") != p.encode("utf-8")]


def probes_for(rng, n, blob=False):
    p = []
    for j in sorted({0, 1, 15, 16, 17, 31, 32, n // 2, n - 1}):
        if 0 <= j < n: p.append("t%d" % j)
    p += ["x1", "x16", "x%d" % rng.randint(2, 200)]
    p += ["j1", "j%d" % rng.randint(10 ** 7, 10 ** 8)]     # stored bytes replaced by plaintext JSON (12 and 19 bytes)
    pos = {0, 15, 16, n - 17, n - 16, n - 1, rng.randrange(n), rng.randrange(n)}
    for q in sorted(pos):
        if 0 <= q < n: p.append("f%d.%d" % (q, rng.randint(0, 7)))
    return list(dict.fromkeys(p))


def run(ctx):
    rng, cov = ctx.rng, ctx.coverage
    thorough = ctx.thorough()
    meta, xerr = vlib.regen_extracted("C04")
    r = vlib.proof_stage(ctx)
    if xerr:
        r["ok"] = False
        r["failures"].append("fact extraction (write-site inventory / framing constants) failed: " + xerr)
    cov["trusted_base"] += ["props/C04/extract.py (classification table of raw write_bytes call sites; shape checks of Key::encrypt_data/decrypt_data, decrypt_file, encrypt_file)",
                            "harness hooks crates/core/src/verif_hooks/c04.rs (error classification by message text)"]
    ctx.assumptions += [
        "ideal AEAD (Section hypothesis ideal_aead): |body| = |message|, 16-byte tag, correctness on issued encryptions, INT-CTXT (only issued (nonce, ciphertext) pairs verify), a nonce is used for one message per key; AES256-CTR/Poly1305-AES strength is outside",
        "nonce freshness is a hypothesis of the theorems; on the implementation 10^4 (thorough 10^5) nonces are observed pairwise distinct, randomness of the generator is outside",
        "ideal KDF: scrypt(p, salt) = scrypt(p', salt) implies p = p'; ciphertexts issued under different keys differ (key separation).  Known limit of the idealisation, inherent to HMAC inside PBKDF2/scrypt and observed on every run (coverage.scrypt_trailing_NUL_password_equivalence_observed): passwords shorter than 64 bytes that differ only by trailing NUL bytes derive the same key; NUL-suffixed variants are therefore not in the near-miss oracle",
        "zstd is an abstract invertible codec (decode (encode l d) = d); the extracted model is fed with the frames the real code produced",
        "SHA-256 has no second preimage on the values that occur (only used by the id-checking read of the repair theorems)",
        "serde_json round-trips MasterKey and KeyFile; every serialised repository file starts with '{' or '['",
        "empty blobs never reach process_data (the chunker emits no empty chunk, a serialised tree is never empty): the NonZeroU32::new(0) corner (blob_empty_compressed_corner) is unreachable from the public API",
        "passwords are opaque values compared byte for byte (two passwords are the same iff their UTF-8 bytes are equal); the listing order of key files does not matter for whether a password opens",
        "scrypt is fed exactly the password bytes (obligation kdf_fed_with_password_bytes, regenerated from keyfile.rs / repository.rs / commands/key.rs) — otherwise the ideal-KDF hypothesis would be about scrypt composed with that transformation",
        "in-memory backend with bounds-checked partial reads (a short read is an error, as with the local backend's read_exact); the config file is stored under a fixed name (a new config replaces the old one, reads ignore the id) as with the local backend",
        "loader oracle: with one index / snapshot file tampered, every consuming read path (get_all_snapshots, latest, by prefix, check, prune_plan, to_indexed_ids, to_indexed; handle with a config change in its history) fails (check: reports errors) or returns exactly the untampered result",
    ]
    if meta:
        cov["write_site_classes"] = meta["classes"]
        cov["write_sites"] = len(meta["sites"])
        cov["unencrypted_file_types"] = meta["unencrypted"]
        cov["kdf_password_argument"] = meta["kdf_password_argument"]
        cov["password_flow_unchanged"] = meta["password_flow"]
        cov["read_verifies_id"] = meta["read_verifies_id"]
        cov["loader_reads_every_listed_file"] = meta["loader_reads_every_listed_file"]
        cov["decrypt_backend_new_sites"] = meta["decrypt_backend_new_sites"]
        cov["open_dbe_set_at"] = meta["open_dbe_set_at"]
        cov["index_consumers"] = meta["index_consumers"]
    try:
        model = vlib.build_model("C04")
    except RuntimeError as e:
        model = None
        if r["ok"]:
            r["ok"] = False; r["failures"].append("extracted model no longer builds: " + str(e)[-500:])
    impl = vlib.build_harness("c04")
    if ctx.replay:
        rp = json.load(open(ctx.replay))
        for c in rp.get("witness", {}).get("cases", []):
            print(c); print(run_lines(impl, [c], "replay")[0])
    hist, mism, viol, samples = {}, [], [], []
    nontriv = set()
    bump = lambda k, n=1: hist.__setitem__(k, hist.get(k, 0) + n)
    evaluations = 0

    # ---------------------------------------------------------------- A. framing: files and blobs
    ncases = 900 if thorough else 110
    large = 100_000 if thorough else 60_000
    base = []
    levels = ["n", "0", "1", "3", "-5", "9"] + (["19", "22"] if thorough else [])
    for i in range(ncases):
        kind = "file" if i % 2 == 0 else "blob"
        cls, data = gen_plain(rng, large)
        if i < 24:   # make sure every plaintext class meets compression on and off
            cls, data = [("empty", b""), ("one", b"\x02"), ("one", b"{"), ("json", b'{"a":1}'), ("bin[", b"[\x00\xff"), ("bin2", b"\x02\x00\x01"),
                         ("random", bytes(range(256))), ("zstdmagic", b"\x28\xb5\x2f\xfd\x00"), ("one", b"\x00"), ("zeros", bytes(100)),
                         ("json", b"[]"), ("bin{", b"{\xff\xfe")][i // 2]
        z = "n" if (i < 24 and i % 4 < 2) else ("3" if i < 24 else rng.choice(levels))
        ev = 1 if rng.random() < 0.3 else 0
        base.append((kind, rng.randint(1, 10 ** 9), z, ev, cls, data))
    p1 = run_lines(impl, ["%s %d %s %d %s 0" % (k, ks, z, 0, hx(d)) for (k, ks, z, ev, c, d) in base], "p1")
    lines2, mlines, info = [], [], []
    for (kind, ks, z, ev, cls, data), o in zip(base, p1):
        st, f = fields(o)
        if st != "ok":
            mism.append(("first pass failed", "%s %s %s" % (kind, z, cls), o, "")); continue
        n = int(f["len"])
        payload = b"" if f["payload"] == "-" else bytes.fromhex(f["payload"])
        frame = b""
        if z != "n":
            frame = payload[1:] if kind == "file" else payload
        pr = probes_for(rng, n)
        if kind == "blob":
            pr += ["u0", "u%d" % (len(data) + 1), "u%d" % max(1, len(data) - 1), "u%d" % max(1, len(data))]
        lines2.append("%s %d %s %d %s %d %s" % (kind, ks, z, ev, hx(data), len(pr), " ".join(pr)))
        mlines.append("%s %d %s %s %s %d %s" % (kind, ks % 1000 + 1, z, hx(data), hx(frame), len(pr), " ".join(pr)))
        info.append((kind, z, ev, cls, data, pr))
    p2 = run_lines(impl, lines2, "p2")
    mo = run_lines(model, mlines, "m2") if model else [None] * len(lines2)
    for (kind, z, ev, cls, data, pr), il, ml, o, m in zip(info, lines2, mlines, p2, mo):
        evaluations += 1 + len(pr)
        bump("%s/%s/%s" % (kind, "plainmode" if z == "n" else "zstd", cls))
        ist, f = fields(o)
        mst, g = fields(m) if m is not None else ("ok", None)
        if g is None:
            continue
        if mst != "ok" and not (mst == "err" and ist == "err"):
            if "stack-overflow" in m:
                bump("model_stack_overflow_skipped"); continue
            mism.append(("model side failed: " + m[:60], il[:300], o[:300], m[:300])); continue
        case = {"cases": [il], "model_case": ml}
        if ist not in ("ok", "err") or (ist == "ok" and "payload" not in f):
            mism.append(("implementation side failed: " + o[:60], il[:300], o[:300], (m or "")[:300])); continue
        if ist == "err":
            # only legitimate with extra_verify on and a round trip the model also predicts to fail
            want = {g.get("rt")} | ({"verify"} if g.get("rt") == "diff" else set())
            if ev == 1 and g.get("rt") != "ok" and o.split()[1] in want:
                bump("extra_verify_refused/" + o.split()[1]); continue
            mism.append(("encode refused", il[:200], o, m[:300])); continue
        ok_expected = (z != "n" or data[:1] in (b"{", b"[")) if kind == "file" else (z == "n" or len(data) > 0)
        # oracle: round trip, framing length, no probe returns content
        plen = len(bytes.fromhex(f["payload"])) if f["payload"] not in ("-",) and not f["payload"].startswith("!") else 0
        if int(f["len"]) != plen + 32:
            viol.append(("ciphertext length is not plaintext + 32", case, o[:300], None))
        if kind == "file" and z != "n" and not f["payload"].startswith("02"):
            viol.append(("compressed repository file does not start with marker byte 2", case, o[:300], None))
        if kind == "file" and f.get("idok") != "1":
            viol.append(("file id is not the SHA-256 of the stored bytes", case, o[:300], None))
        if ok_expected and f["rt"] != "ok":
            viol.append(("round trip failed: decode(encode(x)) != x", case, o[:300], None))
        pres = f["probes"].split(",") if f.get("probes") else []
        nprobe_tamper = len([p for p in pr if not p.startswith("u")])
        bad = [(p, c) for p, c in zip(pr, pres) if not p.startswith("u") and c not in ERR]
        if bad:
            kinds = {"t": "truncation", "x": "extension", "f": "bit flip", "j": "stored bytes replaced by plaintext JSON"}
            viol.append(("tampered %s ciphertext accepted by the decoder (content returned instead of an error): %s" % (kind, ", ".join(sorted({kinds[p[0]] for p, _ in bad}))),
                         dict(case, accepted_probes=bad[:6]), o[:300], None))
        for c in pres: bump("probe/" + c)
        if kind == "blob" and z != "n" and len(data) == 0:
            bump("empty_compressed_blob_corner_rt_" + f["rt"])
        # model vs implementation
        same = (f["len"] == g["len"] and f["payload"] == g["payload"] and f["rt"] == g["rt"] and f.get("probes") == g.get("probes")
                and (kind == "file" or (f["dlen"] == g["dlen"] and f["ul"] == g["ul"])))
        if not same:
            mism.append(("framing", il[:300], o[:400], m[:400]))
        if f["rt"] == "ok" and pres and not bad:
            nontriv.add(il)
        if len(samples) < 3 and len(data) < 20:
            samples.append({"case": il, "impl": o, "model": m})

    # ---------------------------------------------------------------- B. crafted plaintexts
    known = [(bytes.fromhex(fields(o)[1]["payload"]), d) for (k, ks, z, ev, c, d), o in zip(base, p1)
             if k == "blob" and z != "n" and 0 < len(d) < 500 and fields(o)[0] == "ok"][:12]
    pl = []
    rb = lambda n: bytes(rng.getrandbits(8) for _ in range(n))
    for first in [b"", b"\x00", b"\x01", b"\x03", b"z", b"\x7a", b"\xff", b"\x7c"]:
        pl.append((first + rb(rng.randint(0, 20)) if first else b"", "f", None))
    pl.append((b"{" + rb(30), "f", None)); pl.append((b"[" + rb(30), "f", None))
    pl.append((b"\x02" + b"garbage-not-zstd" + rb(10), "f", None))
    pl.append((b"garbage-not-zstd" + rb(10), "b5", None))
    pl.append((rb(40), "b0", None))
    for fr, d in known:
        pl.append((b"\x02" + fr, "f", (fr, d)))
        pl.append((fr, "b%d" % len(d), (fr, d)))
        pl.append((fr, "b%d" % (len(d) + 1), (fr, d)))
        pl.append((fr, "b0", (fr, d)))
        pl.append((b"\x02" + fr[:-1], "f", None))       # truncated frame
    il = ["plain %d %s %s" % (rng.randint(1, 10 ** 6), hx(p), how) for p, how, _ in pl]
    ml = ["plain %d %s %s %s %s" % (7, hx(p), how, hx(zt[0]) if zt else "!", hx(zt[1]) if zt else "!") for p, how, zt in pl]
    po = run_lines(impl, il, "pl")
    pm = run_lines(model, ml, "plm") if model else po
    for a, b, c, d in zip(il, po, ml, pm):
        evaluations += 1
        bump("plain/" + (fields(b)[1].get("out", "?")[:1] == "!" and fields(b)[1]["out"] or "ok"))
        if b != d:
            mism.append(("crafted plaintext", a[:200], b[:200], d[:200]))

    # ---------------------------------------------------------------- C. nonces
    nn = 100_000 if thorough else 10_000
    o = run_lines(impl, ["nonces %d %d" % (rng.randint(1, 10 ** 6), nn)], "nonce")[0]
    st, f = fields(o)
    evaluations += nn
    cov["nonces_observed"] = nn
    cov["nonces_pairwise_distinct"] = f.get("distinct_nonces") == str(nn)
    if st != "ok" or f.get("distinct_nonces") != str(nn) or f.get("lens_ok") != "1":
        viol.append(("nonce reused within %d encryptions (or wrong ciphertext length)" % nn, {"cases": ["nonces 1 %d" % nn]}, o, None))
    if f.get("distinct_bodies") != str(nn):
        viol.append(("two encryptions of one message under one key gave the same body and tag", {"cases": ["nonces 1 %d" % nn]}, o, None))

    # ---------------------------------------------------------------- D. key files, near-miss passwords
    # every wrong password must be REJECTED unless it is byte-equal to the password the key file
    # was made with: trailing / leading white space, case, one byte more or less, empty, unicode
    # normalisation variants ("only the correct password opens", the only-if direction)
    kfl, kml, kfw = [], [], []
    bases = [rng.choice(BASE_PW_PLAIN) + str(rng.randint(0, 99)), rng.choice(BASE_PW_WS)]
    if thorough:
        bases += [rng.choice(BASE_PW_PLAIN), rng.choice(BASE_PW_WS), "P\u00e4ssw\u00f6rd", "x"]
    for pw in bases:
        wrong = near_misses(pw)
        kfl.append("kf %d %s %d %s" % (rng.randint(1, 10 ** 6), hexpw(pw), len(wrong), " ".join(hexpw(w) for w in wrong)))
        kml.append("kf 7 1 %d %s" % (len(wrong), " ".join(str(2 + j) for j in range(len(wrong)))))
        kfw.append((pw, wrong))
    # informational (NOT part of the oracle): HMAC zero-pads keys shorter than its block, so inside
    # PBKDF2/scrypt a password and the same password followed by NUL bytes are the same key.  This is
    # a property of the primitive (outside the ideal-KDF hypothesis), recorded so that it is visible.
    o = run_lines(impl, ["kf %d %s 1 %s" % (rng.randint(1, 10 ** 6), hexpw("nul-probe"), hexpw("nul-probe\x00"))], "kfnul")[0]
    cov["scrypt_trailing_NUL_password_equivalence_observed"] = fields(o)[1].get("wrong") == "ok"
    ko = run_lines(impl, kfl, "kf")
    km = run_lines(model, kml, "kfm") if model else None
    for i, (a, b) in enumerate(zip(kfl, ko)):
        st, f = fields(b)
        pw, wrong = kfw[i]
        evaluations += 1 + len(wrong)
        bump("keyfile_near_miss_passwords", len(wrong))
        if st != "ok" or f.get("right") != "ok" or f.get("idok") != "1" or f.get("json") != "1":
            viol.append(("key file does not open with its own password / is not stored under its hash", {"cases": [a]}, b, None))
        res = f.get("wrong", "").split(",")
        for w, c in zip(wrong, res):
            bump("keyfile_wrong/" + c)
            if c != "mac":
                viol.append(("key file made with password %r %s with the different password %r" % (pw, "OPENS" if c == "ok" else "fails with '%s' instead of the MAC error" % c, w),
                             {"cases": [a], "password": pw, "wrong_password": w}, b, None))
                break
        if km:
            g = fields(km[i])[1]
            if g.get("right") != f.get("right") or g.get("wrong") != f.get("wrong"):
                mism.append(("key file", a, b, km[i]))
        cov.setdefault("keyfile_fields", f.get("fields"))

    # tampered key files: modified data / salt / scrypt parameters, fields of another key file
    tl = ["kft %d %s %s" % (rng.randint(1, 10 ** 6), hexpw(rng.choice(BASE_PW_PLAIN + BASE_PW_WS)), hexpw("other pw")) for _ in range(3 if thorough else 1)]
    for a, b in zip(tl, run_lines(impl, tl, "kft")):
        st, f = fields(b)
        evaluations += len(f)
        if st != "ok" or f.get("base") != "ok":
            mism.append(("key file tamper case failed", a, b[:300], "")); continue
        for name, c in f.items():
            if name == "base": continue
            bump("keyfile_tamper/" + c)
            if c in ("ok", "otherkey", "diff"):
                viol.append(("tampered key file (%s) opens with the password%s" % (name, " and yields a DIFFERENT key" if c != "ok" else ""), {"cases": [a], "mutation": name}, b, None))

    # ---------------------------------------------------------------- E. key-management histories
    nh = 8 if thorough else 3
    hl, hm, hops = [], [], []
    for h in range(nh):
        # a pool with at least one password that itself ends in white space
        pws = [rng.choice(BASE_PW_PLAIN), rng.choice(BASE_PW_WS), rng.choice(BASE_PW_PLAIN + BASE_PW_WS) + str(rng.randint(0, 9)), rng.choice(BASE_PW_WS) + "z"]
        init = rng.choice(["im", "ip:" + pws[0]])
        ops, alive, nadded = [], {}, 1
        if init != "im": alive[0] = pws[0]
        for _ in range(rng.randint(4, 9 if thorough else 7)):
            c = rng.random()
            if c < 0.3 and len(alive) < 3:
                p = rng.choice(pws); ops.append("a:" + p); alive[nadded] = p; nadded += 1
            elif c < 0.45 and alive:
                n = rng.choice(sorted(alive))
                ops.append("d:%d" % n)
                if not (init != "im" and n == 0): del alive[n]
            elif c < 0.55 and alive:
                ops.append("dc:" + rng.choice(list(alive.values())))
            elif c < 0.9:
                r2 = rng.random()
                if alive and r2 < 0.4: ops.append("o:" + rng.choice(list(alive.values())))
                elif alive and r2 < 0.7: ops.append("o:" + rng.choice(near_misses(rng.choice(list(alive.values())))))
                else: ops.append("o:" + rng.choice(pws + ["nope"]))
            else:
                ops.append("m:%d" % rng.randint(0, 1))
        if len(alive) < 2 and rng.random() < 0.8:
            p = pws[1] if pws[1] not in alive.values() else pws[0]
            ops.append("a:" + p); alive[nadded] = p; nadded += 1
        # the only-if direction: near misses of every current password (at most two) must be refused
        for p in list(dict.fromkeys(alive.values()))[:2]:
            nm = near_misses(p)
            must = [x for x in (p + " ", p + "\n", p + "\r\n", p.rstrip(" \t\n\r\x0c\x0b"), " " + p) if x != p]
            pick = list(dict.fromkeys(must[: (5 if thorough else 3)] + rng.sample(nm, min(len(nm), 6 if thorough else 2))))
            ops += ["o:" + x for x in pick] + ["o:" + p]
        if rng.random() < (0.7 if thorough else 0.5):
            # a key file made elsewhere (foreign master key) is planted in the key directory: its
            # password must not open the repository (the config file authenticates the master key)
            ops += ["f:evil password", "o:evil password"] + (["o:" + next(iter(alive.values()))] if alive else [])
        ops += ["o:" + p for p in pws[:2]] + ["m:1", "m:0"]
        pwid = {}
        def enc(tok, model_side):
            k, _, arg = tok.partition(":")
            if k in ("d", "m", "im"): return tok
            if model_side: return "%s:%d" % (k, pwid.setdefault(arg, 10 + len(pwid)))
            return "%s:%s" % (k, hexpw(arg))
        hl.append("keys %d %s %s" % (h, enc(init, False), " ".join(enc(x, False) for x in ops)))
        hm.append("keys %s %s" % (enc(init, True), " ".join(enc(x, True) for x in ops)))
        hops.append((init, ops))
    ho = run_lines(impl, hl, "keys", timeout=2400)
    hmo = run_lines(model, hm, "keysm") if model else ho
    for a, b, c, d, (init, ops) in zip(hl, ho, hm, hmo, hops):
        nops = len(ops)
        evaluations += nops
        bump("key_history_ops", nops)
        added = ([init[3:]] if init.startswith("ip:") else []) + [x[2:] for x in ops if x.startswith("a:")]
        if b != d:
            # is it a violation of the property itself?  (model = proven spec)
            bi, di = b.split()[2:], d.split()[2:]
            worse = [(op, x, y) for op, x, y in zip(ops, bi, di) if x != y and (x.startswith("o=") or x.startswith("m="))]
            if worse:
                op, x, y = worse[0]
                what = ("open with password %r" % op[2:]) if op.startswith("o:") else ("open with %s master key" % ("the" if op == "m:1" else "a wrong"))
                viol.append(("%s gives %s, expected %s: a password must open iff a CURRENT key file was made with exactly these bytes (passwords ever added in this history: %r); master key always" % (what, x, y, added),
                             {"cases": [a], "history": [init] + ops, "op": op}, b, None))
            else:
                mism.append(("key history", a, b, d))
        else:
            for x in b.split()[2:]: bump("keys/" + x)
            if "o=ok" in b and "o=cred" in b: nontriv.add(a)
    # ---------------------------------------------------------------- F. end to end
    ne = 8 if thorough else 3
    el = ["e2e %d %d %s" % (rng.randint(1, 10 ** 6), 24 if thorough else 6, ["d", "0", "5"][i % 3]) for i in range(ne)]
    eo = run_lines(impl, el, "e2e", timeout=3000)
    e2e_out, swap_seen = {}, {}
    for a, b in zip(el, eo):
        if not b.startswith("{"):
            mism.append(("e2e run failed", a, b[:500], "")); continue
        j = json.loads(b)
        evaluations += j["probes"] + j["files_scanned"] + j.get("loader_reads", 0)
        cov["e2e_files_scanned"] = cov.get("e2e_files_scanned", 0) + j["files_scanned"]
        cov["e2e_files_tampered"] = cov.get("e2e_files_tampered", 0) + j["files_tampered"]
        cov["e2e_tamper_probes"] = cov.get("e2e_tamper_probes", 0) + j["probes"]
        cov["e2e_loader_reads_on_tampered_files"] = cov.get("e2e_loader_reads_on_tampered_files", 0) + j.get("loader_reads", 0)
        cov["e2e_loader_paths"] = sorted({x.split(":")[0] for x in j.get("loader_paths", [])})
        for k, v in j["outcomes"].items(): e2e_out[k] = e2e_out.get(k, 0) + v
        if not j["check_clean_before_tamper"]:
            mism.append(("e2e repository not clean before tampering", a, "", ""))
        if not j["key_files_are_json"] or not j["open_added_password"] or j["open_wrong_password"] != "cred":
            viol.append(("password handling at repository level: added password opens=%s, wrong password -> %s" % (j["open_added_password"], j["open_wrong_password"]), {"cases": [a]}, "", None))
        for s in j["scan_violations"]:
            viol.append(("plaintext in storage: " + s, {"cases": [a]}, s, None))
        for v in j["tamper_violations"]:
            swap = v["probe"].startswith("swap")
            kind = {"t": "truncation to %s bytes" % v["probe"][1:], "x": "extension by %s bytes" % v["probe"][1:], "f": "bit flip", "s": "substitution by a file of the same type"}[v["probe"][0]]
            read = v["read"].split(":")[0]
            sig = None
            if swap and v["outcome"] == "diff" and v["type"] == "data":
                sig = SIG_PACK      # snapshot / index substitution is repaired: a plain violation now
            if read == "latest" and v["type"] == "snapshots" and v["outcome"] == "diff":
                sig = SIG_LATEST
            # the message names file type, kind of tampering and read path (stable across runs)
            viol.append(("tampered %s file (%s): the read path `%s` returned %s instead of an error" % (v["type"], kind if v["probe"][0] != "t" or v["probe"] in ("t0", "t1", "t31", "t32") else "truncation", read,
                          "a DIFFERENT result" if v["outcome"] == "diff" else "the original content"),
                         {"cases": [a], "detail": v}, json.dumps(v)[:600], sig))
        sw = j.get("swap_snapshots")
        if sw:
            swap_seen[sw["get_file"]] = swap_seen.get(sw["get_file"], 0) + 1
            cov.setdefault("swap_snapshots_replay", []).append(sw)
            if sw["get_file"] == "returns-other-content":
                viol.append(("two snapshot files swapped: get_file(s1) returns s2's content without error; check --read-data: %s" % sw["check_read_data"], {"cases": [a], "detail": sw}, json.dumps(sw), None))
            elif not sw["get_file"].startswith("err"):
                viol.append(("two snapshot files swapped: get_file outcome " + sw["get_file"], {"cases": [a], "detail": sw}, json.dumps(sw), None))
        nontriv.add(a)
    cov["e2e_outcomes"] = e2e_out
    # model side of the substitution: refutation replayed on the model, repair detected
    if model:
        ms = run_lines(model, ["swap 7 3 %s %s" % (hx(b'{"a":1}'), hx(b'{"b":22}')), "swap 7 n %s %s" % (hx(b'{"a":1}'), hx(b'[2]'))], "swap")
        cov["model_swap"] = ms
        for x in ms:
            if x != "ok unchecked=returns-other-content checked=err:idmismatch":
                mism.append(("model substitution witness", "swap", x, ""))
        # the implementation must behave like one of the two modelled reads
        for k in swap_seen:
            if k != "err:idmismatch" and k != "returns-other-content":   # the latter is already a violation
                mism.append(("substitution replay does not match the id-checked model read", "e2e", k, ""))

    cov.update({"evaluations": evaluations, "distinct_nontrivial": len(nontriv),
                "rule": "framing cases = {file, blob} x plaintext class {empty, 1 byte, JSON, JSON list, binary starting with '{' / '[' / byte 2 / zstd magic, random, zeros, periodic, large} x compression {off, levels} x extra_verify, each with truncations (0,1,15,16,17,31,32,half,len-1), extensions, bit flips (first/last byte, nonce/body/tag borders, random), altered uncompressed lengths; non-trivial = round trip ok and every tamper probe rejected (or an e2e repository / a key history with both accepted and refused passwords); distinct by full case text",
                "samples": samples, "distribution": hist, "traces_validated_against_impl": len(info) + len(pl) + len(hl) + len(kfl),
                "disagreements_checked": len(mism) + len(viol), "model_impl_mismatches": len(mism), "oracle_violations": len(viol)})
    seen = set()
    for what, wit, got, sig in viol[:200]:
        if (what, sig) in seen: continue
        seen.add((what, sig))
        w = dict(wit); w["observed"] = got
        w["how_to_replay"] = "echo '<case>' > f; .cache/target_*/debug/c04 f   (format: harness/src/bin/c04.rs)"
        ctx.violation(what, w, signature=sig)
    for x in mism[:5]: log("mismatch:", str(x)[:600])
    if mism and not [v for v in viol if v[3] is None]:
        ctx.violation("correspondence broken: extracted Envelope model disagrees with the implementation (%d cases, first: %s) although the property's oracle holds" % (len(mism), mism[0][0]),
                      {"correspondence": "props/C04 Model vs verif_hooks::c04", "first": {"what": mism[0][0], "case": mism[0][1], "impl": mism[0][2], "model": mism[0][3]}}, no_input=True)
    vlib.finish_broken_obligations(ctx)
