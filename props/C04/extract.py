"""C04 fact extractor: regenerates props/C04/coq/Extracted.v from crates/core/src —
(1) the inventory of every call site that hands bytes to a backend (`.write_bytes(`) or to the
    encrypting writers (`save_file(`, `save_file_uncompressed(`, `save_list(`, `hash_write_full(`,
    `hash_write_full_uncompressed(`) with its enclosing function and its class;
(2) the repository file types whose `RepoFile::ENCRYPTED` is false;
(3) the framing constants of Key::encrypt_data / decrypt_data and decrypt_file (nonce length,
    overhead, marker bytes);
(4) what KeyFile::kdf_key (open) and KeyFile::generate (init / add_key) feed into scrypt as the
    password argument, and that the password reaches them unchanged from Repository::open /
    add_key_to_repo: the model's ideal KDF is a function of the password the user typed, so the
    code must hand scrypt exactly `passwd.as_ref()`.
A raw `.write_bytes(` call in a function that is not in the table below makes the extraction
fail: a new place where bytes reach storage has to be classified by a human."""
import os, re, sys
sys.path.insert(0, os.path.join(os.path.dirname(__file__), "..", "..", "lib"))
from rustscan import *

# (file, enclosing fn) of every raw write_bytes call -> class
RAW = {
    ("blob/packer.rs", "process"): "SPack",
    ("backend/decrypt.rs", "hash_write_full_uncompressed"): "SEncRaw",
    ("backend/decrypt.rs", "hash_write_full"): "SEncFile",
    ("backend/decrypt.rs", "save_file"): "SPlainRepoFile",
    ("backend/decrypt.rs", "write_bytes"): "SPassThrough",
    ("backend/warm_up.rs", "write_bytes"): "SPassThrough",
    ("backend/cache.rs", "read_full"): "SCopyStored",
    ("backend/cache.rs", "read_partial"): "SCopyStored",
    ("backend/cache.rs", "write_bytes"): "SPassThrough",
    ("backend/dry_run.rs", "write_bytes"): "SPassThrough",
    ("backend/hotcold.rs", "write_bytes"): "SPassThrough",
    ("backend.rs", "write_bytes"): "SPassThrough",
    ("commands/key.rs", "add_key_to_repo"): "SKeyFile",
    ("commands/repair/hotcold.rs", "copy"): "SCopyStored",
}
CALLS = ["write_bytes", "save_file", "save_file_uncompressed", "save_list", "hash_write_full",
         "hash_write_full_uncompressed"]
FT = {"Config": "FConfig", "Index": "FIndex", "Key": "FKey", "Snapshot": "FSnapshot", "Pack": "FPack"}


def strip_tests(src):
    """drop `#[cfg(test)] mod ... { ... }` blocks"""
    out, i = [], 0
    for m in re.finditer(r"#\[cfg\(test\)\]\s*(?:pub(?:\([^)]*\))?\s+)?mod\s+\w+\s*\{", src):
        if m.start() < i:
            continue
        e = match_brace(src, m.end() - 1)
        out.append(src[i:m.start()])
        i = e + 1
    out.append(src[i:])
    return "".join(out)


def enclosing_fn(src, pos):
    ms = list(re.finditer(r"\bfn\s+(\w+)", src[:pos]))
    if not ms:
        raise ExtractError("call outside any fn")
    return ms[-1].group(1)


def gen(repo):
    root = os.path.join(repo, "crates/core/src")
    sites = []
    for dp, dn, fn in os.walk(root):
        dn.sort()
        for f in sorted(fn):
            if not f.endswith(".rs"):
                continue
            rel = os.path.relpath(os.path.join(dp, f), root)
            if rel.startswith("verif_hooks"):
                continue
            src = strip_tests(read(repo, "crates/core/src/" + rel))
            for m in re.finditer(r"(\.|\bfn\s+)?\b(%s)\s*(?:::<[^>]*>)?\s*\(" % "|".join(CALLS), src):
                if m.group(1) is None or m.group(1).startswith("fn"):
                    continue  # definition / declaration, not a call
                name = m.group(2)
                fn_ = enclosing_fn(src, m.start())
                if name == "write_bytes":
                    cls = RAW.get((rel, fn_))
                    if cls is None:
                        raise ExtractError("unclassified raw write_bytes call site: %s in fn %s" % (rel, fn_))
                else:
                    cls = "SDelegate"
                sites.append((rel, fn_, name, cls))
    if not any(c == "SPack" for _, _, _, c in sites) or not any(c == "SEncFile" for _, _, _, c in sites):
        raise ExtractError("expected write sites (packer, hash_write_full) not found")
    # ENCRYPTED = false
    unenc = []
    default = None
    for dp, dn, fn in os.walk(root):
        for f in sorted(fn):
            if not f.endswith(".rs"):
                continue
            rel = os.path.relpath(os.path.join(dp, f), root)
            if rel.startswith("verif_hooks"):
                continue
            src = read(repo, "crates/core/src/" + rel)
            for m in re.finditer(r"const\s+ENCRYPTED\s*:\s*bool\s*=\s*(true|false)\s*;", src):
                if m.group(1) == "true":
                    default = True if default is None else default
                    continue
                # the impl block this constant sits in names the type
                tm = list(re.finditer(r"const\s+TYPE\s*:\s*FileType\s*=\s*FileType::(\w+)\s*;", src[:m.start()]))
                if not tm:
                    raise ExtractError("ENCRYPTED = false without a TYPE constant before it in " + rel)
                t = tm[-1].group(1)
                if t not in FT:
                    raise ExtractError("unknown file type " + t)
                unenc.append(FT[t])
    if default is not True:
        raise ExtractError("default `const ENCRYPTED: bool = true` not found in the RepoFile machinery")
    # framing constants
    aes = read(repo, "crates/core/src/crypto/aespoly1305.rs")
    dd = fn_body(aes, "decrypt_data")
    m = re.search(r"data\.len\(\)\s*<\s*(\d+)", dd)
    m2 = re.search(r"Nonce::from_slice\(&data\[0\.\.(\d+)\]\)", dd)
    m3 = re.search(r"&data\[(\d+)\.\.\]", dd)
    if not (m and m2 and m3 and m.group(1) == m2.group(1) == m3.group(1)):
        raise ExtractError("decrypt_data no longer has the shape `len < N; nonce = data[0..N]; decrypt(data[N..])`")
    nonce_len = int(m.group(1))
    ed = fn_body(aes, "encrypt_data")
    order = [ed.find("extend_from_slice(&nonce)"), ed.find("extend_from_slice(data)"), ed.find("extend_from_slice(&tag)")]
    if min(order) < 0 or order != sorted(order):
        raise ExtractError("encrypt_data no longer assembles nonce, data, tag in this order")
    mo = re.search(r"with_capacity\(data\.len\(\)\s*\+\s*(\d+)\)", ed)
    overhead = int(mo.group(1)) if mo else None
    if not re.search(r"encrypt_in_place_detached\(&nonce,\s*&\[\],\s*&mut res\[%d\.\.\]\)" % nonce_len, ed):
        raise ExtractError("encrypt_data: body is no longer res[%d..] encrypted in place" % nonce_len)
    dec = read(repo, "crates/core/src/backend/decrypt.rs")
    df = fn_body(dec, "decrypt_file")
    if not (re.search(r"Some\(b'\{'\s*\|\s*b'\['\)\s*=>\s*decrypted", df) and re.search(r"Some\(2\)\s*=>\s*decode_all\(&decrypted\[1\.\.\]\)", df)):
        raise ExtractError("decrypt_file: marker dispatch changed")
    ef = fn_body(dec, "encrypt_file")
    if "vec![2_u8]" not in ef:
        raise ExtractError("encrypt_file: marker byte changed")
    bl = fn_body(dec, "encrypt_data")
    if "NonZeroU32::new(data_len)" not in bl:
        raise ExtractError("blob encrypt_data: uncompressed length no longer NonZeroU32::new(data_len)")
    # (4) the password argument of scrypt
    kfsrc = read(repo, "crates/core/src/repofile/keyfile.rs")

    def first_arg(body, what):
        i = body.find("scrypt::scrypt(")
        if i < 0:
            raise ExtractError(what + ": no scrypt::scrypt call")
        j = i + len("scrypt::scrypt")
        e = match_brace(body, j, "(", ")")
        args, depth, cur = [], 0, ""
        for ch in body[j + 1:e]:
            if ch in "([{": depth += 1
            if ch in ")]}": depth -= 1
            if ch == "," and depth == 0:
                args.append(" ".join(cur.split())); cur = ""
            else:
                cur += ch
        args.append(" ".join(cur.split()))
        return args

    kdf_args = {"open": first_arg(fn_body(kfsrc, "kdf_key"), "kdf_key"),
                "generate": first_arg(fn_body(kfsrc, "generate"), "generate")}
    kdf_kind = {}
    for k, a in kdf_args.items():
        sig = fn_sig(kfsrc, "kdf_key" if k == "open" else "generate")
        param_ok = re.search(r"passwd\s*:\s*&impl AsRef<\[u8\]>", sig) is not None
        salt_ok = a[1] in ("&self.salt", "&salt")
        kdf_kind[k] = "KdfPasswordBytes" if (a[0] == "passwd.as_ref()" and param_ok and salt_ok) else "KdfOther"
    # the password travels unchanged: key_from_password -> kdf_key, key_from_backend / find_key_in_backend,
    # Repository::open -> find_key_in_backend, add_key_to_repo -> KeyFile::generate
    flow = [
        ("key_from_password", fn_body(kfsrc, "key_from_password"), r"self\.kdf_key\(passwd\)"),
        ("key_from_backend", fn_body(kfsrc, "key_from_backend"), r"\.key_from_password\(passwd\)"),
        ("find_key_in_backend", fn_body(kfsrc, "find_key_in_backend"), r"key_from_backend\(be,\s*&id\.into\(\),\s*passwd\)"),
        ("open_may_use_hot", fn_body(read(repo, "crates/core/src/repository.rs"), "open_may_use_hot"), r"find_key_in_backend\(&self\.be,\s*&password,\s*None\)"),
        ("add_key_to_repo", fn_body(read(repo, "crates/core/src/commands/key.rs"), "add_key_to_repo"), r"KeyFile::generate\(key,\s*&pass,"),
    ]
    flow_ok = [(n, re.search(rx, b) is not None) for n, b, rx in flow]
    # (5) id verification on the read path
    def bodies(src, name):
        res, n = [], 0
        while True:
            try:
                res.append(fn_body(src, name, n))
            except ExtractError as e:
                if "not found" in str(e): break
            n += 1
        return res
    squash = lambda t: " ".join(t.split())
    dsrc = read(repo, "crates/core/src/backend/decrypt.rs")
    ref = [squash(b) for b in bodies(strip_tests(dsrc), "read_encrypted_full")]
    verif = {
        "decrypt_backend_compares_hash_before_decrypting": any(
            re.search(r"let data = self\.read_full\(tpe, id\)\?; if self\.verify_id && tpe != FileType::Config && hash\(&data\) != \*id \{ return Err\(", b)
            and "self.decrypt_file(&data)" in b for b in ref),
        "open_raw_switches_it_on": re.search(r"let mut dbe = DecryptBackend::new\(self\.be\.clone\(\), key\);.*dbe\.set_verify_id\(true\);.*OpenStatus \{[^}]*\bdbe\b",
                                             squash(fn_body(read(repo, "crates/core/src/repository.rs"), "open_raw"))) is not None,
        "dry_run_delegates": any(squash(b) == "self.be.read_encrypted_full(tpe, id)"
                                 for b in bodies(read(repo, "crates/core/src/backend/dry_run.rs"), "read_encrypted_full")),
    }
    offs = []
    for dp, dn, fn in os.walk(root):
        for f in sorted(fn):
            rel = os.path.relpath(os.path.join(dp, f), root)
            if f.endswith(".rs") and not rel.startswith("verif_hooks"):
                for m in re.finditer(r"\.set_verify_id\(\s*([^)]*)\)", strip_tests(read(repo, "crates/core/src/" + rel))):
                    if m.group(1).strip() != "true": offs.append(rel)
    verif["never_switched_off"] = not offs
    # every construction of a DecryptBackend and every way to replace the dbe of an open repository
    NEW_OK = {("repository.rs", "open_may_use_hot"), ("repository.rs", "open_raw"),
              ("commands/config.rs", "save_config"), ("commands/config.rs", "save_config_hot")}
    new_sites, dbe_assign, idx_sites = [], [], []
    for dp, dn, fn in os.walk(root):
        dn.sort()
        for f in sorted(fn):
            rel = os.path.relpath(os.path.join(dp, f), root)
            if not f.endswith(".rs") or rel.startswith("verif_hooks"):
                continue
            src = strip_tests(read(repo, "crates/core/src/" + rel))
            for m in re.finditer(r"\bDecryptBackend\s*::\s*(?:<[^>]*>\s*::\s*)?new\s*\(", src):
                new_sites.append((rel, enclosing_fn(src, m.start())))
            for m in re.finditer(r"\bOpenStatus\s*\{", src):
                pre = src[max(0, m.start() - 40):m.start()]
                if re.search(r"(struct|for|->|&|&mut)\s*$", pre):
                    continue      # type definition / impl header / return type, not a literal
                dbe_assign.append((rel, enclosing_fn(src, m.start()), "OpenStatus literal"))
            for m in re.finditer(r"\.dbe\s*=(?!=)|&mut\s+[\w.()]*\.dbe\b|->\s*&mut\s+DecryptBackend|mem::(?:replace|swap|take)\([^)]*dbe", src):
                dbe_assign.append((rel, enclosing_fn(src, m.start()), " ".join(m.group(0).split())))
            for m in re.finditer(r"\bstream_(all|list)\s*::\s*<\s*IndexFile\s*>", src):
                idx_sites.append((rel, enclosing_fn(src, m.start()), m.group(1)))
    verif["decrypt_backend_constructed_only_at_known_sites"] = bool(new_sites) and all(x in NEW_OK for x in new_sites)
    verif["open_dbe_assigned_only_in_open_raw"] = dbe_assign == [("repository.rs", "open_raw", "OpenStatus literal")]
    # (6) the loaders
    sa = [squash(b) for b in bodies(strip_tests(dsrc), "stream_all")]
    sl = [squash(b) for b in bodies(strip_tests(dsrc), "stream_list")]
    isrc = read(repo, "crates/core/src/index.rs")
    loader = {
        "index_consumers_use_stream_all": bool(idx_sites) and all(k == "all" for _, _, k in idx_sites),
        "global_index_loader_streams_all": re.search(r"for index in be\.stream_all::<IndexFile>\(p\)\? \{ collector\.extend\(index\?\.1\.packs\); \}",
                                                     squash(fn_body(isrc, "new_from_collector"))) is not None,
        "stream_all_lists_everything": any(re.fullmatch(r"let list = self\.list\(F::TYPE\)\?; let list: Vec<_> = list\.into_iter\(\)\.map\(F::Id::from\)\.collect\(\); self\.stream_list\(list, p\)", b) for b in sa),
        "stream_list_reads_every_id": any(re.search(r"list\.into_par_iter\(\)\.try_for_each\(\|id\| \{ let file = be\.get_file::<F>\(&id\)\.map\(\|file\| \(id, file\)\);", b) for b in sl),
    }
    out = ["(* GENERATED by props/C04/extract.py from crates/core/src - do not edit *)",
           "From Verif.Base Require Import Tactics.",
           "From Verif.C04 Require Import Model.",
           "Local Open Scope N_scope.", "",
           "Definition x_nonce_len : nat := %d." % nonce_len,
           "Definition x_overhead : nat := %d." % (overhead if overhead is not None else 0),
           "Definition x_marker_zstd : byte := 2.",
           "Definition x_marker_brace : byte := %d." % ord("{"),
           "Definition x_marker_bracket : byte := %d." % ord("["), "",
           "(* call sites handing bytes to storage: file, enclosing fn, callee, class *)",
           "Definition write_sites : list site_class :="]
    rows = ["    %s  (* %s :: %s -> %s *)" % (c, rel, fn_, name) for rel, fn_, name, c in sites]
    out.append("  [ " + ";\n".join(r.strip() if i == 0 else r for i, r in enumerate(rows)) + " ].")
    out.append("")
    out.append("Definition unencrypted_types : list ftype := [%s]." % "; ".join(unenc))
    out.append("")
    out.append("(* password argument of scrypt::scrypt in KeyFile::kdf_key / KeyFile::generate: %s / %s *)" % (kdf_args["open"][0], kdf_args["generate"][0]))
    out.append("Inductive kdf_input := KdfPasswordBytes | KdfOther.")
    out.append("Definition x_kdf_input_open : kdf_input := %s." % kdf_kind["open"])
    out.append("Definition x_kdf_input_generate : kdf_input := %s." % kdf_kind["generate"])
    out.append("(* the password is handed on unchanged by: %s *)" % ", ".join("%s=%s" % (n, "yes" if ok else "NO") for n, ok in flow_ok))
    out.append("Definition x_password_passed_unchanged : bool := %s." % ("true" if all(ok for _, ok in flow_ok) else "false"))
    out.append("(* id verification on the read path: %s *)" % ", ".join("%s=%s" % (k, "yes" if v else "NO") for k, v in verif.items()))
    out.append("Definition x_read_verifies_id : bool := %s." % ("true" if all(verif.values()) else "false"))
    out.append("(* DecryptBackend::new sites: %s *)" % "; ".join("%s::%s" % x for x in new_sites))
    out.append("(* ways the dbe of an open repository is set: %s *)" % "; ".join("%s::%s (%s)" % x for x in dbe_assign))
    out.append("(* index consumers: %s *)" % "; ".join("%s::%s stream_%s" % x for x in idx_sites))
    out.append("(* loaders: %s *)" % ", ".join("%s=%s" % (k, "yes" if v else "NO") for k, v in loader.items()))
    out.append("Definition x_loader_reads_every_listed_file : bool := %s." % ("true" if all(loader.values()) else "false"))
    hist = {}
    for _, _, _, c in sites:
        hist[c] = hist.get(c, 0) + 1
    return "\n".join(out) + "\n", {"sites": sites, "classes": hist, "unencrypted": unenc,
                                   "nonce_len": nonce_len, "overhead": overhead,
                                   "kdf_password_argument": {k: a[0] for k, a in kdf_args.items()},
                                   "password_flow": dict(flow_ok), "read_verifies_id": verif, "loader_reads_every_listed_file": loader,
                                   "decrypt_backend_new_sites": ["%s::%s" % x for x in new_sites],
                                   "open_dbe_set_at": ["%s::%s (%s)" % x for x in dbe_assign],
                                   "index_consumers": ["%s::%s stream_%s" % x for x in idx_sites]}


if __name__ == "__main__":
    repo = sys.argv[1] if len(sys.argv) > 1 else "/repo"
    txt, meta = gen(repo)
    sys.stdout.write(txt)
    print(meta["classes"], file=sys.stderr)
