(* prelude: zn nat *)
(* C04 driver: runs the extracted framing / key-management model with the toy primitives of
   Toy.v.  Case lines mirror harness/src/bin/c04.rs, extended with the oracle values (zstd
   frames) observed on the real code.  Parsing, probe construction and printing only. *)
let hexval c = match c with
  | '0'..'9' -> Char.code c - 48 | 'a'..'f' -> Char.code c - 87 | 'A'..'F' -> Char.code c - 55
  | _ -> failwith "hex"
let unhex s : n list =
  if s = "-" then [] else begin
    let l = String.length s / 2 in
    let rec go i acc = if i < 0 then acc
      else go (i - 1) (n_of_int (hexval s.[2*i] * 16 + hexval s.[2*i+1]) :: acc) in
    go (l - 1) []
  end
let hx (b : n list) =
  if b = [] then "-" else begin
    let buf = Buffer.create 64 in
    List.iter (fun x -> Buffer.add_string buf (Printf.sprintf "%02x" (int_of_n x))) b;
    Buffer.contents buf
  end
let zopt s = if s = "n" then None else Some (z_of_int (int_of_string s))
let errname = function
  | ETooShort -> "short" | EMac -> "mac" | EZstd -> "zstd" | EUnsupported -> "unsupported"
  | ELen -> "len" | EConv -> "conv" | EJson -> "json" | ECred -> "cred" | ENotFound -> "notfound"
  | EIdMismatch -> "idmismatch" | ECurrentKey -> "current"
let nonce i = List.init 16 (fun _ -> n_of_int i)

(* probes on byte lists, same meaning as in the harness *)
let rec take n l = if n <= 0 then [] else match l with [] -> [] | x :: r -> x :: take (n - 1) r
let apply_probe (p : string) (s : n list) : n list =
  let arg = String.sub p 1 (String.length p - 1) in
  match p.[0] with
  | 't' -> take (int_of_string arg) s
  | 'x' -> s @ List.init (int_of_string arg) (fun i -> n_of_int ((i * 37 + 11) land 255))
  | 'j' -> List.map (fun c -> n_of_int (Char.code c)) (List.init (String.length arg + 11) (String.get ("{\"forged\":" ^ arg ^ "}")))
  | 'f' ->
    let i = String.index arg '.' in
    let pos = int_of_string (String.sub arg 0 i) in
    let bit = int_of_string (String.sub arg (i + 1) (String.length arg - i - 1)) in
    List.mapi (fun j x -> if j = pos then n_of_int ((int_of_n x) lxor (1 lsl bit)) else x) s
  | _ -> failwith "probe"

let ztab_of level data frame = match level with
  | Some l when frame <> [] -> [((l, data), frame)]
  | _ -> []

let case_file t =
  let k = n_of_int (ni t) in
  let z = zopt (next t) in
  let data = unhex (next t) in
  let frame = unhex (next t) in
  let np = ni t in
  let zt = ztab_of z data frame in
  let n = nonce 9 in
  let payload = file_payload (toy_zenc zt) z data in
  let stored = encrypt_file toy_enc (toy_zenc zt) z k n data in
  let log = [((k, n), payload)] in
  let rd c = decrypt_file (toy_dec log) (toy_zdec zt) k c in
  let cls same r = match r with
    | Ok d -> if d = data then same else "diff"
    | Err e -> errname e in
  let probes = ntimes np (fun () -> cls "same" (rd (apply_probe (next t) stored))) in
  Printf.sprintf "ok len=%d payload=%s rt=%s probes=%s" (List.length stored) (hx payload)
    (cls "ok" (rd stored)) (String.concat "," probes)

let case_blob t =
  let k = n_of_int (ni t) in
  let z = zopt (next t) in
  let data = unhex (next t) in
  let frame = unhex (next t) in
  let np = ni t in
  let zt = ztab_of z data frame in
  let n = nonce 9 in
  match encode_blob toy_enc (toy_zenc zt) z k n data with
  | Err e -> "err " ^ errname e
  | Ok ((c, len), ul) ->
    let payload = blob_payload (toy_zenc zt) z data in
    let log = [((k, n), payload)] in
    let rd c u = decode_blob (toy_dec log) (toy_zdec zt) k c u in
    let cls same r = match r with
      | Ok d -> if d = data then same else "diff"
      | Err e -> errname e in
    let probes = ntimes np (fun () ->
      let p = next t in
      if p.[0] = 'u' then
        let u = int_of_string (String.sub p 1 (String.length p - 1)) in
        cls "same" (rd c (if u = 0 then None else Some (n_of_int u)))
      else cls "same" (rd (apply_probe p c) ul)) in
    Printf.sprintf "ok len=%d dlen=%d ul=%s payload=%s rt=%s probes=%s" (List.length c) (int_of_n len)
      (match ul with None -> "none" | Some u -> string_of_int (int_of_n u)) (hx payload)
      (cls "ok" (rd c ul)) (String.concat "," probes)

(* plain K PAYLOAD how ZFRAME ZDATA : ZFRAME decodes to ZDATA (or "!" = no frame known) *)
let case_plain t =
  let k = n_of_int (ni t) in
  let payload = unhex (next t) in
  let how = next t in
  let zf = next t in
  let zd = next t in
  let zt = if zf = "!" then [] else [((Z0, unhex zd), unhex zf)] in
  let n = nonce 9 in
  let c = encrypt_data toy_enc k n payload in
  let log = [((k, n), payload)] in
  let r =
    if how = "f" then decrypt_file (toy_dec log) (toy_zdec zt) k c
    else
      let u = int_of_string (String.sub how 1 (String.length how - 1)) in
      decode_blob (toy_dec log) (toy_zdec zt) k c (if u = 0 then None else Some (n_of_int u)) in
  Printf.sprintf "ok len=%d out=%s" (List.length c)
    (match r with Ok d -> hx d | Err e -> "!" ^ errname e)

(* kf K PASS NW wrong* (passwords as small ints) *)
let case_kf t =
  let master = n_of_int (ni t) in
  let pass = n_of_int (ni t) in
  let nw = ni t in
  let salt = [n_of_int 1] and n = nonce 3 in
  let kf = kf_generate toy_enc toy_kdf toy_mk_ser master pass salt n in
  let log = [((toy_kdf pass salt, n), toy_mk_ser master)] in
  let op p = match key_from_password (toy_dec log) toy_kdf toy_mk_de kf p with
    | Ok k -> if k = master then "ok" else "diff"
    | Err e -> errname e in
  let right = op pass in
  let wrong = ntimes nw (fun () -> op (n_of_int (ni t))) in
  Printf.sprintf "ok right=%s wrong=%s" right (String.concat "," wrong)

(* keys INIT op* ; INIT = im | ip:<p> ; ops a:<p> d:<n> dc:<p> o:<p> m:<0|1> f:<p> (plant a foreign key file) *)
let case_keys t =
  let master = n_of_int 7 in
  let cfg = [m_brace; n_of_int 1] in
  let cn = nonce 200 in
  let log = ref [((master, cn), cfg)] in
  let st = ref { ks_files = []; ks_config = encrypt_data toy_enc master cn cfg } in
  let nadded = ref 0 in
  let add p =
    let i = !nadded in
    incr nadded;
    let salt = [n_of_int i] and n = nonce (i + 1) in
    log := ((toy_kdf p salt, n), toy_mk_ser master) :: !log;
    st := kstep toy_enc toy_kdf toy_mk_ser master !st (KAdd (n_of_int i, p, salt, n)) in
  let init = next t in
  let cur =
    if init = "im" then (incr nadded; None)
    else (add (n_of_int (int_of_string (String.sub init 3 (String.length init - 3)))); Some (n_of_int 0)) in
  let opn c = open_repo (toy_dec !log) (toy_zdec []) toy_kdf toy_mk_de !st c in
  let out = ref [] in
  let emit s = out := s :: !out in
  while more t do
    let op = next t in
    let i = String.index op ':' in
    let k = String.sub op 0 i and arg = String.sub op (i + 1) (String.length op - i - 1) in
    (match k with
     | "a" -> add (n_of_int (int_of_string arg)); emit "a=ok"
     | "f" ->
       (* a key file made elsewhere: foreign master key 9, password known to its maker *)
       let p = n_of_int (int_of_string arg) in
       let salt = [n_of_int 77] and n = nonce 150 in
       log := ((toy_kdf p salt, n), toy_mk_ser (n_of_int 9)) :: !log;
       st := { !st with ks_files = (n_of_int 5000, kf_generate toy_enc toy_kdf toy_mk_ser (n_of_int 9) p salt n) :: !st.ks_files };
       emit "f=ok"
     | "d" ->
       let id = n_of_int (int_of_string arg) in
       if cur = Some id then emit "d=current"
       else (st := kstep toy_enc toy_kdf toy_mk_ser master !st (KDel (id, cur)); emit "d=ok")
     | "dc" ->
       (match find_key (toy_dec !log) toy_kdf toy_mk_de !st.ks_files (n_of_int (int_of_string arg)) with
        | Err e -> emit ("dc=open-" ^ errname e)
        | Ok (_, id) ->
          let before = List.length !st.ks_files in
          st := kstep toy_enc toy_kdf toy_mk_ser master !st (KDel (id, Some id));
          emit (if List.length !st.ks_files = before then "dc=current" else "dc=ok"))
     | "o" ->
       (match opn (CPassword (n_of_int (int_of_string arg))) with
        | Ok (k', c) -> emit (if k' = master && c = cfg then "o=ok" else "o=diffkey")
        | Err e -> emit ("o=" ^ errname e))
     | "m" ->
       (match opn (CMaster (if arg = "1" then master else n_of_int 8)) with
        | Ok _ -> emit "m=ok"
        | Err e -> emit ("m=" ^ errname e))
     | _ -> failwith "op")
  done;
  Printf.sprintf "ok nkeys=%d %s" (List.length !st.ks_files) (String.concat " " (List.rev !out))

(* swap: two files written, contents exchanged; unchecked and id-checked read of the first id *)
let case_swap t =
  let k = n_of_int (ni t) in
  let z = zopt (next t) in
  let d1 = unhex (next t) in
  let d2 = unhex (next t) in
  let n1 = nonce 1 and n2 = nonce 2 in
  let zenc = toy_zenc [] and zdec = toy_zdec [] in
  let log = [((k, n1), file_payload zenc z d1); ((k, n2), file_payload zenc z d2)] in
  let (i1, s1) = hash_write_full toy_enc zenc toy_hash z k n1 d1 [] in
  let (i2, s2) = hash_write_full toy_enc zenc toy_hash z k n2 d2 s1 in
  let s' = swap_files s2 i1 i2 in
  let show d r = match r with
    | Ok x -> if x = d1 then (if d = 1 then "same" else "returns-other-content")
              else if x = d2 then (if d = 2 then "same" else "returns-other-content") else "diff"
    | Err e -> "err:" ^ errname e in
  Printf.sprintf "ok unchecked=%s checked=%s"
    (show 1 (read_encrypted_full (toy_dec log) zdec k s' i1))
    (show 1 (read_encrypted_full_checked (toy_dec log) zdec toy_hash k s' i1))

let () =
  main_loop (fun line ->
    let t = toks line in
    match next t with
    | "file" -> case_file t
    | "blob" -> case_blob t
    | "plain" -> case_plain t
    | "kf" -> case_kf t
    | "keys" -> case_keys t
    | "swap" -> case_swap t
    | _ -> "badcase")
