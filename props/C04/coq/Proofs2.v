(* C04 — key management (open iff some current password), substitution (refuted without the
   id check, detected with it), and the write-site classes. *)
From Verif.Base Require Import Tactics.
From Verif.C04 Require Import Model Proofs.
Local Open Scope N_scope.

(* ---------------------------------------------------------------- key management *)
Section Keys.
  Context {key password : Type}.
  Variable enc : key -> bytes -> bytes -> bytes * bytes.
  Variable dec : key -> bytes -> bytes -> option bytes.
  Variable issued : key -> bytes -> bytes -> Prop.
  Variable zdec : bytes -> option bytes.
  Variable kdf : password -> bytes -> key.
  Variable mk_ser : key -> bytes.
  Variable mk_de : bytes -> option key.
  Hypothesis IA : ideal_aead enc dec issued.
  (* ciphertexts issued under different keys differ *)
  Hypothesis KSEP : forall k k' n m m', issued k n m -> issued k' n m' ->
                                        ct enc k n m = ct enc k' n m' -> k = k'.
  (* ideal KDF: no two passwords give the same key for one salt *)
  Hypothesis KDF : forall p p' s, kdf p s = kdf p' s -> p = p'.
  Hypothesis MK : forall k, mk_de (mk_ser k) = Some k.

  Notation encrypt_data := (encrypt_data key enc).
  Notation decrypt_data := (decrypt_data key dec).
  Notation decrypt_file := (decrypt_file key dec zdec).
  Notation kf_generate := (kf_generate key enc password kdf mk_ser).
  Notation key_from_password := (key_from_password key dec password kdf mk_de).
  Notation find_key := (find_key key dec password kdf mk_de).
  Notation krun := (krun key enc password kdf mk_ser).
  Notation kstep := (kstep key enc password kdf mk_ser).
  Notation open_repo := (open_repo key dec zdec password kdf mk_de).

  (* decrypting an issued ciphertext with another key: MAC error (C001), never anything else *)
  Lemma wrong_key_mac k k' n m :
    length n = nonce_len -> issued k n m -> k' <> k ->
    decrypt_data k' (encrypt_data k n m) = Err EMac.
  Proof.
    intros Hn Hi Hk. unfold Model.decrypt_data. rewrite (encrypt_data_eq enc).
    replace (length (n ++ ct enc k n m) <? nonce_len)%nat with false
      by (symmetry; apply Nat.ltb_ge; rewrite app_length; lia).
    rewrite firstn_app_exact, skipn_app_exact by assumption.
    destruct (dec k' n (ct enc k n m)) as [m'|] eqn:D; [|reflexivity].
    exfalso. destruct (ia_int_ctxt _ _ _ IA _ _ _ _ D) as [Hi' Hc].
    apply Hk. symmetry. eapply KSEP; eassumption.
  Qed.

  Definition made_with (master : key) (p : password) (kf : keyfile) : Prop :=
    exists s n, kf = kf_generate master p s n /\ length n = nonce_len
                /\ issued (kdf p s) n (mk_ser master).

  Lemma kfp_right master p kf : made_with master p kf -> key_from_password kf p = Ok master.
  Proof.
    intros (s & n & -> & Hn & Hi). unfold Model.key_from_password, Model.kf_generate. cbn [kf_salt kf_data].
    rewrite (decrypt_encrypt_data enc dec issued IA) by assumption. rewrite MK. reflexivity.
  Qed.

  Lemma kfp_wrong master p kf p' : made_with master p kf -> p' <> p -> key_from_password kf p' = Err EMac.
  Proof.
    intros (s & n & -> & Hn & Hi) Hp. unfold Model.key_from_password, Model.kf_generate. cbn [kf_salt kf_data].
    rewrite wrong_key_mac; try assumption; [reflexivity|].
    intro E. apply Hp. eapply KDF. eassumption.
  Qed.

  (* classification without deciding equality of passwords *)
  Lemma kfp_cases master p kf p' :
    made_with master p kf ->
    (key_from_password kf p' = Ok master /\ p' = p) \/ (key_from_password kf p' = Err EMac /\ p' <> p).
  Proof.
    intros M. destruct M as (s & n & E & Hn & Hi).
    assert (M : made_with master p kf) by (exists s, n; auto).
    destruct (key_from_password kf p') as [k|e] eqn:R.
    - left. (* it opened: then the kdf keys coincide *)
      assert (p' = p).
      { subst kf. unfold Model.key_from_password, Model.kf_generate in R. cbn [kf_salt kf_data] in R.
        destruct (decrypt_data (kdf p' s) (encrypt_data (kdf p s) n (mk_ser master))) as [d|e] eqn:D; [|discriminate].
        destruct (decrypt_data_ok_inv enc dec issued IA _ _ _ D) as (n' & Hn' & Hi' & E2).
        rewrite !(encrypt_data_eq enc) in E2.
        destruct (app_eq_len _ _ _ _ (eq_trans Hn (eq_sym Hn')) E2) as [<- Hc].
        eapply KDF. symmetry. eapply KSEP; eassumption. }
      subst p'. rewrite (kfp_right _ _ _ M) in R. injection R as <-. split; reflexivity.
    - right. assert (Hp : p' <> p).
      { intros ->. rewrite (kfp_right _ _ _ M) in R. discriminate. }
      split; [|assumption]. rewrite (kfp_wrong _ _ _ _ M Hp) in R. injection R as <-. reflexivity.
  Qed.

  (* key files in the backend vs. the passwords they were made with *)
  Definition kf_rel (master : key) (a : fid * keyfile) (b : fid * password) : Prop :=
    fst a = fst b /\ made_with master (snd b) (snd a).

  Lemma find_key_spec master files pfiles pass :
    Forall2 (kf_rel master) files pfiles ->
    (In pass (map snd pfiles) -> exists i, find_key files pass = Ok (master, i) /\ In i (map fst files))
    /\ (~ In pass (map snd pfiles) -> find_key files pass = Err ECred).
  Proof.
    induction 1 as [|[i kf] [j p] files pfiles [Hij M] _ IH]; cbn [map snd fst In Model.find_key].
    - split; [intros []|reflexivity].
    - cbn [fst snd] in Hij, M. subst j.
      destruct (kfp_cases master p kf pass M) as [[R ->]|[R Hne]]; rewrite R.
      + split; [|intro H; exfalso; apply H; left; reflexivity].
        intros _. exists i. split; [reflexivity|left; reflexivity].
      + destruct IH as [IH1 IH2]. split.
        * intros [->|H]; [contradiction|]. destruct (IH1 H) as (i' & F & Hin).
          exists i'. split; [assumption|right; assumption].
        * intro H. apply IH2. intro H'. apply H. right. assumption.
  Qed.

  Lemma Forall2_filter_fst {A B} (R : fid * A -> fid * B -> Prop) (f : fid -> bool) la lb :
    (forall a b, R a b -> fst a = fst b) ->
    Forall2 R la lb ->
    Forall2 R (filter (fun '(j, _) => f j) la) (filter (fun '(j, _) => f j) lb).
  Proof.
    intros HR. induction 1 as [|[i a] [j b] la lb H _ IH]; cbn [filter]; [constructor|].
    pose proof (HR _ _ H) as E. cbn in E. subst j.
    destruct (f i); [constructor; assumption|assumption].
  Qed.

  Definition op_issued (master : key) (o : kop password) : Prop :=
    match o with
    | KAdd _ _ pass salt nonce => length nonce = nonce_len /\ issued (kdf pass salt) nonce (mk_ser master)
    | KDel _ _ _ => True
    end.

  Lemma kstep_rel master st pst o :
    op_issued master o ->
    Forall2 (kf_rel master) (ks_files st) pst ->
    Forall2 (kf_rel master) (ks_files (kstep master st o)) (pstep password pst o)
    /\ ks_config (kstep master st o) = ks_config st.
  Proof.
    intros Ho H.
    assert (F : forall i, Forall2 (kf_rel master) (kremove i (ks_files st))
                                  (filter (fun '(j, _) => negb (j =? i)) pst)).
    { intro i. unfold kremove.
      apply (Forall2_filter_fst (kf_rel master) (fun j => negb (j =? i))); [|assumption].
      intros a b [E _]. exact E. }
    destruct o as [i pass salt nonce|i cur]; cbn [Model.kstep pstep ks_files ks_config].
    - split; [|reflexivity]. constructor; [|apply F].
      split; [reflexivity|]. cbn [snd]. destruct Ho as [Hn Hi]. exists salt, nonce. auto.
    - destruct cur as [c|]; [destruct (c =? i)|]; cbn [ks_files ks_config]; split;
        try reflexivity; try assumption; apply F.
  Qed.

  Lemma krun_rel master ops : forall st pst,
    Forall (op_issued master) ops ->
    Forall2 (kf_rel master) (ks_files st) pst ->
    Forall2 (kf_rel master) (ks_files (krun master st ops)) (fold_left (pstep password) ops pst)
    /\ ks_config (krun master st ops) = ks_config st.
  Proof.
    induction ops as [|o ops IH]; intros st pst Ho H; cbn [Model.krun fold_left].
    - split; [assumption|reflexivity].
    - inv Ho. destruct (kstep_rel master st pst o H2 H) as [R C].
      destruct (IH _ _ H3 R) as [R' C']. split; [exact R'|].
      unfold Model.krun in C'. rewrite C'. exact C.
  Qed.

  Lemma open_iff_some_password_lemma master cfg_nonce cfg ops pass :
    length cfg_nonce = nonce_len -> issued master cfg_nonce cfg -> json_start cfg = true ->
    Forall (op_issued master) ops ->
    let st := krun master {| ks_files := []; ks_config := encrypt_data master cfg_nonce cfg |} ops in
    let current := map snd (fold_left (pstep password) ops []) in
    (* a password opens iff a CURRENT key file was made with it; it then yields the master key *)
    (In pass current -> open_repo st (CPassword key password pass) = Ok (master, cfg))
    /\ (~ In pass current -> open_repo st (CPassword key password pass) = Err ECred)
    (* the master key always opens; any other key fails with a MAC error *)
    /\ open_repo st (CMaster key password master) = Ok (master, cfg)
    /\ (forall k', k' <> master -> open_repo st (CMaster key password k') = Err EMac).
  Proof.
    intros Hn Hi Hj Ho st current.
    destruct (krun_rel master ops {| ks_files := []; ks_config := encrypt_data master cfg_nonce cfg |} []
                       Ho (Forall2_nil _)) as [R C].
    fold st in R, C. cbn [ks_config] in C.
    assert (CFG : decrypt_file master (ks_config st) = Ok cfg).
    { rewrite C. unfold Model.decrypt_file.
      rewrite (decrypt_encrypt_data enc dec issued IA) by assumption.
      destruct cfg as [|b r]; [discriminate|]. cbn [json_start] in Hj. cbn [decode_file_plain].
      rewrite Hj. reflexivity. }
    destruct (find_key_spec master _ _ pass R) as [F1 F2]. fold current in F1, F2.
    repeat split.
    - intro H. destruct (F1 H) as (i & F & _). unfold Model.open_repo. rewrite F, CFG. reflexivity.
    - intro H. unfold Model.open_repo. rewrite (F2 H). reflexivity.
    - unfold Model.open_repo. rewrite CFG. reflexivity.
    - intros k' Hk. unfold Model.open_repo, Model.decrypt_file. rewrite C.
      rewrite wrong_key_mac by assumption. reflexivity.
  Qed.
End Keys.

(* ---------------------------------------------------------------- substitution *)
Section Subst.
  Context {key : Type}.
  Variable enc : key -> bytes -> bytes -> bytes * bytes.
  Variable dec : key -> bytes -> bytes -> option bytes.
  Variable issued : key -> bytes -> bytes -> Prop.
  Variable zenc : Z -> bytes -> bytes.
  Variable zdec : bytes -> option bytes.
  Variable hash : bytes -> fid.
  Hypothesis IA : ideal_aead enc dec issued.
  Hypothesis ZOK : zstd_ok zenc zdec.

  Notation encrypt_file := (encrypt_file key enc zenc).
  Notation decrypt_file := (decrypt_file key dec zdec).
  Notation read_encrypted_full := (read_encrypted_full key dec zdec).
  Notation read_checked := (read_encrypted_full_checked key dec zdec hash).

  (* Two files written by hash_write_full; their contents exchanged in the backend.  The read of
     the unchanged tree returns the OTHER file's content without error. *)
  Lemma substitution_refuted_lemma zstd k n1 n2 d1 d2 :
    length n1 = nonce_len -> length n2 = nonce_len ->
    issued k n1 (file_payload zenc zstd d1) -> issued k n2 (file_payload zenc zstd d2) ->
    (zstd = None -> json_start d1 = true /\ json_start d2 = true) ->
    let c1 := encrypt_file zstd k n1 d1 in
    let c2 := encrypt_file zstd k n2 d2 in
    hash c1 <> hash c2 ->
    let s := [(hash c2, c2); (hash c1, c1)] in      (* the store after the two hash_write_full *)
    let s' := swap_files s (hash c1) (hash c2) in
    read_encrypted_full k s (hash c1) = Ok d1 /\ read_encrypted_full k s' (hash c1) = Ok d2
    /\ read_encrypted_full k s' (hash c2) = Ok d1.
  Proof.
    intros Hn1 Hn2 Hi1 Hi2 Hj c1 c2 Hh s s'.
    assert (R1 : decrypt_file k c1 = Ok d1).
    { apply (file_roundtrip_lemma enc dec issued zenc zdec IA ZOK); try assumption. intro E. apply Hj, E. }
    assert (R2 : decrypt_file k c2 = Ok d2).
    { apply (file_roundtrip_lemma enc dec issued zenc zdec IA ZOK); try assumption. intro E. apply Hj, E. }
    assert (E12 : hash c1 =? hash c2 = false) by (apply N.eqb_neq; assumption).
    assert (E21 : hash c2 =? hash c1 = false) by (apply N.eqb_neq; intro E; apply Hh; symmetry; assumption).
    unfold s', s, swap_files, Model.read_encrypted_full. cbn [map lookup].
    rewrite ?E12, ?E21, ?N.eqb_refl. cbn [lookup]. rewrite ?E12, ?E21, ?N.eqb_refl.
    repeat split; assumption.
  Qed.

  (* with the id check: whatever a read of id `hash d0` returns, it is the decoding of d0 itself,
     provided no other byte string has d0's hash (collision freedom on the values that occur) *)
  Lemma id_check_detects_substitution_lemma k s' d0 x :
    (forall d, hash d = hash d0 -> d = d0) ->
    read_checked k s' (hash d0) = Ok x -> decrypt_file k d0 = Ok x.
  Proof.
    intros Hc. unfold read_encrypted_full_checked.
    destruct (lookup s' (hash d0)) as [d|]; [|discriminate].
    destruct (hash d =? hash d0) eqn:E; [|discriminate].
    apply N.eqb_eq in E. rewrite (Hc _ E). auto.
  Qed.

  (* the read of the repaired tree: for a file written by hash_write_full, whatever the backend
     holds afterwards (any modification, truncation, extension, substitution of any file), reading
     its id yields an error or exactly the data that was written *)
  Lemma substitution_detected_lemma zstd k n data s' x :
    length n = nonce_len -> issued k n (file_payload zenc zstd data) ->
    (zstd = None -> json_start data = true) ->
    let c := encrypt_file zstd k n data in
    (forall d, hash d = hash c -> d = c) ->
    read_repo_file key dec zdec hash true false k s' (hash c) = Ok x -> x = data.
  Proof.
    intros Hn Hi Hj c Hc R. unfold read_repo_file in R. cbn [andb negb] in R.
    apply (id_check_detects_substitution_lemma k s' c x Hc) in R.
    destruct (file_roundtrip_lemma enc dec issued zenc zdec IA ZOK zstd k n data Hn Hi Hj) as [RT _].
    fold c in RT. rewrite RT in R. injection R as <-. reflexivity.
  Qed.

  Lemma id_check_rejects_swap_lemma k c1 c2 :
    hash c1 <> hash c2 ->
    let s' := swap_files [(hash c2, c2); (hash c1, c1)] (hash c1) (hash c2) in
    read_checked k s' (hash c1) = Err EIdMismatch /\ read_checked k s' (hash c2) = Err EIdMismatch.
  Proof.
    intros Hh s'.
    assert (E12 : hash c1 =? hash c2 = false) by (apply N.eqb_neq; assumption).
    assert (E21 : hash c2 =? hash c1 = false) by (apply N.eqb_neq; intro E; apply Hh; symmetry; assumption).
    unfold s', swap_files, read_encrypted_full_checked. cbn [map lookup].
    rewrite ?E12, ?E21, ?N.eqb_refl. cbn [lookup]. rewrite ?E12, ?E21, ?N.eqb_refl.
    rewrite ?E12, ?E21. split; reflexivity.
  Qed.
End Subst.

(* ---------------------------------------------------------------- write sites *)
Section Sites.
  Context {key password : Type}.
  Variable enc : key -> bytes -> bytes -> bytes * bytes.
  Variable zenc : Z -> bytes -> bytes.
  Variable kdf : password -> bytes -> key.
  Variable mk_ser : key -> bytes.
  Variable kf_ser : keyfile -> bytes.            (* serde_json::to_vec(KeyFile) *)

  Notation encrypt_data := (encrypt_data key enc).

  (* a ciphertext envelope under key k: 16-byte nonce ‖ body ‖ tag made by Key::encrypt_data *)
  Definition is_ct (k : key) (b : bytes) : Prop :=
    exists n m, length n = nonce_len /\ b = encrypt_data k n m.
  Definition is_pack (k : key) (b : bytes) : Prop :=
    exists blobs hdr, Forall (is_ct k) blobs /\ is_ct k hdr /\ b = assemble_pack blobs hdr.
  Definition is_keyfile (b : bytes) : Prop :=
    exists (kk : key) salt d, is_ct kk d /\ b = kf_ser {| kf_salt := salt; kf_data := d |}.
  (* what may reach the backend: a ciphertext, a pack of ciphertexts, or a key file *)
  Definition storable (k : key) (b : bytes) : Prop := is_ct k b \/ is_pack k b \/ is_keyfile b.

  (* a blob placed in a pack: fresh output of process_data, or a raw encrypted blob copied from
     an existing pack by the repacker *)
  Inductive blob_src (k : key) : bytes -> Prop :=
  | B_fresh zstd n data c len ul : length n = nonce_len ->
      encode_blob key enc zenc zstd k n data = Ok (c, len, ul) -> blob_src k c
  | B_copied c : is_ct k c -> blob_src k c.


  (* what each class of call site hands to write_bytes, as in the code *)
  Inductive written (k : key) : site_class -> bytes -> Prop :=
  | W_encfile zstd n data : length n = nonce_len ->
      written k SEncFile (encrypt_file key enc zenc zstd k n data)
  | W_encraw n data : length n = nonce_len ->
      written k SEncRaw (encrypt_data k n data)
  | W_pack blobs hn hdr : Forall (blob_src k) blobs -> length hn = nonce_len ->
      written k SPack (assemble_pack blobs (encrypt_data k hn hdr))
  | W_key master p s n : length n = nonce_len ->
      written k SKeyFile (kf_ser (kf_generate key enc password kdf mk_ser master p s n))
  | W_plain_key master p s n : length n = nonce_len ->   (* save_file::<KeyFile>, F::ENCRYPTED = false *)
      written k SPlainRepoFile (kf_ser (kf_generate key enc password kdf mk_ser master p s n))
  | W_pass c b : written k c b -> written k SPassThrough b
  | W_copy c b : written k c b -> written k SCopyStored b
  | W_deleg c b : written k c b -> written k SDelegate b.

  Lemma blob_src_ct k c : blob_src k c -> is_ct k c.
  Proof.
    intros [zstd n data c' len ul Hn E|c' H]; [|assumption].
    unfold Model.encode_blob in E. destruct (4294967295 <? N.of_nat (length data)); [discriminate|].
    injection E as <- _ _. eexists _, _. split; [eassumption|reflexivity].
  Qed.

  Lemma every_write_is_ciphertext_lemma k c b : written k c b -> storable k b.
  Proof.
    induction 1.
    - left. eexists _, _. split; [eassumption|reflexivity].
    - left. eexists _, _. split; [eassumption|reflexivity].
    - right; left. exists blobs, (encrypt_data k hn hdr). split; [|split; [|reflexivity]].
      + eapply Forall_impl; [|eassumption]. apply blob_src_ct.
      + eexists _, _. split; [eassumption|reflexivity].
    - right; right. eexists _, _, _. split; [|reflexivity]. eexists _, _. split; [eassumption|reflexivity].
    - right; right. eexists _, _, _. split; [|reflexivity]. eexists _, _. split; [eassumption|reflexivity].
    - assumption.
    - assumption.
    - assumption.
  Qed.

  (* a pack is ciphertext from the first to the last byte except the 4-byte length trailer *)
  Lemma pack_layout (blobs : list bytes) (hdr : bytes) :
    length (assemble_pack blobs hdr) = (length (concat blobs) + length hdr + 4)%nat.
  Proof. unfold assemble_pack, le32. rewrite !app_length. cbn [length]. lia. Qed.
End Sites.
