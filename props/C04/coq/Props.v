(* C04 — property theorems.  Statements closed by `exact`, each followed by Print Assumptions,
   and by an Example showing that its hypotheses are satisfiable (Toy.v instance).
   Every theorem quantifies over ALL primitives (key type, AEAD enc/dec, the set `issued` of
   encryptions made by the key holder, zstd codec, KDF, hash, JSON codec of the master key)
   that satisfy the stated idealisations:
     ideal_aead  = lengths (|body| = |msg|, 16-byte tag) + correctness on issued encryptions
                   + INT-CTXT (only issued (nonce, ciphertext) pairs verify) + nonce freshness;
     zstd_ok     = decode (encode l d) = d.
   Cryptographic strength, nonce randomness, scrypt and SHA-256 themselves are outside. *)
From Verif.Base Require Import Tactics.
From Verif.C04 Require Import Model Extracted Proofs Proofs2 Proofs3 Toy.
Local Open Scope N_scope.

(* constants regenerated from the source agree with the model *)
Theorem framing_constants_match_source :
  x_nonce_len = nonce_len /\ x_overhead = overhead /\ x_marker_zstd = m_zstd
  /\ x_marker_brace = m_brace /\ x_marker_bracket = m_bracket
  /\ (nonce_len + tag_len = overhead)%nat.
Proof. repeat split; reflexivity. Qed.
Print Assumptions framing_constants_match_source.

(* Repository files: decrypt_file (encrypt_file data) = data for all plaintexts, keys, nonces and
   compression settings (uncompressed files must start with '{' or '[', which every serialised
   repository file does); the stored length is payload + 32. *)
Theorem file_roundtrip :
  forall (key : Type) enc dec issued zenc zdec,
    @ideal_aead key enc dec issued -> zstd_ok zenc zdec ->
  forall zstd k n data,
    length n = nonce_len -> issued k n (file_payload zenc zstd data) ->
    (zstd = None -> json_start data = true) ->
    decrypt_file key dec zdec k (encrypt_file key enc zenc zstd k n data) = Ok data
    /\ length (encrypt_file key enc zenc zstd k n data)
       = (length (file_payload zenc zstd data) + overhead)%nat.
Proof. exact (@file_roundtrip_lemma). Qed.
Print Assumptions file_roundtrip.

Example file_roundtrip_ex :
  ideal_aead toy_enc (toy_dec ex_log) (toy_issued ex_log) /\ zstd_ok (toy_zenc []) (toy_zdec [])
  /\ toy_issued ex_log 7 ex_n1 (file_payload (toy_zenc []) (Some 3%Z) ex_d1)
  /\ decrypt_file tkey (toy_dec ex_log) (toy_zdec []) 7
       (encrypt_file tkey toy_enc (toy_zenc []) (Some 3%Z) 7 ex_n1 ex_d1) = Ok ex_d1.
Proof.
  split; [apply toy_ideal, ex_log_fresh|]. split; [apply toy_zstd_ok|].
  split; [left; reflexivity|vm_compute; reflexivity].
Qed.

(* Blobs: decode (encode data) = data for every non-empty blob below 4 GiB (every blob when
   compression is off); recorded lengths are right. *)
Theorem blob_roundtrip :
  forall (key : Type) enc dec issued zenc zdec,
    @ideal_aead key enc dec issued -> zstd_ok zenc zdec ->
  forall zstd k n data c len ul,
    length n = nonce_len ->
    encode_blob key enc zenc zstd k n data = Ok (c, len, ul) ->
    issued k n (blob_payload zenc zstd data) ->
    (zstd = None \/ data <> []) ->
    decode_blob key dec zdec k c ul = Ok data /\ len = N.of_nat (length data)
    /\ length c = (length (blob_payload zenc zstd data) + overhead)%nat
    /\ (ul = match zstd with Some _ => Some len | None => None end).
Proof. exact (@blob_roundtrip_lemma). Qed.
Print Assumptions blob_roundtrip.

Example blob_roundtrip_ex :
  let log := [(7, ex_n1, blob_payload (toy_zenc []) (Some 3%Z) [5; 6])] in
  log_fresh log /\ toy_issued log 7 ex_n1 (blob_payload (toy_zenc []) (Some 3%Z) [5; 6])
  /\ exists c, encode_blob tkey toy_enc (toy_zenc []) (Some 3%Z) 7 ex_n1 [5; 6] = Ok (c, 2, Some 2)
               /\ decode_blob tkey (toy_dec log) (toy_zdec []) 7 c (Some 2) = Ok [5; 6].
Proof.
  cbv zeta. split.
  - intros k n m m' [H1|[]] [H2|[]]. congruence.
  - split; [left; reflexivity|]. eexists. split; vm_compute; reflexivity.
Qed.

(* The NonZeroU32::new(0) corner: a compressed empty blob is recorded as uncompressed and reads
   back as its zstd frame.  Unreachable from the archiver (no empty chunks, no empty trees). *)
Theorem blob_empty_compressed_corner :
  forall (key : Type) enc dec issued zenc zdec,
    @ideal_aead key enc dec issued ->
  forall l k n, length n = nonce_len -> issued k n (zenc l []) ->
    exists c, encode_blob key enc zenc (Some l) k n [] = Ok (c, 0, None)
              /\ decode_blob key dec zdec k c None = Ok (zenc l []).
Proof. intros. eapply blob_empty_corner_lemma; eassumption. Qed.
Print Assumptions blob_empty_compressed_corner.

(* Tampering.  `encrypt_data k n m` is a stored ciphertext and t any other byte string.
   (1) If t decrypts at all, t is — byte for byte — ANOTHER issued ciphertext with a different
       nonce (whole-message substitution, see substitution_refuted).
   (2) Every truncation, every extension and every modification that leaves the nonce field
       intact is rejected by Key::decrypt_data, by decrypt_file and by the blob decoder. *)
Theorem framing_tamper_rejected :
  forall (key : Type) enc dec issued zdec,
    @ideal_aead key enc dec issued ->
  forall k n m t,
    length n = nonce_len -> issued k n m -> t <> encrypt_data key enc k n m ->
    (forall m', decrypt_data key dec k t = Ok m' ->
       exists n', n' <> n /\ length n' = nonce_len /\ issued k n' m' /\ t = encrypt_data key enc k n' m')
    /\ ((exists j, (j < length (encrypt_data key enc k n m))%nat /\ t = firstn j (encrypt_data key enc k n m))
        \/ (exists x, t = encrypt_data key enc k n m ++ x)
        \/ firstn nonce_len t = firstn nonce_len (encrypt_data key enc k n m) ->
        is_err (decrypt_data key dec k t) /\ is_err (decrypt_file key dec zdec k t)
        /\ forall ul, is_err (decode_blob key dec zdec k t ul)).
Proof. intros. eapply framing_tamper_rejected_lemma; eassumption. Qed.
Print Assumptions framing_tamper_rejected.

(* a change inside the nonce field with body and tag untouched: rejected when issued ciphertexts
   with different nonces differ beyond the nonce field (the tag depends on the nonce) *)
Theorem nonce_field_modification_rejected :
  forall (key : Type) enc dec issued,
    @ideal_aead key enc dec issued ->
    (forall k n n' m m', issued k n m -> issued k n' m' -> ct enc k n m = ct enc k n' m' -> n = n') ->
  forall k n m t,
    length n = nonce_len -> issued k n m -> t <> encrypt_data key enc k n m ->
    skipn nonce_len t = skipn nonce_len (encrypt_data key enc k n m) ->
    is_err (decrypt_data key dec k t).
Proof. intros. eapply nonce_modification_rejected; eassumption. Qed.
Print Assumptions nonce_field_modification_rejected.

(* anything shorter than 32 bytes is an error *)
Theorem short_input_rejected :
  forall (key : Type) enc dec issued, @ideal_aead key enc dec issued ->
  forall k t, (length t < overhead)%nat -> is_err (decrypt_data key dec k t).
Proof. intros. eapply decrypt_short; eassumption. Qed.
Print Assumptions short_input_rejected.

Example framing_tamper_ex :
  toy_issued ex_log 7 ex_n3 ex_d1
  /\ decrypt_data tkey (toy_dec ex_log) 7 (encrypt_data tkey toy_enc 7 ex_n3 ex_d1) = Ok ex_d1
  /\ decrypt_data tkey (toy_dec ex_log) 7 (firstn 20 (encrypt_data tkey toy_enc 7 ex_n3 ex_d1)) = Err EMac
  /\ decrypt_data tkey (toy_dec ex_log) 7 (firstn 10 (encrypt_data tkey toy_enc 7 ex_n3 ex_d1)) = Err ETooShort
  /\ decrypt_data tkey (toy_dec ex_log) 7 (encrypt_data tkey toy_enc 7 ex_n3 ex_d1 ++ [0]) = Err EMac.
Proof. split; [right; right; left; reflexivity|]. repeat split; vm_compute; reflexivity. Qed.

(* Key management.  For EVERY history of add_key / delete_key (with any handle): a password
   opens the repository iff one of the CURRENT key files was made with it, and then yields the
   master key; the master key itself always opens; any other key fails with a MAC error. *)
Theorem open_iff_some_password :
  forall (key password : Type) enc dec issued zdec
         (kdf : password -> bytes -> key) mk_ser mk_de,
    @ideal_aead key enc dec issued ->
    (forall k k' n m m', issued k n m -> issued k' n m' -> ct enc k n m = ct enc k' n m' -> k = k') ->
    (forall p p' s, kdf p s = kdf p' s -> p = p') ->
    (forall k, mk_de (mk_ser k) = Some k) ->
  forall master cfg_nonce cfg ops pass,
    length cfg_nonce = nonce_len -> issued master cfg_nonce cfg -> json_start cfg = true ->
    Forall (op_issued issued kdf mk_ser master) ops ->
    let st := krun key enc password kdf mk_ser master
                   {| ks_files := []; ks_config := encrypt_data key enc master cfg_nonce cfg |} ops in
    let current := map snd (fold_left (pstep password) ops []) in
    (In pass current -> open_repo key dec zdec password kdf mk_de st (CPassword key password pass) = Ok (master, cfg))
    /\ (~ In pass current -> open_repo key dec zdec password kdf mk_de st (CPassword key password pass) = Err ECred)
    /\ open_repo key dec zdec password kdf mk_de st (CMaster key password master) = Ok (master, cfg)
    /\ (forall k', k' <> master -> open_repo key dec zdec password kdf mk_de st (CMaster key password k') = Err EMac).
Proof. intros. eapply open_iff_some_password_lemma; eassumption. Qed.
Print Assumptions open_iff_some_password.

Example open_iff_some_password_ex :
  let ops := [KAdd tpass 1 5 [9] ex_n1; KAdd tpass 2 6 [8] ex_n2; KDel tpass 1 None] in
  let st := krun tkey toy_enc tpass toy_kdf toy_mk_ser 7
                 {| ks_files := []; ks_config := encrypt_data tkey toy_enc 7 ex_n3 ex_d1 |} ops in
  Forall (op_issued (toy_issued ex_log) toy_kdf toy_mk_ser 7) ops
  /\ map snd (fold_left (pstep tpass) ops []) = [6]
  /\ open_repo tkey (toy_dec ex_log) (toy_zdec []) tpass toy_kdf toy_mk_de st (CPassword tkey tpass 6) = Ok (7, ex_d1)
  /\ open_repo tkey (toy_dec ex_log) (toy_zdec []) tpass toy_kdf toy_mk_de st (CPassword tkey tpass 5) = Err ECred
  /\ open_repo tkey (toy_dec ex_log) (toy_zdec []) tpass toy_kdf toy_mk_de st (CMaster tkey tpass 8) = Err EMac.
Proof.
  cbv zeta. split.
  - constructor; [split; [reflexivity|right; right; right; left; reflexivity]|].
    constructor; [split; [reflexivity|do 4 right; left; reflexivity]|].
    constructor; [exact I|constructor].
  - repeat split; vm_compute; reflexivity.
Qed.

(* The ideal-KDF hypothesis of open_iff_some_password speaks about the password the user supplies.
   It is a statement about scrypt alone only if the code feeds scrypt exactly the password bytes
   (`passwd.as_ref()`), both when a key file is made and when it is opened, and hands the password
   on unchanged from Repository::open / add_key_to_repo — regenerated from keyfile.rs,
   repository.rs and commands/key.rs.  (A normalisation of the password before the KDF makes
   distinct passwords open the same key file.) *)
Theorem kdf_fed_with_password_bytes :
  x_kdf_input_open = KdfPasswordBytes /\ x_kdf_input_generate = KdfPasswordBytes
  /\ x_password_passed_unchanged = true.
Proof. repeat split; reflexivity. Qed.
Print Assumptions kdf_fed_with_password_bytes.

(* Every class of call site found in the source hands to the backend a ciphertext envelope, a
   pack made of ciphertext envelopes + encrypted header + 4-byte length, or a key file; the
   unencrypted branch of save_file is reachable for key files only. *)
Theorem every_write_is_ciphertext :
  forall (key password : Type) enc zenc (kdf : password -> bytes -> key) mk_ser kf_ser,
  forall k c b,
    In c write_sites ->
    written enc zenc kdf mk_ser kf_ser k c b -> storable (key := key) enc kf_ser k b.
Proof. intros. eapply every_write_is_ciphertext_lemma; eassumption. Qed.
Print Assumptions every_write_is_ciphertext.

Theorem plain_branch_only_for_key_files : forall t, In t unencrypted_types -> t = FKey.
Proof. intros t [<-|[]]. reflexivity. Qed.
Print Assumptions plain_branch_only_for_key_files.

Theorem all_site_classes_present :
  forall c, In c [SEncFile; SEncRaw; SPack; SKeyFile; SPlainRepoFile; SPassThrough; SCopyStored; SDelegate] ->
            In c write_sites.
Proof. intros c H. cbn in H. repeat (destruct H as [<-|H]; [cbn; tauto|]). contradiction. Qed.
Print Assumptions all_site_classes_present.

(* Substitution.  History: `substitution_detected` was REFUTED for the tree as first examined —
   read_encrypted_full did not compare the id with the hash of the stored bytes (model function
   `read_encrypted_full`), so after exchanging two files of one type reading the first id returned
   the second file's content without error (substitution_refuted / substitution_detected_refuted
   below remain true of that unchecked read, which is still what a DecryptBackend with verify_id
   off does).  The repair (commit `fix: verify the id of repository files when they are read`)
   makes Repository::open_raw switch the comparison on; the facts regenerated from the source
   (read_path_verifies_id) select the checked read, and substitution_detected is now PROVED. *)
Theorem read_path_verifies_id : x_read_verifies_id = true.
Proof. reflexivity. Qed.
Print Assumptions read_path_verifies_id.

(* For a file written by hash_write_full: whatever the backend holds afterwards — any
   modification, truncation, extension of the file, substitution by ANY other byte string
   including other genuine files — reading its id with the read of the repaired tree
   (verify_id on, not the config file) yields an error or exactly the data that was written. *)
Theorem substitution_detected :
  forall (key : Type) enc dec issued zenc zdec (hash : bytes -> fid),
    @ideal_aead key enc dec issued -> zstd_ok zenc zdec ->
  forall zstd k n data (s' : store) x,
    length n = nonce_len -> issued k n (file_payload zenc zstd data) ->
    (zstd = None -> json_start data = true) ->
    let c := encrypt_file key enc zenc zstd k n data in
    (forall d, hash d = hash c -> d = c) ->
    read_repo_file key dec zdec hash x_read_verifies_id false k s' (hash c) = Ok x -> x = data.
Proof. intros. eapply substitution_detected_lemma; eassumption. Qed.
Print Assumptions substitution_detected.

Example substitution_detected_ex :
  let c1 := encrypt_file tkey toy_enc (toy_zenc []) (Some 3%Z) 7 ex_n1 ex_d1 in
  let c2 := encrypt_file tkey toy_enc (toy_zenc []) (Some 3%Z) 7 ex_n2 ex_d2 in
  let s' := swap_files [(toy_hash c2, c2); (toy_hash c1, c1)] (toy_hash c1) (toy_hash c2) in
  read_repo_file tkey (toy_dec ex_log) (toy_zdec []) toy_hash x_read_verifies_id false 7
                 [(toy_hash c2, c2); (toy_hash c1, c1)] (toy_hash c1) = Ok ex_d1
  /\ read_repo_file tkey (toy_dec ex_log) (toy_zdec []) toy_hash x_read_verifies_id false 7 s' (toy_hash c1)
     = Err EIdMismatch.
Proof. cbv zeta. split; vm_compute; reflexivity. Qed.

Theorem substitution_refuted :
  forall (key : Type) enc dec issued zenc zdec (hash : bytes -> fid),
    @ideal_aead key enc dec issued -> zstd_ok zenc zdec ->
  forall zstd k n1 n2 d1 d2,
    length n1 = nonce_len -> length n2 = nonce_len ->
    issued k n1 (file_payload zenc zstd d1) -> issued k n2 (file_payload zenc zstd d2) ->
    (zstd = None -> json_start d1 = true /\ json_start d2 = true) ->
    let c1 := encrypt_file key enc zenc zstd k n1 d1 in
    let c2 := encrypt_file key enc zenc zstd k n2 d2 in
    hash c1 <> hash c2 ->
    let s := [(hash c2, c2); (hash c1, c1)] in
    let s' := swap_files s (hash c1) (hash c2) in
    read_encrypted_full key dec zdec k s (hash c1) = Ok d1
    /\ read_encrypted_full key dec zdec k s' (hash c1) = Ok d2
    /\ read_encrypted_full key dec zdec k s' (hash c2) = Ok d1.
Proof. intros. eapply substitution_refuted_lemma; eassumption. Qed.
Print Assumptions substitution_refuted.

(* concrete witness *)
Theorem substitution_detected_refuted :
  exists s' i1 d1 d2, d1 <> d2 /\
    read_encrypted_full tkey (toy_dec ex_log) (toy_zdec []) 7
      [(toy_hash (encrypt_file tkey toy_enc (toy_zenc []) (Some 3%Z) 7 ex_n2 ex_d2),
        encrypt_file tkey toy_enc (toy_zenc []) (Some 3%Z) 7 ex_n2 ex_d2);
       (i1, encrypt_file tkey toy_enc (toy_zenc []) (Some 3%Z) 7 ex_n1 ex_d1)] i1 = Ok d1
    /\ read_encrypted_full tkey (toy_dec ex_log) (toy_zdec []) 7 s' i1 = Ok d2.
Proof.
  exists (swap_files [(toy_hash (encrypt_file tkey toy_enc (toy_zenc []) (Some 3%Z) 7 ex_n2 ex_d2),
                       encrypt_file tkey toy_enc (toy_zenc []) (Some 3%Z) 7 ex_n2 ex_d2);
                      (toy_hash (encrypt_file tkey toy_enc (toy_zenc []) (Some 3%Z) 7 ex_n1 ex_d1),
                       encrypt_file tkey toy_enc (toy_zenc []) (Some 3%Z) 7 ex_n1 ex_d1)]
                     (toy_hash (encrypt_file tkey toy_enc (toy_zenc []) (Some 3%Z) 7 ex_n1 ex_d1))
                     (toy_hash (encrypt_file tkey toy_enc (toy_zenc []) (Some 3%Z) 7 ex_n2 ex_d2))),
         (toy_hash (encrypt_file tkey toy_enc (toy_zenc []) (Some 3%Z) 7 ex_n1 ex_d1)), ex_d1, ex_d2.
  split; [discriminate|]. split; vm_compute; reflexivity.
Qed.
Print Assumptions substitution_detected_refuted.

(* With `hash(stored bytes) == id` verified by the read (the repair): whatever a read of the id
   of d0 returns is the decoding of d0 itself (given no second preimage of that id), and the
   exchange above is reported as an error. *)
Theorem id_check_detects_substitution :
  forall (key : Type) dec zdec (hash : bytes -> fid) k s' d0 x,
    (forall d, hash d = hash d0 -> d = d0) ->
    read_encrypted_full_checked key dec zdec hash k s' (hash d0) = Ok x ->
    decrypt_file key dec zdec k d0 = Ok x.
Proof. intros. eapply id_check_detects_substitution_lemma; eassumption. Qed.
Print Assumptions id_check_detects_substitution.

Theorem id_check_rejects_swap :
  forall (key : Type) dec zdec (hash : bytes -> fid) k c1 c2,
    hash c1 <> hash c2 ->
    let s' := swap_files [(hash c2, c2); (hash c1, c1)] (hash c1) (hash c2) in
    read_encrypted_full_checked key dec zdec hash k s' (hash c1) = Err EIdMismatch
    /\ read_encrypted_full_checked key dec zdec hash k s' (hash c2) = Err EIdMismatch.
Proof. intros. eapply id_check_rejects_swap_lemma; eassumption. Qed.
Print Assumptions id_check_rejects_swap.

(* ---- second round: key files under attack, config file, plain mode, nonce freshness ---- *)

(* Whatever bytes the key files hold (salt and data chosen by an attacker, bits flipped, truncated,
   copied from another repository with other passwords): if find_key_in_backend returns a key at
   all, it is the master key — provided password-derived keys were only ever used to encrypt the
   serialised master key (KeyFile::generate is their only user). *)
Theorem find_key_yields_only_master_key :
  forall (key password : Type) enc dec issued (kdf : password -> bytes -> key) mk_ser mk_de,
    @ideal_aead key enc dec issued -> (forall k, mk_de (mk_ser k) = Some k) ->
  forall master, (forall p s n m, issued (kdf p s) n m -> m = mk_ser master) ->
  forall kfs pass k i, find_key key dec password kdf mk_de kfs pass = Ok (k, i) -> k = master.
Proof. intros. eapply find_key_only_master; eassumption. Qed.
Print Assumptions find_key_yields_only_master_key.

Example find_key_yields_only_master_key_ex :
  forall p s n m, toy_issued ex_log (toy_kdf p s) n m -> m = toy_mk_ser 7.
Proof.
  intros p s n m H. unfold toy_issued, ex_log in H. cbn [In] in H. unfold toy_kdf in *.
  repeat (destruct H as [H|H]; [injection H as E1 E2 E3; try (exfalso; lia); subst; reflexivity|]).
  contradiction.
Qed.

(* a genuine key file whose data field was truncated, extended, or modified outside the nonce
   field does not open even with the right password *)
Theorem tampered_keyfile_never_opens :
  forall (key password : Type) enc dec issued (kdf : password -> bytes -> key) (mk_ser : key -> bytes) mk_de,
    @ideal_aead key enc dec issued ->
  forall master p s n t,
    length n = nonce_len -> issued (kdf p s) n (mk_ser master) ->
    t <> encrypt_data key enc (kdf p s) n (mk_ser master) ->
    ((exists j, (j < length (encrypt_data key enc (kdf p s) n (mk_ser master)))%nat
                /\ t = firstn j (encrypt_data key enc (kdf p s) n (mk_ser master)))
     \/ (exists x, t = encrypt_data key enc (kdf p s) n (mk_ser master) ++ x)
     \/ firstn nonce_len t = firstn nonce_len (encrypt_data key enc (kdf p s) n (mk_ser master))) ->
    forall k, key_from_password key dec password kdf mk_de {| kf_salt := s; kf_data := t |} p <> Ok k.
Proof. intros. eapply Proofs3.tampered_keyfile_never_opens; eassumption. Qed.
Print Assumptions tampered_keyfile_never_opens.

(* the config file is exempt from the id check (it is stored under a fixed name by most
   backends) but still authenticated: a successful read means the stored bytes are an issued
   ciphertext under the key used *)
Theorem config_read_unchecked_but_authentic :
  forall (key : Type) enc dec issued zdec (hash : bytes -> fid),
    @ideal_aead key enc dec issued ->
  forall v k s i x,
    read_repo_file key dec zdec hash v true k s i = Ok x ->
    exists d n m, lookup s i = Some d /\ length n = nonce_len /\ issued k n m
                  /\ d = encrypt_data key enc k n m /\ decode_file_plain zdec m = Ok x.
Proof.
  intros key enc dec issued zdec hash IA v k s i x R.
  rewrite config_read_is_unchecked in R. eapply config_read_authentic; eassumption.
Qed.
Print Assumptions config_read_unchecked_but_authentic.

(* why file_roundtrip needs `json_start` when compression is off *)
Theorem plain_mode_non_json_does_not_read_back :
  forall (key : Type) enc dec issued zenc zdec,
    @ideal_aead key enc dec issued ->
  forall k n b r,
    length n = nonce_len -> issued k n (b :: r) ->
    (b =? m_brace) || (b =? m_bracket) = false ->
    decrypt_file key dec zdec k (encrypt_file key enc zenc None k n (b :: r))
    = if b =? m_zstd then match zdec r with Some x => Ok x | None => Err EZstd end
      else Err EUnsupported.
Proof. intros. eapply plain_mode_non_json; eassumption. Qed.
Print Assumptions plain_mode_non_json_does_not_read_back.

(* the freshness clause of ideal_aead follows, for the log of a run, from the (key, nonce) pairs
   drawn being pairwise distinct — the observable the correspondence checks *)
Theorem distinct_nonces_give_freshness :
  forall (key : Type) (log : list (key * bytes * bytes)),
    NoDup (map (fun e => (fst (fst e), snd (fst e))) log) ->
    forall k n m m', issued_of_log log k n m -> issued_of_log log k n m' -> m = m'.
Proof. intros key log. apply distinct_nonces_fresh. Qed.
Print Assumptions distinct_nonces_give_freshness.

(* ---- third round: loaders (index loading, snapshot listing, prune, check ...) ---- *)

(* regenerated from index.rs / decrypt.rs and the inventory of index consumers: every consumer
   streams ALL listed index files (stream_all::<IndexFile>), stream_all hands the complete listing
   to stream_list, stream_list reads every id with get_file *)
Theorem loader_reads_every_listed_file : x_loader_reads_every_listed_file = true.
Proof. reflexivity. Qed.
Print Assumptions loader_reads_every_listed_file.

(* For the loader found in the source: if ANY stored file of the type does not read by id
   (tampered in any way the by-id read detects), loading the type fails as a whole … *)
Theorem loader_detects_any_unreadable_file :
  forall (key : Type) dec zdec (hash : bytes -> fid) k (s : store) i d,
    lookup s i = Some d ->
    is_err (read_repo_file key dec zdec hash x_read_verifies_id false k s i) ->
    is_err (load_type key dec zdec hash x_loader_reads_every_listed_file x_read_verifies_id k s).
Proof. intros. eapply complete_loader_detects; eassumption. Qed.
Print Assumptions loader_detects_any_unreadable_file.

(* … in particular a file truncated to ZERO bytes (every length below 32 is refused by
   Key::decrypt_data, short_input_rejected) … *)
Theorem empty_file_fails_the_load :
  forall (key : Type) dec zdec (hash : bytes -> fid) k (s : store) i,
    lookup s i = Some [] ->
    is_err (load_type key dec zdec hash x_loader_reads_every_listed_file x_read_verifies_id k s).
Proof.
  intros. eapply complete_loader_detects; [eassumption|]. apply empty_file_never_reads. assumption.
Qed.
Print Assumptions empty_file_fails_the_load.

(* … and a successful load returns, file by file, what the by-id read returns for every listed id
   (with substitution_detected: the data that was written) *)
Theorem loader_sound :
  forall (key : Type) dec zdec (hash : bytes -> fid) k (s : store) xs,
    load_type key dec zdec hash x_loader_reads_every_listed_file x_read_verifies_id k s = Ok xs ->
    map fst xs = map fst (listing s)
    /\ forall i x, In (i, x) xs -> read_repo_file key dec zdec hash x_read_verifies_id false k s i = Ok x.
Proof. intros. eapply complete_loader_sound; eassumption. Qed.
Print Assumptions loader_sound.

(* a loader that skips listed files of size 0 ("leftovers of interrupted uploads") does NOT have
   this property: the truncated file is silently left out *)
Theorem filtering_loader_misses_truncated_file_refuted :
  exists (s : store) i xs,
    lookup s i = Some []
    /\ load_type tkey (toy_dec ex_log) (toy_zdec []) toy_hash false true 7 s = Ok xs
    /\ ~ In i (map fst xs)
    /\ is_err (load_type tkey (toy_dec ex_log) (toy_zdec []) toy_hash true true 7 s).
Proof.
  set (c1 := encrypt_file tkey toy_enc (toy_zenc []) (Some 3%Z) 7 ex_n1 ex_d1).
  exists [(toy_hash c1, c1); (5, [])], 5, [(toy_hash c1, ex_d1)].
  split; [reflexivity|]. split; [vm_compute; reflexivity|].
  split; [vm_compute; intros [H|[]]; discriminate|eexists; vm_compute; reflexivity].
Qed.
Print Assumptions filtering_loader_misses_truncated_file_refuted.
