(* C04 — Envelope: executable model of the encryption framing of rustic_core.
   Anchors: crypto/aespoly1305.rs (Key::encrypt_data / decrypt_data),
   backend/decrypt.rs (encrypt_file / decrypt_file / encrypt_data (blob) /
   read_encrypted_from_partial / read_encrypted_full / get_file / hash_write_full),
   repofile/keyfile.rs (KeyFile::generate / key_from_password / find_key_in_backend),
   commands/key.rs + repository.rs (add_key / delete_key / open), blob/packer.rs (pack assembly).

   The AEAD (AES256-CTR + Poly1305-AES), the KDF (scrypt), zstd, SHA-256 and the JSON
   codec of the master key are PARAMETERS of every definition (Section variables,
   generalised at the end of the section); definitions only, no proofs here. *)
From Verif.Base Require Import Tactics.
Local Open Scope N_scope.

Definition byte := N.
Definition bytes := list byte.

(* error classes the correspondence distinguishes *)
Inductive err :=
| ETooShort      (* "Data is too short (less than 16 bytes)" — no error code *)
| EMac           (* MAC check failed — error code C001 *)
| EZstd          (* zstd decode failed *)
| EUnsupported   (* first byte neither '{' '[' nor 2 *)
| ELen           (* uncompressed length differs from the recorded one *)
| EConv          (* blob longer than u32::MAX *)
| EJson          (* master key JSON does not parse *)
| ECred          (* no key file matches the password — error code C002 *)
| ENotFound      (* backend has no such file *)
| EIdMismatch    (* hash(stored bytes) <> id  (only in the id-checking read) *)
| ECurrentKey.   (* delete_key of the key the handle was opened with *)

Inductive res (A : Type) := Ok (a : A) | Err (e : err).
Arguments Ok {A} a.
Arguments Err {A} e.

Definition is_ok {A} (r : res A) : bool := match r with Ok _ => true | Err _ => false end.

Definition nonce_len : nat := 16.
Definition tag_len : nat := 16.
Definition overhead : nat := 32.

(* little-endian u32 (pack trailer) *)
Definition le32 (n : N) : bytes :=
  [n mod 256; (n / 256) mod 256; (n / 65536) mod 256; (n / 16777216) mod 256].

Definition nonzero_u32 (n : N) : option N := if n =? 0 then None else Some n.

(* first-byte markers of a decrypted repository file *)
Definition m_zstd : byte := 2.
Definition m_brace : byte := 123.   (* '{' *)
Definition m_bracket : byte := 91.  (* '[' *)

Definition json_start (d : bytes) : bool :=
  match d with
  | b :: _ => (b =? m_brace) || (b =? m_bracket)
  | [] => false
  end.

Section Envelope.
  (* --- primitives (ideal; see Proofs.v for the hypotheses about them) --- *)
  Variable key : Type.
  (* detached AEAD: nonce, message -> (body, tag) ; aead::decrypt: nonce, body ++ tag *)
  Variable enc : key -> bytes -> bytes -> bytes * bytes.
  Variable dec : key -> bytes -> bytes -> option bytes.
  (* zstd as an abstract codec, level is an integer *)
  Variable zenc : Z -> bytes -> bytes.
  Variable zdec : bytes -> option bytes.

  (* Key::encrypt_data: res = nonce ‖ body ‖ tag *)
  Definition encrypt_data (k : key) (nonce : bytes) (m : bytes) : bytes :=
    let '(body, tag) := enc k nonce m in nonce ++ body ++ tag.

  (* Key::decrypt_data: `if data.len() < 16 {Err}`; nonce = data[0..16]; aead decrypt of data[16..] *)
  Definition decrypt_data (k : key) (d : bytes) : res bytes :=
    if (length d <? nonce_len)%nat then Err ETooShort
    else match dec k (firstn nonce_len d) (skipn nonce_len d) with
         | Some m => Ok m
         | None => Err EMac
         end.

  (* DecryptBackend::encrypt_file: what is handed to Key::encrypt_data *)
  Definition file_payload (zstd : option Z) (data : bytes) : bytes :=
    match zstd with
    | Some level => m_zstd :: zenc level data      (* vec![2] then copy_encode *)
    | None => data
    end.
  Definition encrypt_file (zstd : option Z) (k : key) (nonce : bytes) (data : bytes) : bytes :=
    encrypt_data k nonce (file_payload zstd data).

  (* DecryptBackend::decrypt_file (same code duplicated in DryRunBackend::read_encrypted_full) *)
  Definition decode_file_plain (p : bytes) : res bytes :=
    match p with
    | b :: r =>
      if (b =? m_brace) || (b =? m_bracket) then Ok p
      else if b =? m_zstd then
        match zdec r with Some x => Ok x | None => Err EZstd end
      else Err EUnsupported
    | [] => Err EUnsupported
    end.

  Definition decrypt_file (k : key) (d : bytes) : res bytes :=
    match decrypt_data k d with
    | Err e => Err e
    | Ok p => decode_file_plain p
    end.

  (* DecryptBackend::encrypt_data (blob): (ciphertext, data_len, uncompressed_length) *)
  Definition blob_payload (zstd : option Z) (data : bytes) : bytes :=
    match zstd with
    | Some level => zenc level data                (* encode_all *)
    | None => data
    end.
  Definition blob_ulen (zstd : option Z) (len : N) : option N :=
    match zstd with
    | Some _ => nonzero_u32 len                    (* NonZeroU32::new(data_len) *)
    | None => None
    end.
  Definition encode_blob (zstd : option Z) (k : key) (nonce : bytes) (data : bytes)
    : res (bytes * N * option N) :=
    let len := N.of_nat (length data) in
    if 4294967295 <? len then Err EConv
    else Ok (encrypt_data k nonce (blob_payload zstd data), len, blob_ulen zstd len).

  (* DecryptReadBackend::read_encrypted_from_partial *)
  Definition decode_blob (k : key) (d : bytes) (ulen : option N) : res bytes :=
    match decrypt_data k d with
    | Err e => Err e
    | Ok p =>
      match ulen with
      | None => Ok p
      | Some l =>
        match zdec p with
        | None => Err EZstd
        | Some x => if N.of_nat (length x) =? l then Ok x else Err ELen
        end
      end
    end.

  (* --- pack assembly (blob/packer.rs: add_raw*, save: encrypted header, LE32 length) --- *)
  Definition assemble_pack (blobs : list bytes) (enc_header : bytes) : bytes :=
    concat blobs ++ enc_header ++ le32 (N.of_nat (length enc_header)).

  (* --- storage: files of one type, id -> bytes (association list, first match) --- *)
  Definition fid := N.
  Definition store := list (fid * bytes).

  Fixpoint lookup (s : store) (i : fid) : option bytes :=
    match s with
    | [] => None
    | (j, b) :: r => if j =? i then Some b else lookup r i
    end.

  (* get_file / read_encrypted_full without id verification (the tree before the repair; still the
     behaviour of a DecryptBackend whose verify_id is off, and of the config file read) *)
  Definition read_encrypted_full (k : key) (s : store) (i : fid) : res bytes :=
    match lookup s i with
    | None => Err ENotFound
    | Some d => decrypt_file k d
    end.

  (* the same read with `hash(stored bytes) == id` verified first *)
  Variable hash : bytes -> fid.
  Definition read_encrypted_full_checked (k : key) (s : store) (i : fid) : res bytes :=
    match lookup s i with
    | None => Err ENotFound
    | Some d => if hash d =? i then decrypt_file k d else Err EIdMismatch
    end.

  (* DecryptBackend::read_encrypted_full as it is now: `verify_id` (switched on by
     Repository::open_raw) and `tpe != FileType::Config` select the id-checking read *)
  Definition read_repo_file (verify_id is_config : bool) (k : key) (s : store) (i : fid) : res bytes :=
    if verify_id && negb is_config then read_encrypted_full_checked k s i
    else read_encrypted_full k s i.

  (* Loaders (DecryptReadBackend::stream_all -> stream_list -> get_file, consumed with `?`):
     GlobalIndex::new_from_collector, get_all_snapshots, prune, check, ... read EVERY id of the
     backend's listing of the type; the first failing read fails the whole load.
     `complete = false` models a loader that first drops listed files of size 0. *)
  Fixpoint load_all (read : fid -> res bytes) (ids : list fid) : res (list (fid * bytes)) :=
    match ids with
    | [] => Ok []
    | i :: r =>
      match read i with
      | Err e => Err e
      | Ok x => match load_all read r with
                | Err e => Err e
                | Ok xs => Ok ((i, x) :: xs)
                end
      end
    end.

  Definition listing (s : store) : list (fid * N) := map (fun '(i, b) => (i, N.of_nat (length b))) s.

  Definition load_type (complete verify_id : bool) (k : key) (s : store) : res (list (fid * bytes)) :=
    let ids := if complete then map fst (listing s)
               else map fst (filter (fun '(_, sz) => negb (sz =? 0)) (listing s)) in
    load_all (read_repo_file verify_id false k s) ids.

  (* hash_write_full: id = hash of the stored (encrypted) bytes *)
  Definition hash_write_full (zstd : option Z) (k : key) (nonce data : bytes) (s : store) : fid * store :=
    let d := encrypt_file zstd k nonce data in (hash d, (hash d, d) :: s).

  (* exchange the contents stored under two ids *)
  Definition swap_files (s : store) (i j : fid) : store :=
    map (fun '(x, b) =>
           if x =? i then (x, match lookup s j with Some c => c | None => b end)
           else if x =? j then (x, match lookup s i with Some c => c | None => b end)
           else (x, b)) s.

  (* --- key files --- *)
  Variable password : Type.                      (* passwords are opaque to the logic *)
  Variable kdf : password -> bytes -> key.       (* password, salt -> key (scrypt) *)
  Variable mk_ser : key -> bytes.                (* serde_json::to_vec(MasterKey) *)
  Variable mk_de : bytes -> option key.          (* serde_json::from_slice::<MasterKey> *)

  Record keyfile := { kf_salt : bytes; kf_data : bytes }.

  (* KeyFile::generate *)
  Definition kf_generate (master : key) (pass : password) (salt nonce : bytes) : keyfile :=
    {| kf_salt := salt; kf_data := encrypt_data (kdf pass salt) nonce (mk_ser master) |}.

  (* KeyFile::key_from_password = key_from_data (kdf_key passwd) *)
  Definition key_from_password (kf : keyfile) (pass : password) : res key :=
    match decrypt_data (kdf pass (kf_salt kf)) (kf_data kf) with
    | Err e => Err e
    | Ok d => match mk_de d with Some k => Ok k | None => Err EJson end
    end.

  (* find_key_in_backend (hint = None): first key file that opens; C001 errors are skipped,
     any other error aborts the search; no key file matches -> C002 *)
  Fixpoint find_key (kfs : list (fid * keyfile)) (pass : password) : res (key * fid) :=
    match kfs with
    | [] => Err ECred
    | (i, kf) :: r =>
      match key_from_password kf pass with
      | Ok k => Ok (k, i)
      | Err EMac => find_key r pass
      | Err e => Err e
      end
    end.

  (* repository key state: key files in the backend, the config file (encrypted with the
     master key, saved uncompressed), and the master key itself (held by an open handle) *)
  Record kstate := { ks_files : list (fid * keyfile); ks_config : bytes }.

  Inductive kop :=
  | KAdd (i : fid) (pass : password) (salt nonce : bytes)       (* add_key: file id = hash of its JSON *)
  | KDel (i : fid) (cur : option fid).              (* delete_key on a handle opened via key `cur` *)

  Definition kremove (i : fid) (l : list (fid * keyfile)) : list (fid * keyfile) :=
    filter (fun '(j, _) => negb (j =? i)) l.

  Definition kstep (master : key) (st : kstate) (o : kop) : kstate :=
    match o with
    | KAdd i pass salt nonce =>
      {| ks_files := (i, kf_generate master pass salt nonce) :: kremove i (ks_files st);
         ks_config := ks_config st |}
    | KDel i cur =>
      match cur with
      | Some c => if c =? i then st
                  else {| ks_files := kremove i (ks_files st); ks_config := ks_config st |}
      | None => {| ks_files := kremove i (ks_files st); ks_config := ks_config st |}
      end
    end.

  Definition krun (master : key) (st : kstate) (ops : list kop) : kstate :=
    fold_left (kstep master) ops st.

  (* Repository::open: Credentials::Password -> find_key, Credentials::Masterkey -> the key itself;
     then the config file is read with that key (get_file::<ConfigFile>) *)
  Inductive cred := CPassword (p : password) | CMaster (k : key).

  Definition open_repo (st : kstate) (c : cred) : res (key * bytes) :=
    match c with
    | CPassword p =>
      match find_key (ks_files st) p with
      | Err e => Err e
      | Ok (k, _) => match decrypt_file k (ks_config st) with Ok cfg => Ok (k, cfg) | Err e => Err e end
      end
    | CMaster k => match decrypt_file k (ks_config st) with Ok cfg => Ok (k, cfg) | Err e => Err e end
    end.

  (* passwords of the key files a history leaves behind (specification side) *)
  Definition pstep (st : list (fid * password)) (o : kop) : list (fid * password) :=
    match o with
    | KAdd i pass _ _ => (i, pass) :: filter (fun '(j, _) => negb (j =? i)) st
    | KDel i cur =>
      match cur with
      | Some c => if c =? i then st else filter (fun '(j, _) => negb (j =? i)) st
      | None => filter (fun '(j, _) => negb (j =? i)) st
      end
    end.
End Envelope.

(* --- call-site inventory (classes used by Extracted.v) --- *)
Inductive site_class :=
| SEncFile        (* hash_write_full: payload = encrypt_file output *)
| SEncRaw         (* hash_write_full_uncompressed: payload = Key::encrypt_data output *)
| SPack           (* packer file writer: encrypted blobs ++ encrypted header ++ LE32 *)
| SKeyFile        (* add_key_to_repo: key file JSON *)
| SPlainRepoFile  (* save_file, branch !F::ENCRYPTED: only reachable for the listed file types *)
| SPassThrough    (* backend wrapper forwarding the payload it was given *)
| SCopyStored     (* repair hotcold: bytes read from the same repository's store *)
| SDelegate.      (* save_file / save_list / save_file_uncompressed: calls a site above *)

Inductive ftype := FConfig | FIndex | FKey | FSnapshot | FPack.
