(* C04 — extraction of the executable model and the toy instance (ExtrOcamlBasic only). *)
Require Extraction.
Require Import ExtrOcamlBasic.
From Verif.C04 Require Import Model Toy.
Extraction "model_ml.ml" encrypt_data decrypt_data encrypt_file decrypt_file encode_blob decode_blob
  assemble_pack read_encrypted_full read_encrypted_full_checked swap_files hash_write_full
  kf_generate key_from_password find_key kstep krun open_repo pstep
  toy_enc toy_dec toy_zenc toy_zdec toy_kdf toy_mk_ser toy_mk_de toy_hash.
