(* C04 — second round: tampered / forged key files, the config file (exempt from the id check),
   plain-mode files that do not look like JSON, nonce freshness from pairwise distinct nonces. *)
From Verif.Base Require Import Tactics.
From Verif.C04 Require Import Model Proofs Proofs2.
Local Open Scope N_scope.

(* ---------------------------------------------------------------- key files under attack *)
Section KeyFilesTampered.
  Context {key password : Type}.
  Variable enc : key -> bytes -> bytes -> bytes * bytes.
  Variable dec : key -> bytes -> bytes -> option bytes.
  Variable issued : key -> bytes -> bytes -> Prop.
  Variable kdf : password -> bytes -> key.
  Variable mk_ser : key -> bytes.
  Variable mk_de : bytes -> option key.
  Hypothesis IA : ideal_aead enc dec issued.
  Hypothesis MK : forall k, mk_de (mk_ser k) = Some k.

  Notation key_from_password := (key_from_password key dec password kdf mk_de).
  Notation find_key := (find_key key dec password kdf mk_de).

  (* The only messages ever encrypted under password-derived keys are serialised copies of the
     master key (KeyFile::generate is the only user of kdf keys). *)
  Variable master : key.
  Hypothesis ONLY_MASTER : forall p s n m, issued (kdf p s) n m -> m = mk_ser master.

  (* Whatever bytes a key file holds (salt and data chosen by an attacker, bits flipped, truncated,
     copied from elsewhere): if it opens at all it yields the master key — never another key. *)
  Lemma kfp_only_master kf pass k : key_from_password kf pass = Ok k -> k = master.
  Proof.
    unfold Model.key_from_password.
    destruct (decrypt_data key dec (kdf pass (kf_salt kf)) (kf_data kf)) as [d|e] eqn:D; [|discriminate].
    destruct (decrypt_data_ok_inv enc dec issued IA _ _ _ D) as (n & _ & Hi & _).
    rewrite (ONLY_MASTER _ _ _ _ Hi), MK. intro H. injection H as <-. reflexivity.
  Qed.

  Lemma find_key_only_master kfs pass k i : find_key kfs pass = Ok (k, i) -> k = master.
  Proof.
    induction kfs as [|[j kf] r IH]; cbn [Model.find_key]; [discriminate|].
    destruct (key_from_password kf pass) as [k'|e] eqn:R.
    - intro H. injection H as <- _. eapply kfp_only_master. eassumption.
    - destruct e; try discriminate. exact IH.
  Qed.

  (* a key file whose data field is any modification of a genuine one that keeps the nonce field
     (or any truncation / extension) is skipped or aborts the search: it never opens *)
  Lemma tampered_keyfile_never_opens p s n t :
    length n = nonce_len -> issued (kdf p s) n (mk_ser master) ->
    t <> encrypt_data key enc (kdf p s) n (mk_ser master) ->
    ((exists j, (j < length (encrypt_data key enc (kdf p s) n (mk_ser master)))%nat
                /\ t = firstn j (encrypt_data key enc (kdf p s) n (mk_ser master)))
     \/ (exists x, t = encrypt_data key enc (kdf p s) n (mk_ser master) ++ x)
     \/ firstn nonce_len t = firstn nonce_len (encrypt_data key enc (kdf p s) n (mk_ser master))) ->
    forall k, key_from_password {| kf_salt := s; kf_data := t |} p <> Ok k.
  Proof.
    intros Hn Hi Hne Hcls k R. unfold Model.key_from_password in R. cbn [kf_salt kf_data] in R.
    destruct (framing_tamper_rejected_lemma enc dec issued (fun b => Some b) IA _ _ _ _ Hn Hi Hne) as [_ T].
    destruct (T Hcls) as [[e E] _]. rewrite E in R. discriminate.
  Qed.
End KeyFilesTampered.

(* ---------------------------------------------------------------- config file, plain mode *)
Section Misc.
  Context {key : Type}.
  Variable enc : key -> bytes -> bytes -> bytes * bytes.
  Variable dec : key -> bytes -> bytes -> option bytes.
  Variable issued : key -> bytes -> bytes -> Prop.
  Variable zenc : Z -> bytes -> bytes.
  Variable zdec : bytes -> option bytes.
  Variable hash : bytes -> fid.
  Hypothesis IA : ideal_aead enc dec issued.

  (* the config file is read without the id check (most backends store it under a fixed name) … *)
  Lemma config_read_is_unchecked v k s i :
    read_repo_file key dec zdec hash v true k s i = read_encrypted_full key dec zdec k s i.
  Proof. unfold read_repo_file. rewrite andb_false_r. reflexivity. Qed.

  (* … it is still authenticated: whatever is stored in its place, a successful read means the
     stored bytes are an issued ciphertext under the key used *)
  Lemma config_read_authentic k s i x :
    read_encrypted_full key dec zdec k s i = Ok x ->
    exists d n m, lookup s i = Some d /\ length n = nonce_len /\ issued k n m
                  /\ d = encrypt_data key enc k n m /\ decode_file_plain zdec m = Ok x.
  Proof.
    unfold Model.read_encrypted_full. destruct (lookup s i) as [d|]; [|discriminate].
    unfold Model.decrypt_file. destruct (decrypt_data key dec k d) as [m|e] eqn:D; [|discriminate].
    intro R. destruct (decrypt_data_ok_inv enc dec issued IA _ _ _ D) as (n & Hn & Hi & E).
    exists d, n, m. auto.
  Qed.

  (* a file saved WITHOUT compression (version-1 repositories, compression level 0) that does not
     start with '{' or '[' does not read back: marker 2 sends it to zstd, anything else is refused.
     (Why file_roundtrip carries the premise json_start; every serialised repository file meets it.) *)
  Lemma plain_mode_non_json k n b r :
    length n = nonce_len -> issued k n (b :: r) ->
    (b =? m_brace) || (b =? m_bracket) = false ->
    decrypt_file key dec zdec k (encrypt_file key enc zenc None k n (b :: r))
    = if b =? m_zstd then match zdec r with Some x => Ok x | None => Err EZstd end
      else Err EUnsupported.
  Proof.
    intros Hn Hi Hb. unfold Model.decrypt_file, Model.encrypt_file. cbn [file_payload].
    rewrite (decrypt_encrypt_data enc dec issued IA) by assumption.
    cbn [decode_file_plain]. rewrite Hb. reflexivity.
  Qed.
End Misc.

(* ---------------------------------------------------------------- nonce freshness *)
(* The hypothesis "a nonce is used for one message per key" of ideal_aead holds for the log of a
   run as soon as the (key, nonce) pairs drawn are pairwise distinct — which is what the
   correspondence observes on Key::encrypt_data. *)
Section Fresh.
  Context {key : Type}.
  Definition issued_of_log (log : list (key * bytes * bytes)) (k : key) (n m : bytes) : Prop :=
    In (k, n, m) log.

  Lemma NoDup_map_inj {A B} (f : A -> B) (l : list A) a b :
    NoDup (map f l) -> In a l -> In b l -> f a = f b -> a = b.
  Proof.
    induction l as [|x l IH]; intros ND Ha Hb E; [contradiction|].
    cbn [map] in ND. inv ND. destruct Ha as [->|Ha], Hb as [->|Hb].
    - reflexivity.
    - exfalso. apply H1. rewrite E. apply in_map. assumption.
    - exfalso. apply H1. rewrite <- E. apply in_map. assumption.
    - apply IH; assumption.
  Qed.

  Lemma distinct_nonces_fresh (log : list (key * bytes * bytes)) :
    NoDup (map (fun e => (fst (fst e), snd (fst e))) log) ->
    forall k n m m', issued_of_log log k n m -> issued_of_log log k n m' -> m = m'.
  Proof.
    intros ND k n m m' H1 H2.
    assert (E : (k, n, m) = (k, n, m')) by (eapply NoDup_map_inj; [exact ND| | |]; auto).
    congruence.
  Qed.
End Fresh.

(* ---------------------------------------------------------------- loaders *)
Section Loaders.
  Context {key : Type}.
  Variable enc : key -> bytes -> bytes -> bytes * bytes.
  Variable dec : key -> bytes -> bytes -> option bytes.
  Variable issued : key -> bytes -> bytes -> Prop.
  Variable zdec : bytes -> option bytes.
  Variable hash : bytes -> fid.
  Hypothesis IA : ideal_aead enc dec issued.

  Lemma load_all_spec (read : fid -> res bytes) ids xs :
    load_all read ids = Ok xs -> map fst xs = ids /\ forall i x, In (i, x) xs -> read i = Ok x.
  Proof.
    revert xs. induction ids as [|i r IH]; cbn [load_all]; intros xs H.
    - injection H as <-. split; [reflexivity|intros ? ? []].
    - destruct (read i) as [x|e] eqn:R; [|discriminate].
      destruct (load_all read r) as [ys|e] eqn:L; [|discriminate].
      injection H as <-. destruct (IH _ eq_refl) as [M F]. split; [cbn; congruence|].
      intros j y [E|Hin]; [injection E as <- <-; assumption|apply F; assumption].
  Qed.

  Lemma load_all_fails (read : fid -> res bytes) ids i :
    In i ids -> is_err (read i) -> is_err (load_all read ids).
  Proof.
    induction ids as [|j r IH]; [intros []|]. intros [->|Hin] E; cbn [load_all].
    - destruct E as [e ->]. eexists; reflexivity.
    - destruct (read j); [|eexists; reflexivity].
      destruct (IH Hin E) as [e ->]. eexists; reflexivity.
  Qed.

  Lemma lookup_in_listing (s : store) i d : lookup s i = Some d -> In i (map fst (listing s)).
  Proof.
    induction s as [|[j b] r IH]; cbn [lookup listing map fst]; [discriminate|].
    destruct (j =? i) eqn:E; [apply N.eqb_eq in E; left; assumption|right; apply IH; assumption].
  Qed.

  (* the complete loader: if ANY listed file of the type does not read (tampered in any way the
     by-id read detects — including truncation to zero bytes), the whole load fails *)
  Lemma complete_loader_detects v k (s : store) i d :
    lookup s i = Some d ->
    is_err (read_repo_file key dec zdec hash v false k s i) ->
    is_err (load_type key dec zdec hash true v k s).
  Proof.
    intros L E. unfold load_type. eapply load_all_fails; [|eassumption].
    eapply lookup_in_listing. eassumption.
  Qed.

  (* and what it returns on success is, file by file, what the by-id read returns *)
  Lemma complete_loader_sound v k (s : store) xs :
    load_type key dec zdec hash true v k s = Ok xs ->
    map fst xs = map fst (listing s)
    /\ forall i x, In (i, x) xs -> read_repo_file key dec zdec hash v false k s i = Ok x.
  Proof. unfold load_type. apply load_all_spec. Qed.

  (* a stored file truncated to zero bytes never reads: Key::decrypt_data refuses it *)
  Lemma empty_file_never_reads v k (s : store) i :
    lookup s i = Some [] -> is_err (read_repo_file key dec zdec hash v false k s i).
  Proof.
    intro L. unfold read_repo_file, read_encrypted_full_checked, Model.read_encrypted_full. rewrite L.
    assert (E : decrypt_file key dec zdec k [] = Err ETooShort) by reflexivity.
    destruct (v && negb false); [destruct (hash [] =? i)|]; rewrite ?E; eexists; reflexivity.
  Qed.
End Loaders.
