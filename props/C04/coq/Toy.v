(* C04 — a concrete, executable instance of the ideal primitives.  Two uses:
   (1) the hypotheses of every property theorem are satisfiable (Examples in Props.v);
   (2) the extracted model runs the framing / routing / key-management logic with these
       stand-ins, fed with the oracle values (zstd frames) observed on the real code.
   The toy "cipher" keeps lengths faithful: body = message, tag = 16 bytes (key, then zeros);
   "verification" is a lookup in the log of issued encryptions. *)
From Verif.Base Require Import Tactics.
From Verif.C04 Require Import Model Proofs.
Local Open Scope N_scope.

Definition tkey := N.
Definition tpass := N.
Definition tlog := list (tkey * bytes * bytes).      (* key, nonce, message *)

Fixpoint beq_bytes (a b : bytes) : bool :=
  match a, b with
  | [], [] => true
  | x :: a', y :: b' => (x =? y) && beq_bytes a' b'
  | _, _ => false
  end.

Definition toy_tag (k : tkey) : bytes := k :: repeat 0 15.
Definition toy_enc (k : tkey) (n m : bytes) : bytes * bytes := (m, toy_tag k).

Definition toy_match (k : tkey) (n c : bytes) (e : tkey * bytes * bytes) : bool :=
  let '(k0, n0, m0) := e in (k0 =? k) && beq_bytes n0 n && beq_bytes (m0 ++ toy_tag k) c.

Definition toy_dec (log : tlog) (k : tkey) (n c : bytes) : option bytes :=
  match find (toy_match k n c) log with
  | Some (_, _, m0) => Some m0
  | None => None
  end.

Definition toy_issued (log : tlog) (k : tkey) (n m : bytes) : Prop := In (k, n, m) log.

(* zstd stand-in: a table of (level, data, frame) observed on the real code *)
Definition ztab := list (Z * bytes * bytes).
Definition toy_zenc (t : ztab) (l : Z) (d : bytes) : bytes :=
  match find (fun '(l0, d0, _) => (l0 =? l)%Z && beq_bytes d0 d) t with
  | Some (_, _, f) => f
  | None => 1000 :: d        (* fallback: a tag no real byte string starts with; invertible *)
  end.
Definition toy_zdec (t : ztab) (f : bytes) : option bytes :=
  match find (fun '(_, _, f0) => beq_bytes f0 f) t with
  | Some (_, d, _) => Some d
  | None => match f with
            | 1000 :: d => Some d
            | _ => None
            end
  end.

Definition toy_kdf (p : tpass) (salt : bytes) : tkey := p + 1000.
Definition toy_mk_ser (k : tkey) : bytes := [m_brace; k].
Definition toy_mk_de (b : bytes) : option tkey :=
  match b with [_; k] => Some k | _ => None end.
Definition toy_hash (b : bytes) : fid := fold_left (fun a x => a * 257 + x + 1) b 0.

(* ---------------------------------------------------------------- the instance is ideal *)
Lemma beq_bytes_eq a b : beq_bytes a b = true <-> a = b.
Proof.
  revert b. induction a as [|x a IH]; intros [|y b]; cbn; split; intro H; try discriminate; try reflexivity.
  - apply andb_true_iff in H. destruct H as [H1 H2]. apply N.eqb_eq in H1. apply IH in H2. congruence.
  - injection H as -> ->. rewrite N.eqb_refl. cbn. apply IH. reflexivity.
Qed.

Lemma beq_bytes_refl a : beq_bytes a a = true.
Proof. apply beq_bytes_eq. reflexivity. Qed.

Lemma toy_ct k n m : ct toy_enc k n m = m ++ toy_tag k.
Proof. reflexivity. Qed.

Lemma toy_ct_inj k k' n n' m m' : ct toy_enc k n m = ct toy_enc k' n' m' -> k = k' /\ m = m'.
Proof.
  rewrite !toy_ct. intro E.
  assert (L : length m = length m').
  { apply (f_equal (@length _)) in E. rewrite !app_length in E. unfold toy_tag in E. cbn in E. lia. }
  destruct (app_eq_len _ _ _ _ L E) as [-> T]. unfold toy_tag in T. injection T as ->. split; reflexivity.
Qed.

Definition log_fresh (log : tlog) : Prop :=
  forall k n m m', In (k, n, m) log -> In (k, n, m') log -> m = m'.

Lemma toy_ideal log : log_fresh log -> ideal_aead toy_enc (toy_dec log) (toy_issued log).
Proof.
  intro F. constructor.
  - intros k n m. cbn. split; [reflexivity|]. unfold toy_tag. cbn. reflexivity.
  - intros k n m Hi. unfold toy_dec.
    destruct (find (toy_match k n (ct toy_enc k n m)) log) as [[[k0 n0] m0]|] eqn:E.
    + apply find_some in E. destruct E as [_ E]. unfold toy_match in E.
      apply andb_true_iff in E. destruct E as [E E3]. apply andb_true_iff in E. destruct E as [E1 E2].
      apply beq_bytes_eq in E3. rewrite toy_ct in E3. apply app_inv_tail in E3. congruence.
    + exfalso. pose proof (find_none _ _ E _ Hi) as H. unfold toy_match in H.
      rewrite N.eqb_refl, beq_bytes_refl, toy_ct, beq_bytes_refl in H. discriminate.
  - intros k n c m H. unfold toy_dec in H.
    destruct (find (toy_match k n c) log) as [[[k0 n0] m0]|] eqn:E; [|discriminate].
    injection H as ->. apply find_some in E. destruct E as [Hin E]. unfold toy_match in E.
    apply andb_true_iff in E. destruct E as [E E3]. apply andb_true_iff in E. destruct E as [E1 E2].
    apply N.eqb_eq in E1. apply beq_bytes_eq in E2. apply beq_bytes_eq in E3. subst.
    split; [exact Hin|reflexivity].
  - exact F.
Qed.

Lemma toy_ksep log k k' n m m' :
  toy_issued log k n m -> toy_issued log k' n m' -> ct toy_enc k n m = ct toy_enc k' n m' -> k = k'.
Proof. intros _ _ E. apply toy_ct_inj in E. tauto. Qed.

Lemma toy_kdf_inj p p' s : toy_kdf p s = toy_kdf p' s -> p = p'.
Proof. unfold toy_kdf. lia. Qed.

Lemma toy_mk k : toy_mk_de (toy_mk_ser k) = Some k.
Proof. reflexivity. Qed.

Lemma toy_zstd_ok : zstd_ok (toy_zenc []) (toy_zdec []).
Proof. intros l d. reflexivity. Qed.

(* a concrete log used by the Examples: two files and a config under master key 7, two key files *)
Definition ex_n1 : bytes := repeat 1 16.
Definition ex_n2 : bytes := repeat 2 16.
Definition ex_n3 : bytes := repeat 3 16.
Definition ex_d1 : bytes := [m_brace; 10; 11].
Definition ex_d2 : bytes := [m_brace; 20; 21; 22].
Definition ex_log : tlog :=
  [ (7, ex_n1, file_payload (toy_zenc []) (Some 3%Z) ex_d1);
    (7, ex_n2, file_payload (toy_zenc []) (Some 3%Z) ex_d2);
    (7, ex_n3, ex_d1);
    (toy_kdf 5 [9], ex_n1, toy_mk_ser 7);
    (toy_kdf 6 [8], ex_n2, toy_mk_ser 7) ].

Lemma ex_log_fresh : log_fresh ex_log.
Proof.
  intros k n m m' H1 H2. unfold ex_log in *. cbn [In] in H1, H2.
  repeat (destruct H1 as [H1|H1]; [injection H1 as <- <- <-|]); try contradiction;
    repeat (destruct H2 as [H2|H2]; [try (injection H2 as <-; reflexivity); try discriminate H2|]);
    try contradiction.
Qed.
