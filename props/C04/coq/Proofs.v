(* C04 — framing lemmas under an ideal AEAD: round trips, lengths, tampering. *)
From Verif.Base Require Import Tactics.
From Verif.C04 Require Import Model.
Local Open Scope N_scope.

(* ---------------------------------------------------------------- the ideal primitives *)

(* body ‖ tag, what aead::decrypt receives *)
Definition ct {key} (enc : key -> bytes -> bytes -> bytes * bytes) k n m : bytes :=
  fst (enc k n m) ++ snd (enc k n m).

(* Ideal AEAD relative to the set `issued k n m` of encryptions the key holder made
   (nonce n, message m under key k):
   - lengths: body as long as the message, 16-byte tag;
   - correctness on issued encryptions;
   - INT-CTXT: the only (nonce, ciphertext) pairs that verify are issued ones;
   - nonce freshness: a nonce is used for one message per key. *)
Record ideal_aead {key} (enc : key -> bytes -> bytes -> bytes * bytes)
       (dec : key -> bytes -> bytes -> option bytes)
       (issued : key -> bytes -> bytes -> Prop) : Prop := {
  ia_len : forall k n m, length (fst (enc k n m)) = length m /\ length (snd (enc k n m)) = tag_len;
  ia_correct : forall k n m, issued k n m -> dec k n (ct enc k n m) = Some m;
  ia_int_ctxt : forall k n c m, dec k n c = Some m -> issued k n m /\ c = ct enc k n m;
  ia_fresh : forall k n m m', issued k n m -> issued k n m' -> m = m'
}.

Definition zstd_ok (zenc : Z -> bytes -> bytes) (zdec : bytes -> option bytes) : Prop :=
  forall l d, zdec (zenc l d) = Some d.

Definition is_err {A} (r : res A) : Prop := exists e, r = Err e.

Lemma is_err_not_ok {A} (r : res A) : is_err r <-> forall x, r <> Ok x.
Proof.
  split.
  - intros [e ->] x H. discriminate.
  - intros H. destruct r as [a|e]; [exfalso; eapply H; reflexivity | eexists; reflexivity].
Qed.

(* ---------------------------------------------------------------- list helpers *)

Lemma firstn_app_exact {A} (a b : list A) n : length a = n -> firstn n (a ++ b) = a.
Proof. intros <-. rewrite firstn_app, Nat.sub_diag, firstn_all. simpl. apply app_nil_r. Qed.

Lemma skipn_app_exact {A} (a b : list A) n : length a = n -> skipn n (a ++ b) = b.
Proof. intros <-. rewrite skipn_app, Nat.sub_diag, skipn_all. reflexivity. Qed.

Lemma app_eq_len {A} (a a' b b' : list A) :
  length a = length a' -> a ++ b = a' ++ b' -> a = a' /\ b = b'.
Proof.
  revert a'. induction a as [|x a IH]; intros [|y a'] L E; simpl in *; try discriminate.
  - split; [reflexivity | assumption].
  - injection E as -> E. injection L as L. destruct (IH _ L E) as [-> ->]. split; reflexivity.
Qed.

Section Framing.
  Context {key : Type}.
  Variable enc : key -> bytes -> bytes -> bytes * bytes.
  Variable dec : key -> bytes -> bytes -> option bytes.
  Variable issued : key -> bytes -> bytes -> Prop.
  Variable zenc : Z -> bytes -> bytes.
  Variable zdec : bytes -> option bytes.
  Hypothesis IA : ideal_aead enc dec issued.
  Hypothesis ZOK : zstd_ok zenc zdec.

  Notation encrypt_data := (encrypt_data key enc).
  Notation decrypt_data := (decrypt_data key dec).
  Notation encrypt_file := (encrypt_file key enc zenc).
  Notation decrypt_file := (decrypt_file key dec zdec).
  Notation encode_blob := (encode_blob key enc zenc).
  Notation decode_blob := (decode_blob key dec zdec).

  Lemma encrypt_data_eq k n m : encrypt_data k n m = n ++ ct enc k n m.
  Proof. unfold Model.encrypt_data, ct. destruct (enc k n m). reflexivity. Qed.

  Lemma ct_length k n m : length (ct enc k n m) = (length m + tag_len)%nat.
  Proof. unfold ct. rewrite app_length. destruct (ia_len _ _ _ IA k n m) as [-> ->]. reflexivity. Qed.

  (* ciphertext length = plaintext + 32 *)
  Lemma encrypt_data_length k n m :
    length n = nonce_len -> length (encrypt_data k n m) = (length m + overhead)%nat.
  Proof.
    intro Hn. rewrite encrypt_data_eq, app_length, ct_length, Hn.
    unfold nonce_len, tag_len, overhead. lia.
  Qed.

  Lemma decrypt_encrypt_data k n m :
    length n = nonce_len -> issued k n m -> decrypt_data k (encrypt_data k n m) = Ok m.
  Proof.
    intros Hn Hi. unfold Model.decrypt_data. rewrite encrypt_data_eq.
    replace (length (n ++ ct enc k n m) <? nonce_len)%nat with false
      by (symmetry; apply Nat.ltb_ge; rewrite app_length; lia).
    rewrite firstn_app_exact, skipn_app_exact by assumption.
    rewrite (ia_correct _ _ _ IA) by assumption. reflexivity.
  Qed.

  (* whatever decrypts is, byte for byte, an issued ciphertext *)
  Lemma decrypt_data_ok_inv k t m :
    decrypt_data k t = Ok m ->
    exists n, length n = nonce_len /\ issued k n m /\ t = encrypt_data k n m.
  Proof.
    unfold Model.decrypt_data. destruct (length t <? nonce_len)%nat eqn:L; [discriminate|].
    apply Nat.ltb_ge in L.
    destruct (dec k (firstn nonce_len t) (skipn nonce_len t)) as [m'|] eqn:D; [|discriminate].
    intro H. injection H as <-.
    destruct (ia_int_ctxt _ _ _ IA _ _ _ _ D) as [Hi Hc].
    exists (firstn nonce_len t). split; [apply firstn_length_le; assumption|]. split; [assumption|].
    rewrite encrypt_data_eq, <- Hc. symmetry. apply firstn_skipn.
  Qed.

  (* the length guard of the property text: anything shorter than 32 bytes is an error *)
  Lemma decrypt_short k t : (length t < overhead)%nat -> is_err (decrypt_data k t).
  Proof.
    intro L. apply is_err_not_ok. intros m H.
    destruct (decrypt_data_ok_inv _ _ _ H) as (n & Hn & _ & ->).
    rewrite encrypt_data_length in L by assumption. unfold overhead in L. lia.
  Qed.

  (* ------------------------------------------------------------ file round trip *)
  Lemma decode_file_payload zstd data :
    (zstd = None -> json_start data = true) ->
    decode_file_plain zdec (file_payload zenc zstd data) = Ok data.
  Proof.
    intro Hj. destruct zstd as [l|]; cbn [file_payload decode_file_plain].
    - unfold m_zstd, m_brace, m_bracket. cbn. rewrite ZOK. reflexivity.
    - specialize (Hj eq_refl). destruct data as [|b r]; [discriminate|].
      cbn [json_start] in Hj. cbn [decode_file_plain]. rewrite Hj. reflexivity.
  Qed.

  Lemma file_roundtrip_lemma zstd k n data :
    length n = nonce_len -> issued k n (file_payload zenc zstd data) ->
    (zstd = None -> json_start data = true) ->
    decrypt_file k (encrypt_file zstd k n data) = Ok data
    /\ length (encrypt_file zstd k n data) = (length (file_payload zenc zstd data) + overhead)%nat.
  Proof.
    intros Hn Hi Hj. split.
    - unfold Model.decrypt_file, Model.encrypt_file. rewrite decrypt_encrypt_data by assumption.
      apply decode_file_payload. assumption.
    - apply encrypt_data_length. assumption.
  Qed.

  (* marker byte: a compressed file's plaintext starts with 2, an uncompressed one is the data *)
  Lemma file_payload_marker zstd data :
    match zstd with
    | Some l => exists r, file_payload zenc zstd data = m_zstd :: r
    | None => file_payload zenc zstd data = data
    end.
  Proof. destruct zstd; cbn; eauto. Qed.

  (* ------------------------------------------------------------ blob round trip *)
  Lemma blob_roundtrip_lemma zstd k n data c len ul :
    length n = nonce_len ->
    encode_blob zstd k n data = Ok (c, len, ul) ->
    issued k n (blob_payload zenc zstd data) ->
    (zstd = None \/ data <> []) ->
    decode_blob k c ul = Ok data /\ len = N.of_nat (length data)
    /\ length c = (length (blob_payload zenc zstd data) + overhead)%nat
    /\ (ul = match zstd with Some _ => Some len | None => None end).
  Proof.
    intros Hn He Hi Hne. unfold Model.encode_blob in He.
    destruct (4294967295 <? N.of_nat (length data)) eqn:Hbig; [discriminate|].
    injection He as <- <- <-. unfold Model.decode_blob.
    rewrite decrypt_encrypt_data by assumption.
    split; [|split; [reflexivity|split; [apply encrypt_data_length; assumption|]]].
    - destruct zstd as [l|]; cbn [blob_ulen blob_payload]; [|reflexivity].
      unfold nonzero_u32.
      destruct (N.of_nat (length data) =? 0) eqn:Z.
      + destruct Hne as [H|H]; [discriminate|]. destruct data; [contradiction|]. cbn in Z. lia.
      + rewrite ZOK. rewrite N.eqb_refl. reflexivity.
    - destruct zstd as [l|]; cbn [blob_ulen]; [|reflexivity].
      unfold nonzero_u32. destruct (N.of_nat (length data) =? 0) eqn:Z; [|reflexivity].
      destruct Hne as [H|H]; [discriminate|]. destruct data; [contradiction|]. cbn in Z. lia.
  Qed.

  (* the NonZeroU32::new(0) corner: a compressed EMPTY blob is recorded as uncompressed, so the
     read returns the zstd frame instead of the empty data.  (Unreachable from the archiver:
     the chunker never emits an empty chunk and a serialised tree is never empty.) *)
  Lemma blob_empty_corner_lemma l k n :
    length n = nonce_len -> issued k n (zenc l []) ->
    exists c, encode_blob (Some l) k n [] = Ok (c, 0, None) /\ decode_blob k c None = Ok (zenc l []).
  Proof.
    intros Hn Hi. eexists. split; [reflexivity|].
    unfold Model.decode_blob. cbn [blob_payload]. rewrite decrypt_encrypt_data by assumption. reflexivity.
  Qed.

  (* ------------------------------------------------------------ tampering *)
  (* all three decoders fail as soon as Key::decrypt_data fails *)
  Lemma decoders_fail k t :
    is_err (decrypt_data k t) ->
    is_err (decrypt_file k t) /\ (forall ul, is_err (decode_blob k t ul)).
  Proof.
    intros [e He]. unfold Model.decrypt_file, Model.decode_blob. rewrite He.
    split; [|intro ul]; eexists; reflexivity.
  Qed.

  (* core: a byte string different from the stored ciphertext either fails to decrypt or is,
     as a whole, ANOTHER issued ciphertext with a different nonce (whole-message substitution) *)
  Lemma tamper_core k n m t :
    length n = nonce_len -> issued k n m -> t <> encrypt_data k n m ->
    forall m', decrypt_data k t = Ok m' ->
    exists n', n' <> n /\ length n' = nonce_len /\ issued k n' m' /\ t = encrypt_data k n' m'.
  Proof.
    intros Hn Hi Hne m' H.
    destruct (decrypt_data_ok_inv _ _ _ H) as (n' & Hn' & Hi' & ->).
    exists n'. repeat split; try assumption.
    intros ->. apply Hne. rewrite (ia_fresh _ _ _ IA _ _ _ _ Hi Hi'). reflexivity.
  Qed.

  (* nonce-preserving tampering is always rejected *)
  Lemma tamper_same_nonce k n m t :
    length n = nonce_len -> issued k n m -> t <> encrypt_data k n m ->
    firstn nonce_len t = n -> is_err (decrypt_data k t).
  Proof.
    intros Hn Hi Hne Hf. apply is_err_not_ok. intros m' H.
    destruct (tamper_core _ _ _ _ Hn Hi Hne _ H) as (n' & Hd & Hn' & _ & ->).
    apply Hd. rewrite encrypt_data_eq, firstn_app_exact in Hf by assumption. assumption.
  Qed.

  Lemma firstn_firstn_le {A} (l : list A) a b : (a <= b)%nat -> firstn a (firstn b l) = firstn a l.
  Proof. intro H. rewrite firstn_firstn. f_equal. lia. Qed.

  (* every truncation *)
  Lemma truncation_rejected k n m j :
    length n = nonce_len -> issued k n m ->
    (j < length (encrypt_data k n m))%nat ->
    is_err (decrypt_data k (firstn j (encrypt_data k n m))).
  Proof.
    intros Hn Hi Hj.
    destruct (Nat.lt_ge_cases j nonce_len) as [Hs|Hl].
    - unfold Model.decrypt_data. rewrite firstn_length_le by lia.
      apply Nat.ltb_lt in Hs. rewrite Hs. eexists; reflexivity.
    - apply (tamper_same_nonce k n m); try assumption.
      + intro E. apply (f_equal (@length _)) in E. rewrite firstn_length_le in E by lia. lia.
      + rewrite firstn_firstn_le by assumption.
        rewrite encrypt_data_eq. apply firstn_app_exact. assumption.
  Qed.

  (* every extension *)
  Lemma extension_rejected k n m x :
    length n = nonce_len -> issued k n m -> x <> [] ->
    is_err (decrypt_data k (encrypt_data k n m ++ x)).
  Proof.
    intros Hn Hi Hx. apply (tamper_same_nonce k n m); try assumption.
    - intro E. apply Hx. rewrite <- (app_nil_r (encrypt_data k n m)) in E at 2.
      apply app_inv_head in E. assumption.
    - rewrite encrypt_data_eq, <- app_assoc. apply firstn_app_exact. assumption.
  Qed.

  (* every in-place modification outside the nonce field *)
  Lemma modification_rejected k n m t :
    length n = nonce_len -> issued k n m ->
    t <> encrypt_data k n m -> firstn nonce_len t = firstn nonce_len (encrypt_data k n m) ->
    is_err (decrypt_data k t).
  Proof.
    intros Hn Hi Hne Hf. apply (tamper_same_nonce k n m); try assumption.
    rewrite Hf, encrypt_data_eq. apply firstn_app_exact. assumption.
  Qed.

  (* a modification inside the nonce field that leaves body and tag intact: rejected when issued
     ciphertexts with different nonces differ beyond the nonce (the tag depends on the nonce) *)
  Lemma nonce_modification_rejected k n m t :
    (forall k n n' m m', issued k n m -> issued k n' m' -> ct enc k n m = ct enc k n' m' -> n = n') ->
    length n = nonce_len -> issued k n m ->
    t <> encrypt_data k n m -> skipn nonce_len t = skipn nonce_len (encrypt_data k n m) ->
    is_err (decrypt_data k t).
  Proof.
    intros Hinj Hn Hi Hne Hs. apply is_err_not_ok. intros m' H.
    destruct (tamper_core _ _ _ _ Hn Hi Hne _ H) as (n' & Hd & Hn' & Hi' & ->).
    rewrite !encrypt_data_eq, !skipn_app_exact in Hs by assumption.
    apply Hd. symmetry. apply (Hinj k n n' m m' Hi Hi'). symmetry. exact Hs.
  Qed.

  Lemma framing_tamper_rejected_lemma k n m t :
    length n = nonce_len -> issued k n m -> t <> encrypt_data k n m ->
    (* (1) the general statement *)
    (forall m', decrypt_data k t = Ok m' ->
       exists n', n' <> n /\ length n' = nonce_len /\ issued k n' m' /\ t = encrypt_data k n' m')
    (* (2) truncation to any length, extension by anything, modification outside the nonce *)
    /\ ((exists j, (j < length (encrypt_data k n m))%nat /\ t = firstn j (encrypt_data k n m))
        \/ (exists x, t = encrypt_data k n m ++ x)
        \/ firstn nonce_len t = firstn nonce_len (encrypt_data k n m) ->
        is_err (decrypt_data k t) /\ is_err (decrypt_file k t) /\ forall ul, is_err (decode_blob k t ul)).
  Proof.
    intros Hn Hi Hne. split; [intros m' Hm'; eapply tamper_core; eassumption|].
    intro H.
    assert (E : is_err (decrypt_data k t)).
    { destruct H as [(j & Hj & ->)|[(x & ->)|Hf]].
      - apply truncation_rejected; assumption.
      - apply extension_rejected; try assumption. intros ->. apply Hne. apply app_nil_r.
      - eapply modification_rejected; eassumption. }
    split; [assumption|]. apply decoders_fail. assumption.
  Qed.
End Framing.
