#!/usr/bin/env python3
"""C15 static mutation probe (no cargo): copy crates/core/src, apply a textual mutation, rerun
the extractor and recompile the Coq development against the mutated Extracted.v; print which
obligation breaks.  Usage: python3 props/C15/mutation_probe.py [repo]   (default $VERIF_REPO)"""
import os, re, shutil, subprocess, sys, tempfile
HERE = os.path.dirname(os.path.abspath(__file__))
sys.path.insert(0, os.path.join(HERE, "..", "..", "lib"))
import importlib.util
spec = importlib.util.spec_from_file_location("c15_extract", os.path.join(HERE, "extract.py"))
ext = importlib.util.module_from_spec(spec); spec.loader.exec_module(ext)
from rustscan import ExtractError

GUARD = r"if\s+[^{}]*append_only\s*==\s*Some\(true\)[^{}]*\{\s*return\s+Err\(RusticError::new\([^;]*?\)\);\s*\}"


def sub1(path, rx, repl, flags=re.S):
    def f(root):
        p = os.path.join(root, "crates/core/src", path)
        s = open(p).read()
        s2, n = re.subn(rx, repl, s, count=1, flags=flags)
        assert n == 1, "mutation did not apply: " + path
        open(p, "w").write(s2)
    return f


def move_guard_after(path, fn_rx, anchor_rx):
    def f(root):
        p = os.path.join(root, "crates/core/src", path)
        s = open(p).read()
        m = re.search(fn_rx, s); assert m
        g = re.search(GUARD, s[m.end():], re.S); assert g
        gs, ge = m.end() + g.start(), m.end() + g.end()
        guard = s[gs:ge]
        s = s[:gs] + s[ge:]
        a = re.search(anchor_rx, s[gs:], re.S); assert a
        pos = gs + a.end()
        s = s[:pos] + "\n" + guard + "\n" + s[pos:]
        open(p, "w").write(s)
    return f


MUTANTS = [
    ("prune: guard removed", sub1("commands/prune.rs", GUARD, "")),
    ("delete_snapshots: guard moved after delete_list", move_guard_after("repository.rs", r"pub fn delete_snapshots", r"delete_list\(true, ids\.iter\(\), p\)\?;")),
    ("repair_snapshots: guard only in dry-run", sub1("commands/repair/snapshots.rs", r"if opts\.delete && config_file\.append_only", "if opts.delete && dry_run && config_file.append_only")),
    ("repair_index: guard removed", sub1("commands/repair/index.rs", GUARD, "")),
    ("apply_config: guard removed", sub1("commands/config.rs", GUARD, "")),
    ("rewrite_snapshots: guard removed (callee guard of delete_snapshots then fires after save_snapshots)", sub1("commands/rewrite.rs", r"(pub\(crate\) fn rewrite_snapshots<.*?)" + GUARD, r"\1")),
    ("merge: new unguarded remove of the merged snapshots", sub1("commands/merge.rs", r"snap\.id = repo\.dbe\(\)\.save_file\(&snap\)\?\.into\(\);", "snap.id = repo.dbe().save_file(&snap)?.into();\n    for s in snapshots { repo.dbe().remove(FileType::Snapshot, &s.id, true)?; }")),
    ("new public fn with a remove outside every modelled entry", sub1("repository.rs", r"pub fn save_snapshots", "pub fn purge(&self, id: &Id) -> RusticResult<()> { self.dbe().remove(FileType::Snapshot, id, true) }\n    pub fn save_snapshots")),
    ("DryRunBackend::remove forwards unconditionally", sub1("backend/dry_run.rs", r"fn remove\(&self, tpe: FileType, id: &Id, cacheable: bool\) -> RusticResult<\(\)> \{.*?\n    \}", "fn remove(&self, tpe: FileType, id: &Id, cacheable: bool) -> RusticResult<()> {\n        self.be.remove(tpe, id, cacheable)\n    }")),
    ("DryRunBackend::write_bytes swallows when NOT dry", sub1("backend/dry_run.rs", r"(content: BytesList,\s*\) -> RusticResult<\(\)> \{\s*)if self\.dry_run", r"\1if !self.dry_run")),
    ("repair_index: dry-run arm also removes", sub1("commands/repair/index.rs", r"\(true, false\) => \{", "(true, _) => {")),
    ("repair_snapshots: delete_list also in dry-run", sub1("commands/repair/snapshots.rs", r"if dry_run \{\s*info!\(\"would have removed \{\} snapshots\.\", state\.delete\.len\(\)\);\s*\} else \{", "{")),
    ("backup: archiver gets the undecorated backend", sub1("commands/backup.rs", r"Archiver::new\(be, index", "Archiver::new(repo.dbe().clone(), index")),
    ("save_file default bypasses the wrapper's own methods", sub1("backend/decrypt.rs", r"self\.hash_write_full\(F::TYPE, &data\)", "self.hash_write_full_uncompressed(F::TYPE, &data)")),
    ("apply_config: handle config replaced only after save_config (seeded C15-1)", sub1("commands/config.rs", r"repo\.set_config\(new_config\.clone\(\)\);\s*if let Err\(err\) = save_config\(repo, new_config, (\*repo\.dbe\(\)\.key\(\))\) \{(.*?)return Err\(err\);\s*\}", r"if let Err(err) = save_config(repo, new_config.clone(), \1) {\2return Err(err);\n        }\n        repo.set_config(new_config);")),
    ("apply_config: failure branch dropped (shape before the repair)", sub1("commands/config.rs", r"if let Err\(err\) = (save_config\(repo, new_config, \*repo\.dbe\(\)\.key\(\)\)) \{.*?return Err\(err\);\s*\}", r"\1?;")),
    ("Indexer::save writes the pending file unconditionally", sub1("index/indexer.rs", r"if \(self\.file\.packs\.len\(\) \+ self\.file\.packs_to_delete\.len\(\)\) > 0 \{\s*(_ = self\.be\.save_file\(&self\.file\)\?;)\s*\}", r"\1")),
    ("TreeModifier::finalize flushes also in dry-run", sub1("blob/tree/modify.rs", r"pub fn finalize\(self\) -> RusticResult<\(\)> \{\s*if !self\.dry_run \{(.*?)\}\s*Ok\(\(\)\)", r"pub fn finalize(self) -> RusticResult<()> {\1Ok(())")),
    ("repair_index: indexer.add_with outside the dry-run test (seeded C15-2)", sub1("commands/repair/index.rs", r"if !dry_run \{\s*(?://[^\n]*\n\s*)?(indexer\.write\(\)\.unwrap\(\)\.add_with\(pack, false\)\?;)\s*\}", r"\1")),
    ("backup: stdin branch rebuilds the options from Default, dry_run dropped (seeded C15-4)", sub1("commands/backup.rs", r"let mut opts = opts\.clone\(\);\s*opts\.parent_opts\.force = true;", "let opts = BackupOptions { stdin_filename: opts.stdin_filename.clone(), stdin_command: opts.stdin_command.clone(), as_path: opts.as_path.clone(), no_scan: opts.no_scan, parent_opts: ParentOptions { force: true, ..opts.parent_opts.clone() }, ..BackupOptions::default() };")),
    ("backup: stdin branch rebuilds the options but carries dry_run over (harmless)", sub1("commands/backup.rs", r"let mut opts = opts\.clone\(\);\s*opts\.parent_opts\.force = true;", "let opts = BackupOptions { stdin_filename: opts.stdin_filename.clone(), stdin_command: opts.stdin_command.clone(), dry_run: opts.dry_run, parent_opts: ParentOptions { force: true, ..opts.parent_opts.clone() }, ..BackupOptions::default() };")),
    ("repair_hotcold: correct_missing_files called with dry_run = false", sub1("commands/repair/hotcold.rs", r"correct_missing_files\(repo, file_type, \|_\| true, dry_run\)", "correct_missing_files(repo, file_type, |_| true, false)")),
    ("TreeModifier::save_tree queues trees also in dry-run (seeded C15-5)", sub1("blob/tree/modify.rs", r"if !self\.index\.has_tree\(&new_id\) && !self\.dry_run \{", "if !self.index.has_tree(&new_id) {")),
    ("harmless: a comment and a log line in prune", sub1("commands/prune.rs", r"let be = repo\.dbe\(\);\s*let prune_time", "let be = repo.dbe(); // c15 probe\n    info!(\"pruning\");\n    let prune_time")),
]


def probe(repo):
    """[(mutant, verdict)]"""
    res = []
    for name, mut in MUTANTS:
        tmp = tempfile.mkdtemp(prefix="c15mut_")
        try:
            shutil.copytree(os.path.join(repo, "crates/core/src"), os.path.join(tmp, "crates/core/src"))
            try:
                mut(tmp)
            except AssertionError as e:
                res.append((name, "mutation no longer applies to the source: " + str(e))); continue
            try:
                txt, _ = ext.gen(tmp)
            except ExtractError as e:
                res.append((name, "extractor refuses: " + str(e)[:90])); continue
            cd = os.path.join(tmp, "coq"); os.makedirs(cd)
            for f in ("ModelBase.v", "Model.v", "Proofs.v", "Props.v"):
                shutil.copy(os.path.join(HERE, "coq", f), cd)
            open(os.path.join(cd, "Extracted.v"), "w").write(txt)
            verdict = "all obligations still hold"
            for f in ("ModelBase.v", "Extracted.v", "Model.v", "Proofs.v", "Props.v"):
                p = subprocess.run(["timeout", "300", "coqc", "-Q", cd, "Verif.C15", os.path.join(cd, f)],
                                   stdout=subprocess.PIPE, stderr=subprocess.STDOUT, text=True)
                if p.returncode != 0:
                    m = re.search(r'line (\d+)', p.stdout)
                    ln = int(m.group(1)) if m else 0
                    src = open(os.path.join(cd, f)).read().splitlines()
                    thm = "?"
                    for i in range(min(ln, len(src)) - 1, -1, -1):
                        mm = re.match(r"\s*(?:Theorem|Lemma|Example)\s+([\w']+)", src[i])
                        if mm: thm = mm.group(1); break
                    verdict = "BROKEN: %s (%s:%d)" % (thm, f, ln); break
            res.append((name, verdict))
        finally:
            shutil.rmtree(tmp, ignore_errors=True)
    return res


def main():
    repo = sys.argv[1] if len(sys.argv) > 1 else os.environ.get("VERIF_REPO", "/repo")
    for n, v in probe(repo):
        print("%-95s %s" % (n, v))


if __name__ == "__main__":
    main()
