(* prelude: zn *)
(* C15 driver.
   mode wrap: same case lines as harness/src/bin/c15.rs wrap mode; prints per call what the model
              says reaches the raw storage / is read (sorted), "-" when nothing.
   mode seq : `<mode 0|1|2> <n> { <entry idx | -1 dmg | -2 keep> <on kept handle 0|1> <fault 0..4> <nflags> { <flag> <0|1> }* }*`
              (flags not listed are unknown; mode 1 = hot/cold; fault = position of a storage fault
              inside apply_config); prints per op
              `ao=<fresh view>,c=<stored cold>,h=<kept handle|->:<ok|refused>:<allowed effect classes>` joined by " ; ". *)
let tof = function 0 -> Config | 1 -> Index | 2 -> Key | 3 -> Snapshot | _ -> Pack
let tnum = function Config -> 0 | Index -> 1 | Key -> 2 | Snapshot -> 3 | Pack -> 4
let tname = function Config -> "config" | Index -> "index" | Key -> "key" | Snapshot -> "snapshot" | Pack -> "pack"

(* hashed names are the sentinel 0; names chosen by the caller are >= 1 *)
let hsh _ = N0
let idstr i = let n = int_of_n i in if n = 0 then "H" else string_of_int n

let wrap_case line =
  let t = toks line in
  let dry = ni t = 1 in
  let n = ni t in
  let outs = ntimes n (fun () ->
    let c = match next t with
      | "wb" -> let ty = tof (ni t) in let i = ni t in CWriteBytes (ty, n_of_int i)
      | "rm" -> let ty = tof (ni t) in let i = ni t in CRemove (ty, n_of_int i)
      | "cr" -> CCreate
      | "hw" -> CHashWriteFull (tof (ni t), n_of_int 1)
      | "hu" -> CHashWriteFullUncompressed (tof (ni t), n_of_int 1)
      | "sf" -> let _ = ni t in CSaveFile (true, Snapshot, n_of_int 1)
      | "su" -> CSaveFileUncompressed (Config, n_of_int 1)
      | "sl" -> let _ = ni t in let k = ni t in CSaveList (true, Snapshot, List.init k (fun j -> n_of_int (j + 1)))
      | "dl" -> let ty = tof (ni t) in let k = ni t in CDeleteList (ty, ntimes k (fun () -> n_of_int (ni t)))
      | "sz" -> CSetZstd
      | "sv" -> CSetExtraVerify
      | "rf" -> let ty = tof (ni t) in let i = ni t in CReadFull (ty, n_of_int i)
      | "ls" -> CList (tof (ni t))
      | "rp" -> let ty = tof (ni t) in let i = ni t in CReadPartial (ty, n_of_int i)
      | x -> failwith ("unknown call " ^ x) in
    let inner = dr_call hsh hsh dry c in
    let items = List.concat_map (fun o ->
      match o with
      | IReadFull (ty, i) | IReadPartial (ty, i) -> [Printf.sprintf "r%d:%s" (tnum ty) (idstr i)]
      | IList ty -> [Printf.sprintf "l%d" (tnum ty)]
      | _ -> List.filter_map (fun r -> match r with
               | RawWrite (ty, i) -> Some (Printf.sprintf "W%d:%s" (tnum ty) (idstr i))
               | RawRemove (ty, i) -> Some (Printf.sprintf "R%d:%s" (tnum ty) (idstr i))
               | RawCreate -> None) (lower hsh o)) inner in
    let items = List.sort compare items in
    if items = [] then "-" else String.concat "," items) in
  String.concat " " outs

let entries = Array.of_list all_entries

let tstr = function None -> "*" | Some ty -> tname ty
let classes_of (s : site) =
  match s.s_kind with
  | KRemove | KDeleteList -> ["R:" ^ tstr s.s_ftype]
  | KWriteBytes -> ["A:" ^ tstr s.s_ftype]
  | KSinkPacker -> ["W:pack"; "W:index"]
  | KSinkIndexer -> ["W:index"]
  | KCreate -> []
  | _ -> ["W:" ^ tstr s.s_ftype]

let fault_of = function 1 -> FailFirst | 2 -> FailSecond | 3 -> FirstStoredButErr | 4 -> SecondStoredButErr | _ -> NoFault

(* state: append_only in the stored cold config, in the stored hot copy, in the kept handle *)
let seq_case line =
  let t = toks line in
  let mode = ni t in
  let n = ni t in
  let cold = ref false and hot = ref false and kept = ref None in
  let b2s b = if b then "1" else "0" in
  let outs = ntimes n (fun () ->
    let e = ni t in
    let on_kept = ni t = 1 in
    let fault = fault_of (ni t) in
    let nf = ni t in
    let fl = ntimes nf (fun () -> let f = ni t in let b = ni t = 1 in (f, b)) in
    let fresh = if mode = 1 then !hot else !cold in
    let views = Printf.sprintf "ao=%s,c=%s,h=%s" (b2s fresh) (b2s !cold) (match !kept with Some b -> b2s b | None -> "-") in
    if e = -1 then "dmg"
    else if e = -2 then begin kept := Some fresh; "keep" end
    else begin
      let ao = if on_kept then (match !kept with Some b -> b | None -> fresh) else fresh in
      let v3 f = List.assoc_opt (int_of_n f) fl in
      let v2 f = match v3 f with Some b -> b | None -> false in
      let (r, sites) = allowed entries.(e) ao v3 in
      let cls = List.sort_uniq compare (List.concat_map classes_of sites) in
      (match entries.(e), r with
       | EApplyConfig, Done ->
         let o = { o_entry = EApplyConfig; o_flags = v2; o_payload = [] } in
         (* the value append_only has in the new config *)
         let target = next_ao { st_ao = ao; st_names = [] } o Done in
         let s' = config_step config_set_before_save config_restricts_on_failure config_cold_before_hot fault target
                    { c_cold = !cold; c_hot = !hot; c_handle = ao } in
         cold := s'.c_cold; hot := (if mode = 1 then s'.c_hot else s'.c_cold);
         if on_kept || fault <> NoFault then kept := Some s'.c_handle
       | _ -> ());
      Printf.sprintf "%s:%s:%s" views
        (match r with Done -> "ok" | Refused -> "refused")
        (if cls = [] then "-" else String.concat "," cls)
    end) in
  String.concat " ; " outs

(* mode ix: `<n> <blobs of pack 1> .. <blobs of pack n> <finalize calls>` -> index files written *)
let ix_case line =
  let t = toks line in
  let n = ni t in
  let adds = ntimes n (fun () -> IxAdd (n_of_int (ni t), false)) in
  let k = ni t in
  string_of_int (int_of_n (ix_run indexer_save_needs_packs indexer_max_count { ix_count = N0; ix_packs = N0 }
                             (adds @ List.init k (fun _ -> IxFinalize))))

(* mode table: the static facts per entry, for the evidence *)
let table_case _ =
  String.concat " " (List.mapi (fun i e ->
    let f = entry_facts e in
    Printf.sprintf "%d:g=%d:pre=%d:post=%d:dom=%b:hc=%b:dry=%b" i
      (match f.f_guard with Some _ -> 1 | None -> 0) (List.length f.f_pre) (List.length f.f_post)
      (dominates f) (hotcold_shape f) (if has_dry e then dry_complete f else true)) all_entries)

let () =
  let mode = if Array.length Sys.argv > 2 then Sys.argv.(2) else "seq" in
  main_loop (if mode = "wrap" then wrap_case else if mode = "table" then table_case else if mode = "ix" then ix_case else seq_case)
