(* C15 — lemmas. *)
From Coq Require Import String List Bool NArith Lia.
From Verif.C15 Require Import ModelBase Extracted Model.
Import ListNotations.
Local Open Scope string_scope.
Local Open Scope list_scope.

(* ------------------------------------------------------------------ wrapper *)
Section W.
  Variable hp he : N -> id.

  Definition quiet (l : list iop) : Prop := forallb (fun o => negb (mutating o)) l = true.

  Lemma quiet_app : forall a b, quiet a -> quiet b -> quiet (a ++ b).
  Proof. unfold quiet; intros; rewrite forallb_app; now rewrite H, H0. Qed.

  Lemma quiet_flat_map : forall {A} (f : A -> list iop) l, (forall x, quiet (f x)) -> quiet (flat_map f l).
  Proof. induction l; intros; cbn; [reflexivity | apply quiet_app; auto]. Qed.

  Lemma dr_call_dry_quiet : forall c, quiet (dr_call hp he true c).
  Proof.
    destruct c; try reflexivity; try (destruct m; reflexivity); try (destruct encrypted; reflexivity).
    - unfold dr_call, d_save_list. apply quiet_flat_map. intros; destruct encrypted; reflexivity.
    - unfold dr_call, d_delete_list. apply quiet_flat_map. intros; reflexivity.
  Qed.

  Lemma dry_quiet : forall calls, quiet (flat_map (dr_call hp he true) calls).
  Proof. intros; apply quiet_flat_map, dr_call_dry_quiet. Qed.

  Lemma quiet_lower_nil : forall l, quiet l -> flat_map (lower he) l = [].
  Proof.
    induction l; intros; [reflexivity|].
    unfold quiet in H; cbn in H. apply andb_true_iff in H as [H1 H2].
    cbn. rewrite (IHl H2). destruct a; cbn in *; try discriminate; reflexivity.
  Qed.

  Lemma flat_map_nil_all : forall {A B} (f : A -> list B) l, (forall x, f x = []) -> flat_map f l = [].
  Proof. induction l; intros; cbn; [reflexivity | now rewrite H, IHl]. Qed.

  Lemma dr_call_off : forall c, dr_call hp he false c = plain_call hp he c.
  Proof.
    destruct c; try reflexivity; try (destruct m; reflexivity); try (destruct encrypted; reflexivity).
    all: try (unfold dr_call, plain_call, d_save_list; apply flat_map_ext; intros; destruct encrypted; reflexivity).
    all: unfold dr_call, plain_call, d_delete_list; induction ids; cbn; [reflexivity | now rewrite IHids].
  Qed.
End W.

Lemma dry_run_no_effect_lemma : forall (hp he : N -> id) calls,
  forallb (fun o => negb (mutating o)) (flat_map (dr_call hp he true) calls) = true /\
  flat_map (lower he) (flat_map (dr_call hp he true) calls) = [].
Proof. intros; split; [apply dry_quiet | apply quiet_lower_nil, dry_quiet]. Qed.

Lemma dry_run_off_transparent_lemma : forall (hp he : N -> id) calls,
  flat_map (dr_call hp he false) calls = flat_map (plain_call hp he) calls.
Proof. intros; apply flat_map_ext; intros; apply dr_call_off. Qed.

Lemma defaults_as_in_source_lemma : forall d, default_route d = model_route d.
Proof. destruct d; reflexivity. Qed.

Lemma mutating_methods_swallowed_lemma :
  map dr_shape [MWriteBytes; MRemove; MCreate; MHashWriteFull; MSetZstd; MSetExtraVerify]
  = [SwallowIfDry; SwallowIfDry; SwallowIfDry; SwallowIfDry; SwallowIfDry; SwallowIfDry].
Proof. reflexivity. Qed.

(* ------------------------------------------------------------------ command layer *)

Definition harmless (e : effect) : Prop := forall names, destroys names e = false.

Lemma cond_mem_In : forall c l, cond_mem c l = true -> In c l.
Proof.
  unfold cond_mem; intros c l H. apply existsb_exists in H as [x [Hx He]].
  unfold cond_eqb in He. apply andb_true_iff in He as [H1 H2].
  apply N.eqb_eq in H1. apply Bool.eqb_prop in H2.
  destruct c, x; cbn in *; subst; assumption.
Qed.

Lemma root_covers_conds : forall v g s,
  root_covers g s = true -> conds_hold v s = true -> forallb (holds v) g = true.
Proof.
  unfold root_covers, conds_hold; intros v g s Hc Hs.
  rewrite forallb_forall in *. intros c Hin.
  apply Hs. apply cond_mem_In. apply Hc; assumption.
Qed.

Lemma effect_of_harmless : forall s x, site_capable s = false -> harmless (effect_of s x).
Proof.
  unfold harmless, site_capable, effect_of; intros s x H names.
  destruct (s_kind s); cbn; try reflexivity; rewrite H; reflexivity.
Qed.

(* sites that are neither capable nor self-guarded whenever they run *)
Definition benign (ao : bool) (v : valuation) (s : site) : Prop :=
  conds_hold v s = true -> site_capable s = false /\ (s_guarded s && ao = false).

Lemma sites_run_benign : forall ao v ss pl,
  (forall s, In s ss -> benign ao v s) ->
  exists effs, sites_run ao v ss pl = (Done, effs) /\ Forall harmless effs.
Proof.
  induction ss as [|s r IH]; intros pl Hb; cbn.
  - exists []; split; [reflexivity | constructor].
  - destruct (IH (tl pl)) as [e' [He' Hh']]; [intros; apply Hb; now right|].
    unfold site_run. destruct (conds_hold v s) eqn:Hc.
    + destruct (Hb s (or_introl eq_refl) Hc) as [Hcap Hg]. rewrite Hg, He'.
      eexists; split; [reflexivity|]. apply Forall_app; split; [|assumption].
      apply Forall_forall; intros e Hin. apply in_map_iff in Hin as [x [<- _]].
      now apply effect_of_harmless.
    + rewrite He'. eexists; split; [reflexivity|]. assumption.
Qed.

Lemma run_entry_dominated : forall f ao v pl r effs,
  dominates f = true -> ao = true ->
  run_entry f ao v pl = (r, effs) ->
  (r = Refused /\ effs = []) \/ (r = Done /\ Forall harmless effs).
Proof.
  intros f ao v pl r effs Hd Hao Hrun. subst ao. unfold run_entry, dominates in *.
  destruct (f_guard f) as [g|] eqn:Hg.
  - apply andb_true_iff in Hd as [Hpre Hpost]. destruct (f_pre f); [|discriminate]. cbn in Hrun.
    unfold guard_fires in Hrun. cbn in Hrun.
    destruct (forallb (holds v) g) eqn:Hf.
    + inversion Hrun; left; split; reflexivity.
    + destruct (sites_run_benign true v (f_post f) pl) as [e [He Hh]].
      * intros s Hin Hc. rewrite forallb_forall in Hpost. specialize (Hpost s Hin).
        apply orb_true_iff in Hpost as [Hp|Hp].
        -- apply andb_true_iff in Hp as [H1 H2]. apply negb_true_iff in H1, H2. rewrite H2. auto.
        -- rewrite (root_covers_conds v g s Hp Hc) in Hf. discriminate.
      * rewrite He in Hrun. inversion Hrun; subst. right; split; [reflexivity|assumption].
  - apply andb_true_iff in Hd as [Hpre Hpost]. destruct (f_pre f); [|discriminate]. cbn in Hrun.
    destruct (sites_run_benign true v (f_post f) pl) as [e [He Hh]].
    + intros s Hin Hc. rewrite forallb_forall in Hpost. specialize (Hpost s Hin).
      apply andb_true_iff in Hpost as [H1 H2]. apply negb_true_iff in H1, H2. rewrite H2. auto.
    + rewrite He in Hrun. inversion Hrun; subst. right; split; [reflexivity|assumption].
Qed.

(* a run of sites refuses only when a self-guarded site runs under append-only *)
Lemma sites_run_no_refuse : forall ao v ss pl,
  (forall s, In s ss -> conds_hold v s = true -> s_guarded s && ao = false) ->
  fst (sites_run ao v ss pl) = Done.
Proof.
  induction ss as [|s r IH]; intros pl H; cbn; [reflexivity|].
  specialize (IH (tl pl) (fun s' Hin => H s' (or_intror Hin))).
  unfold site_run. destruct (conds_hold v s) eqn:Hc.
  - rewrite (H s (or_introl eq_refl) Hc). destruct (sites_run ao v r (tl pl)); cbn in *; assumption.
  - destruct (sites_run ao v r (tl pl)); cbn in *; assumption.
Qed.

Lemma guarded_sites_covered : forall f g ao v s,
  dominates f = true -> f_guard f = Some g -> guard_fires ao v g = false ->
  In s (f_post f) -> conds_hold v s = true -> s_guarded s && ao = false.
Proof.
  intros f g ao v s Hd Hg Hf Hin Hc. unfold dominates in Hd. rewrite Hg in Hd.
  apply andb_true_iff in Hd as [_ Hpost]. rewrite forallb_forall in Hpost. specialize (Hpost s Hin).
  apply orb_true_iff in Hpost as [Hp|Hp].
  - apply andb_true_iff in Hp as [_ H2]. apply negb_true_iff in H2. now rewrite H2.
  - unfold guard_fires in Hf. rewrite (root_covers_conds v g s Hp Hc), andb_true_r in Hf.
    subst. apply andb_false_r.
Qed.

(* refusal is exactly the entry's own guard, and it comes before any effect *)
Lemma run_entry_refusal : forall f ao v pl r effs,
  dominates f = true -> run_entry f ao v pl = (r, effs) ->
  (r = Refused <-> exists g, f_guard f = Some g /\ guard_fires ao v g = true) /\
  (r = Refused -> effs = []).
Proof.
  intros f ao v pl r effs Hd Hrun. pose proof Hd as Hd'. unfold run_entry, dominates in Hrun, Hd.
  destruct (f_guard f) as [g|] eqn:Hg.
  - apply andb_true_iff in Hd as [Hpre Hpost]. destruct (f_pre f); [|discriminate]. cbn in Hrun.
    destruct (guard_fires ao v g) eqn:Hf.
    + inversion Hrun; subst. split; [split; [intros _; exists g; auto | auto] | auto].
    + pose proof (sites_run_no_refuse ao v (f_post f) pl
          (fun s Hin Hc => guarded_sites_covered f g ao v s Hd' Hg Hf Hin Hc)) as Hdone.
      destruct (sites_run ao v (f_post f) pl) as [r2 e2]; cbn in *. inversion Hrun; subst.
      split; [split; [discriminate | intros [g' [Heq Hf']]; inversion Heq; subst; congruence] | discriminate].
  - apply andb_true_iff in Hd as [Hpre Hpost]. destruct (f_pre f); [|discriminate]. cbn in Hrun.
    assert (Hdone : fst (sites_run ao v (f_post f) pl) = Done).
    { apply sites_run_no_refuse. intros s Hin _. rewrite forallb_forall in Hpost. specialize (Hpost s Hin).
      apply andb_true_iff in Hpost as [_ H2]. apply negb_true_iff in H2. now rewrite H2. }
    destruct (sites_run ao v (f_post f) pl) as [r2 e2]; cbn in *. inversion Hrun; subst.
    split; [split; [discriminate | intros [g [H _]]; discriminate] | discriminate].
Qed.

(* the two hot/cold repair entries: copies of files; harmless when the names are missing in the
   part they are written to *)
Definition fresh_payload (names : list id) (pl : list (list (bool * id))) : Prop :=
  forall (l : list (bool * id)) (x : bool * id), In l pl -> In x l -> existsb (N.eqb (snd x)) names = false.

Lemma sites_run_hotcold : forall (names : list id) ao v ss (pl : list (list (bool * id))),
  forallb (fun s => negb (s_guarded s) &&
            match s_kind s with KWriteBytes => true | _ => negb (site_capable s) end) ss = true ->
  (forall (l : list (bool * id)) (x : bool * id), In l pl -> In x l -> existsb (N.eqb (snd x)) names = false) ->
  exists effs, sites_run ao v ss pl = (Done, effs) /\ Forall (fun e => destroys names e = false) effs.
Proof.
  induction ss as [|s r IH]; intros pl Hs Hf; cbn [sites_run].
  - exists []; split; [reflexivity|constructor].
  - cbn [forallb] in Hs. apply andb_true_iff in Hs as [Hs Hr]. apply andb_true_iff in Hs as [Hg Hk].
    apply negb_true_iff in Hg.
    destruct (IH (tl pl) Hr) as [e' [He' Hh']].
    { intros l x Hl Hx. apply (Hf l x); [|assumption]. destruct pl; [destruct Hl | now right]. }
    unfold site_run. rewrite Hg. cbn [andb].
    destruct (conds_hold v s); cbv beta iota; rewrite He'; eexists; (split; [reflexivity|]); [|assumption].
    apply Forall_app; split; [|assumption].
    apply Forall_forall; intros e Hin. apply in_map_iff in Hin as [x [<- Hx]].
    assert (Hfx : existsb (N.eqb (snd x)) names = false).
    { destruct pl as [|l pl']; [destruct Hx|]. apply (Hf l x); [now left | assumption]. }
    unfold effect_of. destruct (s_kind s) eqn:Hkind; cbn;
      try reflexivity; try (unfold site_capable in Hk; rewrite Hkind in Hk; apply negb_true_iff in Hk; rewrite Hk; reflexivity).
    rewrite Hfx. apply andb_false_r.
Qed.

Lemma run_entry_hotcold : forall f names ao v pl r effs,
  hotcold_shape f = true -> fresh_payload names pl ->
  run_entry f ao v pl = (r, effs) ->
  r = Done /\ Forall (fun e => destroys names e = false) effs.
Proof.
  intros f names ao v pl r effs Hs Hf Hrun. unfold hotcold_shape, run_entry in *.
  destruct (f_guard f); [discriminate|]. destruct (f_pre f); [|discriminate]. cbn in Hrun.
  destruct (sites_run_hotcold names ao v (f_post f) pl Hs Hf) as [e [He Hh]].
  rewrite He in Hrun. inversion Hrun; subst. split; [reflexivity|assumption].
Qed.

Lemma all_dominated : forall e, is_hotcold e = false -> dominates (entry_facts e) = true.
Proof. destruct e; intros H; try discriminate; vm_compute; reflexivity. Qed.

Lemma hotcold_shaped : forall e, is_hotcold e = true -> hotcold_shape (entry_facts e) = true.
Proof. destruct e; intros H; try discriminate; vm_compute; reflexivity. Qed.

Lemma run_In : forall ops st st0 o r effs,
  In (st0, o, r, effs) (run st ops) ->
  run_entry (entry_facts (o_entry o)) (st_ao st0) (o_flags o) (o_payload o) = (r, effs).
Proof.
  induction ops as [|o' ops IH]; intros st st0 o r effs Hin; [destruct Hin|].
  cbn in Hin. unfold run_op in Hin.
  destruct (run_entry (entry_facts (o_entry o')) (st_ao st) (o_flags o') (o_payload o')) as [r' e'] eqn:Hr.
  destruct Hin as [Heq|Hin].
  - inversion Heq; subst. assumption.
  - eapply IH; eassumption.
Qed.

Definition hotcold_missing_only (st : state) (o : op) : Prop :=
  is_hotcold (o_entry o) = true -> fresh_payload (st_names st) (o_payload o).

Lemma append_only_no_destruction_lemma : forall st ops st0 o r effs,
  In (st0, o, r, effs) (run st ops) -> st_ao st0 = true -> hotcold_missing_only st0 o ->
  (r = Refused /\ effs = []) \/
  (r = Done /\ Forall (fun e => destroys (st_names st0) e = false) effs).
Proof.
  intros st ops st0 o r effs Hin Hao Hhc. apply run_In in Hin.
  destruct (is_hotcold (o_entry o)) eqn:Hh.
  - right. eapply (run_entry_hotcold (entry_facts (o_entry o))); [apply hotcold_shaped; assumption | apply Hhc; assumption | eassumption].
  - destruct (run_entry_dominated _ _ _ _ _ _ (all_dominated _ Hh) Hao Hin) as [H|[H1 H2]]; [left; assumption|].
    right; split; [assumption|]. eapply Forall_impl; [|eassumption]. intros a Ha; apply Ha.
Qed.

Lemma refused_before_any_effect_lemma : forall st ops st0 o effs,
  In (st0, o, Refused, effs) (run st ops) -> effs = [].
Proof.
  intros st ops st0 o effs Hin. apply run_In in Hin.
  destruct (is_hotcold (o_entry o)) eqn:Hh.
  - exfalso. pose proof (hotcold_shaped _ Hh) as Hs.
    destruct (run_entry_hotcold _ [] _ _ _ _ _ Hs (fun l x _ _ => eq_refl) Hin) as [H _]. discriminate.
  - destruct (run_entry_refusal _ _ _ _ _ _ (all_dominated _ Hh) Hin) as [_ H]. auto.
Qed.

(* without the flag nothing is refused; with it, refusal is exactly the guard *)
Lemma refusal_iff_guard_lemma : forall e ao v pl,
  is_hotcold e = false ->
  fst (run_entry (entry_facts e) ao v pl) = Refused <->
  (exists g, f_guard (entry_facts e) = Some g /\ guard_fires ao v g = true).
Proof.
  intros e ao v pl Hh. destruct (run_entry (entry_facts e) ao v pl) as [r effs] eqn:Hr.
  destruct (run_entry_refusal _ _ _ _ _ _ (all_dominated e Hh) Hr) as [H _]. exact H.
Qed.

(* ------------------------------------------------------------------ dry-run at command level *)
Lemma dry_site_silent : forall v s, v F_dry_run = true -> cond_mem dry_cond (s_conds s) = true ->
  conds_hold v s = false.
Proof.
  intros v s Hv Hm. apply cond_mem_In in Hm. unfold conds_hold.
  apply not_true_is_false. intros H. rewrite forallb_forall in H. specialize (H _ Hm).
  unfold holds, dry_cond in H. cbn in H. rewrite Hv in H. discriminate.
Qed.

Lemma sites_run_dry : forall ao v ss pl, v F_dry_run = true ->
  forallb (fun s => cond_mem dry_cond (s_conds s)) ss = true ->
  sites_run ao v ss pl = (Done, []).
Proof.
  induction ss as [|s r IH]; intros pl Hv Hs; cbn [sites_run]; [reflexivity|].
  cbn [forallb] in Hs. apply andb_true_iff in Hs as [H1 H2].
  unfold site_run. rewrite (dry_site_silent v s Hv H1). cbv beta iota. rewrite (IH (tl pl) Hv H2). reflexivity.
Qed.

Lemma run_entry_dry : forall f ao v pl, dry_complete f = true -> v F_dry_run = true ->
  snd (run_entry f ao v pl) = [].
Proof.
  intros f ao v pl Hd Hv. unfold dry_complete in Hd. rewrite forallb_app in Hd.
  apply andb_true_iff in Hd as [H1 H2]. unfold run_entry.
  rewrite (sites_run_dry ao v (f_pre f) pl Hv H1).
  destruct (match f_guard f with Some g => guard_fires ao v g | None => false end); [reflexivity|].
  rewrite (sites_run_dry ao v (f_post f) _ Hv H2). reflexivity.
Qed.

Lemma all_dry_complete : forall e, has_dry e = true -> dry_complete (entry_facts e) = true.
Proof. destruct e; intros H; try discriminate; vm_compute; reflexivity. Qed.

Lemma dry_run_commands_no_effect_lemma : forall e ao v pl,
  has_dry e = true -> v F_dry_run = true ->
  snd (run_entry (entry_facts e) ao v pl) = [].
Proof. intros; apply run_entry_dry; [apply all_dry_complete|]; assumption. Qed.

Lemma guards_as_documented_lemma :
  f_guard (entry_facts EForget) = Some [] /\
  f_guard (entry_facts EPrune) = Some [] /\
  f_guard (entry_facts ERepairIndex) = Some [] /\
  (exists f, f_guard (entry_facts ERepairSnapshots) = Some [(f, true)]) /\
  (exists f, f_guard (entry_facts ERewrite) = Some [(f, true)] /\
             f_guard (entry_facts ERewriteTrees) = Some [(f, true)]) /\
  f_guard (entry_facts EApplyConfig) = Some [(F_set_append_only_is_false, false)].
Proof. repeat split; try reflexivity; eexists; try split; reflexivity. Qed.

(* ------------------------------------------------------------------ checks of the extracted table *)
Lemma guard_dominates_forget_lemma : dominates (entry_facts EForget) = true.
Proof. vm_compute; reflexivity. Qed.

Lemma guard_dominates_prune_lemma : dominates (entry_facts EPrune) = true.
Proof. vm_compute; reflexivity. Qed.

Lemma guard_dominates_repair_index_lemma : dominates (entry_facts ERepairIndex) = true.
Proof. vm_compute; reflexivity. Qed.

Lemma guard_dominates_repair_snapshots_lemma : dominates (entry_facts ERepairSnapshots) = true.
Proof. vm_compute; reflexivity. Qed.

Lemma guard_dominates_rewrite_lemma : dominates (entry_facts ERewrite) = true.
Proof. vm_compute; reflexivity. Qed.

Lemma guard_dominates_rewrite_trees_lemma : dominates (entry_facts ERewriteTrees) = true.
Proof. vm_compute; reflexivity. Qed.

Lemma guard_dominates_apply_config_lemma : dominates (entry_facts EApplyConfig) = true.
Proof. vm_compute; reflexivity. Qed.

Lemma guard_dominates_unguarded_entries_lemma :
  forallb (fun e => dominates (entry_facts e))
    [EBackup; EDeleteKey; EAddKey; ECopyInto; EMerge; ESaveSnapshots; EInitHot] = true.
Proof. vm_compute; reflexivity. Qed.

Lemma hotcold_entries_only_copy_lemma :
  hotcold_shape (entry_facts ERepairHotcold) = true /\ hotcold_shape (entry_facts ERepairHotcoldPacks) = true.
Proof. split; vm_compute; reflexivity. Qed.

Lemma inventory_closed_lemma : inventory_closed_b = true.
Proof. vm_compute; reflexivity. Qed.

(* ------------------------------------------------------------------ stored vs. handle configuration *)
Definition cstep := config_step config_set_before_save config_restricts_on_failure config_cold_before_hot.

(* every fault, both directions: the invariant `stored append-only => handle append-only` is kept *)
Lemma handle_never_less_restrictive_lemma : forall f new_ao s,
  handle_covers_store s -> handle_covers_store (cstep f new_ao s).
Proof.
  unfold handle_covers_store, cstep. intros f new_ao [c h m] H.
  destruct f, new_ao, c, h, m; vm_compute in *; auto.
Qed.

Lemma failed_enable_handle_tracks_store_lemma : forall f s,
  let s' := cstep f true s in c_cold s' = true -> c_handle s' = true.
Proof. intros f s; destruct f, s as [c h m]; destruct c, h, m; vm_compute; auto. Qed.

Lemma stored_append_only_still_refused_lemma : forall f new_ao s e v pl g,
  handle_covers_store s ->
  let s' := cstep f new_ao s in
  c_cold s' = true -> is_hotcold e = false ->
  f_guard (entry_facts e) = Some g -> forallb (holds v) g = true ->
  run_entry (entry_facts e) (c_handle s') v pl = (Refused, []).
Proof.
  intros f new_ao s e v pl g Hs s' Hc Hh Hg Hv. subst s'.
  rewrite (handle_never_less_restrictive_lemma f new_ao s Hs Hc).
  destruct (run_entry (entry_facts e) true v pl) as [r effs] eqn:Hr.
  destruct (run_entry_refusal _ _ _ _ _ _ (all_dominated e Hh) Hr) as [[_ H1] H2].
  assert (r = Refused) by (apply H1; exists g; split; [assumption | unfold guard_fires; now rewrite Hv]).
  subst. now rewrite (H2 eq_refl).
Qed.

(* the shape before the repair (set_config first, a failed save leaves the handle as it is) does
   not keep the invariant: disabling append-only, first write fails *)
Lemma old_shape_unlocks_handle_refuted_lemma :
  exists f s, c_handle s = c_cold s /\ c_hot s = c_cold s /\
    let s' := config_step true false config_cold_before_hot f false s in
    c_cold s' = true /\ c_handle s' = false.
Proof. exists FailFirst, (mk_cfg true true true). vm_compute; auto. Qed.

(* the invariant needs its premise: a handle opened from a stale hot copy is not covered *)
Example ex_config_step :
  cstep FailSecond true (mk_cfg false false false) = mk_cfg true false true /\
  cstep FailFirst false (mk_cfg true true true) = mk_cfg true true true /\
  cstep NoFault false (mk_cfg true true true) = mk_cfg false false false /\
  cstep SecondStoredButErr false (mk_cfg true true true) = mk_cfg false false true.
Proof. repeat split; reflexivity. Qed.

(* ------------------------------------------------------------------ the Indexer *)
Lemma ix_run_only_finalize : forall maxc evs,
  forallb is_finalize evs = true ->
  ix_run indexer_save_needs_packs maxc (mk_ix 0 0) evs = 0%N.
Proof.
  induction evs as [|e r IH]; intros H; [reflexivity|].
  cbn [forallb] in H. apply andb_true_iff in H as [He Hr].
  destruct e; [discriminate|]. cbn [ix_run ix_step]. rewrite (IH Hr). reflexivity.
Qed.

Lemma indexer_silent_without_add_lemma : forall evs,
  forallb is_finalize evs = true ->
  ix_run indexer_save_needs_packs indexer_max_count (mk_ix 0 0) evs = 0%N.
Proof. intros; now apply ix_run_only_finalize. Qed.

Lemma ix_events_dry : forall v ss pl, v F_dry_run = true ->
  forallb (fun s => cond_mem dry_cond (s_conds s)) ss = true -> ix_events v ss pl = [].
Proof.
  induction ss as [|s r IH]; intros pl Hv Hs; [reflexivity|].
  cbn [forallb] in Hs. apply andb_true_iff in Hs as [H1 H2].
  cbn [ix_events]. rewrite (dry_site_silent v s Hv H1), andb_false_r, (IH (tl pl) Hv H2). reflexivity.
Qed.

Lemma forallb_repeat_finalize : forall k, forallb is_finalize (repeat IxFinalize k) = true.
Proof. induction k; [reflexivity | cbn; assumption]. Qed.

Lemma dry_run_indexer_silent_lemma : forall e v pl k,
  has_dry e = true -> v F_dry_run = true ->
  ix_run indexer_save_needs_packs indexer_max_count (mk_ix 0 0)
    (ix_events v (f_pre (entry_facts e) ++ f_post (entry_facts e)) pl ++ repeat IxFinalize k) = 0%N.
Proof.
  intros e v pl k Hd Hv. pose proof (all_dry_complete e Hd) as Hc. unfold dry_complete in Hc.
  rewrite (ix_events_dry v _ pl Hv Hc). cbn [app].
  apply indexer_silent_without_add_lemma, forallb_repeat_finalize.
Qed.

(* the self-save of add_with: 60 000 blobs in packs of 7 000 -> one file when the count reaches
   MAX_COUNT, one at finalize; a second finalize re-saves the pending file; no add, no file *)
Example ex_indexer :
  indexer_max_count = 50000%N -> indexer_save_needs_packs = true ->
  ix_run indexer_save_needs_packs indexer_max_count (mk_ix 0 0)
    (map (fun b => IxAdd b false) [7000; 7000; 7000; 7000; 7000; 7000; 7000; 7000; 4000]%N ++ [IxFinalize]) = 2%N /\
  ix_run indexer_save_needs_packs indexer_max_count (mk_ix 0 0) [IxAdd 60000 false; IxFinalize] = 1%N /\
  ix_run indexer_save_needs_packs indexer_max_count (mk_ix 0 0) [IxAdd 5 true; IxAdd 5 false; IxFinalize; IxFinalize] = 3%N /\
  ix_run false 50000 (mk_ix 0 0) [IxFinalize] = 1%N.
Proof. intros -> ->. repeat split; vm_compute; reflexivity. Qed.

(* ------------------------------------------------------------------ the dry-run flag on its way *)
Lemma dry_flag_flows_unchanged_lemma : forallb snd dry_flag_flow = true.
Proof. vm_compute; reflexivity. Qed.

Lemma tree_modifier_writes_dry_guarded_lemma : tree_modifier_dry_guarded = true.
Proof. reflexivity. Qed.

(* ------------------------------------------------------------------ examples (non-vacuity) *)
Definition ex_hash (d : N) : id := (1000 + d)%N.

(* without dry_run the same calls do reach the inner backend and the storage *)
Example ex_wrapper_live :
  flat_map (dr_call ex_hash ex_hash false) [CSaveFile true Snapshot 1; CDeleteList Pack [1; 2]; CWriteBytes Index 7]%N
  = [IHashWrite Snapshot 1; IRemove Pack 1; IRemove Pack 2; IWrite Index 7]%N /\
  flat_map (lower ex_hash) (flat_map (dr_call ex_hash ex_hash false) [CSaveFile true Snapshot 1; CDeleteList Pack [1; 2]]%N)
  = [RawWrite Snapshot 1001; RawRemove Pack 1; RawRemove Pack 2]%N /\
  flat_map (dr_call ex_hash ex_hash true) [CSaveFile true Snapshot 1; CDeleteList Pack [1; 2]; CWriteBytes Index 7; CReadFull Index 7]%N
  = [IReadFull Index 7]%N.
Proof. repeat split; reflexivity. Qed.

Definition ex_flags (l : list (flag * bool)) : valuation :=
  fun f => match find (fun p => N.eqb (fst p) f) l with Some p => snd p | None => false end.
Definition ex_st (ao : bool) := mk_state ao [5; 6; 7]%N.

(* forget: refused with no effect under append-only; removes the snapshot otherwise *)
Example ex_forget :
  run (ex_st true) [mk_op EForget (ex_flags []) [[(false, 5%N)]]]
    = [(ex_st true, mk_op EForget (ex_flags []) [[(false, 5%N)]], Refused, [])] /\
  (let '(r, effs, st') := run_op (ex_st false) (mk_op EForget (ex_flags []) [[(false, 5%N)]]) in
   r = Done /\ effs = [Remove None 5%N] /\ existsb (destroys [5; 6; 7]%N) effs = true /\ st_names st' = [6; 7]%N).
Proof. split; vm_compute; repeat split; reflexivity. Qed.

Definition ex_live : valuation := fun f => negb (N.eqb f F_dry_run).     (* every flag but dry_run *)
Definition ex_dry : valuation := fun _ => true.
Definition is_hashed_write (e : effect) : bool := match e with WriteHashed _ _ => true | _ => false end.

(* backup under append-only completes and only adds content-addressed files; its dry run adds nothing *)
Example ex_backup :
  (let '(r, effs, _) := run_op (ex_st true) (mk_op EBackup ex_live [[(false, 11); (true, 12)]; [(false, 13)]]%N) in
   r = Done /\ forallb is_hashed_write effs = true /\ In (WriteHashed (Some Pack) 11%N) effs) /\
  (let '(r, effs, _) := run_op (ex_st true) (mk_op EBackup ex_dry [[(false, 11); (true, 12)]; [(false, 13)]]%N) in
   r = Done /\ effs = []).
Proof. split; vm_compute; repeat split; auto. Qed.

(* apply_config: refused unless it switches append-only off - the one allowed way out; after it
   the same forget goes through *)
Example ex_config_way_out :
  map (fun x => (st_ao (fst (fst (fst x))), snd (fst x),
                 forallb (fun e => match e with WriteHashed (Some Config) _ | Remove None _ => true | _ => false end) (snd x)))
      (run (ex_st true)
         [mk_op EApplyConfig (ex_flags []) [[(false, 0%N)]];
          mk_op EApplyConfig (ex_flags [(F_set_append_only_is_false, true)]) [[(false, 0%N)]];
          mk_op EForget (ex_flags []) [[(false, 5%N)]]])
  = [(true, Refused, true); (true, Done, true); (false, Done, true)] /\
  snd (last (run (ex_st true)
         [mk_op EApplyConfig (ex_flags [(F_set_append_only_is_false, true)]) [[(false, 0%N)]];
          mk_op EForget (ex_flags []) [[(false, 5%N)]]]) (ex_st true, mk_op EForget (ex_flags []) [], Done, []))
  = [Remove None 5%N].
Proof. split; vm_compute; reflexivity. Qed.

(* the premise of the hot/cold repair entries is needed: copying over an existing name destroys *)
Example ex_hotcold_premise_needed :
  let v := ex_flags [(18%N, true)] in
  existsb (destroys [5; 6; 7]%N)
    (snd (run_entry (mk_efacts None [] [mk_site KWriteBytes None [] false]) true v [[(false, 5%N)]])) = true /\
  existsb (destroys [5; 6; 7]%N)
    (snd (run_entry (mk_efacts None [] [mk_site KWriteBytes None [] false]) true v [[(false, 9%N)]])) = false.
Proof. split; vm_compute; reflexivity. Qed.

(* a table with the guard after the first storage call, or with an unguarded remove, is rejected *)
Example ex_dominates_rejects :
  dominates (mk_efacts (Some []) [mk_site KDeleteList None [] false] []) = false /\
  dominates (mk_efacts None [] [mk_site KDeleteList None [] false]) = false /\
  dominates (mk_efacts (Some [(14%N, true)]) [] [mk_site KDeleteList None [] false]) = false /\
  dominates (mk_efacts (Some [(14%N, true)]) [] [mk_site KDeleteList None [(14%N, true)] false]) = true /\
  dominates (mk_efacts None [] [mk_site KRemove (Some Key) [] false]) = true.
Proof. repeat split; reflexivity. Qed.
