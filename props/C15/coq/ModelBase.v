(* C15 — types shared by the generated Extracted.v and the model. *)
From Coq Require Import String List Bool NArith.
Import ListNotations.

Inductive ftype := Config | Index | Key | Snapshot | Pack.
Definition id := N.

(* ---- DryRunBackend (backend/dry_run.rs) *)
(* every trait method DryRunBackend may implement *)
Inductive dmethod :=
  | MDecrypt | MReadEncryptedFull | MLocation | MListWithSize | MReadFull | MReadPartial
  | MWarmupPath | MNeedsWarmUp | MKey | MHashWriteFull | MProcessData | MSetZstd
  | MSetExtraVerify | MCreate | MWriteBytes | MRemove.
(* shape of a method body *)
Inductive shape :=
  | Forward            (* self.be.m(args) *)
  | SwallowIfDry       (* if self.dry_run { Ok(..) } else { self.be.m(args) } *)
  | ReadOnlyDerived    (* built from own non-mutating methods *)
  | NotImplemented.    (* not overridden: the trait default applies *)
(* trait-default methods of DecryptWriteBackend (backend/decrypt.rs) that DryRunBackend inherits *)
Inductive ddefault :=
  | DHashWriteFullUncompressed | DSaveFile | DSaveFileUncompressed | DSaveList | DDeleteList.
Inductive route := RM (m : dmethod) | RD (d : ddefault).

(* ---- call-site inventory *)
Inductive skind :=
  | KWriteBytes            (* .write_bytes(tpe, id, ..) with a name chosen by the caller *)
  | KWriteBytesHashed      (* .write_bytes(tpe, &id, ..) where `let id = hash(data)` in the same fn *)
  | KRemove | KDeleteList
  | KSaveFile | KSaveFileUncompressed | KSaveList | KHashWriteFull | KHashWriteFullUncompressed
  | KCreate
  | KSinkPacker            (* Packer / BlobCopier / TreeModifier / Rewriter / Archiver ::new: writes packs and index files *)
  | KSinkIndexer.          (* indexer.add / add_remove / add_with: writes index files *)

(* flags (option fields, dry-run parameters, data conditions) are numbered by the extractor;
   three numbers are fixed *)
Definition flag := N.
Definition F_dry_run : flag := 0%N.
Definition F_set_append_only_is_false : flag := 1%N.   (* opts.set_append_only == Some(false) *)
Definition F_set_append_only_is_true : flag := 2%N.    (* opts.set_append_only == Some(true) *)
Definition cond := (flag * bool)%type.   (* (flag, value it must have) *)

Record site := mk_site {
  s_kind : skind;
  s_ftype : option ftype;      (* literal FileType at the call, None = generic *)
  s_conds : list cond;         (* enclosing option / dry-run / data conditions *)
  s_guarded : bool }.          (* inside a callee that starts with its own unconditional append-only guard *)

Record efacts := mk_efacts {
  f_guard : option (list cond);   (* the append-only guard: fires iff append_only /\ all conds *)
  f_pre : list site;              (* sites textually before the guard *)
  f_post : list site }.           (* sites after it (all sites when there is no guard) *)

Record inv_site := mk_inv {
  i_file : string; i_fn : string; i_kind : skind; i_ftype : option ftype;
  i_backend : bool }.            (* backend layer (wrappers, trait defaults) *)

(* public entry points the property names *)
Inductive entry :=
  | EBackup | EForget | EPrune | ERepairIndex | ERepairSnapshots | ERewrite | ERewriteTrees
  | EApplyConfig | EDeleteKey | EAddKey | ECopyInto | EMerge | ESaveSnapshots
  | ERepairHotcold | ERepairHotcoldPacks | EInitHot.

Definition all_entries : list entry :=
  [EBackup; EForget; EPrune; ERepairIndex; ERepairSnapshots; ERewrite; ERewriteTrees;
   EApplyConfig; EDeleteKey; EAddKey; ECopyInto; EMerge; ESaveSnapshots;
   ERepairHotcold; ERepairHotcoldPacks; EInitHot].
