(* C15 — property theorems.  Nothing but statements closed by `exact`, each followed by
   Print Assumptions.  Model.v part 1 mirrors backend/dry_run.rs + the trait defaults of
   backend/decrypt.rs; part 2 interprets the per-entry call-site table that extract.py
   regenerates from crates/core/src into Extracted.v on every run. *)
From Coq Require Import String List Bool NArith.
From Verif.C15 Require Import ModelBase Extracted Model Proofs.
Import ListNotations.
Local Open Scope string_scope.
Local Open Scope list_scope.

(* For EVERY sequence of calls made through the wrapper with dry_run = true - own methods and
   the inherited trait defaults save_file / save_file_uncompressed / save_list / delete_list /
   hash_write_full_uncompressed - the inner backend sees no write, no remove, no create, no
   setter; hence the raw storage under it sees nothing at all.  hash_plain / hash_enc (SHA-256
   of plain / encrypted bytes) are arbitrary. *)
Theorem dry_run_no_effect : forall (hash_plain hash_enc : N -> id) (calls : list call),
  forallb (fun o => negb (mutating o)) (flat_map (dr_call hash_plain hash_enc true) calls) = true /\
  flat_map (lower hash_enc) (flat_map (dr_call hash_plain hash_enc true) calls) = [].
Proof. exact dry_run_no_effect_lemma. Qed.
Print Assumptions dry_run_no_effect.

(* with dry_run = false the wrapper is the identity *)
Theorem dry_run_off_transparent : forall (hash_plain hash_enc : N -> id) (calls : list call),
  flat_map (dr_call hash_plain hash_enc false) calls = flat_map (plain_call hash_plain hash_enc) calls.
Proof. exact dry_run_off_transparent_lemma. Qed.
Print Assumptions dry_run_off_transparent.

(* the six mutating methods of DryRunBackend have the swallowing shape in the source *)
Theorem mutating_methods_swallowed :
  map dr_shape [MWriteBytes; MRemove; MCreate; MHashWriteFull; MSetZstd; MSetExtraVerify]
  = [SwallowIfDry; SwallowIfDry; SwallowIfDry; SwallowIfDry; SwallowIfDry; SwallowIfDry].
Proof. exact mutating_methods_swallowed_lemma. Qed.
Print Assumptions mutating_methods_swallowed.

(* the trait defaults route through the wrapper's own methods exactly as the model assumes *)
Theorem defaults_as_in_source : forall d, default_route d = model_route d.
Proof. exact defaults_as_in_source_lemma. Qed.
Print Assumptions defaults_as_in_source.

(* guard_dominates_<entry>: in the extracted table of the entry no storage call precedes the
   append-only guard, and every call site that can remove or replace a snapshot / index / pack
   file runs only under conditions that make the guard fire (or sits in a callee that starts
   with its own guard and is also covered by the root guard).  A removed, weakened or reordered
   guard, or a new unguarded remove, makes the corresponding statement false. *)
Theorem guard_dominates_forget : dominates (entry_facts EForget) = true.
Proof. exact guard_dominates_forget_lemma. Qed.
Print Assumptions guard_dominates_forget.
Theorem guard_dominates_prune : dominates (entry_facts EPrune) = true.
Proof. exact guard_dominates_prune_lemma. Qed.
Print Assumptions guard_dominates_prune.
Theorem guard_dominates_repair_index : dominates (entry_facts ERepairIndex) = true.
Proof. exact guard_dominates_repair_index_lemma. Qed.
Print Assumptions guard_dominates_repair_index.
Theorem guard_dominates_repair_snapshots : dominates (entry_facts ERepairSnapshots) = true.
Proof. exact guard_dominates_repair_snapshots_lemma. Qed.
Print Assumptions guard_dominates_repair_snapshots.
Theorem guard_dominates_rewrite : dominates (entry_facts ERewrite) = true.
Proof. exact guard_dominates_rewrite_lemma. Qed.
Print Assumptions guard_dominates_rewrite.
Theorem guard_dominates_rewrite_trees : dominates (entry_facts ERewriteTrees) = true.
Proof. exact guard_dominates_rewrite_trees_lemma. Qed.
Print Assumptions guard_dominates_rewrite_trees.
Theorem guard_dominates_apply_config : dominates (entry_facts EApplyConfig) = true.
Proof. exact guard_dominates_apply_config_lemma. Qed.
Print Assumptions guard_dominates_apply_config.
(* strength of the guards as found in the source: forget / prune / repair index refuse
   unconditionally under append-only, repair snapshots and rewrite iff their delete / forget option
   is set, apply_config unless it switches append-only off (with refusal_iff_guard this fixes
   exactly which calls are refused) *)
Theorem guards_as_documented :
  f_guard (entry_facts EForget) = Some [] /\
  f_guard (entry_facts EPrune) = Some [] /\
  f_guard (entry_facts ERepairIndex) = Some [] /\
  (exists f, f_guard (entry_facts ERepairSnapshots) = Some [(f, true)]) /\
  (exists f, f_guard (entry_facts ERewrite) = Some [(f, true)] /\
             f_guard (entry_facts ERewriteTrees) = Some [(f, true)]) /\
  f_guard (entry_facts EApplyConfig) = Some [(F_set_append_only_is_false, false)].
Proof. exact guards_as_documented_lemma. Qed.
Print Assumptions guards_as_documented.

(* entries without a guard: no call site that can touch a protected file at all
   (delete_key removes a key file, which is outside the property's file classes) *)
Theorem guard_dominates_unguarded_entries :
  forallb (fun e => dominates (entry_facts e))
    [EBackup; EDeleteKey; EAddKey; ECopyInto; EMerge; ESaveSnapshots; EInitHot] = true.
Proof. exact guard_dominates_unguarded_entries_lemma. Qed.
Print Assumptions guard_dominates_unguarded_entries.
(* the two hot/cold repair entries have no guard and only copy files between the parts *)
Theorem hotcold_entries_only_copy :
  hotcold_shape (entry_facts ERepairHotcold) = true /\ hotcold_shape (entry_facts ERepairHotcoldPacks) = true.
Proof. exact hotcold_entries_only_copy_lemma. Qed.
Print Assumptions hotcold_entries_only_copy.

(* Every direct storage call outside the backend layer lies in a function that belongs to a
   modelled entry point (or to the packer / indexer / init implementation). *)
Theorem inventory_closed : inventory_closed_b = true.
Proof. exact inventory_closed_lemma. Qed.
Print Assumptions inventory_closed.

(* For EVERY sequence of modelled public operations, every option valuation and every choice of
   file names: an operation that starts in a state with append_only = true either is refused
   with an empty effect list, or completes and none of its effects removes or replaces a stored
   snapshot / index / pack file (its effects are content-addressed writes, writes of key/config
   files, removal of a key file).  For the two hot/cold repair entries this needs the premise
   that the copied names are missing in the part they are written to. *)
Theorem append_only_no_destruction : forall st ops st0 o r effs,
  In (st0, o, r, effs) (run st ops) -> st_ao st0 = true -> hotcold_missing_only st0 o ->
  (r = Refused /\ effs = []) \/
  (r = Done /\ Forall (fun e => destroys (st_names st0) e = false) effs).
Proof. exact append_only_no_destruction_lemma. Qed.
Print Assumptions append_only_no_destruction.

(* refused operations fail before touching storage - in every state *)
Theorem refused_before_any_effect : forall st ops st0 o effs,
  In (st0, o, Refused, effs) (run st ops) -> effs = [].
Proof. exact refused_before_any_effect_lemma. Qed.
Print Assumptions refused_before_any_effect.

(* an operation is refused iff its own guard fires (append_only and the guard's option test) *)
Theorem refusal_iff_guard : forall e ao v pl,
  is_hotcold e = false ->
  fst (run_entry (entry_facts e) ao v pl) = Refused <->
  (exists g, f_guard (entry_facts e) = Some g /\ guard_fires ao v g = true).
Proof. exact refusal_iff_guard_lemma. Qed.
Print Assumptions refusal_iff_guard.

(* every entry point with a dry-run flag: with the flag set no storage call site runs *)
Theorem dry_run_commands_no_effect : forall e ao v pl,
  has_dry e = true -> v F_dry_run = true ->
  snd (run_entry (entry_facts e) ao v pl) = [].
Proof. exact dry_run_commands_no_effect_lemma. Qed.
Print Assumptions dry_run_commands_no_effect.

(* Stored vs. in-memory configuration.  The guards read the config the handle holds in memory; the
   property is about the stored one.  apply_config with a storage fault at ANY of its config writes
   (nothing stored / first stored then failure / stored but error reported), in BOTH directions of the
   change - the order of set_config and save_config, the failure branch, and the order of the cold and
   hot write are regenerated from commands/config.rs: a handle that was at least as restrictive as
   the stored cold config before the command is so afterwards. *)
Theorem handle_never_less_restrictive : forall f new_ao s,
  handle_covers_store s ->
  handle_covers_store (config_step config_set_before_save config_restricts_on_failure config_cold_before_hot f new_ao s).
Proof. exact handle_never_less_restrictive_lemma. Qed.
Print Assumptions handle_never_less_restrictive.

(* enabling needs no premise at all *)
Theorem failed_enable_handle_tracks_store : forall f s,
  let s' := config_step config_set_before_save config_restricts_on_failure config_cold_before_hot f true s in
  c_cold s' = true -> c_handle s' = true.
Proof. exact failed_enable_handle_tracks_store_lemma. Qed.
Print Assumptions failed_enable_handle_tracks_store.

(* hence: whenever the stored cold config is append-only after the (possibly failed) command, the
   handle refuses every guarded entry point before any effect *)
Theorem stored_append_only_still_refused : forall f new_ao s e v pl g,
  handle_covers_store s ->
  let s' := config_step config_set_before_save config_restricts_on_failure config_cold_before_hot f new_ao s in
  c_cold s' = true -> is_hotcold e = false ->
  f_guard (entry_facts e) = Some g -> forallb (holds v) g = true ->
  run_entry (entry_facts e) (c_handle s') v pl = (Refused, []).
Proof. exact stored_append_only_still_refused_lemma. Qed.
Print Assumptions stored_append_only_still_refused.

(* the shape before the repair (failed save leaves the handle with the new config) broke the
   invariant when disabling - fixed finding config-disable-failed-handle-unlocked *)
Theorem old_shape_unlocks_handle_refuted :
  exists f s, c_handle s = c_cold s /\ c_hot s = c_cold s /\
    let s' := config_step true false config_cold_before_hot f false s in
    c_cold s' = true /\ c_handle s' = false.
Proof. exact old_shape_unlocks_handle_refuted_lemma. Qed.
Print Assumptions old_shape_unlocks_handle_refuted.

(* The Indexer (index/indexer.rs; MAX_COUNT, the shape of save / finalize / add_with regenerated from
   the source): however often finalize is called, no index file is written unless a pack was added. *)
Theorem indexer_silent_without_add : forall evs,
  forallb is_finalize evs = true ->
  ix_run indexer_save_needs_packs indexer_max_count (mk_ix 0 0) evs = 0%N.
Proof. exact indexer_silent_without_add_lemma. Qed.
Print Assumptions indexer_silent_without_add.

(* Dry-run, derived: with the flag set no sink site of the entry's table runs, so the indexer sees
   no add, so the finalize calls the entry makes (however many, guarded or not - repair_index and
   prune call it unconditionally) write nothing. *)
Theorem dry_run_indexer_silent : forall e v pl k,
  has_dry e = true -> v F_dry_run = true ->
  ix_run indexer_save_needs_packs indexer_max_count (mk_ix 0 0)
    (ix_events v (f_pre (entry_facts e) ++ f_post (entry_facts e)) pl ++ repeat IxFinalize k) = 0%N.
Proof. exact dry_run_indexer_silent_lemma. Qed.
Print Assumptions dry_run_indexer_silent.

(* The dry-run flag on its way from the entry point to the place that tests it: at every call of an
   inlined callee that takes `opts` or `dry_run` (backup -> archive on each of its three branches,
   rewrite* -> process_snapshots, repair_hotcold* -> correct_missing_files) the value handed over is
   the entry's own flag - `opts` passed on, cloned, or rebuilt with `dry_run` carried over; a rebuilt
   option struct that takes dry_run from Default loses the condition in the table (and breaks
   dry_run_commands_no_effect as well). *)
Theorem dry_flag_flows_unchanged : forallb snd dry_flag_flow = true.
Proof. exact dry_flag_flows_unchanged_lemma. Qed.
Print Assumptions dry_flag_flows_unchanged.

(* TreeModifier / Rewriter (blob/tree/modify.rs, rewrite.rs): packer.add under !self.dry_run, finalize
   body under `if !self.dry_run`, the flag stored by new and handed on by Rewriter::new, no other write -
   the dry-run condition of their constructor sites in the table rests on this. *)
Theorem tree_modifier_writes_dry_guarded : tree_modifier_dry_guarded = true.
Proof. exact tree_modifier_writes_dry_guarded_lemma. Qed.
Print Assumptions tree_modifier_writes_dry_guarded.
