(* C15 — executable model.
   Part 1: DryRunBackend as a wrapper over an op-logging inner backend, incl. the trait-default
           methods it inherits (they call the wrapper's own write_bytes / remove / hash_write_full).
   Part 2: the command layer as an interpreter of the extracted per-entry site table. *)
From Coq Require Import String List Bool NArith.
From Verif.C15 Require Import ModelBase Extracted.
Import ListNotations.
Local Open Scope string_scope.
Local Open Scope list_scope.

(* ------------------------------------------------------------------ Part 1: the wrapper *)

(* what reaches the inner backend (a DecryptBackend) *)
Inductive iop :=
  | IWrite (t : ftype) (i : id)
  | IRemove (t : ftype) (i : id)
  | ICreate
  | IHashWrite (t : ftype) (d : N)     (* inner.hash_write_full: encrypts, hashes, write_bytes *)
  | ISetZstd | ISetExtraVerify
  | IReadFull (t : ftype) (i : id) | IReadPartial (t : ftype) (i : id) | IList (t : ftype)
  | IOther (m : dmethod).              (* location, key, decrypt, process_data, warmup_path, needs_warm_up *)

(* calls a client can make on the wrapper *)
Inductive call :=
  | CWriteBytes (t : ftype) (i : id) | CRemove (t : ftype) (i : id) | CCreate
  | CHashWriteFull (t : ftype) (d : N) | CSetZstd | CSetExtraVerify
  | CReadFull (t : ftype) (i : id) | CReadPartial (t : ftype) (i : id) | CList (t : ftype)
  | CReadEncryptedFull (t : ftype) (i : id) | COther (m : dmethod)
  (* inherited trait defaults *)
  | CHashWriteFullUncompressed (t : ftype) (d : N)
  | CSaveFile (encrypted : bool) (t : ftype) (d : N)
  | CSaveFileUncompressed (t : ftype) (d : N)
  | CSaveList (encrypted : bool) (t : ftype) (ds : list N)
  | CDeleteList (t : ftype) (ids : list id).

Section Wrapper.
  (* names of file contents: SHA-256 of the plain JSON / of the encrypted bytes *)
  Variable hash_plain : N -> id.
  Variable hash_enc : N -> id.

  (* a method of the wrapper, given what a plain forward would send to the inner backend *)
  Definition via (dry : bool) (m : dmethod) (fwd : list iop) : list iop :=
    match dr_shape m with
    | Forward => fwd
    | SwallowIfDry => if dry then [] else fwd
    | ReadOnlyDerived => fwd
    | NotImplemented => []
    end.

  Definition m_write_bytes dry t i := via dry MWriteBytes [IWrite t i].
  Definition m_remove dry t i := via dry MRemove [IRemove t i].
  Definition m_hash_write_full dry t d := via dry MHashWriteFull [IHashWrite t d].
  (* DecryptWriteBackend defaults, as in backend/decrypt.rs *)
  Definition d_hwfu dry t d := m_write_bytes dry t (hash_enc d).
  Definition d_save_file dry (enc : bool) t d :=
    if enc then m_hash_write_full dry t d else m_write_bytes dry t (hash_plain d).
  Definition d_save_file_uncompressed dry t d := d_hwfu dry t d.
  Definition d_save_list dry enc t ds := flat_map (d_save_file dry enc t) ds.
  Definition d_delete_list dry t ids := flat_map (m_remove dry t) ids.

  Definition dr_call (dry : bool) (c : call) : list iop :=
    match c with
    | CWriteBytes t i => m_write_bytes dry t i
    | CRemove t i => m_remove dry t i
    | CCreate => via dry MCreate [ICreate]
    | CHashWriteFull t d => m_hash_write_full dry t d
    | CSetZstd => via dry MSetZstd [ISetZstd]
    | CSetExtraVerify => via dry MSetExtraVerify [ISetExtraVerify]
    | CReadFull t i => via dry MReadFull [IReadFull t i]
    | CReadPartial t i => via dry MReadPartial [IReadPartial t i]
    | CList t => via dry MListWithSize [IList t]
    | CReadEncryptedFull t i =>   (* self.read_full, then self.decrypt *)
        via dry MReadEncryptedFull (via dry MReadFull [IReadFull t i] ++ via dry MDecrypt [IOther MDecrypt])
    | COther m => via dry m [IOther m]
    | CHashWriteFullUncompressed t d => d_hwfu dry t d
    | CSaveFile enc t d => d_save_file dry enc t d
    | CSaveFileUncompressed t d => d_save_file_uncompressed dry t d
    | CSaveList enc t ds => d_save_list dry enc t ds
    | CDeleteList t ids => d_delete_list dry t ids
    end.

  (* the same calls made on the inner backend directly *)
  Definition plain_call (c : call) : list iop :=
    match c with
    | CWriteBytes t i => [IWrite t i]
    | CRemove t i => [IRemove t i]
    | CCreate => [ICreate]
    | CHashWriteFull t d => [IHashWrite t d]
    | CSetZstd => [ISetZstd]
    | CSetExtraVerify => [ISetExtraVerify]
    | CReadFull t i => [IReadFull t i]
    | CReadPartial t i => [IReadPartial t i]
    | CList t => [IList t]
    | CReadEncryptedFull t i => [IReadFull t i; IOther MDecrypt]
    | COther m => [IOther m]
    | CHashWriteFullUncompressed t d => [IWrite t (hash_enc d)]
    | CSaveFile enc t d => if enc then [IHashWrite t d] else [IWrite t (hash_plain d)]
    | CSaveFileUncompressed t d => [IWrite t (hash_enc d)]
    | CSaveList enc t ds => flat_map (fun d => if enc then [IHashWrite t d] else [IWrite t (hash_plain d)]) ds
    | CDeleteList t ids => map (IRemove t) ids
    end.

  (* storage operations of the raw backend under the inner DecryptBackend *)
  Inductive rawop := RawWrite (t : ftype) (i : id) | RawRemove (t : ftype) (i : id) | RawCreate.
  Definition lower (o : iop) : list rawop :=
    match o with
    | IWrite t i => [RawWrite t i]
    | IRemove t i => [RawRemove t i]
    | ICreate => [RawCreate]
    | IHashWrite t d => [RawWrite t (hash_enc d)]
    | _ => []
    end.

  Definition mutating (o : iop) : bool :=
    match o with
    | IWrite _ _ | IRemove _ _ | ICreate | IHashWrite _ _ | ISetZstd | ISetExtraVerify => true
    | _ => false
    end.
End Wrapper.

(* the routing of the trait defaults the model above assumes (compared with Extracted.default_route) *)
Definition model_route (d : ddefault) : list route :=
  match d with
  | DHashWriteFullUncompressed => [RM MWriteBytes]
  | DSaveFile => [RM MHashWriteFull; RM MWriteBytes]
  | DSaveFileUncompressed => [RD DHashWriteFullUncompressed]
  | DSaveList => [RD DSaveFile]
  | DDeleteList => [RM MRemove]
  end.

(* ------------------------------------------------------------------ Part 2: the command layer *)

Inductive effect :=
  | WriteHashed (t : option ftype) (i : id)   (* name = hash of the bytes written *)
  | WriteAt (t : option ftype) (i : id)       (* name chosen by the caller *)
  | Remove (t : option ftype) (i : id)
  | CreateRepo.

Inductive result := Done | Refused.

(* file classes the property protects; a generic (unknown) type counts as protected *)
Definition protected (t : option ftype) : bool :=
  match t with Some Config | Some Key => false | _ => true end.

(* does the effect remove or replace a stored protected file, given the names that exist *)
Definition destroys (names : list id) (e : effect) : bool :=
  match e with
  | Remove t _ => protected t
  | WriteAt t i => protected t && existsb (N.eqb i) names
  | WriteHashed _ _ | CreateRepo => false
  end.

Definition valuation := flag -> bool.
Definition holds (v : valuation) (c : cond) : bool := Bool.eqb (v (fst c)) (snd c).
Definition conds_hold (v : valuation) (s : site) : bool := forallb (holds v) (s_conds s).

(* effects of one execution of a site on the names `ids` (the boolean picks pack / index for a
   packer sink) *)
Definition effect_of (s : site) (x : bool * id) : effect :=
  match s_kind s with
  | KRemove | KDeleteList => Remove (s_ftype s) (snd x)
  | KWriteBytes => WriteAt (s_ftype s) (snd x)
  | KSinkPacker => WriteHashed (Some (if fst x then Index else Pack)) (snd x)
  | KSinkIndexer => WriteHashed (Some Index) (snd x)
  | KCreate => CreateRepo
  | _ => WriteHashed (s_ftype s) (snd x)
  end.

(* None = the callee's own append-only guard fired *)
Definition site_run (ao : bool) (v : valuation) (s : site) (ids : list (bool * id)) : option (list effect) :=
  if conds_hold v s then
    if s_guarded s && ao then None else Some (map (effect_of s) ids)
  else Some [].

Fixpoint sites_run (ao : bool) (v : valuation) (ss : list site) (pl : list (list (bool * id)))
  : result * list effect :=
  match ss with
  | [] => (Done, [])
  | s :: r =>
    match site_run ao v s (hd [] pl) with
    | None => (Refused, [])
    | Some e => let (res, e') := sites_run ao v r (tl pl) in (res, e ++ e')
    end
  end.

Definition guard_fires (ao : bool) (v : valuation) (g : list cond) : bool := ao && forallb (holds v) g.

(* one run of an entry point: sites before the guard, the guard, sites after it; every site runs
   when its enclosing conditions hold, on names chosen by the environment *)
Definition run_entry (f : efacts) (ao : bool) (v : valuation) (pl : list (list (bool * id)))
  : result * list effect :=
  let (r1, e1) := sites_run ao v (f_pre f) pl in
  match r1 with
  | Refused => (Refused, e1)
  | Done =>
    let fires := match f_guard f with Some g => guard_fires ao v g | None => false end in
    if fires then (Refused, e1)
    else let (r2, e2) := sites_run ao v (f_post f) (skipn (length (f_pre f)) pl) in (r2, e1 ++ e2)
  end.

Record state := mk_state { st_ao : bool; st_names : list id }.
Record op := mk_op { o_entry : entry; o_flags : valuation; o_payload : list (list (bool * id)) }.

Definition eff_names (names : list id) (e : effect) : list id :=
  match e with
  | WriteHashed _ i | WriteAt _ i => i :: names
  | Remove _ i => filter (fun j => negb (N.eqb i j)) names
  | CreateRepo => names
  end.

(* ConfigOptions::apply: `if let Some(x) = self.set_append_only { config.append_only = Some(x) }` *)
Definition next_ao (st : state) (o : op) (r : result) : bool :=
  match o_entry o, r with
  | EApplyConfig, Done =>
      if o_flags o F_set_append_only_is_false then false
      else if o_flags o F_set_append_only_is_true then true else st_ao st
  | _, _ => st_ao st
  end.

Definition run_op (st : state) (o : op) : result * list effect * state :=
  let (r, effs) := run_entry (entry_facts (o_entry o)) (st_ao st) (o_flags o) (o_payload o) in
  (r, effs, mk_state (next_ao st o r) (fold_left eff_names effs (st_names st))).

(* the trace of a sequence: state before the op, op, result, effects *)
Fixpoint run (st : state) (ops : list op) : list (state * op * result * list effect) :=
  match ops with
  | [] => []
  | o :: r => let '(res, effs, st') := run_op st o in (st, o, res, effs) :: run st' r
  end.

(* ---- static checks on the extracted table *)
Definition cond_eqb (a b : cond) : bool := N.eqb (fst a) (fst b) && Bool.eqb (snd a) (snd b).
Definition cond_mem (c : cond) (l : list cond) : bool := existsb (cond_eqb c) l.

(* can the site emit an effect that removes / replaces a protected file *)
Definition site_capable (s : site) : bool :=
  match s_kind s with
  | KRemove | KDeleteList | KWriteBytes => protected (s_ftype s)
  | _ => false
  end.
(* whenever the site runs, the guard's own conditions hold *)
Definition root_covers (g : list cond) (s : site) : bool := forallb (fun c => cond_mem c (s_conds s)) g.

Definition dominates (f : efacts) : bool :=
  match f_guard f with
  | Some g =>
      match f_pre f with [] => true | _ => false end
      && forallb (fun s => (negb (site_capable s) && negb (s_guarded s)) || root_covers g s) (f_post f)
  | None =>
      match f_pre f with [] => true | _ => false end
      && forallb (fun s => negb (site_capable s) && negb (s_guarded s)) (f_post f)
  end.

Definition is_hotcold (e : entry) : bool :=
  match e with ERepairHotcold | ERepairHotcoldPacks => true | _ => false end.
(* shape of the two hot/cold repair entries: no guard, only copies of files *)
Definition hotcold_shape (f : efacts) : bool :=
  match f_guard f, f_pre f with
  | None, [] => forallb (fun s => negb (s_guarded s) &&
                   match s_kind s with KWriteBytes => true | _ => negb (site_capable s) end) (f_post f)
  | _, _ => false
  end.

(* entry points that take a dry-run flag *)
Definition has_dry (e : entry) : bool :=
  match e with
  | EBackup | ERepairIndex | ERepairSnapshots | ERewrite | ERewriteTrees
  | ERepairHotcold | ERepairHotcoldPacks => true
  | _ => false
  end.
Definition dry_cond : cond := (F_dry_run, false).
Definition dry_complete (f : efacts) : bool :=
  forallb (fun s => cond_mem dry_cond (s_conds s)) (f_pre f ++ f_post f).

(* inventory: every direct storage call outside the backend layer sits in a modelled function *)
Definition is_sink_kind (k : skind) : bool :=
  match k with KSinkPacker | KSinkIndexer => true | _ => false end.
Definition fn_covered (s : inv_site) : bool :=
  existsb (fun p => String.eqb (fst p) (i_file s) && String.eqb (snd p) (i_fn s)) covered_fns.
Definition inventory_closed_b : bool :=
  forallb (fun s => i_backend s || is_sink_kind (i_kind s) || fn_covered s) inventory.

(* ---- for the correspondence: which effect classes may an entry emit, given the flags that are
   known (None = unknown: data dependent) *)
Definition holds3 (v : flag -> option bool) (c : cond) : bool :=
  match v (fst c) with Some b => Bool.eqb b (snd c) | None => true end.
Definition may_run (v : flag -> option bool) (s : site) : bool := forallb (holds3 v) (s_conds s).
Definition guard_fires3 (ao : bool) (v : flag -> option bool) (g : list cond) : bool :=
  ao && forallb (holds3 v) g.
Definition allowed (e : entry) (ao : bool) (v : flag -> option bool) : result * list site :=
  let f := entry_facts e in
  match f_guard f with
  | Some g => if guard_fires3 ao v g then (Refused, filter (may_run v) (f_pre f))
              else (Done, filter (may_run v) (f_pre f ++ f_post f))
  | None => (Done, filter (may_run v) (f_pre f ++ f_post f))
  end.

(* ------------------------------------------------------------------ Part 3: stored vs. handle configuration *)
(* The guards read the config held in memory by the handle (`repo.config()`), the property speaks
   about the config that is stored.  apply_config replaces the handle's config (`set_config`) and
   stores it (`save_config`: two writes for a hot/cold repository); the order of the two and of
   the two writes is regenerated from commands/config.rs.  A storage fault can hit either write. *)
Record cfg := mk_cfg {
  c_cold : bool;      (* append_only in the stored config of the cold (authoritative) part *)
  c_hot : bool;       (* append_only in the stored hot copy (what a fresh `open` reads) *)
  c_handle : bool }.  (* append_only in the memory of the handle that runs apply_config *)

Inductive fault :=
  | NoFault
  | FailFirst             (* the first config write fails, nothing stored *)
  | FailSecond            (* the first is stored, the second fails *)
  | FirstStoredButErr     (* the first is stored but the backend reports an error; second not attempted *)
  | SecondStoredButErr.   (* both stored, the backend reports an error *)

Definition written (f : fault) : bool * bool :=
  match f with
  | NoFault | SecondStoredButErr => (true, true)
  | FailFirst => (false, false)
  | FailSecond | FirstStoredButErr => (true, false)
  end.
Definition failed (f : fault) : bool := match f with NoFault => false | _ => true end.

(* apply_config past its guard with a config that differs, setting append_only to `new_ao`.
   On a failed save the handle holds the new config when set_config came first, the old one
   otherwise; with `restrict` (the failure branch found in the source) it additionally keeps
   append_only = Some(true) when the config it held before the change had it. *)
Definition config_step (set_first restrict cold_first : bool) (f : fault) (new_ao : bool) (s : cfg) : cfg :=
  let (w1, w2) := written f in
  let (cw, hw) := if cold_first then (w1, w2) else (w2, w1) in
  mk_cfg (if cw then new_ao else c_cold s)
         (if hw then new_ao else c_hot s)
         (if failed f then (if set_first then new_ao else c_handle s) || (restrict && c_handle s) else new_ao).

(* the handle is at least as restrictive as the stored (cold, authoritative) config *)
Definition handle_covers_store (s : cfg) : Prop := c_cold s = true -> c_handle s = true.

(* ------------------------------------------------------------------ Part 4: the Indexer *)
(* index/indexer.rs.  Entry points call `indexer.add*` (the sink sites of the table) and, often
   unconditionally, `finalize`.  add_with counts the blobs, appends the pack to the pending file
   and saves + resets by itself once count >= MAX_COUNT or the file is older than MAX_AGE;
   finalize = save; save writes the pending file - only if it holds a pack, when the source says
   so (`needs`).  The number returned is the number of index files written. *)
Record ixstate := mk_ix { ix_count : N; ix_packs : N }.
Inductive ixev := IxAdd (blobs : N) (aged : bool) | IxFinalize.
Definition ix_save (needs : bool) (s : ixstate) : N :=
  if needs then (if (0 <? ix_packs s)%N then 1%N else 0%N) else 1%N.
Definition ix_step (needs : bool) (maxc : N) (s : ixstate) (e : ixev) : ixstate * N :=
  match e with
  | IxAdd b aged =>
      let s1 := mk_ix (ix_count s + b) (ix_packs s + 1) in
      if (maxc <=? ix_count s1)%N || aged then (mk_ix 0 0, ix_save needs s1) else (s1, 0%N)
  | IxFinalize => (s, ix_save needs s)
  end.
Fixpoint ix_run (needs : bool) (maxc : N) (s : ixstate) (evs : list ixev) : N :=
  match evs with
  | [] => 0%N
  | e :: r => let (s', w) := ix_step needs maxc s e in (w + ix_run needs maxc s' r)%N
  end.
Definition is_finalize (e : ixev) : bool := match e with IxFinalize => true | _ => false end.

(* the indexer events an entry run causes: one add per name handed to a sink site that runs *)
Definition is_sink_site (s : site) : bool := is_sink_kind (s_kind s).
Fixpoint ix_events (v : valuation) (ss : list site) (pl : list (list (bool * id))) : list ixev :=
  match ss with
  | [] => []
  | s :: r =>
      (if is_sink_site s && conds_hold v s then map (fun x => IxAdd (snd x) false) (hd [] pl) else [])
      ++ ix_events v r (tl pl)
  end.

(* the shared OCaml prelude converts to Z as well: keep the type in the extracted module *)
Definition z_keep (z : BinNums.Z) : BinNums.Z := z.
