(* C15 — extraction of the executable model (ExtrOcamlBasic only). *)
Require Extraction.
Require Import ExtrOcamlBasic.
From Verif.C15 Require Import ModelBase Extracted Model.
Extraction "model_ml.ml" dr_call lower mutating allowed next_ao mk_state mk_op run_op all_entries
  dominates hotcold_shape dry_complete has_dry entry_facts z_keep config_step config_set_before_save config_restricts_on_failure config_cold_before_hot
  ix_run indexer_save_needs_packs indexer_max_count.
