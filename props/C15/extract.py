"""C15 fact extractor: regenerates props/C15/coq/Extracted.v from the Rust source.

(a) backend/dry_run.rs: for every trait method implemented by DryRunBackend the shape of its
    body (forwards to the inner backend / swallowed when `dry_run` is set / built from own
    methods); backend/decrypt.rs: which own methods the trait-default methods
    (hash_write_full_uncompressed, save_file, save_file_uncompressed, save_list, delete_list)
    route through.
(b) call-site inventory over crates/core/src: every `.write_bytes(`, backend `.remove(`,
    `delete_list(`, `save_file(`, `save_file_uncompressed(`, `save_list(`, `hash_write_full(`,
    `.create()` and the pack/index writer sinks, with enclosing function; and per public entry
    point the ordered list of sites (callees inlined at their call position) with the enclosing
    option / dry-run conditions, the append-only guard and how many sites precede it.
The scanner is syntactic (regexes + brace matching) and fails loudly on shapes it does not know."""
import re, sys, os
sys.path.insert(0, os.path.join(os.path.dirname(__file__), "..", "..", "lib"))
from rustscan import *

SRC = "crates/core/src"

# ----------------------------------------------------------------------------- helpers

def strip_tests(src):
    """drop `#[cfg(test)] mod x { ... }` blocks"""
    out, i = [], 0
    for m in re.finditer(r"#\[cfg\(test\)\]\s*(?:pub\s+)?mod\s+\w+\s*\{", src):
        if m.start() < i:
            continue
        e = match_brace(src, m.end() - 1)
        out.append(src[i:m.start()]); i = e + 1
    out.append(src[i:])
    return "".join(out)


def all_fns(src):
    """[(name, body_start, body_end)] for every fn with a body"""
    res = []
    for m in re.finditer(r"\bfn\s+(\w+)\s*(?:<[^{;(]*>)?\s*\(", src):
        try:
            p = match_brace(src, m.end() - 1, "(", ")")
        except ExtractError:
            continue
        b = src.find("{", p)
        semi = src.find(";", p)
        if b < 0 or (0 <= semi < b):
            continue
        try:
            e = match_brace(src, b)
        except ExtractError:
            continue
        res.append((m.group(1), b, e))
    return res


def enclosing_fn(fns, pos):
    best = None
    for (n, b, e) in fns:
        if b < pos < e and (best is None or b > best[1]):
            best = (n, b, e)
    return best


def split_args(s):
    """top-level comma split of an argument string"""
    out, depth, cur = [], 0, []
    i = 0
    while i < len(s):
        c = s[i]
        if c == '"':
            j = i + 1
            while j < len(s) and s[j] != '"':
                j += 2 if s[j] == "\\" else 1
            cur.append(s[i:j + 1]); i = j + 1; continue
        if c in "([{<" and not (c == "<" and (i == 0 or not (s[i - 1].isalnum() or s[i - 1] == ":"))):
            depth += 1
        elif c in ")]}" or (c == ">" and depth > 0 and s[i - 1] != "-" and s[i - 1] != "="):
            depth -= 1
        if c == "," and depth == 0:
            out.append("".join(cur).strip()); cur = []
        else:
            cur.append(c)
        i += 1
    if "".join(cur).strip():
        out.append("".join(cur).strip())
    return out


SITE_RES = [
    ("KWriteBytes", r"\.write_bytes\s*\("),
    ("KRemove", r"\.remove\s*\("),
    ("KDeleteList", r"(?<!fn )\bdelete_list\s*\("),
    ("KSaveFile", r"(?<!fn )\bsave_file\s*\("),
    ("KSaveFileUncompressed", r"(?<!fn )\bsave_file_uncompressed\s*\("),
    ("KSaveList", r"(?<!fn )\bsave_list\s*\("),
    ("KHashWriteFull", r"(?<!fn )\bhash_write_full\s*\("),
    ("KHashWriteFullUncompressed", r"(?<!fn )\bhash_write_full_uncompressed\s*\("),
    ("KCreate", r"\.create\s*\(\s*\)"),
    # writer sinks: objects that write packs and, through the indexer they are given, index files
    ("KSinkPacker", r"\b(?:Packer|BlobCopier|TreeModifier|Rewriter|Archiver)::new\s*\("),
    ("KSinkIndexer", r"\bindexer\b[^;{}]*?\.(?:add|add_remove|add_with)\s*\("),
]

TYPE_BY_ARG = [(r"\bsnap\b|\bsnaps\b|self\.snap\b", "Snapshot"), (r"new_index\b|self\.file\b", "Index"),
               (r"new_config\b", "Config")]


def atoms_of(cond):
    """condition text -> list of (name, bool) for the conjuncts we understand; others -> ('?'+text, True)"""
    res = []
    for c in [x.strip() for x in cond.split("&&")]:
        c = re.sub(r"\s+", "", c)
        neg = False
        while c.startswith("!") and not c.startswith("!="):
            neg = not neg; c = c[1:]
        if c.startswith("(") and c.endswith(")"):
            c = c[1:-1]
        if re.fullmatch(r"[\w.]+(\(\))?", c):
            res.append((c.replace("()", ""), not neg))
        elif c.endswith(".is_empty()") or ".is_empty()" in c:
            res.append(("?" + c, not neg))
        else:
            res.append(("?" + c, not neg))
    return res


def block_conds(src, fb, fe, pos):
    """enclosing conditions of `pos` inside the fn body [fb, fe]: walk every `{` that encloses pos"""
    conds = []
    # collect enclosing brace blocks
    stack = []
    i = fb
    n = pos
    while i < n:
        c = src[i]
        if c == '"':
            i += 1
            while i < n and src[i] != '"':
                i += 2 if src[i] == "\\" else 1
        elif c == "{":
            stack.append(i)
        elif c == "}":
            stack.pop()
        i += 1
    for b in stack[1:] if stack and stack[0] == fb else stack:
        # header = text between the previous `;`/`{`/`}` (at the same level) and this brace
        j = b - 1
        depth = 0
        while j > fb:
            ch = src[j]
            if ch in ")]":
                depth += 1
            elif ch in "([":
                depth -= 1
            elif depth == 0 and ch in ";{},":
                break
            j -= 1
        hdr = " ".join(src[j + 1:b].split())
        if src[j] == "}" and hdr.startswith("else"):
            # negate the condition of the matching if (single atom only)
            ob = j
            d = 0
            k = j
            while k > fb:
                if src[k] == "}":
                    d += 1
                elif src[k] == "{":
                    d -= 1
                    if d == 0:
                        break
                k -= 1
            prev = block_header(src, fb, k)
            m = re.match(r"(?:\}?\s*else\s+)?if\s+(.*)$", prev)
            if m and not prev.startswith("if let") and "&&" not in m.group(1) and "||" not in m.group(1):
                a = atoms_of(m.group(1))
                conds += [(nm, not v) for (nm, v) in a]
            else:
                conds.append(("?else:" + re.sub(r"\s+", "", prev)[:40], True))
            m2 = re.match(r"else\s+if\s+(.*)$", hdr)
            if m2:
                conds += atoms_of(m2.group(1))
            continue
        m = re.match(r"if\s+(.*)$", hdr)
        if m and not hdr.startswith("if let") and "||" not in hdr:
            conds += atoms_of(m.group(1))
            continue
        if hdr.startswith("if "):
            conds.append(("?" + re.sub(r"\s+", "", hdr)[:40], True))
            continue
        # match arm over a tuple of booleans:  (true, false) => {
        m = re.match(r"\(\s*((?:true|false|_)(?:\s*,\s*(?:true|false|_))*)\s*\)\s*=>$", hdr)
        if m:
            # find the scrutinee of the enclosing match
            outer = [x for x in stack if x < b]
            if outer:
                mh = block_header(src, fb, outer[-1])
                mm = re.search(r"match\s*\(\s*([\w.\s,!]+)\)\s*$", mh)
                if mm:
                    names = [x.strip() for x in mm.group(1).split(",")]
                    pats = [x.strip() for x in m.group(1).split(",")]
                    for nm, p in zip(names, pats):
                        if p != "_":
                            conds.append((nm, p == "true"))
                    continue
            conds.append(("?arm", True))
            continue
        # other blocks (loops, closures, match arms on enums, plain blocks) carry no flag condition
    return conds


def block_header(src, fb, b):
    j = b - 1
    depth = 0
    while j > fb:
        ch = src[j]
        if ch in ")]":
            depth += 1
        elif ch in "([":
            depth -= 1
        elif depth == 0 and ch in ";{},":
            break
        j -= 1
    return " ".join(src[j + 1:b].split())


def norm_flag(name):
    """flag names as they appear in Extracted.v"""
    name = name.replace("opts.", "")
    return name


GUARD_RE = re.compile(r"\bif\s+([^{}]*?)append_only\s*==\s*Some\(true\)([^{}]*?)\{\s*return\s+Err\s*\(", re.S)


def find_guard(body):
    """(position, [(flag, bool)]) of the append-only guard of a fn body, or None"""
    m = GUARD_RE.search(body)
    if not m:
        if "append_only" in re.sub(r"set_append_only|config\.append_only\s*=", "", body) and "== Some(true)" in body:
            raise ExtractError("append_only test of an unknown shape")
        return None
    pre, post = m.group(1), m.group(2)
    conds = []
    pre = re.sub(r"(repo\.config\(\)|config_file|self\.config\(\))\s*\.\s*$", "", pre.strip()).strip()
    if pre:
        if not pre.endswith("&&"):
            raise ExtractError("append-only guard with an unknown prefix: " + pre)
        conds += atoms_of(pre[:-2])
    post = post.strip()
    if post:
        if not post.startswith("&&"):
            raise ExtractError("append-only guard with an unknown suffix: " + post)
        p = re.sub(r"\s+", "", post[2:])
        if p == "opts.set_append_only!=Some(false)":
            conds.append(("set_append_only_is_false", False))
        else:
            raise ExtractError("append-only guard with an unknown suffix: " + post)
    for (n, v) in conds:
        if n.startswith("?"):
            raise ExtractError("append-only guard condition not understood: " + n)
    return m.start(), [(norm_flag(n), v) for (n, v) in conds]


# ----------------------------------------------------------------------------- source model

class Source:
    def __init__(self, repo):
        self.repo = repo
        self.files = {}
        root = os.path.join(repo, SRC)
        if not os.path.isdir(root):
            raise ExtractError("source directory missing: " + SRC)
        for d, _, fs in sorted(os.walk(root)):
            for f in sorted(fs):
                if not f.endswith(".rs"):
                    continue
                rel = os.path.relpath(os.path.join(d, f), root)
                if rel.startswith("verif_hooks"):
                    continue
                raw = strip_comments(open(os.path.join(d, f)).read())
                # char literals holding a bracket or a quote would confuse the brace matcher
                raw = re.sub(r"'(\\.|[{}()\[\]\"])'", "'_'", raw)
                s = strip_tests(raw)
                self.files[rel] = (s, all_fns(s))

    def sites_in(self, rel, lo=None, hi=None):
        """all sites of file rel within [lo,hi): (pos, kind, ftype or None, args)"""
        src, fns = self.files[rel]
        res = []
        for kind, rx in SITE_RES:
            for m in re.finditer(rx, src):
                pos = m.start()
                if lo is not None and not (lo <= pos < hi):
                    continue
                args = ""
                if kind not in ("KCreate",):
                    op = m.end() - 1
                    cl = match_brace(src, op, "(", ")")
                    args = src[op + 1:cl]
                al = split_args(args)
                if kind == "KRemove" and len(al) != 3:
                    continue        # map / set / vec remove, cache remove: not a backend call
                if kind == "KWriteBytes" and len(al) < 3:
                    continue        # Cache::write_bytes(tpe, id, data) is the local cache
                if kind == "KWriteBytes" and not is_backend_layer(rel):
                    enc = enclosing_fn(fns, pos)
                    idv = re.sub(r"[&\s]", "", al[1])
                    if enc and re.search(r"let\s+%s\s*=\s*[^;]*\bhash\s*\(" % re.escape(idv), src[enc[1]:pos]):
                        kind = "KWriteBytesHashed"   # the name is the hash of the bytes written
                ft = None
                mm = re.search(r"FileType::(\w+)", args)
                if mm:
                    ft = mm.group(1)
                elif kind in ("KSaveFile", "KSaveList", "KSaveFileUncompressed"):
                    for rx2, t in TYPE_BY_ARG:
                        if re.search(rx2, args):
                            ft = t; break
                res.append((pos, kind, ft, args))
        res.sort()
        return res


def is_backend_layer(rel):
    return rel == "backend.rs" or rel.startswith("backend/")


# entry points: name -> (file, root fn, {callee call name: (file, fn)})
ENTRIES = [
    ("EBackup", "commands/backup.rs", "backup", {"archive": {"free": ("commands/backup.rs", "archive"), "method": ("archiver.rs", "archive")}}),
    ("EForget", "repository.rs", "delete_snapshots", {}),
    ("EPrune", "commands/prune.rs", "prune_repository", {}),
    ("ERepairIndex", "commands/repair/index.rs", "repair_index", {}),
    ("ERepairSnapshots", "commands/repair/snapshots.rs", "repair_snapshots", {}),
    ("ERewrite", "commands/rewrite.rs", "rewrite_snapshots",
     {"process_snapshots": ("commands/rewrite.rs", "process_snapshots"),
      "save_snapshots": ("repository.rs", "save_snapshots"), "delete_snapshots": ("repository.rs", "delete_snapshots")}),
    ("ERewriteTrees", "commands/rewrite.rs", "rewrite_snapshots_and_trees",
     {"process_snapshots": ("commands/rewrite.rs", "process_snapshots"),
      "save_snapshots": ("repository.rs", "save_snapshots"), "delete_snapshots": ("repository.rs", "delete_snapshots")}),
    ("EApplyConfig", "commands/config.rs", "apply_config",
     {"save_config": ("commands/config.rs", "save_config"), "save_config_hot": ("commands/config.rs", "save_config_hot")}),
    ("EDeleteKey", "repository.rs", "delete_key", {}),
    ("EAddKey", "commands/key.rs", "add_current_key_to_repo", {"add_key_to_repo": ("commands/key.rs", "add_key_to_repo")}),
    ("ECopyInto", "commands/copy.rs", "copy", {"copy_blobs": ("commands/copy.rs", "copy_blobs")}),
    ("EMerge", "commands/merge.rs", "merge_snapshots", {"merge_trees": ("commands/merge.rs", "merge_trees")}),
    ("ESaveSnapshots", "repository.rs", "save_snapshots", {}),
    ("ERepairHotcold", "commands/repair/hotcold.rs", "repair_hotcold",
     {"correct_missing_files": ("commands/repair/hotcold.rs", "correct_missing_files"), "copy": ("commands/repair/hotcold.rs", "copy")}),
    ("ERepairHotcoldPacks", "commands/repair/hotcold.rs", "repair_hotcold_packs",
     {"correct_missing_files": ("commands/repair/hotcold.rs", "correct_missing_files"), "copy": ("commands/repair/hotcold.rs", "copy")}),
    ("EInitHot", "repository.rs", "init_hot", {"save_config_hot": ("commands/config.rs", "save_config_hot")}),
]
# functions with sites that are the implementation of a sink (reached only through the sink
# sites above) or that run before a repository exists
SINK_IMPL = [("blob/packer.rs", "process"), ("index/indexer.rs", "save"), ("commands/init.rs", "init_with_config"),
             ("commands/init.rs", "init"), ("commands/key.rs", "init_key")]


def find_fn(S, rel, name):
    if rel not in S.files:
        raise ExtractError("source file missing: " + rel)
    src, fns = S.files[rel]
    c = [f for f in fns if f[0] == name]
    if not c:
        raise ExtractError("fn %s not found in %s" % (name, rel))
    return src, c[0]


def tree_modifier_guarded(S):
    """(ok, reason): the dry_run flag handed to TreeModifier::new / Rewriter::new really guards every
    write of the object - this is what the dry-run condition attached to such a constructor site
    stands for.  Not ok = the condition is not attached (and the fact is emitted as false)."""
    msrc, _ = S.files.get("blob/tree/modify.rs", (None, None))
    if msrc is None:
        raise ExtractError("source file missing: blob/tree/modify.rs")
    def body(fn):
        _, (_, b, e) = find_fn(S, "blob/tree/modify.rs", fn)
        return " ".join(msrc[b + 1:e].split())
    st = body("save_tree")
    adds = list(re.finditer(r"self\.packer\.add\(", st))
    if len(adds) != 1 or not re.search(r"if [^{}]*!self\.dry_run[^{}]*\{ self\.packer\.add\([^;]*\)\?; \}", st):
        return False, "TreeModifier::save_tree: packer.add is not guarded by !self.dry_run"
    if not re.fullmatch(r"if !self\.dry_run \{ (?:[^{}]*) \} Ok\(\(\)\)", body("finalize")):
        return False, "TreeModifier::finalize: packer / indexer finalize not wrapped in `if !self.dry_run`"
    if not re.search(r"Ok\(Self \{[^}]*\bdry_run\b[^}]*\}\)", body("new")):
        return False, "TreeModifier::new does not store its dry_run argument"
    other = [m for m in re.finditer(r"self\.(packer|indexer|be)\b[^;]*\.(add|finalize|save_file|write_bytes|remove|delete_list)\(", msrc)]
    if len(other) != 3:
        return False, "TreeModifier: %d writing calls instead of three (packer.add, packer.finalize, indexer finalize)" % len(other)
    rsrc, _ = S.files.get("blob/tree/rewrite.rs", (None, None))
    if rsrc is None or not re.search(r"TreeModifier::new\(\s*be\s*,\s*index\s*,\s*config\s*,\s*dry_run\s*\)", rsrc):
        return False, "Rewriter::new does not hand its dry_run argument to TreeModifier::new"
    if re.search(r"\.(save_file|write_bytes|remove|delete_list|save_list)\s*\(", rsrc):
        return False, "blob/tree/rewrite.rs makes a direct storage call"
    return True, None


FLOW = []


def fn_params(src, fb):
    """parameter names of the fn whose body starts at fb"""
    ms = [m for m in re.finditer(r"\bfn\s+\w+\s*(?:<[^{;(]*>)?\s*\(", src[:fb])]
    if not ms:
        return []
    o = ms[-1].end() - 1
    c = match_brace(src, o, "(", ")")
    names = []
    for p in split_args(src[o + 1:c]):
        p = p.strip()
        if re.fullmatch(r"&?\s*(mut\s+)?self", p): continue
        m = re.match(r"(?:mut\s+)?(\w+)\s*:", p)
        names.append(m.group(1) if m else "?")
    return names


def opts_binding_keeps_dry(body, upto):
    """does the variable `opts` visible at offset `upto` of a fn body carry the dry_run value of the
    fn's own `opts` parameter?  Follows `let [mut] opts = ...;` shadowing in the enclosing blocks."""
    best = None
    for m in re.finditer(r"\blet\s+(?:mut\s+)?opts\s*=\s*", body[:upto]):
        # the block the let lives in must still be open at `upto`
        depth, ok = 0, True
        for ch in body[m.end():upto]:
            if ch == "{": depth += 1
            elif ch == "}":
                depth -= 1
                if depth < 0: ok = False; break
        if ok:
            best = m
    if best is None:
        return True
    # initialiser up to the terminating `;` at depth 0
    i, depth = best.end(), 0
    while i < len(body):
        ch = body[i]
        if ch in "({[": depth += 1
        elif ch in ")}]": depth -= 1
        elif ch == ";" and depth == 0: break
        i += 1
    init = " ".join(body[best.end():i].split())
    later = body[i:upto]
    if re.search(r"\bopts\.dry_run\s*=[^=]", later):
        return False
    if not opts_binding_keeps_dry(body, best.start()):
        return False
    if re.fullmatch(r"\*?opts(\.clone\(\))?", init):
        return True
    ms = re.fullmatch(r"\w+ \{(.*)\}", init)
    if ms:
        inner = ms.group(1)
        if re.search(r"\bdry_run\s*:\s*opts\.dry_run\b", inner) or re.search(r"\bdry_run\s*,", inner + ","):
            return True
        if re.search(r"\.\.\s*\*?opts(\.clone\(\))?\s*$", inner.strip()):
            return not re.search(r"\bdry_run\s*:", inner)
        return False        # built from defaults: the flag is dropped
    raise ExtractError("provenance of a rebuilt `opts` not understood: " + init[:100])


def walk_entry(S, rel, fn, callees, outer_conds, depth, covered):
    """ordered events of a fn body: ('site', kind, ftype, conds, guarded, where) and ('guard', conds)"""
    if depth > 4:
        raise ExtractError("callee nesting too deep at " + fn)
    src, (name, fb, fe) = find_fn(S, rel, fn)
    covered.add((rel, fn))
    body = src[fb:fe + 1]
    events = []
    g = find_guard(body)
    if g:
        gc = block_conds(src, fb, fe, fb + g[0])
        if gc:
            raise ExtractError("append-only guard of %s is nested in a condition" % fn)
        events.append((fb + g[0], ("guard", g[1])))
    # dry-run wrappers / flags handed to a sink constructor
    for (pos, kind, ft, args) in S.sites_in(rel, fb, fe):
        # a site inside a nested fn item belongs to that fn
        enc = enclosing_fn(S.files[rel][1], pos)
        if enc is None or enc[0] != name or enc[1] != fb:
            continue
        conds = list(outer_conds) + block_conds(src, fb, fe, pos)
        if kind == "KSinkPacker":
            al = split_args(args)
            last = re.sub(r"\s+", "", al[-1]) if al else ""
            ctor = src[pos:pos + 14]
            if last in ("dry_run", "opts.dry_run") and (S.tm_ok or not (ctor.startswith("TreeModifier") or ctor.startswith("Rewriter"))):
                conds.append((last, False))
            # Archiver::new(be, ..) where `let be = DryRunBackend::new(.., opts.dry_run)`
            if al and re.fullmatch(r"\w+", al[0]):
                mm = re.search(r"let\s+%s\s*=\s*DryRunBackend::new\s*\(" % re.escape(al[0]), body)
                if mm:
                    op = fb + mm.end() - 1
                    a2 = split_args(src[op + 1:match_brace(src, op, "(", ")")])
                    conds.append((re.sub(r"\s+", "", a2[-1]), False))
        events.append((pos, ("site", kind, ft, conds, "%s:%s" % (rel, fn))))
    for cname, cspec in callees.items():
        for m in re.finditer(r"(?<!fn )(?<![\w:])(?:[\w.()]+\.)?\b%s\s*\(" % re.escape(cname), body):
            pos = fb + m.start()
            txt = m.group(0)
            if isinstance(cspec, dict):
                (crel, cfn) = cspec["method" if "." in txt else "free"]
            else:
                (crel, cfn) = cspec
            if (crel, cfn) == (rel, fn):
                continue
            # `repo.copy(` in hotcold is the local fn `copy(`; method calls on other objects named like a callee
            # are only followed when the callee table lists them for this entry
            if cname in ("copy", "archive") and "." in txt and not re.match(r"(archiver|self)\.", txt):
                if cname == "copy":
                    continue
            enc = enclosing_fn(S.files[rel][1], pos)
            if enc is None or enc[1] != fb:
                continue
            conds = list(outer_conds) + block_conds(src, fb, fe, pos)
            # method call on an object that was built over a DryRunBackend: everything it writes
            # goes through the wrapper (theorem dry_run_no_effect), i.e. is conditional on the flag
            rm = re.match(r"(\w+)\.%s" % re.escape(cname), txt)
            if rm:
                lm = re.search(r"let\s+(?:mut\s+)?%s\s*=\s*\w+::new\s*\(" % re.escape(rm.group(1)), body)
                if lm:
                    op = fb + lm.end() - 1
                    a1 = split_args(src[op + 1:match_brace(src, op, "(", ")")])
                    if a1 and re.fullmatch(r"\w+", a1[0]):
                        dm = re.search(r"let\s+%s\s*=\s*DryRunBackend::new\s*\(" % re.escape(a1[0]), body)
                        if dm:
                            op2 = fb + dm.end() - 1
                            a2 = split_args(src[op2 + 1:match_brace(src, op2, "(", ")")])
                            conds.append((re.sub(r"\s+", "", a2[-1]), False))
            sub = walk_entry(S, crel, cfn, callees, conds, depth + 1, covered)
            # does the entry's dry-run flag reach the callee unchanged?
            csrc, (_, cfb, _) = find_fn(S, crel, cfn)
            params = fn_params(csrc, cfb)
            op = fb + m.end() - 1
            cargs = split_args(src[op + 1:match_brace(src, op, "(", ")")])
            keeps = None
            for pn, a in zip(params, cargs):
                a = re.sub(r"[&\s]", "", a)
                if pn == "dry_run":
                    keeps = (keeps is not False) and a in ("dry_run", "opts.dry_run")
                elif pn == "opts" and a == "opts":
                    keeps = (keeps is not False) and opts_binding_keeps_dry(src[fb:fe], pos - fb)
                elif pn == "opts":
                    keeps = False
            if keeps is not None and ("dry_run" in params or any(e[0] == "site" and any(norm_flag(c[0]) == "dry_run" for c in e[3]) for e in sub)):
                label = "%s -> %s%s" % (fn, cfn, "".join(" [%s%s]" % ("" if v else "!", norm_flag(n)) for (n, v) in block_conds(src, fb, fe, pos) if not n.startswith("?")) or "")
                k = 2
                base = label
                while any(x[0] == label for x in FLOW):
                    label = "%s #%d" % (base, k); k += 1
                FLOW.append((label, bool(keeps)))
                if not keeps:
                    # the callee's dry-run value is not the entry's flag: its conditions do not count
                    sub = [(e[0], e[1], e[2], [c for c in e[3] if norm_flag(c[0]) != "dry_run"]) + tuple(e[4:]) if e[0] == "site" else e for e in sub]
            # callee with its own unconditional guard before all of its sites: sites are self-guarded
            gi = [i for i, e in enumerate(sub) if e[0] == "guard"]
            if gi:
                if gi[0] != 0 or sub[gi[0]][1]:
                    # a conditional or late guard inside a callee: keep sites unguarded (conservative)
                    sub = [e for e in sub if e[0] != "guard"]
                else:
                    sub = [("site", e[1], e[2], e[3], True, e[5]) if e[0] == "site" else e for e in sub[1:]]
            events.append((pos, ("inline", sub)))
    events.sort(key=lambda x: x[0])
    flat = []
    for _, e in events:
        if e[0] == "inline":
            flat += e[1]
        elif e[0] == "site":
            flat.append(("site", e[1], e[2], e[3], False, e[4]))
        else:
            flat.append(e)
    return flat


def coq_str(s):
    return '"' + s.replace('"', "'") + '"'


FLAGS = {"dry_run": 0, "set_append_only_is_false": 1, "set_append_only_is_true": 2}


def flag_no(n):
    n = norm_flag(n)
    if n not in FLAGS:
        FLAGS[n] = len(FLAGS)
    return FLAGS[n]


def coq_conds(cs):
    out = []
    for (n, v) in cs:
        out.append("(%d%%N (* %s *), %s)" % (flag_no(n), norm_flag(n).replace("*)", "* )").replace("(*", "( *"), "true" if v else "false"))
    return "[" + "; ".join(out) + "]"


DR_METHODS = {"decrypt": "MDecrypt", "read_encrypted_full": "MReadEncryptedFull", "location": "MLocation",
              "list_with_size": "MListWithSize", "read_full": "MReadFull", "read_partial": "MReadPartial",
              "warmup_path": "MWarmupPath", "needs_warm_up": "MNeedsWarmUp", "key": "MKey",
              "hash_write_full": "MHashWriteFull", "process_data": "MProcessData", "set_zstd": "MSetZstd",
              "set_extra_verify": "MSetExtraVerify", "create": "MCreate", "write_bytes": "MWriteBytes", "remove": "MRemove"}
DEFAULTS = {"hash_write_full_uncompressed": "DHashWriteFullUncompressed", "save_file": "DSaveFile",
            "save_file_uncompressed": "DSaveFileUncompressed", "save_list": "DSaveList", "delete_list": "DDeleteList"}
ROUTE = {"write_bytes": "MWriteBytes", "remove": "MRemove", "hash_write_full": "MHashWriteFull", "create": "MCreate"}


def gen_dry(S, out, meta):
    src, fns = S.files.get("backend/dry_run.rs", (None, None))
    if src is None:
        raise ExtractError("source file missing: backend/dry_run.rs")
    shapes = {}
    for m in re.finditer(r"impl\s*<[^{]*>\s*(\w+)\s+for\s+DryRunBackend\s*<[^{]*>\s*\{", src):
        b = m.end() - 1
        e = match_brace(src, b)
        for (name, fb, fe) in fns:
            if not (b < fb < e):
                continue
            body = re.sub(r"\s+", " ", src[fb + 1:fe]).strip()
            if name in DEFAULTS:
                raise ExtractError("DryRunBackend overrides the trait-default method %s: the model of the defaults no longer applies" % name)
            if name not in DR_METHODS:
                raise ExtractError("DryRunBackend implements an unknown method: " + name)
            fwd = r"self\.be\.%s\s*\([^()]*\)" % re.escape(name)
            if re.fullmatch(fwd, body):
                sh = "Forward"
            elif re.fullmatch(r"if self\.dry_run \{ Ok\([^{}]*\) \} else \{ %s \}" % fwd, body):
                sh = "SwallowIfDry"
            elif re.fullmatch(r"if !self\.dry_run \{ %s; \}" % fwd, body):
                sh = "SwallowIfDry"
            elif name == "key" and re.fullmatch(r"self\.be\.key\(\)", body):
                sh = "Forward"
            elif "self.be." not in body.replace("self.be.decrypt", "") or name == "read_encrypted_full":
                # built from own methods: must not reach a mutating method
                own = set(re.findall(r"self\.(\w+)\s*\(", body))
                if own & {"write_bytes", "remove", "create", "hash_write_full", "set_zstd", "set_extra_verify"}:
                    raise ExtractError("DryRunBackend::%s calls a mutating method" % name)
                if re.search(r"self\.be\.(write_bytes|remove|create|hash_write_full|set_\w+|save_\w+|delete_list)", body):
                    raise ExtractError("DryRunBackend::%s reaches a mutating method of the inner backend" % name)
                sh = "ReadOnlyDerived"
            else:
                raise ExtractError("DryRunBackend::%s has an unknown body shape: %s" % (name, body[:120]))
            shapes[name] = sh
    for need in ("write_bytes", "remove", "create", "hash_write_full", "set_zstd", "set_extra_verify", "read_full", "list_with_size", "read_partial"):
        if need not in shapes:
            raise ExtractError("DryRunBackend does not implement " + need)
    out.append("Definition dr_shape (m : dmethod) : shape :=\n  match m with")
    for n, c in DR_METHODS.items():
        out.append("  | %s => %s" % (c, shapes.get(n, "NotImplemented")))
    out.append("  end.\n")
    meta["dr_shapes"] = shapes
    # trait defaults of DecryptWriteBackend
    dsrc, dfns = S.files["backend/decrypt.rs"]
    tm = re.search(r"pub\s+trait\s+DecryptWriteBackend[^{]*\{", dsrc)
    if not tm:
        raise ExtractError("trait DecryptWriteBackend not found")
    tb, te = tm.end() - 1, match_brace(dsrc, tm.end() - 1)
    routes = {}
    for (name, fb, fe) in dfns:
        if tb < fb < te and name in DEFAULTS:
            body = dsrc[fb:fe]
            calls = re.findall(r"self\.(\w+)\s*\(", body)
            r = []
            for c in calls:
                if c in ROUTE:
                    r.append(ROUTE[c])
                elif c in DEFAULTS:
                    r.append(DEFAULTS[c])
                elif c in ("key",):
                    pass
                else:
                    raise ExtractError("trait default %s calls unknown own method %s" % (name, c))
            routes[name] = r
    for need in DEFAULTS:
        if need not in routes:
            raise ExtractError("trait default %s not found (or no longer a default)" % need)
    out.append("Definition default_route (d : ddefault) : list route :=\n  match d with")
    for n, c in DEFAULTS.items():
        rs = ["RM " + x if x.startswith("M") else "RD " + x for x in routes[n]]
        out.append("  | %s => [%s]" % (c, "; ".join(rs)))
    out.append("  end.\n")
    meta["default_routes"] = routes


def gen(repo):
    for k in [k for k, v in FLAGS.items() if v > 2]:
        del FLAGS[k]
    S = Source(repo)
    del FLOW[:]
    S.tm_ok, S.tm_reason = tree_modifier_guarded(S)
    meta = {}
    out = ["(* GENERATED by props/C15/extract.py from crates/core/src - do not edit *)",
           "From Coq Require Import String List Bool NArith.", "From Verif.C15 Require Import ModelBase.",
           "Import ListNotations.", "Local Open Scope string_scope.", ""]
    gen_dry(S, out, meta)
    # ---- inventory
    inv = []
    for rel in sorted(S.files):
        src, fns = S.files[rel]
        for (pos, kind, ft, args) in S.sites_in(rel):
            enc = enclosing_fn(fns, pos)
            fn = enc[0] if enc else "?"
            inv.append((rel, fn, kind, ft))
    out.append("Definition inventory : list inv_site :=\n  [ " + ";\n    ".join(
        "mk_inv %s %s %s %s %s" % (coq_str(r), coq_str(f), k, ("(Some %s)" % t) if t else "None",
                                   "true" if is_backend_layer(r) else "false") for (r, f, k, t) in inv) + " ].\n")
    meta["inventory"] = inv
    # ---- entries
    covered = set(SINK_IMPL)
    ent = {}
    for (en, rel, fn, callees) in ENTRIES:
        ev = walk_entry(S, rel, fn, callees, [], 0, covered)
        gi = [i for i, e in enumerate(ev) if e[0] == "guard"]
        if len(gi) > 1:
            raise ExtractError("entry %s has more than one append-only guard in its own body" % en)
        guard = ev[gi[0]][1] if gi else None
        pre = [e for e in (ev[:gi[0]] if gi else []) if e[0] == "site"]
        post = [e for e in (ev[gi[0] + 1:] if gi else ev) if e[0] == "site"]
        ent[en] = (guard, pre, post)
    def site(e):
        _, kind, ft, conds, guarded, where = e
        return "mk_site %s %s %s %s (* %s *)" % (kind, ("(Some %s)" % ft) if ft else "None", coq_conds(conds),
                                                "true" if guarded else "false", where)
    out.append("Definition entry_facts (e : entry) : efacts :=\n  match e with")
    for (en, _, _, _) in ENTRIES:
        guard, pre, post = ent[en]
        out.append("  | %s => mk_efacts %s\n      [%s]\n      [%s]" % (
            en, ("(Some %s)" % coq_conds(guard)) if guard is not None else "None",
            ";\n       ".join(site(e) for e in pre), ";\n       ".join(site(e) for e in post)))
    out.append("  end.\n")
    out.append("Definition covered_fns : list (string * string) :=\n  [ " + ";\n    ".join(
        "(%s, %s)" % (coq_str(r), coq_str(f)) for (r, f) in sorted(covered)) + " ].\n")
    # ---- apply_config: is the handle's in-memory config replaced before or after it is stored
    csrc, (_, cb, ce) = find_fn(S, "commands/config.rs", "apply_config")
    cbody = csrc[cb:ce]
    saves = [m for m in re.finditer(r"(?<![\w.])save_config\s*\(", cbody)]
    if len(saves) != 1:
        raise ExtractError("apply_config: expected exactly one save_config call (found %d)" % len(saves))
    sv = saves[0]
    sv_end = match_brace(cbody, sv.end() - 1, "(", ")")
    after = cbody[sv_end + 1:].lstrip()
    before = cbody[:sv.start()].rstrip()
    fail_block = (0, 0)
    restricts = False
    if after.startswith("?"):
        pass                                   # shape A: `save_config(..)?;` - a failure leaves the handle as it is
    else:
        # shape B: `if let Err(e) = save_config(..) { <on failure> return Err(e); }`
        mh = re.search(r"if\s+let\s+Err\s*\(\s*(\w+)\s*\)\s*=\s*$", before)
        if not mh or not after.startswith("{"):
            raise ExtractError("apply_config: a failing save_config is neither propagated with `?` nor handled by `if let Err(e) = save_config(..) {..}`")
        bo = cbody.index("{", sv_end)
        bc = match_brace(cbody, bo)
        blk = " ".join(cbody[bo + 1:bc].split())
        fail_block = (bo, bc)
        if not re.search(r"return Err\(\s*%s\s*\);$" % re.escape(mh.group(1)), blk):
            raise ExtractError("apply_config: the failure branch of save_config does not end with `return Err(e);`")
        rest = re.sub(r"return Err\(\s*%s\s*\);$" % re.escape(mh.group(1)), "", blk).strip()
        if rest:
            mr = re.fullmatch(r"if (\w+) == Some\(true\) \{ let mut (\w+) = repo\.config\(\)\.clone\(\); \2\.append_only = Some\(true\); repo\.set_config\(\2\); \}", rest)
            if not mr:
                raise ExtractError("apply_config: failure branch of save_config has an unknown shape: " + rest[:120])
            md = re.search(r"let\s+%s\s*=\s*repo\.config\(\)\.append_only\s*;" % re.escape(mr.group(1)), cbody)
            first_set = re.search(r"\.set_config\s*\(", cbody)
            if not md or md.start() > sv.start() or (first_set and md.start() > first_set.start()):
                raise ExtractError("apply_config: `%s` is not the append_only flag of the config held before the change" % mr.group(1))
            restricts = True
    sets = [m.start() for m in re.finditer(r"\.set_config\s*\(", cbody) if not (fail_block[0] < m.start() < fail_block[1])]
    if len(sets) != 1:
        raise ExtractError("apply_config: expected exactly one set_config call outside the failure branch (found %d)" % len(sets))
    set_first = sets[0] < sv.start()
    out.append("(* commands/config.rs apply_config: `repo.set_config(new)` %s `save_config(..)`; on a failed save the handle %s *)" % (
        "precedes" if set_first else "follows", "keeps append_only = Some(true) if the previous config had it" if restricts else "is left as it is"))
    out.append("Definition config_set_before_save : bool := %s." % ("true" if set_first else "false"))
    out.append("Definition config_restricts_on_failure : bool := %s.\n" % ("true" if restricts else "false"))
    meta["config_set_before_save"] = set_first
    meta["config_restricts_on_failure"] = restricts
    # ---- Indexer (index/indexer.rs): when does it write an index file
    isrc, ifns = S.files.get("index/indexer.rs", (None, None))
    if isrc is None:
        raise ExtractError("source file missing: index/indexer.rs")
    maxc = int_expr(const_value(isrc, "MAX_COUNT"))
    def ibody(fn):
        _, (_, b, e) = find_fn(S, "index/indexer.rs", fn)
        return " ".join(isrc[b + 1:e].split())
    sv = ibody("save")
    msave = re.fullmatch(r"if \(self\.file\.packs\.len\(\) \+ self\.file\.packs_to_delete\.len\(\)\) > 0 \{ _ = self\.be\.save_file\(&self\.file\)\?; \} Ok\(\(\)\)", sv)
    if msave:
        save_needs_packs = True
    elif re.fullmatch(r"_ = self\.be\.save_file\(&self\.file\)\?; Ok\(\(\)\)", sv):
        save_needs_packs = False
    else:
        raise ExtractError("Indexer::save has an unknown shape: " + sv[:120])
    if ibody("finalize") != "self.save()":
        raise ExtractError("Indexer::finalize is no longer `self.save()`")
    aw = ibody("add_with")
    if not re.search(r"self\.count \+= pack\.blobs\.len\(\);", aw) or not re.search(r"self\.file\.add\(pack, delete\);", aw):
        raise ExtractError("Indexer::add_with no longer counts the blobs / adds the pack to the pending file")
    mth = re.search(r"if self\.count >= constants::MAX_COUNT \|\| elapsed >= constants::MAX_AGE \{ self\.save\(\)\?; self\.reset\(\); \} Ok\(\(\)\)$", aw)
    if not mth:
        raise ExtractError("Indexer::add_with: the self-save test `count >= MAX_COUNT || elapsed >= MAX_AGE { save; reset }` not found")
    # nothing else in add_with / add / add_remove may write
    for fn in ("add", "add_remove", "has", "reset"):
        b = ibody(fn)
        if re.search(r"save|write_bytes|\.be\.", b):
            raise ExtractError("Indexer::%s reaches the backend" % fn)
    # add_remove: either the thin wrapper, or (prune mark-time repair of C10) the variant that parks
    # the pack in `held_removals` until `release_removals` hands every parked pack to add_with; for the
    # model both are "an add" (immediately or at the release), and neither reaches the backend itself
    ar_thin = "self.add_with(pack, true)"
    ar_held = "if let Some(held) = &mut self.held_removals { held.push(pack); return Ok(()); } self.add_with(pack, true)"
    if ibody("add") != "self.add_with(pack, false)" or ibody("add_remove") not in (ar_thin, ar_held):
        raise ExtractError("Indexer::add / add_remove are no longer thin wrappers of add_with")
    if ibody("add_remove") == ar_held:
        hr, rr = ibody("hold_removals"), ibody("release_removals")
        if hr != "self.held_removals = Some(Vec::new());":
            raise ExtractError("Indexer::hold_removals has an unknown shape")
        if re.search(r"save|write_bytes|\.be\.", rr) or "self.add_with(pack, true)?;" not in rr or "self.held_removals.take()" not in rr:
            raise ExtractError("Indexer::release_removals no longer just hands the held packs to add_with")
    rs = ibody("reset")
    if "self.file = IndexFile::default();" not in rs or "self.count = 0;" not in rs:
        raise ExtractError("Indexer::reset no longer clears the pending file and the count")
    out.append("(* index/indexer.rs: add_with saves by itself once count >= MAX_COUNT (or MAX_AGE passed); finalize = save; save writes %s *)" % ("only a non-empty file" if save_needs_packs else "unconditionally"))
    out.append("Definition indexer_max_count : N := %d%%N." % maxc)
    out.append("Definition indexer_save_needs_packs : bool := %s.\n" % ("true" if save_needs_packs else "false"))
    meta["indexer_max_count"] = maxc
    out.append("(* blob/tree/modify.rs, rewrite.rs: every write of a TreeModifier / Rewriter is under `!self.dry_run`: %s *)" % (S.tm_reason or "verified shape"))
    out.append("Definition tree_modifier_dry_guarded : bool := %s.\n" % ("true" if S.tm_ok else "false"))
    meta["tree_modifier_dry_guarded"] = S.tm_ok
    # ---- does the dry-run flag of the entry point reach the callee unchanged (option structs that are
    # cloned / rebuilt on the way, plain `dry_run` arguments)
    out.append("Definition dry_flag_flow : list (string * bool) :=\n  [ " + ";\n    ".join(
        "(%s, %s)" % (coq_str(k), "true" if v else "false") for (k, v) in FLOW) + " ].\n")
    meta["dry_flag_flow"] = list(FLOW)
    # save_config: cold (authoritative) config first, then the hot copy
    ssrc, (_, sb, se) = find_fn(S, "commands/config.rs", "save_config")
    sbody = ssrc[sb:se]
    i1 = sbody.find("save_file_uncompressed"); i2 = sbody.find("save_config_hot")
    if i1 < 0 or i2 < 0:
        raise ExtractError("save_config: expected a save_file_uncompressed call and a save_config_hot call")
    out.append("Definition config_cold_before_hot : bool := %s.\n" % ("true" if i1 < i2 else "false"))
    out.append("Definition flag_names : list (N * string) :=\n  [ " + ";\n    ".join(
        "(%d%%N, %s)" % (v, coq_str(k)) for k, v in sorted(FLAGS.items(), key=lambda x: x[1])) + " ].\n")
    meta["flags"] = dict(FLAGS)
    meta["entries"] = {en: {"guard": g, "pre": [(e[1], e[2], e[3], e[4], e[5]) for e in pre],
                            "post": [(e[1], e[2], e[3], e[4], e[5]) for e in post]} for en, (g, pre, post) in ent.items()}
    return "\n".join(out) + "\n", meta


if __name__ == "__main__":
    repo = sys.argv[1] if len(sys.argv) > 1 else os.environ.get("VERIF_REPO", "/repo")
    txt, meta = gen(repo)
    sys.stdout.write(txt)
