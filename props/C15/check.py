"""C15 — append-only and dry-run modes never remove or overwrite stored data.
Stages: regenerate Extracted.v (DryRunBackend method shapes, trait-default routes, call-site
inventory, per-entry site tables); build + audit the Coq theorems; correspondence of the
extracted wrapper model with the real DryRunBackend (hook) on generated call sequences;
recorded traces of every public entry point on real repositories (append-only on / off,
dry-run on / off, scripted scenarios + random operation sequences) against the model's allowed
effect classes; oracle = no remove / no overwrite of snapshot, index, pack under append-only,
refusal before any storage call, no write and no remove at all under dry-run."""
import os, sys, json
import vlib
from vlib import ROOT, REPO, log

ENT = ["EBackup", "EForget", "EPrune", "ERepairIndex", "ERepairSnapshots", "ERewrite", "ERewriteTrees",
       "EApplyConfig", "EDeleteKey", "EAddKey", "ECopyInto", "EMerge", "ESaveSnapshots",
       "ERepairHotcold", "ERepairHotcoldPacks", "EInitHot"]
EIDX = {n: i for i, n in enumerate(ENT)}
PROTECTED = ("index", "snapshot", "pack")
HAS_DRY = ("backup", "repair_index", "repair_snapshots", "rewrite", "hotcold")


def run_lines(exe, lines, mode, tag, timeout=3000):
    path = os.path.join(vlib.BUILD, "C15", "in_%s_%d.txt" % (tag, os.getpid()))
    open(path, "w").write("\n".join(lines) + "\n")
    rc, out, err = vlib.sh2([exe, path, mode], timeout=timeout, inp="")     # empty stdin: `backup -` reads it
    os.remove(path)
    res = out.splitlines()
    if rc != 0 or len(res) != len(lines):
        raise RuntimeError("%s %s failed rc=%s (%d of %d lines)\n%s" % (exe, mode, rc, len(res), len(lines), err[-2000:]))
    return res


# ------------------------------------------------------------------ wrapper cases
def gen_wrap(rng):
    n = rng.choice([1, 2, 4, 8, 12])
    calls = []
    for _ in range(n):
        k = rng.choice(["wb", "wb", "rm", "rm", "cr", "hw", "hu", "sf", "su", "sl", "dl", "dl", "sz", "sv", "rf", "ls", "rp"])
        t = rng.randint(0, 4)
        i = rng.choice([1, 2, 3, 4, rng.randint(5, 900)])
        if k in ("wb", "rm", "rf", "rp"): calls.append("%s %d %d" % (k, t, i))
        elif k in ("hw", "hu", "ls"): calls.append("%s %d" % (k, t))
        elif k == "sf": calls.append("sf %d" % rng.randint(0, 99))
        elif k == "sl": calls.append("sl %d %d" % (rng.randint(0, 99), rng.choice([0, 1, 2, 5])))
        elif k == "dl":
            kk = rng.choice([0, 1, 2, 4])
            calls.append("dl %d %d %s" % (rng.choice([1, 3, 4]), kk, " ".join(str(rng.choice([1, 2, 3, 4, 700 + j])) for j in range(kk))))
        else: calls.append(k)
    return "%d %d %s" % (rng.randint(0, 1), n, " ".join(calls))


# ------------------------------------------------------------------ operation sequences
def op(name, flag=0, dry=0, variant=0):
    return (name, flag, dry, variant)


P3 = [op("backup"), op("backup"), op("backup")]
AO_ON, AO_OFF = op("config", 0, 0, 2), op("config", 0, 0, 1)


def scripted():
    """(label, hotcold, ops): every public entry point the property names, append-only on and
    off (control), dry-run on and off, after the damage that gives the repair commands work"""
    S = []
    S.append(("backup", 0, P3 + [AO_ON, op("backup"), op("backup", 0, 0, 1), op("backup", 1), op("backup", 0, 1), AO_OFF, op("backup", 0, 1)]))
    # every branch of backup (path source without / with parent / forced, stdin command, stdin) as a dry-run
    S.append(("backup-branches", 0, [op("backup"), op("backup", 0, 1, 0), op("backup", 0, 1, 1), op("backup", 1, 1, 1), op("backup", 0, 1, 2), op("backup", 0, 1, 3),
              op("backup", 1, 1, 2), op("backup", 0, 0, 2), op("backup", 0, 0, 3), op("backup", 0, 1, 2), op("backup", 0, 1, 3),
              AO_ON, op("backup", 0, 1, 2), op("backup", 0, 1, 3), op("backup", 0, 0, 2), op("backup", 0, 1, 1)]))
    S.append(("forget", 0, P3 + [AO_ON, op("forget", 0, 0, 0), op("forget", 0, 0, 1), op("forget", 0, 0, 2), AO_OFF, op("forget", 0, 0, 0)]))
    for k in range(7):
        S.append(("prune%d" % k, 0, P3 + [op("forget"), op("dmg_junkpack", 0, 0, k), AO_ON] + [op("prune", 0, 0, v) for v in range(7)]
                  + [AO_OFF, op("prune", 0, 0, k), op("prune", 0, 0, 5), AO_ON, op("prune", 0, 0, k)]))
    for dm in ("dmg_pack", "dmg_index"):
        S.append(("repair_index/" + dm, 0, P3 + [op(dm, 0, 0, 1), AO_ON] + [op("repair_index", f, d) for f in (0, 1) for d in (0, 1)]
                  + [AO_OFF, op("repair_index", 0, 1), op("repair_index", 1, 1), op("repair_index", 0, 0), op("repair_index", 1, 0)]))
    for v in (0, 2):
        S.append(("repair_snapshots%d" % v, 0, P3 + [op("dmg_pack", 0, 0, v), op("dmg_pack", 0, 0, v + 1), op("repair_index"), AO_ON,
                  op("repair_snapshots", 1, 0), op("repair_snapshots", 1, 1), op("repair_snapshots", 0, 1), op("repair_snapshots", 0, 0),
                  AO_OFF, op("repair_snapshots", 1, 1), op("repair_snapshots", 1, 0)]))
    S.append(("rewrite", 0, P3 + [AO_ON, op("rewrite", 1, 0, 0), op("rewrite", 1, 0, 1), op("rewrite", 1, 1, 0), op("rewrite", 0, 1, 0), op("rewrite", 0, 1, 1),
              op("rewrite", 0, 0, 2), op("rewrite", 0, 0, 1), AO_OFF, op("rewrite", 1, 1, 4), op("rewrite", 1, 0, 4), op("rewrite", 1, 0, 3)]))
    S.append(("config", 0, P3 + [AO_ON, op("config", 0, 0, 0), op("config", 0, 0, 2), op("config", 0, 0, 4), op("config", 0, 0, 5), op("config", 0, 0, 6),
              op("config", 0, 0, 3), op("config", 0, 0, 2), op("config", 0, 0, 1), op("config", 0, 0, 0), op("config", 0, 0, 1)]))
    S.append(("keys", 0, [op("backup"), AO_ON, op("add_key"), op("delete_key"), op("delete_key"), AO_OFF, op("delete_key")]))
    S.append(("copy-merge", 0, P3 + [AO_ON, op("copy", 0, 0, 1), op("copy", 0, 0, 0), op("merge"), op("save_snapshots", 0, 0, 1), op("save_snapshots", 0, 0, 1),
              AO_OFF, op("copy", 0, 0, 1), op("merge")]))
    S.append(("hotcold-missing", 1, P3 + [op("dmg_hot_missing", 0, 0, 1), AO_ON, op("hotcold", 0, 1), op("hotcold", 1, 1), op("hotcold", 0, 0), op("hotcold", 1, 0),
              op("dmg_cold_missing", 0, 0, 0), op("hotcold", 0, 1), op("hotcold", 0, 0), op("init_hot"), op("backup"), op("forget"), op("prune", 0, 0, 1), AO_OFF, op("hotcold", 0, 0)]))
    for f in (0, 1):
        S.append(("hotcold-truncated%d" % f, 1, P3 + [AO_ON, op("dmg_hot_truncate", f, 0, 1), op("hotcold", 0, 1), op("hotcold", 0, 0)]))
    S.append(("hotcold-ops", 1, P3 + [op("forget"), AO_ON, op("forget"), op("prune", 0, 0, 1), op("repair_index", 1, 0), op("rewrite", 1, 0, 0), op("rewrite", 0, 0, 0),
              op("config", 0, 0, 4), op("merge"), AO_OFF, op("prune", 0, 0, 5)]))
    # ---- storage faults inside apply_config: stored config vs. the config the handle holds
    P2 = [op("backup"), op("backup")]
    destructive_same = [op("h_forget", 0, 0, 0), op("h_prune", 0, 0, 1), op("h_repair_index", 1, 0), op("h_rewrite", 1, 0, 0),
                        op("h_repair_snapshots", 1, 0), op("h_config", 0, 0, 4)]
    destructive_fresh = [op("forget", 0, 0, 2), op("prune", 0, 0, 1), op("repair_index", 1, 0)]
    for mode, ks in ((1, (0, 1, 2, 3)), (0, (0, 2))):
        for k in ks:
            # enabling append-only fails at write k
            S.append(("config-fault-enable/%d/k%d" % (mode, k), mode, P2 + [op("config_fault", 0, 0, 10 * k + 2)] + destructive_same + destructive_fresh))
            # disabling it fails at write k
            S.append(("config-fault-disable/%d/k%d" % (mode, k), mode, P2 + [AO_ON, op("config_fault", 0, 0, 10 * k + 1)] + destructive_same[:2] + destructive_fresh[:2]))
            # another setting is changed on an append-only repository that is being switched off
            S.append(("config-fault-other/%d/k%d" % (mode, k), mode, P2 + [AO_ON, op("config_fault", 0, 0, 10 * k + 3), op("h_forget"), op("forget", 0, 0, 2)]))
    # a handle kept across operations without any fault behaves like a fresh one
    S.append(("kept-handle", 0, P2 + [op("keep"), op("h_config", 0, 0, 2), op("h_forget"), op("h_prune", 0, 0, 1), op("h_config", 0, 0, 1), op("h_forget")]))
    return S


def scripted_big():
    """one repository with more blobs (60 000) than the indexer holds before saving an index file by
    itself (50 000): dry-runs must stay silent also when many pack headers are re-read"""
    return [("many-blobs", 2, [op("bigbackup"), op("repair_index", 1, 1), op("repair_index", 0, 1), op("repair_snapshots", 0, 1), op("rewrite", 0, 1, 1),
                               op("bigbackup", 0, 1, 1), AO_ON, op("repair_index", 1, 1), op("prune", 0, 0, 0), op("bigbackup", 0, 1, 2), op("repair_snapshots", 1, 1)])]


NAMES = ["backup", "forget", "prune", "repair_index", "repair_snapshots", "rewrite", "config", "add_key", "delete_key",
         "copy", "merge", "save_snapshots"]


def random_seq(rng, hotcold):
    n = rng.randint(6, 12)
    ops = [op("backup"), op("backup")]
    for _ in range(n):
        r = rng.random()
        if r < 0.12:
            ops.append(rng.choice([AO_ON, AO_ON, AO_OFF]))
        elif r < 0.2:
            ops.append(op(rng.choice(["dmg_pack", "dmg_index", "dmg_junkpack"] + (["dmg_hot_missing", "dmg_hot_truncate"] if hotcold else [])), rng.randint(0, 1), 0, rng.randint(0, 5)))
        else:
            nm = rng.choice(NAMES + (["hotcold", "hotcold", "init_hot"] if hotcold else []))
            if nm in ("add_key", "delete_key") and rng.random() < 0.6:
                nm = "backup"     # key derivation is slow
            ops.append(op(nm, rng.randint(0, 1), rng.choice([0, 0, 1]), rng.randint(0, 6)))
    return ops


def impl_line(seed, hotcold, ops):
    return "%d %d %d %s" % (seed, hotcold, len(ops), " ".join("%s %d %d %d" % o for o in ops))


def model_line(mode, ops, flags):
    out = [str(mode), str(len(ops))]
    for (name, flag, dry, v) in ops:
        fl = {}
        if name.startswith("dmg_"):
            out.append("-1 0 0 0"); continue
        if name == "keep":
            out.append("-2 0 0 0"); continue
        on_kept, fault = 0, 0
        if name.startswith("h_"):
            name = name[2:]; on_kept = 1
        if name == "config_fault":
            # which part's write is hit -> position of the fault (cold is written first)
            fault = {0: 1, 1: 2, 2: 3, 3: 4}[v // 10]; v = v % 10; name = "config"
        if name in ("backup", "bigbackup"): e = "EBackup"; fl["dry_run"] = dry
        elif name == "forget": e = "EForget"
        elif name == "prune":
            e = "EPrune"; fl["instant_delete"] = int(v in (1, 2, 5)); fl["early_delete_index"] = int(v == 2)
        elif name == "repair_index": e = "ERepairIndex"; fl["dry_run"] = dry
        elif name == "repair_snapshots": e = "ERepairSnapshots"; fl["dry_run"] = dry; fl["delete"] = flag
        elif name == "rewrite": e = "ERewrite" if v % 2 == 0 else "ERewriteTrees"; fl["dry_run"] = dry; fl["forget"] = flag
        elif name == "config":
            e = "EApplyConfig"; fl["set_append_only_is_false"] = int(v in (1, 3)); fl["set_append_only_is_true"] = int(v == 2)
        elif name == "add_key": e = "EAddKey"
        elif name == "delete_key": e = "EDeleteKey"
        elif name == "copy": e = "ECopyInto"
        elif name == "merge": e = "EMerge"
        elif name == "save_snapshots": e = "ESaveSnapshots"
        elif name == "hotcold": e = "ERepairHotcoldPacks" if flag else "ERepairHotcold"; fl["dry_run"] = dry
        elif name == "init_hot": e = "EInitHot"
        else: raise RuntimeError("unknown op " + name)
        kv = [(flags[k], b) for k, b in fl.items() if k in flags]
        out.append("%d %d %d %d %s" % (EIDX[e], on_kept, fault, len(kv), " ".join("%d %d" % x for x in kv)))
    return " ".join(out)


def parse_impl_op(s):
    name, ao, res, lost, cls = s.strip().split(":", 4)
    d = {}
    if cls != "-":
        for c in cls.split(","):
            k, n = c.rsplit("*", 1)
            k = k.replace("cold.", "").replace("hot.", "")
            d[k] = d.get(k, 0) + int(n)
    return name, parse_views(ao), res, int(lost.split(",")[0].split("=")[1]), d


def late_writes(s):
    """storage calls that arrived after the operation had returned"""
    f = s.strip().split(":", 4)[3]
    return int(f.split("late=")[1]) if "late=" in f else 0


def parse_views(s):
    """'ao=1,c=1,h=-' -> dict(ao=1, c=1 or None, h=0/1 or None)"""
    d = {}
    for kv in s.split(","):
        k, v = kv.split("=")
        d[k] = int(v) if v in ("0", "1") else None
    d.setdefault("c", d.get("ao")); d.setdefault("h", None)
    return d


def class_allowed(c, model_cls):
    p = c.split(":")
    if p[0] == "W":
        return any(x in model_cls for x in ("W:" + p[1], "W:*", "A:" + p[1], "A:*"))
    return any(x in model_cls for x in ("R:" + p[1], "R:*"))


def run(ctx):
    rng = ctx.rng
    cov = ctx.coverage
    meta, err = vlib.regen_extracted("C15")
    r = vlib.proof_stage(ctx)
    if err:
        r["ok"] = False
        r["failures"].append("fact extraction from crates/core/src failed: " + err)
    cov["trusted_base"] += [
        "props/C15/extract.py (syntactic scanner: DryRunBackend method shapes, trait-default routes, call-site inventory, per-entry site order / enclosing conditions / guard position)",
        "harness/src/bin/c15.rs MapBackend (store with overwrite semantics), RecBackend log, effect classification new/same/over by comparing store content before and after",
    ]
    ctx.assumptions += [
        "hot/cold repair: replacing an incomplete hot copy by exactly the bytes of the cold file (class W:hot.<type>:resync) is not counted as replacing stored data - the cold part holds the stored file, the hot part a copy (this is what C16 requires of the repair); overwriting a cold file, or a hot file with bytes other than the cold file's, is",
        "names written through save_file / save_list / hash_write_full* / the packer are SHA-256 of the bytes written: a write to an existing name rewrites identical bytes (collision-freedom); observed: class W:<type>:same never W:<type>:over",
        "the command model is an over-approximation built from the syntactic inventory: every call site runs whenever its enclosing option / dry-run conditions hold, on names chosen by the environment; loops, early returns and data conditions are not interpreted (PARTIAL)",
        "Packer/BlobCopier/TreeModifier/Rewriter/Archiver and Indexer are sinks that only write packs and index files through blob/packer.rs FileWriterHandle::process and index/indexer.rs Indexer::save (checked: these are the only direct storage calls in those files; listed in the inventory)",
        "append_only_no_destruction needs the premise hotcold_missing_only for repair_hotcold / repair_hotcold_packs: the copied names are missing in the part written to (the commands have no append-only guard)",
        "key and config files are outside the property's file classes (delete_key has no guard; apply_config with set_append_only=false is the allowed way out)",
        "warm-up commands and the local cache are not modelled",
        "stored vs. handle config: a storage fault hits at most one config write of apply_config (nothing stored / stored then failure / stored but error reported); handles other than the one running the command are not covered (a handle opened earlier keeps its old config; a fresh handle of a hot/cold repository reads the hot copy - open finding hotcold-config-diverged-fresh-handle)",
        "Indexer model: pack adds carry only their blob count; MAX_AGE is an environment choice (`aged`); Packer-side buffering is not modelled (TreeModifier / Rewriter dry-run plumbing is verified syntactically by the extractor)",
    ]
    try:
        model = vlib.build_model("C15")
    except RuntimeError as e:
        model = None
        if r["ok"]:
            r["ok"] = False; r["failures"].append("extracted model no longer builds: " + str(e)[-500:])
    impl = vlib.build_harness("c15")
    flags = (meta or {}).get("flags", {})
    viol, mism, hist, samples = [], [], {}, []
    nontriv = set()

    # ---- 1. wrapper correspondence
    nwrap = 4000 if ctx.thorough() else 600
    wl = ["1 9 wb 3 5 rm 3 2 cr hw 1 hu 0 sf 1 su sl 2 3 dl 4 2 1 2", "0 9 wb 3 5 rm 3 2 cr hw 1 hu 0 sf 1 su sl 2 3 dl 4 2 1 2"]
    while len(wl) < nwrap:
        wl.append(gen_wrap(rng))
    wi = run_lines(impl, wl, "wrap", "w")
    wm = run_lines(model, wl, "wrap", "wm") if model else None
    for i, (c, a) in enumerate(zip(wl, wi)):
        dry = c.startswith("1")
        if a.strip() == "panic":
            viol.append(("DryRunBackend panics", {"case": c}, None)); continue
        muts = [x for x in a.replace(",", " ").split() if x[0] in "WR"]
        hist["wrap_dry" if dry else "wrap_live"] = hist.get("wrap_dry" if dry else "wrap_live", 0) + 1
        if dry and muts:
            viol.append(("a call through DryRunBackend with dry_run = true reaches the storage", {"mode": "wrap", "case": c, "inner_log": a}, None))
        if not dry and muts:
            nontriv.add(c)
        if wm is not None and wm[i] != a:
            mism.append(("wrapper", c, a, wm[i]))
    # ---- 1b. (thorough) sensitivity of the static obligations: textual mutants of the source
    if ctx.thorough() and r["ok"]:
        import importlib.util
        sp = importlib.util.spec_from_file_location("c15_mut", os.path.join(ctx.pdir, "mutation_probe.py"))
        mp = importlib.util.module_from_spec(sp); sp.loader.exec_module(mp)
        pr = mp.probe(REPO)
        cov["static_mutation_probe"] = {n: v for n, v in pr}
        cov["static_mutants_detected"] = "%d of %d (plus %d harmless edit(s) accepted)" % (
            sum(1 for n, v in pr if "harmless" not in n and (v.startswith("BROKEN") or v.startswith("extractor refuses"))),
            sum(1 for n, v in pr if "harmless" not in n),
            sum(1 for n, v in pr if "harmless" in n and v.startswith("all obligations")))
    # ---- 2. entry points on real repositories
    seqs = []
    nseeds = 3 if ctx.thorough() else 1
    for sd in range(nseeds):
        for (lab, hc, ops) in scripted():
            seqs.append((lab, rng.randint(1, 10 ** 9), hc, ops))
    for (lab, hc, ops) in scripted_big():
        seqs.append((lab, rng.randint(1, 10 ** 9), hc, ops))
    nrand = 120 if ctx.thorough() else 14
    for i in range(nrand):
        hc = 1 if rng.random() < 0.25 else 0
        seqs.append(("random", rng.randint(1, 10 ** 9), hc, random_seq(rng, hc)))
    if ctx.replay:
        rp = json.load(open(ctx.replay))
        w = rp.get("witness", {})
        if "impl_line" in w:
            t = w["impl_line"].split()
            ops = [(t[3 + 4 * i], int(t[4 + 4 * i]), int(t[5 + 4 * i]), int(t[6 + 4 * i])) for i in range(int(t[2]))]
            seqs = [("replay", int(t[0]), int(t[1]), ops)]
    il = [impl_line(sd, hc, ops) for (_, sd, hc, ops) in seqs]
    log("C15: %d operation sequences, %d operations" % (len(seqs), sum(len(s[3]) for s in seqs)))
    io = run_lines(impl, il, "seq", "s", timeout=6000)
    mo = run_lines(model, [model_line(hc, ops, flags) for (_, _, hc, ops) in seqs], "seq", "sm") if (model and meta) else None
    nops = 0
    seen_model_cls = {}
    for si, ((lab, sd, hc, ops), out) in enumerate(zip(seqs, io)):
        if out.startswith("setup-failed") or out.strip() == "panic":
            viol.append(("harness could not build the repository", {"impl_line": il[si], "out": out}, None)); continue
        parts = out.split(" ; ")
        mparts = mo[si].split(" ; ") if mo else [None] * len(parts)
        if len(parts) != len(ops):
            viol.append(("harness output malformed", {"impl_line": il[si], "out": out}, None)); continue
        for k, (o, ps) in enumerate(zip(ops, parts)):
            name, views, res, lost, cls = parse_impl_op(ps)
            nops += 1
            if name.startswith("dmg_") or name == "keep":
                continue
            # the repository is marked append-only iff its stored (cold, authoritative) config says so;
            # `ao` below: the stored flag, or the flag the executing handle believes in
            on_kept = name.startswith("h_")
            stored = views["c"] if views["c"] is not None else views["ao"]
            believed = views["h"] if (on_kept and views["h"] is not None) else views["ao"]
            ao = 1 if (stored or believed) else 0
            if on_kept:
                name = name[2:]
            if name in ("config_fault", "bigbackup"):
                name = {"config_fault": "config", "bigbackup": "backup"}[name]
            key = "%s%s%s" % (name, "/ao" if ao else "", "/dry" if (o[2] and name in HAS_DRY) else "")
            hist[key + ":" + res] = hist.get(key + ":" + res, 0) + 1
            wit = {"impl_line": il[si], "scenario": lab, "op_index": k, "op": list(o), "observed": ps,
                   "how_to_replay": "echo '<impl_line>' | .cache/target*/debug/c15 - seq   (format: harness/src/bin/c15.rs)"}
            sig = None
            if name == "hotcold" and any(x[0] == "dmg_hot_truncate" for x in ops[:k]):
                sig = "hotcold-repair-size-mismatch"
            faults = [x for x in ops[:k + 1] if x[0] == "config_fault"]
            if stored and not believed and faults:
                if on_kept and faults[-1][3] % 10 in (1, 3):
                    sig = "config-disable-failed-handle-unlocked"
                elif not on_kept and hc == 1 and views["ao"] == 0:
                    sig = "hotcold-config-diverged-fresh-handle"
            # ---- oracle
            destroyed = [c for c in cls if (c.startswith("R:") and c.split(":")[1] in PROTECTED) or (c.startswith("W:") and c.endswith(":over") and c.split(":")[1] in PROTECTED)]
            if stored and (destroyed or lost):
                viol.append(("an operation on a repository whose stored config is append-only removed or replaced a stored snapshot/index/pack file (%s%s)" % (
                    name, "" if believed else ", the handle's config says otherwise"), wit, sig))
            if res == "refused" and cls:
                viol.append(("an operation refused for append-only touched the storage before failing (%s)" % name, wit, sig))
            if res == "panic":
                viol.append(("operation panics (%s)" % name, wit, sig))
            if o[2] and name in HAS_DRY and (cls or lost):
                lw = late_writes(ps)
                if lw:
                    wit = dict(wit, storage_calls_after_the_command_returned=lw)
                viol.append(("a dry-run of %s wrote to or removed from the repository%s" % (name, " after it returned (detached writer thread)" if lw else ""), wit, sig))
            if any(c.endswith(":over") and c.split(":")[1] in PROTECTED for c in cls) and not stored:
                # replacing a content-addressed file with other bytes is never intended
                viol.append(("a stored snapshot/index/pack file was replaced by different bytes (%s)" % name, wit, sig))
            if ao and (res == "refused" or cls):
                nontriv.add((name, o[1], o[2], o[3], res, tuple(sorted(cls))))
            # ---- correspondence with the model
            if mo:
                mp = mparts[k].split(":", 2)
                m_views, m_res, m_cls = parse_views(mp[0]), mp[1], ([] if mp[2] == "-" else mp[2].split(","))
                if any(m_views[x] != views[x] for x in ("ao", "c", "h") if views[x] is not None or x == "h"):
                    mism.append(("append_only state (fresh view / stored cold / kept handle)", il[si], ps, mparts[k], k))
                # an `err` (e.g. a damaged file made the preparation fail before the guard was reached)
                # is compatible with a modelled refusal as long as nothing touched the storage
                if (res == "refused" and m_res != "refused") or (res in ("ok", "panic") and m_res == "refused"):
                    mism.append(("refusal", il[si], ps, mparts[k], k))
                for c in cls:
                    if m_res == "refused" or not class_allowed(c, m_cls):
                        mism.append(("effect class %s not in the model's table" % c, il[si], ps, mparts[k], k))
                    else:
                        seen_model_cls.setdefault(name, set()).add(c.rsplit(":", 1)[0] if c.startswith("W:") else c)
            # the indexer's self-save threshold, observed: a backup of 60 000 + a few blobs writes as many
            # index files as the extracted Indexer model (MAX_COUNT from the source) predicts
            if model and o[0] == "bigbackup" and not o[2] and res == "ok" and k == 0:
                pred = int(run_lines(model, ["61 " + " ".join(["1000"] * 60) + " 3 1"], "ix", "ix")[0])
                cov["indexer_files_predicted_vs_observed"] = [pred, cls.get("W:index:new", 0)]
                if pred != cls.get("W:index:new", 0):
                    mism.append(("index files written by a backup of 60 000 blobs (Indexer model predicts %d)" % pred, il[si], ps, "ix_run", k))
            if len(samples) < 6 and ao and (res == "refused" or cls) and name not in [s["op"][0] for s in samples]:
                samples.append({"op": list(o), "impl": ps, "model": mparts[k]})
    cov.update({
        "evaluations": len(wl) + nops, "distinct_nontrivial": len(nontriv),
        "rule": "wrapper: call sequences (own + trait-default methods, all file types, existing / missing names) x dry_run; repositories: %d scripted scenarios per seed (every named entry point x append-only on/off x dry-run x option variants, after the damage that gives repair commands work; hot/cold incl. missing and truncated hot files) + random sequences of 8-14 public operations with config toggles and damage; non-trivial = wrapper case with dry_run=false that reaches storage, or an operation under append-only that was refused or produced storage effects; distinct by (op, options, result, effect classes) / case text" % len(scripted()),
        "samples": samples, "distribution": hist,
        "entry_points_exercised": sorted(set(k.split("/")[0].split(":")[0] for k in hist if not k.startswith("wrap"))),
        "effect_classes_observed_per_op": {k: sorted(v) for k, v in seen_model_cls.items()},
        "traces_validated_against_impl": len(wl) + len(seqs), "operations_run": nops,
        "disagreements_checked": len(mism) + len(viol), "model_impl_mismatches": len(mism), "oracle_violations": len(viol),
        "entry_table": (meta or {}).get("entries"),
    })
    rerun_cache = {}

    def reproduces(line, k, observed):
        # each sequence is re-run at most twice, whatever the number of findings on it; at most 40
        # sequences are re-run (keeps a run with a broken obligation bounded)
        if line not in rerun_cache:
            if len(rerun_cache) >= 40:
                return True
            rerun_cache[line] = [run_lines(impl, [line], "seq", "c")[0].split(" ; ") for _ in range(2)]
        for o2 in rerun_cache[line]:
            # same result and same effect classes (counts of packs / index files may differ between runs)
            def shape(x):
                _, _, res, lost, cls = parse_impl_op(x)
                return (res, lost > 0, sorted(cls))
            if k >= len(o2) or shape(o2[k]) != shape(observed):
                return False
        return True
    kept = []
    for m in mism:
        if len(m) == 5 and not reproduces(m[1], m[4], m[2]):
            hist["unconfirmed_mismatch_dropped"] = hist.get("unconfirmed_mismatch_dropped", 0) + 1
            continue
        kept.append(m)
    mism = kept
    cov["model_impl_mismatches"] = len(mism)
    # confirm: a violation seen on a repository trace must reproduce when its sequence is run alone
    # (a failed operation can leave writer threads behind whose late write lands in a later window)
    confirmed = []
    for what, wit, sig in viol:
        if "impl_line" in wit and "op_index" in wit:
            if not reproduces(wit["impl_line"], wit["op_index"], wit["observed"]):
                hist["unconfirmed_violation_dropped"] = hist.get("unconfirmed_violation_dropped", 0) + 1
                cov.setdefault("unconfirmed_dropped", []).append({"what": what, "scenario": wit.get("scenario"), "op": wit.get("op"), "observed": wit.get("observed"), "impl_line": wit.get("impl_line")})
                continue
        confirmed.append((what, wit, sig))
    viol = confirmed
    cov["oracle_violations"] = len(viol)
    seen = set()
    for what, wit, sig in viol:
        if (what, sig) in seen: continue
        seen.add((what, sig))
        ctx.violation(what, wit, signature=sig)
    if mism and not [v for v in viol if v[2] is None]:
        ctx.violation("correspondence broken: the model's entry table / wrapper model disagrees with the implementation (%d cases, first: %s) although no removal / overwrite / dry-run write was observed" % (len(mism), mism[0][0]),
                      {"correspondence": "props/C15 Model (dr_call / allowed) vs real DryRunBackend / public entry points", "first": {"kind": mism[0][0], "case": mism[0][1], "impl": mism[0][2], "model": mism[0][3]}}, no_input=True)
    vlib.finish_broken_obligations(ctx)
