(* prelude: n nat *)
(* C03 driver.  A case line (integers):
     <cmd> <early_delete_index> <instant_delete>      command whose REGENERATED phase order the log is
                                                     segmented along (0 backup 1 copy 2 merge 3 rewrite_trees
                                                     4 rewrite_meta 5 repair_snapshots 6 repair_index 7 forget
                                                     8 prune 9 config 10 key_add 11 key_delete)
     <npacks> { pid nb {t id}* }*
     <nidx>   { iid ne { pack marked nb {t id}* }* }*
     <nsnaps> { sid nn {t id}* }*
     <nops>   { 0 0 id nb {t id}*            write pack
              | 0 1 id ne { pack marked nb {t id}* }*   write index file
              | 0 2 id nn {t id}*            write snapshot
              | 0 3 id                       write key/config
              | 1 ft id }*                   remove (ft: 0 pack 1 index 2 snapshot 3 other)
   Output: `disc=<b> bad=<k|-1> inv0=<b> conf=<b> fam=<1|2|3> order_ok=<b> hyps=<b> frags=<n1/n2/..>
   P0 sid:c:l,.. P1 .. ... Pn ..`: conf = the log is a concatenation of fragments along the phase order
   (extracted `segment`), order_ok = the order is a safe one (extracted order_ok1/2/other), hyps = the
   end-state hypotheses of command_order_in_discipline_<cmd> hold (extracted checks); and after every prefix k and
   for every present snapshot: c = closed (extracted closedb), l = it existed in the start
   state and every blob of it readable there is still readable (extracted avail). *)
let bt_of = function 0 -> Data | _ -> Tree
let rd_blobs t = let n = ni t in ntimes n (fun () -> let ty = bt_of (ni t) in let i = n_of_int (ni t) in (ty, i))
let rd_entries t =
  let n = ni t in
  ntimes n (fun () -> let p = n_of_int (ni t) in let m = ni t <> 0 in let bl = rd_blobs t in
                      { ip_pack = p; ip_marked = m; ip_blobs = bl })
let rd_op t =
  match ni t with
  | 0 -> (match ni t with
          | 0 -> let id = n_of_int (ni t) in Write (FPack, id, PPack (rd_blobs t))
          | 1 -> let id = n_of_int (ni t) in Write (FIndex, id, PIndex (rd_entries t))
          | 2 -> let id = n_of_int (ni t) in Write (FSnap, id, PSnap (rd_blobs t))
          | _ -> let id = n_of_int (ni t) in Write (FOther, id, POther))
  | _ -> let ft = (match ni t with 0 -> FPack | 1 -> FIndex | 2 -> FSnap | _ -> FOther) in
         let id = n_of_int (ni t) in Remove (ft, id)

let snap_report s0 s =
  String.concat "," (List.map (fun (id, n) ->
      let c = closedb s n in
      let old = List.exists (fun (id', n') -> id' = id && n' = n) s0.snaps in
      let l = old && List.for_all (fun b -> (not (avail s0 b)) || avail s b) n in
      Printf.sprintf "%d:%d:%d" (int_of_n id) (if c then 1 else 0) (if l then 1 else 0)) s.snaps)

let order_of cmd early instant =
  match cmd with
  | 0 -> (1, order_backup) | 1 -> (1, order_copy) | 2 -> (1, order_merge)
  | 3 -> (1, order_rewrite_trees) | 4 -> (1, order_rewrite_meta) | 5 -> (1, order_repair_snapshots)
  | 6 -> (2, order_repair_index) | 7 -> (1, order_forget) | 8 -> (2, order_prune early instant)
  | 9 -> (3, order_config) | 10 -> (3, order_key_add) | _ -> (3, order_key_delete)

let run line =
  let t = toks line in
  let cmd = ni t in
  let early = ni t <> 0 in
  let instant = ni t <> 0 in
  let np = ni t in
  let packs = ntimes np (fun () -> let id = n_of_int (ni t) in (id, rd_blobs t)) in
  let nx = ni t in
  let idxs = ntimes nx (fun () -> let id = n_of_int (ni t) in (id, rd_entries t)) in
  let ns = ni t in
  let snaps = ntimes ns (fun () -> let id = n_of_int (ni t) in (id, rd_blobs t)) in
  let s0 = { packs = packs; idxs = idxs; snaps = snaps } in
  let nops = ni t in
  let ops = ntimes nops (fun () -> rd_op t) in
  let disc = discipline_ok s0 ops in
  let bad = match first_bad s0 ops O with None -> -1 | Some k -> int_of_nat k in
  let buf = Buffer.create 256 in
  Buffer.add_string buf (Printf.sprintf "disc=%b bad=%d inv0=%b" disc bad (invb s0));
  let (fam, ps) = order_of cmd early instant in
  let ook = (match fam with 1 -> order_ok1 ps | 2 -> order_ok2 ps | _ -> order_ok_other ps) in
  (match segment ps ops with
   | None -> Buffer.add_string buf (Printf.sprintf " conf=false fam=%d order_ok=%b hyps=false frags=-" fam ook)
   | Some frags ->
     let log = List.concat frags in
     let hyps = (match fam with
         | 1 -> freshb s0 log && written_snaps_closed s0 log
         | 2 -> freshb s0 log && unindexed_unlisted s0 (unindexed_frag ps frags) && needed_kept s0 log
                && removed_packs_unlisted s0 log
         | _ -> true) in
     Buffer.add_string buf (Printf.sprintf " conf=true fam=%d order_ok=%b hyps=%b frags=%s" fam ook hyps
                              (String.concat "/" (List.map (fun f -> string_of_int (List.length f)) frags))));
  let s = ref s0 in
  Buffer.add_string buf (" P0 " ^ snap_report s0 !s);
  List.iteri (fun k o -> s := apply_op !s o;
               Buffer.add_string buf (Printf.sprintf " P%d %s" (k + 1) (snap_report s0 !s))) ops;
  Buffer.contents buf

let () = main_loop run
