(* prelude: n nat *)
(* C03 driver.  A case line (integers):
     <npacks> { pid nb {t id}* }*
     <nidx>   { iid ne { pack marked nb {t id}* }* }*
     <nsnaps> { sid nn {t id}* }*
     <nops>   { 0 0 id nb {t id}*            write pack
              | 0 1 id ne { pack marked nb {t id}* }*   write index file
              | 0 2 id nn {t id}*            write snapshot
              | 0 3 id                       write key/config
              | 1 ft id }*                   remove (ft: 0 pack 1 index 2 snapshot 3 other)
   Output: `disc=<b> bad=<k|-1> P0 sid:c:l,.. P1 .. ... Pn ..` where after every prefix k and
   for every present snapshot: c = closed (extracted closedb), l = it existed in the start
   state and every blob of it readable there is still readable (extracted avail). *)
let bt_of = function 0 -> Data | _ -> Tree
let rd_blobs t = let n = ni t in ntimes n (fun () -> let ty = bt_of (ni t) in let i = n_of_int (ni t) in (ty, i))
let rd_entries t =
  let n = ni t in
  ntimes n (fun () -> let p = n_of_int (ni t) in let m = ni t <> 0 in let bl = rd_blobs t in
                      { ip_pack = p; ip_marked = m; ip_blobs = bl })
let rd_op t =
  match ni t with
  | 0 -> (match ni t with
          | 0 -> let id = n_of_int (ni t) in Write (FPack, id, PPack (rd_blobs t))
          | 1 -> let id = n_of_int (ni t) in Write (FIndex, id, PIndex (rd_entries t))
          | 2 -> let id = n_of_int (ni t) in Write (FSnap, id, PSnap (rd_blobs t))
          | _ -> let id = n_of_int (ni t) in Write (FOther, id, POther))
  | _ -> let ft = (match ni t with 0 -> FPack | 1 -> FIndex | 2 -> FSnap | _ -> FOther) in
         let id = n_of_int (ni t) in Remove (ft, id)

let snap_report s0 s =
  String.concat "," (List.map (fun (id, n) ->
      let c = closedb s n in
      let old = List.exists (fun (id', n') -> id' = id && n' = n) s0.snaps in
      let l = old && List.for_all (fun b -> (not (avail s0 b)) || avail s b) n in
      Printf.sprintf "%d:%d:%d" (int_of_n id) (if c then 1 else 0) (if l then 1 else 0)) s.snaps)

let run line =
  let t = toks line in
  let np = ni t in
  let packs = ntimes np (fun () -> let id = n_of_int (ni t) in (id, rd_blobs t)) in
  let nx = ni t in
  let idxs = ntimes nx (fun () -> let id = n_of_int (ni t) in (id, rd_entries t)) in
  let ns = ni t in
  let snaps = ntimes ns (fun () -> let id = n_of_int (ni t) in (id, rd_blobs t)) in
  let s0 = { packs = packs; idxs = idxs; snaps = snaps } in
  let nops = ni t in
  let ops = ntimes nops (fun () -> rd_op t) in
  let disc = discipline_ok s0 ops in
  let bad = match first_bad s0 ops O with None -> -1 | Some k -> int_of_nat k in
  let buf = Buffer.create 256 in
  Buffer.add_string buf (Printf.sprintf "disc=%b bad=%d inv0=%b" disc bad (invb s0));
  let s = ref s0 in
  Buffer.add_string buf (" P0 " ^ snap_report s0 !s);
  List.iteri (fun k o -> s := apply_op !s o;
               Buffer.add_string buf (Printf.sprintf " P%d %s" (k + 1) (snap_report s0 !s))) ops;
  Buffer.contents buf

let () = main_loop run
