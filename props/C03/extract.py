"""C03 fact extractor: regenerates props/C03/coq/Extracted.v — for every repository-changing
command the TEXTUAL order of the storage-effect call sites of its function, as a list of phase
tokens (props/C03/coq/Order.v), and for prune the option guards of the index / pack removals.

Sources: archiver.rs (Archiver::archive), commands/{copy,merge,rewrite,prune,config,key}.rs,
commands/repair/{snapshots,index}.rs, blob/tree/{modify,rewrite}.rs, repository.rs
(save_snapshots, delete_snapshots, delete_key).

Every call site whose method name is in the storage-effect inventory (save_file*, save_list,
delete_list, write_bytes, remove(FileType::..), finalize, save_snapshots, delete_snapshots, ...)
must be classified by receiver / argument, otherwise ExtractError (fails loudly: the obligation
`command_order_in_discipline_*` is then reported broken).  Pure shape expectations from which no
fact is generated are soft pins (meta["soft_pin_misses"])."""
import re, sys, os
sys.path.insert(0, os.path.join(os.path.dirname(__file__), "..", "..", "lib"))
from rustscan import *

SOFT_MISSES = []


def pin(pat, src, what, flags=re.S):
    if not re.search(pat, src, flags):
        SOFT_MISSES.append(what)


FILES = {
    "archiver": "crates/core/src/archiver.rs",
    "copy": "crates/core/src/commands/copy.rs",
    "merge": "crates/core/src/commands/merge.rs",
    "rewrite": "crates/core/src/commands/rewrite.rs",
    "prune": "crates/core/src/commands/prune.rs",
    "config": "crates/core/src/commands/config.rs",
    "key": "crates/core/src/commands/key.rs",
    "repair_snapshots": "crates/core/src/commands/repair/snapshots.rs",
    "repair_index": "crates/core/src/commands/repair/index.rs",
    "modify": "crates/core/src/blob/tree/modify.rs",
    "tree_rewrite": "crates/core/src/blob/tree/rewrite.rs",
    "repository": "crates/core/src/repository.rs",
}

# method names that (can) reach the storage backend; every occurrence must be classified
INVENTORY = re.compile(
    r"(?:\.\s*(save_file\w*|save_list|delete_list|write_bytes|remove|finalize|save_snapshots|delete_snapshots|"
    r"modify_tree|rewrite_tree|copy|copy_fast|add|add_with|add_remove|process)\s*\(|"
    r"(?<![\w:.])(process_snapshots|merge_trees|copy_blobs|save_config|save_config_hot|add_key_to_repo|add_current_key_to_repo)\s*\()")

RECV = re.compile(r"((?:[A-Za-z_]\w*)(?:\s*\.\s*[A-Za-z_]\w*(?:\(\))?)*)\s*$")

PACKERS = {"self.file_archiver", "self.tree_archiver", "tree_repacker", "data_repacker", "repacker", "copier", "packer", "self.packer"}
INDEXERS = {"indexer", "indexer.write().unwrap()", "self.indexer.write().unwrap()"}


class Ctx:
    def __init__(self, repo):
        self.repo = repo
        self.src = {k: strip_comments(read(repo, v)) for k, v in FILES.items()}
        self.sites = []     # (command, file, method, receiver, phase tokens) for the evidence
        self.prop = {}      # command -> [(file, method, propagated?)]

    def body(self, fkey, fn, nth=0):
        return fn_body(self.src[fkey], fn, nth)


def first_arg(body, pos):
    """text of the argument list starting at the '(' at pos-1"""
    e = match_brace(body, pos - 1, "(", ")")
    return " ".join(body[pos:e].split())


def classify(ctx, cmd, fkey, body, m, depth):
    """-> list of (phase, pos) for one inventory match; [] = recognised as not reaching storage"""
    meth = m.group(1) or m.group(2)
    args = first_arg(body, m.end())
    recv = ""
    if m.group(1):
        r = RECV.search(body[:m.start()].rstrip())
        recv = re.sub(r"\s+", "", r.group(1)) if r else ""
    here = lambda ph: [(ph, m.start())]
    def callee(fk, fn, nth=0):
        if depth > 4:
            raise ExtractError("call expansion too deep at %s in %s" % (meth, cmd))
        return [(ph, m.start()) for ph, _ in effects(ctx, cmd, fk, ctx.body(fk, fn, nth), depth + 1)]
    if meth == "finalize":
        if recv in ("summary", "self.summary") or args:
            if recv in ("self.tree_archiver",):
                return here("PhPacks")
            if recv.endswith("summary"):
                return []                       # SnapshotSummary::finalize(&time): no storage effect
        if recv in INDEXERS:
            return here("PhIndex")
        if recv in PACKERS:
            return here("PhPacks")
        if recv in ("modifier", "self.modifier"):
            return callee("modify", "finalize")
        if recv == "rewriter":
            return callee("tree_rewrite", "finalize")
        raise ExtractError("%s: finalize() on unrecognised receiver `%s`" % (cmd, recv))
    if meth in ("save_file", "save_file_uncompressed"):
        a = args.lstrip("&")
        if "snap" in a:
            return here("PhSaveSnaps")
        if "index" in a:
            return here("PhIndex")
        if "config" in a:
            return here("PhOther")
        raise ExtractError("%s: save_file of unrecognised value `%s`" % (cmd, args))
    if meth == "save_list":
        if args.startswith("snaps"):
            return here("PhSaveSnaps")
        raise ExtractError("%s: save_list of unrecognised list `%s`" % (cmd, args))
    if meth == "save_snapshots":
        pin(r"save_list\(\s*snaps\.iter\(\)", ctx.body("repository", "save_snapshots"), "Repository::save_snapshots = dbe().save_list(snaps.iter(), ..)")
        return here("PhSaveSnaps")
    if meth == "delete_snapshots":
        return callee("repository", "delete_snapshots")
    if meth == "delete_list":
        second = args.split(",", 1)[1].strip() if "," in args else ""
        if second.startswith("state.delete.iter()") or second.startswith("ids.iter()"):
            return here("PhDelSnaps")
        if second.startswith("indexes_remove.iter()"):
            return here("PhRmIndex")
        if second.startswith("data_packs_remove.iter()") or second.startswith("tree_packs_remove.iter()"):
            return here("PhRmPacks")
        if second.startswith("existing_packs.iter()"):
            return here("PhRmUnindexed")
        raise ExtractError("%s: delete_list of unrecognised list `%s`" % (cmd, second))
    if meth == "remove":
        if args.startswith("FileType::Index"):
            return here("PhRmIndex")
        if args.startswith("FileType::Key"):
            return here("PhOther")
        if args.startswith("FileType::"):
            raise ExtractError("%s: backend remove of unrecognised file type `%s`" % (cmd, args))
        return []                               # map/set removal, not a backend call
    if meth == "write_bytes":
        if args.startswith("FileType::Key"):
            return here("PhOther")
        raise ExtractError("%s: write_bytes of unrecognised file type `%s`" % (cmd, args))
    # streaming call sites: the packer / indexer may write while it is being fed
    if meth in ("modify_tree", "rewrite_tree"):
        return here("PhPacks") if recv in ("modifier", "self.modifier", "rewriter", "self") else []
    if meth in ("copy", "copy_fast"):
        return here("PhPacks") if recv in PACKERS else []
    if meth == "process":
        return here("PhPacks") if recv == "self.file_archiver" else []
    if meth == "add":
        if recv in PACKERS:
            return here("PhPacks")
        if recv in INDEXERS:
            return here("PhIndex")
        return []
    if meth in ("add_with", "add_remove"):
        return here("PhIndex") if recv in INDEXERS else []
    # callees in the same crate
    if meth == "process_snapshots":
        return callee("rewrite", "process_snapshots")
    if meth == "merge_trees":
        return callee("merge", "merge_trees")
    if meth == "copy_blobs":
        return callee("copy", "copy_blobs")
    if meth == "save_config":
        return callee("config", "save_config")
    if meth == "save_config_hot":
        return callee("config", "save_config_hot")
    if meth in ("add_key_to_repo", "add_current_key_to_repo"):
        return callee("key", "add_key_to_repo")
    raise ExtractError("%s: unclassified storage call %s" % (cmd, meth))


def propagated(body, m):
    """Does the result of the call matched by m reach the caller's result?  Yes when the call (after
    optional `.method(..)` adaptors such as map_err / map / into) is followed by `?`, or is the tail
    expression of its function / closure / match arm (next token `}` `)` or `,`).  `;` right after the
    call, `_ = call;`, `if let Err(..) = call` etc. = the result is dropped."""
    e = match_brace(body, m.end() - 1, "(", ")") + 1
    while True:
        rest = body[e:].lstrip()
        off = len(body) - len(rest)
        if rest.startswith("?"):
            return True
        mm = re.match(r"\.\s*[A-Za-z_]\w*\s*(::<[^>]*>)?\s*\(", rest)
        if mm:
            e = match_brace(body, off + mm.end() - 1, "(", ")") + 1
            continue
        if rest == "" or rest[:1] in ("}", ")", ","):
            return True
        # `if let Err(e) = call { ..; return Err(e); }`
        pm = re.search(r"if\s+let\s+Err\(\s*(\w+)\s*\)\s*=\s*[^;{}]*$", body[:m.start()])
        if pm and rest.startswith("{"):
            blk = body[off + 1:match_brace(body, off)]
            return bool(re.search(r"return\s+Err\(\s*%s\s*\)" % re.escape(pm.group(1)), blk))
        return False


def effects(ctx, cmd, fkey, body, depth=0):
    out = []
    for m in INVENTORY.finditer(body):
        # definitions (fn merge_trees(..)) and path-qualified calls (tree::merge_trees) are not call sites of ours
        pre = body[max(0, m.start() - 4):m.start()]
        if m.group(2) and re.search(r"\bfn\s*$", body[max(0, m.start() - 6):m.start()]):
            continue
        res = classify(ctx, cmd, fkey, body, m, depth)
        if res:
            # error propagation of THIS call site (leaf or call of an expanded callee)
            ctx.prop.setdefault(cmd, []).append((FILES[fkey], (m.group(1) or m.group(2)), propagated(body, m)))
        if depth == 0:
            ctx.sites.append({"command": cmd, "file": FILES[fkey], "call": (m.group(1) or m.group(2)),
                              "phases": [p for p, _ in res]})
        out += res
    return out


# ---------------------------------------------------------------- guards (prune)

def enclosing_conditions(body, pos):
    """conditions of the `if` / `else` blocks enclosing position pos (outermost first)"""
    stack, i, n = [], 0, len(body)
    while i < pos:
        c = body[i]
        if c == "{":
            j = i - 1
            while j >= 0 and body[j] not in ";{}":
                j -= 1
            head = " ".join(body[j + 1:i].split())
            if j >= 0 and body[j] == "}" and head.startswith("else"):
                # else / else if: find the condition of the matching if
                prev = stack_closed[-1] if stack_closed else None
                neg = ("!(%s)" % prev) if prev else None
                if head.startswith("else if "):
                    stack.append(("if", head[8:].strip()))   # ignoring the negation of earlier branches
                else:
                    stack.append(("else", neg))
            elif head.startswith("if ") or re.search(r"(^|[=\s(])if\s", head):
                cond = head[head.rfind("if ") + 3:].strip() if not head.startswith("if ") else head[3:].strip()
                stack.append(("if", cond))
            else:
                stack.append(("blk", None))
        elif c == "}":
            k, cond = stack.pop()
            stack_closed.append(cond if k == "if" else None)
        i += 1
    return [cond for k, cond in stack if k in ("if", "else") and cond]


stack_closed = []

FLAGS = ("early_delete_index", "instant_delete")


def parse_bool(expr, local):
    """Rust boolean expression over opts.<flag>, local variables, !, &&, ||, parentheses -> Coq term"""
    toks = re.findall(r"&&|\|\||!|\(|\)|[A-Za-z_][\w.]*", expr)
    if "".join(toks) != re.sub(r"\s+", "", expr):
        raise ExtractError("guard not understood: `%s`" % expr)
    pos = [0]
    def peek():
        return toks[pos[0]] if pos[0] < len(toks) else None
    def eat():
        pos[0] += 1
        return toks[pos[0] - 1]
    def atom():
        t = eat()
        if t == "!":
            return "(negb %s)" % atom()
        if t == "(":
            r = disj()
            if eat() != ")":
                raise ExtractError("guard not understood: `%s`" % expr)
            return r
        if t.startswith("opts.") and t[5:] in FLAGS:
            return t[5:]
        if t in local:
            return local[t]
        raise ExtractError("guard mentions `%s`, which is neither an option flag nor a known local" % t)
    def conj():
        r = atom()
        while peek() == "&&":
            eat()
            r = "(%s && %s)" % (r, atom())
        return r
    def disj():
        r = conj()
        while peek() == "||":
            eat()
            r = "(%s || %s)" % (r, conj())
        return r
    r = disj()
    if pos[0] != len(toks):
        raise ExtractError("guard not understood: `%s`" % expr)
    return r


def top_conjuncts(cond):
    out, depth, cur = [], 0, ""
    i = 0
    while i < len(cond):
        c = cond[i]
        if c in "([{":
            depth += 1
        elif c in ")]}":
            depth -= 1
        if depth == 0 and cond.startswith("&&", i):
            out.append(cur.strip()); cur = ""; i += 2
            continue
        cur += c
        i += 1
    out.append(cur.strip())
    return out


def guard_of(conds, local):
    """conjunction of the option-dependent conjuncts of the enclosing conditions; data-dependent
    conjuncts (emptiness tests, dry_run, ...) are dropped: the phase may simply be empty"""
    terms = []
    for cond in conds:
        for cj in top_conjuncts(cond):
            if any(f in cj for f in FLAGS):
                terms.append(parse_bool(cj, local))
    if not terms:
        return None
    g = terms[0]
    for t in terms[1:]:
        g = "(%s && %s)" % (g, t)
    return g


def coq_list(phs):
    return "[" + "; ".join(phs) + "]"


def gen(repo):
    del SOFT_MISSES[:]
    ctx = Ctx(repo)
    orders = {}
    def order(cmd, fkey, fn, nth=0):
        body = ctx.body(fkey, fn, nth)
        phs = [p for p, _ in effects(ctx, cmd, fkey, body)]
        if not phs:
            raise ExtractError("%s: no storage effect found in fn %s of %s" % (cmd, fn, FILES[fkey]))
        orders[cmd] = phs
        return body
    order("backup", "archiver", "archive")
    order("copy", "copy", "copy")
    order("merge", "merge", "merge_snapshots")
    order("rewrite_trees", "rewrite", "rewrite_snapshots_and_trees")
    order("rewrite_meta", "rewrite", "rewrite_snapshots")
    order("repair_snapshots", "repair_snapshots", "repair_snapshots")
    order("repair_index", "repair_index", "repair_index")
    order("forget", "repository", "delete_snapshots")
    order("config", "config", "apply_config")
    order("key_add", "key", "add_current_key_to_repo")
    order("key_delete", "repository", "delete_key")
    # soft pins: shapes the phase reading relies on
    pin(r"self\.packer\.finalize\(\)\?;\s*self\.indexer\.write\(\)\.unwrap\(\)\.finalize\(\)\?", ctx.body("modify", "finalize"),
        "TreeModifier::finalize = packer.finalize()?; indexer.finalize()?")
    pin(r"self\.modifier\.finalize\(\)", ctx.body("tree_rewrite", "finalize"), "Rewriter::finalize = self.modifier.finalize()")
    pin(r"delete_list\(\s*true\s*,\s*ids\.iter\(\)", ctx.body("repository", "delete_snapshots"), "Repository::delete_snapshots = dbe().delete_list(true, ids.iter(), ..)")
    pin(r"if\s+!dry_run\s*\{\s*for\s+snap\s+in\s+&repaired_snapshots", ctx.body("repair_snapshots", "repair_snapshots"), "repair_snapshots: save loop guarded by !dry_run")
    # ---- prune: phases with their option guards
    pb = ctx.body("prune", "prune_repository")
    m = re.search(r"let\s+early_delete_index\s*=\s*([^;]+);", pb)
    if not m:
        raise ExtractError("prune_repository: `let early_delete_index = ..;` not found")
    early_expr = parse_bool(" ".join(m.group(1).split()), {})
    local = {"early_delete_index": "(prune_early_guard early_delete_index instant_delete)"}
    items = []
    for ph, pos in effects(ctx, "prune", "prune", pb):
        del stack_closed[:]
        g = guard_of(enclosing_conditions(pb, pos), local)
        items.append((ph, g))
    if not any(ph == "PhRmIndex" for ph, _ in items):
        raise ExtractError("prune_repository: no removal of index files found")
    orders["prune"] = ["%s%s" % (ph, (" if " + g) if g else "") for ph, g in items]
    parts = []
    for ph, g in items:
        parts.append("(if %s then [%s] else [])" % (g, ph) if g else "[%s]" % ph)
    out = ["(* GENERATED by props/C03/extract.py from the command functions of crates/core/src - do not edit *)",
           "From Verif.Base Require Import Tactics.", "From Verif.C03 Require Import Model Order.", ""]
    for cmd in ("backup", "copy", "merge", "rewrite_trees", "rewrite_meta", "repair_snapshots", "repair_index",
                "forget", "config", "key_add", "key_delete"):
        out.append("Definition order_%s : list phase := %s." % (cmd, coq_list(orders[cmd])))
    out.append("(* `let early_delete_index = %s;` in prune_repository *)" % " ".join(m.group(1).split()))
    out.append("Definition prune_early_guard (early_delete_index instant_delete : bool) : bool := %s." % early_expr)
    out.append("Definition order_prune (early_delete_index instant_delete : bool) : list phase :=\n  "
               + "\n  ++ ".join(parts) + ".")
    # ---- error propagation: every storage call site of the phase lists hands its result on
    cmds = ["backup", "copy", "merge", "rewrite_trees", "rewrite_meta", "repair_snapshots", "repair_index",
            "forget", "prune", "config", "key_add", "key_delete"]
    out.append("(* error propagation of the storage call sites (true = `?` / tail expression), in textual order *)")
    for cmd in cmds:
        sites = ctx.prop.get(cmd, [])
        out.append("(* %s: %s *)" % (cmd, ", ".join("%s%s" % (mth, "" if ok else " DROPPED") for _, mth, ok in sites)))
        out.append("Definition propagates_%s : list bool := [%s]." % (cmd, "; ".join("true" if ok else "false" for _, _, ok in sites)))
    # the shared writer pipeline behind every packer / copier, and the list helpers of the decrypt backend
    pk = strip_comments(read(repo, "crates/core/src/blob/packer.rs"))
    de = strip_comments(read(repo, "crates/core/src/backend/decrypt.rs"))
    def has(pat, txt):
        return bool(re.search(pat, txt, re.S))
    def gen_fn_body(src, name):
        """body of a fn whose generic parameter list nests `<..>` (rustscan.fn_body cannot parse it)"""
        i = src.find("fn " + name)
        j = src.find("-> RusticResult", i)
        b = src.find("{", j)
        if i < 0 or j < 0 or b < 0 or ";" in src[j:b]:
            raise ExtractError("decrypt.rs: fn %s with a body not found" % name)
        return src[b + 1:match_brace(src, b)]
    proc, idx = fn_body(pk, "process"), fn_body(pk, "index")
    actor_new = next((fn_body(pk, "new", i) for i in range(len(re.findall(r"\bfn\s+new\b", pk))) if "fwh" in fn_sig(pk, "new", i)), None)
    if actor_new is None:
        raise ExtractError("packer.rs: Actor::new(fwh, ..) not found")
    fins = [fn_body(pk, "finalize", i) for i in range(len(re.findall(r"\bfn\s+finalize\b", pk)))]
    raw_fin = next((b for b in fins if "file_writer" in b), None)
    act_fin = next((b for b in fins if "self.finish.recv().unwrap()" in " ".join(b.split())), None)
    if raw_fin is None:
        raise ExtractError("packer.rs: RawPacker::finalize (file_writer) not found")
    mfw = re.search(r"self\.file_writer\.take\(\)\.unwrap\(\)\.finalize\(\)\s*\?", raw_fin)
    del stack_closed[:]
    writer = [
        ("FileWriterHandle::process: write_bytes(FileType::Pack, ..)?", has(r"\.write_bytes\(\s*FileType::Pack[^;]*\)\s*\?", proc)),
        ("FileWriterHandle::index: indexer.add(index)?", has(r"\.add\(\s*index\s*\)\s*\?", idx)),
        ("Actor::new: the writer stops at the first failed upload: try_for_each(|index| fwh.index(index?))", has(r"\.try_for_each\(\s*\|index\|\s*fwh\.index\(\s*index\?\s*\)\s*\)", actor_new)),
        ("Actor::new: the pipeline result is bound (`let status = rx..;`) and then sent (`finish_tx.send(status)`)", has(r"let\s+status\s*=\s*rx\b", actor_new) and has(r"finish_tx\.send\(\s*status\s*\)", actor_new)),
        ("Actor::finalize returns the writer's status (self.finish.recv().unwrap())", act_fin is not None),
        ("RawPacker::finalize: self.save()?", has(r"self\.save\(\)\s*\?", raw_fin)),
        ("RawPacker::finalize awaits the writer unconditionally: file_writer.take().unwrap().finalize()? outside any `if`", bool(mfw) and not enclosing_conditions(raw_fin, mfw.start())),
        ("DecryptWriteBackend::delete_list: self.remove(ID::TYPE, id, cacheable)? inside try_for_each(..)?", has(r"self\.remove\(\s*ID::TYPE\s*,\s*id\s*,\s*cacheable\s*\)\s*\?", gen_fn_body(de, "delete_list")) and has(r"try_for_each\(.*\}\s*\)\s*\?", gen_fn_body(de, "delete_list"))),
        ("DecryptWriteBackend::save_list: self.save_file(file)? inside try_for_each(..)?", has(r"self\.save_file\(\s*file\s*\)\s*\?", gen_fn_body(de, "save_list")) and has(r"try_for_each\(.*\}\s*\)\s*\?", gen_fn_body(de, "save_list"))),
    ]
    out.append("(* the writer thread behind every packer / blob copier and the list helpers: %s *)" % "; ".join("%s%s" % (n, "" if ok else " -- NOT FOUND") for n, ok in writer))
    out.append("Definition propagates_writer : list bool := [%s]." % "; ".join("true" if ok else "false" for _, ok in writer))
    out.append("")
    meta_prop = {cmd: [{"file": f, "call": mth, "propagated": ok} for f, mth, ok in ctx.prop.get(cmd, [])] for cmd in cmds}
    meta_prop["writer"] = [{"fact": n, "holds": ok} for n, ok in writer]
    meta = {"propagation": meta_prop, "orders": orders, "prune_early_guard": early_expr, "call_sites": ctx.sites, "soft_pin_misses": list(SOFT_MISSES)}
    return "\n".join(out), meta


if __name__ == "__main__":
    txt, meta = gen(sys.argv[1] if len(sys.argv) > 1 else "/repo")
    print(txt)
    import json
    print(json.dumps({k: v for k, v in meta.items() if k != "call_sites"}, indent=1), file=sys.stderr)
