(* C03 — property theorems: every crash point / failed write of a command whose backend
   calls follow the order discipline leaves only closed (fully readable) snapshots. *)
From Verif.Base Require Import Tactics.
From Verif.C03 Require Import Model Spec Proofs Proofs2 Proofs3 Order ProofsOrder Extracted ProofsCmd.
Local Open Scope N_scope.

(* Crash points: if the repository is closed before the command and the command's calls
   stay inside the discipline, the storage state after ANY prefix of the calls is closed. *)
Theorem discipline_prefix_safe : forall s0 log,
  Inv s0 -> discipline_ok s0 log = true ->
  forall pre post, log = pre ++ post -> Inv (apply pre s0).
Proof. exact discipline_prefix_safe_lemma. Qed.
Print Assumptions discipline_prefix_safe.
Example discipline_prefix_safe_hyps : Inv ex_s0 /\ discipline_ok ex_s0 ex_backup = true.
Proof. exact ex_backup_ok. Qed.

(* The same without assuming a closed start state (repair commands start from a damaged
   repository): after any prefix, every visible snapshot is either closed, or it existed
   before and every blob of it that was readable before is still readable. *)
Theorem no_snapshot_loses_data : forall s0 log,
  discipline_ok s0 log = true ->
  forall pre post, log = pre ++ post ->
  forall id n, In (id, n) (snaps (apply pre s0)) ->
    (forall b, In b n -> avail (apply pre s0) b = true) \/
    (In (id, n) (snaps s0) /\
     forall b, In b n -> avail s0 b = true -> avail (apply pre s0) b = true).
Proof. exact no_loss_lemma. Qed.
Print Assumptions no_snapshot_loses_data.

(* One failed backend call: the issuing command stops at its first error, i.e. the calls
   that reach storage are the first k calls of the fault-free log, possibly followed by
   plain writes of NEW packs / index files that other writer threads of the same command
   still complete (`extra`; no snapshot write, no removal — checked on the real runs,
   together with the command returning an error).  Every prefix of that is closed. *)
Theorem single_fault_safe : forall s0 log,
  Inv s0 -> discipline_ok s0 log = true ->
  forall k extra, forallb is_plain extra = true -> fresh (apply (firstn k log) s0) extra ->
  forall pre post, firstn k log ++ extra = pre ++ post -> Inv (apply pre s0).
Proof. exact single_fault_safe_lemma. Qed.
Print Assumptions single_fault_safe.
Example single_fault_safe_hyps :
  Inv ex_s0 /\ discipline_ok ex_s0 ex_backup = true /\
  forallb is_plain ex_new_writes = true /\ fresh (apply (firstn 0 ex_backup) ex_s0) ex_new_writes.
Proof. destruct ex_backup_ok, ex_fresh. auto. Qed.

(* Intended order of backup / copy / merge / rewrite (with or without forget) / repair
   snapshots / forget: new packs and new index files in ANY order (every linearisation of
   the data packer, the tree packer and the indexer), then the snapshot files — each closed
   once those writes are done —, then removals of snapshot files.  Always inside the discipline. *)
Theorem writes_snapshots_removes_ok : forall s ws sns dl,
  forallb is_plain ws = true -> fresh s ws ->
  (forall e, In e sns -> closedb (apply ws s) (snd e) = true) ->
  discipline_ok s (ws ++ map wsnap sns ++ map rsnap dl) = true.
Proof. exact writes_snapshots_removes_ok_lemma. Qed.
Print Assumptions writes_snapshots_removes_ok.
Example writes_snapshots_removes_ok_hyps :
  forallb is_plain ex_new_writes = true /\ fresh ex_s0 ex_new_writes /\
  closedb (apply ex_new_writes ex_s0) [(Tree, 13); (Data, 12); (Data, 11)] = true.
Proof. destruct ex_fresh. split; [auto|]. split; [auto|]. vm_compute. reflexivity. Qed.

(* ... and for EVERY interleaving: if some order `ws` of the new packs / index files makes the
   snapshots closed, then every permutation `ws'` of those writes followed by the snapshot
   writes and the removals is inside the discipline (a superset of the linearisations that keep
   each writer thread's own order). *)
Theorem any_interleaving_ok : forall s ws ws' sns dl,
  Permutation ws ws' -> forallb is_plain ws = true -> fresh s ws ->
  (forall e, In e sns -> closedb (apply ws s) (snd e) = true) ->
  discipline_ok s (ws' ++ map wsnap sns ++ map rsnap dl) = true.
Proof. exact any_interleaving_ok_lemma. Qed.
Print Assumptions any_interleaving_ok.
Example any_interleaving_ok_instance :
  discipline_ok ex_s0 (rev ex_new_writes ++ map wsnap [(7, [(Tree, 13); (Data, 12); (Data, 11)])] ++ map rsnap [3]) = true.
Proof.
  destruct ex_fresh. apply (any_interleaving_ok ex_s0 ex_new_writes); auto.
  - apply Permutation_rev.
  - intros e [<-|[]]. vm_compute. reflexivity.
Qed.

(* Intended order of prune (and of repair index: rp = []): new packs + new index files in any
   order, then removal of old index files, then removal of old packs — inside the discipline
   whenever the FINAL state still makes every needed blob readable and no index file that
   survives lists a removed pack unmarked. *)
Theorem prune_order_ok : forall s ws ri rp,
  forallb is_plain ws = true -> fresh s ws ->
  (forall b, In b (needed s) ->
     avail (apply (map rpack rp) (apply (map ridx ri) (apply ws s))) b = true) ->
  (forall p b, In p rp -> In b (needed s) ->
     through_pack (apply (map ridx ri) (apply ws s)) p b = false) ->
  discipline_ok s (ws ++ map ridx ri ++ map rpack rp) = true.
Proof. exact prune_order_ok_lemma. Qed.
Print Assumptions prune_order_ok.
Example prune_order_ok_instance : Inv ex_s0 /\ discipline_ok ex_s0 ex_prune = true.
Proof. exact ex_prune_ok. Qed.

(* An order outside the discipline really breaks the property: snapshot file first, its
   packs and index afterwards (the order `repair snapshots` had on the unchanged tree).
   Start and end states are closed, the state after the first call is not. *)
Theorem snapshot_before_packs_refuted :
  exists s0 log pre post,
    Inv s0 /\ log = pre ++ post /\ Inv (apply log s0) /\
    discipline_ok s0 log = false /\ ~ Inv (apply pre s0).
Proof. exact snapshot_first_refuted_lemma. Qed.
Print Assumptions snapshot_before_packs_refuted.

(* Likewise: an index file removed before its replacement is written (`repair index`). *)
Theorem index_removed_before_rewrite_refuted :
  exists s0 log pre post,
    Inv s0 /\ log = pre ++ post /\ Inv (apply log s0) /\
    discipline_ok s0 log = false /\ ~ Inv (apply pre s0).
Proof. exact index_removed_first_refuted_lemma. Qed.
Print Assumptions index_removed_before_rewrite_refuted.


(* ======================================================================================
   Phase order of each command, REGENERATED from its source (Extracted.v, props/C03/extract.py),
   as proof obligations.  `fits ps frags`: the log `concat frags` is a concatenation of
   fragments, the i-th consisting only of backend calls the i-th phase allows.
   The remaining hypotheses are END-state conditions (executable, evaluated on every real log):
   ids of new files are fresh, the snapshots written are closed in the state the command leaves
   behind, everything needed before is still readable there, no surviving index lists a
   removed pack.  Order (static) + end state (one observation) => every crash point.
   ====================================================================================== *)

(* any phase order of the shape  writes* ; snapshot saves* ; snapshot removals* *)
Theorem ordered_snapshot_command_in_discipline : forall ps frags s,
  order_ok1 ps = true -> fits ps frags ->
  freshb s (concat frags) = true -> written_snaps_closed s (concat frags) = true ->
  discipline_ok s (concat frags) = true.
Proof. exact snapshot_family_lemma. Qed.
Print Assumptions ordered_snapshot_command_in_discipline.

(* any phase order of the shape  [unindexed packs removed] ; writes* ; index removals* ; pack removals* *)
Theorem ordered_removal_command_in_discipline : forall ps frags s,
  order_ok2 ps = true -> fits ps frags ->
  freshb s (concat frags) = true ->
  unindexed_unlisted s (unindexed_frag ps frags) = true ->
  needed_kept s (concat frags) = true -> removed_packs_unlisted s (concat frags) = true ->
  discipline_ok s (concat frags) = true.
Proof. exact removal_family_lemma. Qed.
Print Assumptions ordered_removal_command_in_discipline.

Theorem ordered_other_command_in_discipline : forall ps frags s,
  order_ok_other ps = true -> fits ps frags -> discipline_ok s (concat frags) = true.
Proof. exact other_family_lemma. Qed.
Print Assumptions ordered_other_command_in_discipline.

(* the executable segmentation used on the real logs yields such fragments *)
Theorem segment_is_sound : forall ps log frags,
  segment ps log = Some frags -> log = concat frags /\ fits ps frags.
Proof. exact segment_sound. Qed.
Print Assumptions segment_is_sound.

(* ... and with a closed start state every prefix (crash point) of such a log is closed *)
Theorem ordered_snapshot_command_crash_safe : forall ps frags s,
  order_ok1 ps = true -> fits ps frags -> Inv s ->
  freshb s (concat frags) = true -> written_snaps_closed s (concat frags) = true ->
  forall pre post, concat frags = pre ++ post -> Inv (apply pre s).
Proof.
  intros ps frags s Ho Hf HI Hfr Hc. apply discipline_prefix_safe; [exact HI|].
  apply ordered_snapshot_command_in_discipline with (ps := ps); assumption.
Qed.
Print Assumptions ordered_snapshot_command_crash_safe.
Theorem ordered_removal_command_crash_safe : forall ps frags s,
  order_ok2 ps = true -> fits ps frags -> Inv s ->
  freshb s (concat frags) = true ->
  unindexed_unlisted s (unindexed_frag ps frags) = true ->
  needed_kept s (concat frags) = true -> removed_packs_unlisted s (concat frags) = true ->
  forall pre post, concat frags = pre ++ post -> Inv (apply pre s).
Proof.
  intros ps frags s Ho Hf HI Hfr Hu Hk Hr. apply discipline_prefix_safe; [exact HI|].
  apply ordered_removal_command_in_discipline with (ps := ps); assumption.
Qed.
Print Assumptions ordered_removal_command_crash_safe.

(* backup: order of the storage-effect call sites of Archiver::archive *)
Theorem command_order_in_discipline_backup : forall frags s,
  fits order_backup frags ->
  freshb s (concat frags) = true -> written_snaps_closed s (concat frags) = true ->
  discipline_ok s (concat frags) = true.
Proof. exact cmd_backup. Qed.
Print Assumptions command_order_in_discipline_backup.

(* copy: order of the storage-effect call sites of commands::copy::copy *)
Theorem command_order_in_discipline_copy : forall frags s,
  fits order_copy frags ->
  freshb s (concat frags) = true -> written_snaps_closed s (concat frags) = true ->
  discipline_ok s (concat frags) = true.
Proof. exact cmd_copy. Qed.
Print Assumptions command_order_in_discipline_copy.

(* merge: order of the storage-effect call sites of merge_snapshots + merge_trees *)
Theorem command_order_in_discipline_merge : forall frags s,
  fits order_merge frags ->
  freshb s (concat frags) = true -> written_snaps_closed s (concat frags) = true ->
  discipline_ok s (concat frags) = true.
Proof. exact cmd_merge. Qed.
Print Assumptions command_order_in_discipline_merge.

(* rewrite_trees: order of the storage-effect call sites of rewrite_snapshots_and_trees *)
Theorem command_order_in_discipline_rewrite_trees : forall frags s,
  fits order_rewrite_trees frags ->
  freshb s (concat frags) = true -> written_snaps_closed s (concat frags) = true ->
  discipline_ok s (concat frags) = true.
Proof. exact cmd_rewrite_trees. Qed.
Print Assumptions command_order_in_discipline_rewrite_trees.

(* rewrite_meta: order of the storage-effect call sites of rewrite_snapshots *)
Theorem command_order_in_discipline_rewrite_meta : forall frags s,
  fits order_rewrite_meta frags ->
  freshb s (concat frags) = true -> written_snaps_closed s (concat frags) = true ->
  discipline_ok s (concat frags) = true.
Proof. exact cmd_rewrite_meta. Qed.
Print Assumptions command_order_in_discipline_rewrite_meta.

(* repair_snapshots: order of the storage-effect call sites of repair_snapshots *)
Theorem command_order_in_discipline_repair_snapshots : forall frags s,
  fits order_repair_snapshots frags ->
  freshb s (concat frags) = true -> written_snaps_closed s (concat frags) = true ->
  discipline_ok s (concat frags) = true.
Proof. exact cmd_repair_snapshots. Qed.
Print Assumptions command_order_in_discipline_repair_snapshots.

(* forget: order of the storage-effect call sites of Repository::delete_snapshots *)
Theorem command_order_in_discipline_forget : forall frags s,
  fits order_forget frags ->
  freshb s (concat frags) = true -> written_snaps_closed s (concat frags) = true ->
  discipline_ok s (concat frags) = true.
Proof. exact cmd_forget. Qed.
Print Assumptions command_order_in_discipline_forget.

(* repair index: reduced index files and the rebuilt index are written before the replaced index
   files are removed *)
Theorem command_order_in_discipline_repair_index : forall frags s,
  fits order_repair_index frags -> freshb s (concat frags) = true ->
  unindexed_unlisted s (unindexed_frag order_repair_index frags) = true ->
  needed_kept s (concat frags) = true -> removed_packs_unlisted s (concat frags) = true ->
  discipline_ok s (concat frags) = true.
Proof. exact cmd_repair_index. Qed.
Print Assumptions command_order_in_discipline_repair_index.

(* prune_repository, for EVERY option combination except the documented-unsafe
   instant_delete + early_delete_index: the guards of the index / pack removals are part of the
   regenerated order (prune_early_guard = the source's `let early_delete_index = ..`) *)
Theorem command_order_in_discipline_prune : forall early_delete_index instant_delete frags s,
  negb (early_delete_index && instant_delete) = true ->
  fits (order_prune early_delete_index instant_delete) frags -> freshb s (concat frags) = true ->
  unindexed_unlisted s (unindexed_frag (order_prune early_delete_index instant_delete) frags) = true ->
  needed_kept s (concat frags) = true -> removed_packs_unlisted s (concat frags) = true ->
  discipline_ok s (concat frags) = true.
Proof. intros e i frags s H. exact (cmd_prune e i H frags s). Qed.
Print Assumptions command_order_in_discipline_prune.

Theorem command_order_in_discipline_config : forall frags s,
  fits order_config frags -> discipline_ok s (concat frags) = true.
Proof. exact cmd_config. Qed.
Print Assumptions command_order_in_discipline_config.

Theorem command_order_in_discipline_key_add : forall frags s,
  fits order_key_add frags -> discipline_ok s (concat frags) = true.
Proof. exact cmd_key_add. Qed.
Print Assumptions command_order_in_discipline_key_add.

Theorem command_order_in_discipline_key_delete : forall frags s,
  fits order_key_delete frags -> discipline_ok s (concat frags) = true.
Proof. exact cmd_key_delete. Qed.
Print Assumptions command_order_in_discipline_key_delete.

(* the hypotheses are satisfiable: the example backup and the example prune are segmented along
   the regenerated orders and meet the end-state conditions *)
Example command_order_backup_instance : exists frags,
  segment order_backup ex_backup = Some frags /\ freshb ex_s0 (concat frags) = true /\
  written_snaps_closed ex_s0 (concat frags) = true.
Proof. eexists. split; [vm_compute; reflexivity|]. split; vm_compute; reflexivity. Qed.
Example command_order_prune_instance : exists frags,
  segment (order_prune false true) ex_prune = Some frags /\ freshb ex_s0 (concat frags) = true /\
  unindexed_unlisted ex_s0 (unindexed_frag (order_prune false true) frags) = true /\
  needed_kept ex_s0 (concat frags) = true /\ removed_packs_unlisted ex_s0 (concat frags) = true.
Proof. eexists. split; [vm_compute; reflexivity|]. repeat split; vm_compute; reflexivity. Qed.
Example command_order_repair_index_instance : exists frags,
  segment order_repair_index ex_index_written_first = Some frags /\ freshb ex_s0 (concat frags) = true /\
  unindexed_unlisted ex_s0 (unindexed_frag order_repair_index frags) = true /\
  needed_kept ex_s0 (concat frags) = true /\ removed_packs_unlisted ex_s0 (concat frags) = true.
Proof. eexists. split; [vm_compute; reflexivity|]. repeat split; vm_compute; reflexivity. Qed.
(* the pre-fix order of repair snapshots is NOT a log along the regenerated order *)
Example snapshot_first_does_not_conform : conformsb order_repair_snapshots ex_snapshot_first = false.
Proof. vm_compute. reflexivity. Qed.
Example index_removed_first_does_not_conform : conformsb order_repair_index ex_index_removed_first = false.
Proof. vm_compute. reflexivity. Qed.


(* ======================================================================================
   Error propagation.  props/C03/extract.py regenerates, for every storage call site of the
   phase lists above (and of the expanded callees), whether the call's result is handed on
   (`?`, tail expression, or `if let Err(e) = .. { ..; return Err(e) }`), and the same for the
   writer thread behind every packer / blob copier (FileWriterHandle, Actor, RawPacker::finalize)
   and for DecryptWriteBackend::delete_list / save_list.
   ====================================================================================== *)
(* if every site hands its result on, a command that returns Ok had no failing call *)
Theorem failed_call_is_reported : forall props outcomes,
  all_true props = true -> length outcomes = length props ->
  run_sites props outcomes = true -> all_true outcomes = true.
Proof. exact failed_call_reported_lemma. Qed.
Print Assumptions failed_call_is_reported.
Example failed_call_is_reported_hyps : all_true propagates_backup = true /\ run_sites propagates_backup (map (fun _ => true) propagates_backup) = true.
Proof. split; vm_compute; reflexivity. Qed.
(* a dropped result goes unnoticed: the hypothesis is necessary *)
Example dropped_result_unnoticed : run_sites [true; false; true] [true; false; true] = true.
Proof. reflexivity. Qed.

Theorem command_reports_failures_backup : forall outcomes,
  length outcomes = length propagates_backup ->
  run_sites propagates_backup outcomes = true -> all_true outcomes = true.
Proof. intro outcomes. exact (failed_call_is_reported _ outcomes propagates_backup_ok). Qed.
Print Assumptions command_reports_failures_backup.

Theorem command_reports_failures_copy : forall outcomes,
  length outcomes = length propagates_copy ->
  run_sites propagates_copy outcomes = true -> all_true outcomes = true.
Proof. intro outcomes. exact (failed_call_is_reported _ outcomes propagates_copy_ok). Qed.
Print Assumptions command_reports_failures_copy.

Theorem command_reports_failures_merge : forall outcomes,
  length outcomes = length propagates_merge ->
  run_sites propagates_merge outcomes = true -> all_true outcomes = true.
Proof. intro outcomes. exact (failed_call_is_reported _ outcomes propagates_merge_ok). Qed.
Print Assumptions command_reports_failures_merge.

Theorem command_reports_failures_rewrite_trees : forall outcomes,
  length outcomes = length propagates_rewrite_trees ->
  run_sites propagates_rewrite_trees outcomes = true -> all_true outcomes = true.
Proof. intro outcomes. exact (failed_call_is_reported _ outcomes propagates_rewrite_trees_ok). Qed.
Print Assumptions command_reports_failures_rewrite_trees.

Theorem command_reports_failures_rewrite_meta : forall outcomes,
  length outcomes = length propagates_rewrite_meta ->
  run_sites propagates_rewrite_meta outcomes = true -> all_true outcomes = true.
Proof. intro outcomes. exact (failed_call_is_reported _ outcomes propagates_rewrite_meta_ok). Qed.
Print Assumptions command_reports_failures_rewrite_meta.

Theorem command_reports_failures_repair_snapshots : forall outcomes,
  length outcomes = length propagates_repair_snapshots ->
  run_sites propagates_repair_snapshots outcomes = true -> all_true outcomes = true.
Proof. intro outcomes. exact (failed_call_is_reported _ outcomes propagates_repair_snapshots_ok). Qed.
Print Assumptions command_reports_failures_repair_snapshots.

Theorem command_reports_failures_repair_index : forall outcomes,
  length outcomes = length propagates_repair_index ->
  run_sites propagates_repair_index outcomes = true -> all_true outcomes = true.
Proof. intro outcomes. exact (failed_call_is_reported _ outcomes propagates_repair_index_ok). Qed.
Print Assumptions command_reports_failures_repair_index.

Theorem command_reports_failures_forget : forall outcomes,
  length outcomes = length propagates_forget ->
  run_sites propagates_forget outcomes = true -> all_true outcomes = true.
Proof. intro outcomes. exact (failed_call_is_reported _ outcomes propagates_forget_ok). Qed.
Print Assumptions command_reports_failures_forget.

Theorem command_reports_failures_prune : forall outcomes,
  length outcomes = length propagates_prune ->
  run_sites propagates_prune outcomes = true -> all_true outcomes = true.
Proof. intro outcomes. exact (failed_call_is_reported _ outcomes propagates_prune_ok). Qed.
Print Assumptions command_reports_failures_prune.

Theorem command_reports_failures_config : forall outcomes,
  length outcomes = length propagates_config ->
  run_sites propagates_config outcomes = true -> all_true outcomes = true.
Proof. intro outcomes. exact (failed_call_is_reported _ outcomes propagates_config_ok). Qed.
Print Assumptions command_reports_failures_config.

Theorem command_reports_failures_key_add : forall outcomes,
  length outcomes = length propagates_key_add ->
  run_sites propagates_key_add outcomes = true -> all_true outcomes = true.
Proof. intro outcomes. exact (failed_call_is_reported _ outcomes propagates_key_add_ok). Qed.
Print Assumptions command_reports_failures_key_add.

Theorem command_reports_failures_key_delete : forall outcomes,
  length outcomes = length propagates_key_delete ->
  run_sites propagates_key_delete outcomes = true -> all_true outcomes = true.
Proof. intro outcomes. exact (failed_call_is_reported _ outcomes propagates_key_delete_ok). Qed.
Print Assumptions command_reports_failures_key_delete.

Theorem command_reports_failures_writer : forall outcomes,
  length outcomes = length propagates_writer ->
  run_sites propagates_writer outcomes = true -> all_true outcomes = true.
Proof. intro outcomes. exact (failed_call_is_reported _ outcomes propagates_writer_ok). Qed.
Print Assumptions command_reports_failures_writer.

(* the executable invariant used by the driver is the declarative one *)
Theorem invb_is_Inv : forall s, invb s = true <-> Inv s.
Proof. exact invb_spec. Qed.
Print Assumptions invb_is_Inv.
