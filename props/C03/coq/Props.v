(* C03 — property theorems: every crash point / failed write of a command whose backend
   calls follow the order discipline leaves only closed (fully readable) snapshots. *)
From Verif.Base Require Import Tactics.
From Verif.C03 Require Import Model Spec Proofs Proofs2 Proofs3.
Local Open Scope N_scope.

(* Crash points: if the repository is closed before the command and the command's calls
   stay inside the discipline, the storage state after ANY prefix of the calls is closed. *)
Theorem discipline_prefix_safe : forall s0 log,
  Inv s0 -> discipline_ok s0 log = true ->
  forall pre post, log = pre ++ post -> Inv (apply pre s0).
Proof. exact discipline_prefix_safe_lemma. Qed.
Print Assumptions discipline_prefix_safe.
Example discipline_prefix_safe_hyps : Inv ex_s0 /\ discipline_ok ex_s0 ex_backup = true.
Proof. exact ex_backup_ok. Qed.

(* The same without assuming a closed start state (repair commands start from a damaged
   repository): after any prefix, every visible snapshot is either closed, or it existed
   before and every blob of it that was readable before is still readable. *)
Theorem no_snapshot_loses_data : forall s0 log,
  discipline_ok s0 log = true ->
  forall pre post, log = pre ++ post ->
  forall id n, In (id, n) (snaps (apply pre s0)) ->
    (forall b, In b n -> avail (apply pre s0) b = true) \/
    (In (id, n) (snaps s0) /\
     forall b, In b n -> avail s0 b = true -> avail (apply pre s0) b = true).
Proof. exact no_loss_lemma. Qed.
Print Assumptions no_snapshot_loses_data.

(* One failed backend call: the issuing command stops at its first error, i.e. the calls
   that reach storage are the first k calls of the fault-free log, possibly followed by
   plain writes of NEW packs / index files that other writer threads of the same command
   still complete (`extra`; no snapshot write, no removal — checked on the real runs,
   together with the command returning an error).  Every prefix of that is closed. *)
Theorem single_fault_safe : forall s0 log,
  Inv s0 -> discipline_ok s0 log = true ->
  forall k extra, forallb is_plain extra = true -> fresh (apply (firstn k log) s0) extra ->
  forall pre post, firstn k log ++ extra = pre ++ post -> Inv (apply pre s0).
Proof. exact single_fault_safe_lemma. Qed.
Print Assumptions single_fault_safe.
Example single_fault_safe_hyps :
  Inv ex_s0 /\ discipline_ok ex_s0 ex_backup = true /\
  forallb is_plain ex_new_writes = true /\ fresh (apply (firstn 0 ex_backup) ex_s0) ex_new_writes.
Proof. destruct ex_backup_ok, ex_fresh. auto. Qed.

(* Intended order of backup / copy / merge / rewrite (with or without forget) / repair
   snapshots / forget: new packs and new index files in ANY order (every linearisation of
   the data packer, the tree packer and the indexer), then the snapshot files — each closed
   once those writes are done —, then removals of snapshot files.  Always inside the discipline. *)
Theorem writes_snapshots_removes_ok : forall s ws sns dl,
  forallb is_plain ws = true -> fresh s ws ->
  (forall e, In e sns -> closedb (apply ws s) (snd e) = true) ->
  discipline_ok s (ws ++ map wsnap sns ++ map rsnap dl) = true.
Proof. exact writes_snapshots_removes_ok_lemma. Qed.
Print Assumptions writes_snapshots_removes_ok.
Example writes_snapshots_removes_ok_hyps :
  forallb is_plain ex_new_writes = true /\ fresh ex_s0 ex_new_writes /\
  closedb (apply ex_new_writes ex_s0) [(Tree, 13); (Data, 12); (Data, 11)] = true.
Proof. destruct ex_fresh. split; [auto|]. split; [auto|]. vm_compute. reflexivity. Qed.

(* ... and for EVERY interleaving: if some order `ws` of the new packs / index files makes the
   snapshots closed, then every permutation `ws'` of those writes followed by the snapshot
   writes and the removals is inside the discipline (a superset of the linearisations that keep
   each writer thread's own order). *)
Theorem any_interleaving_ok : forall s ws ws' sns dl,
  Permutation ws ws' -> forallb is_plain ws = true -> fresh s ws ->
  (forall e, In e sns -> closedb (apply ws s) (snd e) = true) ->
  discipline_ok s (ws' ++ map wsnap sns ++ map rsnap dl) = true.
Proof. exact any_interleaving_ok_lemma. Qed.
Print Assumptions any_interleaving_ok.
Example any_interleaving_ok_instance :
  discipline_ok ex_s0 (rev ex_new_writes ++ map wsnap [(7, [(Tree, 13); (Data, 12); (Data, 11)])] ++ map rsnap [3]) = true.
Proof.
  destruct ex_fresh. apply (any_interleaving_ok ex_s0 ex_new_writes); auto.
  - apply Permutation_rev.
  - intros e [<-|[]]. vm_compute. reflexivity.
Qed.

(* Intended order of prune (and of repair index: rp = []): new packs + new index files in any
   order, then removal of old index files, then removal of old packs — inside the discipline
   whenever the FINAL state still makes every needed blob readable and no index file that
   survives lists a removed pack unmarked. *)
Theorem prune_order_ok : forall s ws ri rp,
  forallb is_plain ws = true -> fresh s ws ->
  (forall b, In b (needed s) ->
     avail (apply (map rpack rp) (apply (map ridx ri) (apply ws s))) b = true) ->
  (forall p b, In p rp -> In b (needed s) ->
     through_pack (apply (map ridx ri) (apply ws s)) p b = false) ->
  discipline_ok s (ws ++ map ridx ri ++ map rpack rp) = true.
Proof. exact prune_order_ok_lemma. Qed.
Print Assumptions prune_order_ok.
Example prune_order_ok_instance : Inv ex_s0 /\ discipline_ok ex_s0 ex_prune = true.
Proof. exact ex_prune_ok. Qed.

(* An order outside the discipline really breaks the property: snapshot file first, its
   packs and index afterwards (the order `repair snapshots` had on the unchanged tree).
   Start and end states are closed, the state after the first call is not. *)
Theorem snapshot_before_packs_refuted :
  exists s0 log pre post,
    Inv s0 /\ log = pre ++ post /\ Inv (apply log s0) /\
    discipline_ok s0 log = false /\ ~ Inv (apply pre s0).
Proof. exact snapshot_first_refuted_lemma. Qed.
Print Assumptions snapshot_before_packs_refuted.

(* Likewise: an index file removed before its replacement is written (`repair index`). *)
Theorem index_removed_before_rewrite_refuted :
  exists s0 log pre post,
    Inv s0 /\ log = pre ++ post /\ Inv (apply log s0) /\
    discipline_ok s0 log = false /\ ~ Inv (apply pre s0).
Proof. exact index_removed_first_refuted_lemma. Qed.
Print Assumptions index_removed_before_rewrite_refuted.

(* the executable invariant used by the driver is the declarative one *)
Theorem invb_is_Inv : forall s, invb s = true <-> Inv s.
Proof. exact invb_spec. Qed.
Print Assumptions invb_is_Inv.
