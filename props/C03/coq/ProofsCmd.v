(* C03 — the phase order REGENERATED from the source of each command is a safe order.
   Every lemma `order_<cmd>_ok` is an obligation about the current source: it is proved by
   computation on Extracted.v and breaks when two storage-effect phases are swapped there. *)
From Verif.Base Require Import Tactics.
From Verif.C03 Require Import Model Spec Proofs Proofs2 Proofs3 Order ProofsOrder Extracted.

Lemma order_backup_ok : order_ok1 order_backup = true.
Proof. vm_compute. reflexivity. Qed.
Lemma order_copy_ok : order_ok1 order_copy = true.
Proof. vm_compute. reflexivity. Qed.
Lemma order_merge_ok : order_ok1 order_merge = true.
Proof. vm_compute. reflexivity. Qed.
Lemma order_rewrite_trees_ok : order_ok1 order_rewrite_trees = true.
Proof. vm_compute. reflexivity. Qed.
Lemma order_rewrite_meta_ok : order_ok1 order_rewrite_meta = true.
Proof. vm_compute. reflexivity. Qed.
Lemma order_repair_snapshots_ok : order_ok1 order_repair_snapshots = true.
Proof. vm_compute. reflexivity. Qed.
Lemma order_forget_ok : order_ok1 order_forget = true.
Proof. vm_compute. reflexivity. Qed.
Lemma order_repair_index_ok : order_ok2 order_repair_index = true.
Proof. vm_compute. reflexivity. Qed.
(* prune: for every option combination except the documented-unsafe instant_delete + early_delete_index *)
Lemma order_prune_ok : forall early_delete_index instant_delete,
  negb (early_delete_index && instant_delete) = true ->
  order_ok2 (order_prune early_delete_index instant_delete) = true.
Proof. intros [] [] H; try discriminate H; vm_compute; reflexivity. Qed.
Lemma order_config_ok : order_ok_other order_config = true.
Proof. vm_compute. reflexivity. Qed.
Lemma order_key_add_ok : order_ok_other order_key_add = true.
Proof. vm_compute. reflexivity. Qed.
Lemma order_key_delete_ok : order_ok_other order_key_delete = true.
Proof. vm_compute. reflexivity. Qed.

(* ---- per command: every log along the regenerated order is inside the discipline ---- *)
Definition snapshot_command (ps : list phase) : Prop := forall frags s,
  fits ps frags -> freshb s (concat frags) = true -> written_snaps_closed s (concat frags) = true ->
  discipline_ok s (concat frags) = true.
Definition removal_command (ps : list phase) : Prop := forall frags s,
  fits ps frags -> freshb s (concat frags) = true ->
  unindexed_unlisted s (unindexed_frag ps frags) = true ->
  needed_kept s (concat frags) = true -> removed_packs_unlisted s (concat frags) = true ->
  discipline_ok s (concat frags) = true.
Definition other_command (ps : list phase) : Prop := forall frags s,
  fits ps frags -> discipline_ok s (concat frags) = true.

Lemma snapshot_command_of ps : order_ok1 ps = true -> snapshot_command ps.
Proof. intros H frags s. apply snapshot_family_lemma. exact H. Qed.
Lemma removal_command_of ps : order_ok2 ps = true -> removal_command ps.
Proof. intros H frags s. apply removal_family_lemma. exact H. Qed.
Lemma other_command_of ps : order_ok_other ps = true -> other_command ps.
Proof. intros H frags s. apply other_family_lemma. exact H. Qed.

Lemma cmd_backup : snapshot_command order_backup.
Proof. exact (snapshot_command_of _ order_backup_ok). Qed.
Lemma cmd_copy : snapshot_command order_copy.
Proof. exact (snapshot_command_of _ order_copy_ok). Qed.
Lemma cmd_merge : snapshot_command order_merge.
Proof. exact (snapshot_command_of _ order_merge_ok). Qed.
Lemma cmd_rewrite_trees : snapshot_command order_rewrite_trees.
Proof. exact (snapshot_command_of _ order_rewrite_trees_ok). Qed.
Lemma cmd_rewrite_meta : snapshot_command order_rewrite_meta.
Proof. exact (snapshot_command_of _ order_rewrite_meta_ok). Qed.
Lemma cmd_repair_snapshots : snapshot_command order_repair_snapshots.
Proof. exact (snapshot_command_of _ order_repair_snapshots_ok). Qed.
Lemma cmd_forget : snapshot_command order_forget.
Proof. exact (snapshot_command_of _ order_forget_ok). Qed.
Lemma cmd_repair_index : removal_command order_repair_index.
Proof. exact (removal_command_of _ order_repair_index_ok). Qed.
Lemma cmd_prune : forall early_delete_index instant_delete,
  negb (early_delete_index && instant_delete) = true ->
  removal_command (order_prune early_delete_index instant_delete).
Proof. intros e i H. exact (removal_command_of _ (order_prune_ok e i H)). Qed.
Lemma cmd_config : other_command order_config.
Proof. exact (other_command_of _ order_config_ok). Qed.
Lemma cmd_key_add : other_command order_key_add.
Proof. exact (other_command_of _ order_key_add_ok). Qed.
Lemma cmd_key_delete : other_command order_key_delete.
Proof. exact (other_command_of _ order_key_delete_ok). Qed.

(* ---- and therefore crash-safe at every prefix ---- *)
Lemma ordered_log_crash_safe s log :
  Inv s -> discipline_ok s log = true -> forall pre post, log = pre ++ post -> Inv (apply pre s).
Proof. apply discipline_prefix_safe_lemma. Qed.

Lemma segment_fits ps log frags : segment ps log = Some frags -> log = concat frags /\ fits ps frags.
Proof. apply segment_sound. Qed.

(* ---- error propagation inventory regenerated from the source ---- *)
Lemma propagates_backup_ok : all_true propagates_backup = true.
Proof. vm_compute. reflexivity. Qed.
Lemma propagates_copy_ok : all_true propagates_copy = true.
Proof. vm_compute. reflexivity. Qed.
Lemma propagates_merge_ok : all_true propagates_merge = true.
Proof. vm_compute. reflexivity. Qed.
Lemma propagates_rewrite_trees_ok : all_true propagates_rewrite_trees = true.
Proof. vm_compute. reflexivity. Qed.
Lemma propagates_rewrite_meta_ok : all_true propagates_rewrite_meta = true.
Proof. vm_compute. reflexivity. Qed.
Lemma propagates_repair_snapshots_ok : all_true propagates_repair_snapshots = true.
Proof. vm_compute. reflexivity. Qed.
Lemma propagates_repair_index_ok : all_true propagates_repair_index = true.
Proof. vm_compute. reflexivity. Qed.
Lemma propagates_forget_ok : all_true propagates_forget = true.
Proof. vm_compute. reflexivity. Qed.
Lemma propagates_prune_ok : all_true propagates_prune = true.
Proof. vm_compute. reflexivity. Qed.
Lemma propagates_config_ok : all_true propagates_config = true.
Proof. vm_compute. reflexivity. Qed.
Lemma propagates_key_add_ok : all_true propagates_key_add = true.
Proof. vm_compute. reflexivity. Qed.
Lemma propagates_key_delete_ok : all_true propagates_key_delete = true.
Proof. vm_compute. reflexivity. Qed.
Lemma propagates_writer_ok : all_true propagates_writer = true.
Proof. vm_compute. reflexivity. Qed.
