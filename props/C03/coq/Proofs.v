(* C03 — the discipline keeps every prefix state closed. *)
From Verif.Base Require Import Tactics.
From Verif.C03 Require Import Model Spec.
Local Open Scope N_scope.

Lemma invb_spec s : invb s = true <-> Inv s.
Proof.
  unfold invb, Inv, closedb. rewrite forallb_forall. split.
  - intros H id n Hin b Hb. specialize (H (id, n) Hin). cbn in H.
    rewrite forallb_forall in H. auto.
  - intros H [id n] Hin. cbn. rewrite forallb_forall. intros b Hb. eapply H; eauto.
Qed.

Lemma apply_cons o l s : apply (o :: l) s = apply l (apply_op s o).
Proof. reflexivity. Qed.
Lemma apply_app a b s : apply (a ++ b) s = apply b (apply a s).
Proof. unfold apply. apply fold_left_app. Qed.

(* ---- del / put / present ---- *)
Lemma in_del {A} id (l : list (N * A)) e : In e (del id l) <-> In e l /\ (fst e =? id) = false.
Proof. unfold del. rewrite filter_In, negb_true_iff. tauto. Qed.
Lemma del_incl {A} id (l : list (N * A)) : incl (del id l) l.
Proof. intros e H. apply in_del in H. tauto. Qed.
Lemma present_false {A} id (l : list (N * A)) :
  present id l = false <-> forall e, In e l -> (fst e =? id) = false.
Proof.
  unfold present. induction l as [|a l IH]; cbn.
  - split; [intros _ e []|reflexivity].
  - rewrite orb_false_iff, IH. split.
    + intros [H1 H2] e [<-|He]; auto.
    + intro H. split; [apply H; auto|]. intros e He. apply H; auto.
Qed.
Lemma del_fresh {A} id (l : list (N * A)) : present id l = false -> del id l = l.
Proof.
  unfold present, del. induction l as [|e l IH]; cbn; intro H; [reflexivity|].
  apply orb_false_iff in H as [H1 H2]. rewrite H1. cbn. rewrite IH; auto.
Qed.
Lemma present_del_false {A} id id' (l : list (N * A)) :
  present id' l = false -> present id' (del id l) = false.
Proof.
  rewrite !present_false. intros H e He. apply in_del in He as [He _]. auto.
Qed.

(* ---- availability depends monotonically on the present packs and index files ---- *)
Lemma pack_has_mono s s' p b :
  incl (packs s) (packs s') -> pack_has s p b = true -> pack_has s' p b = true.
Proof.
  unfold pack_has. intros Hi H. apply existsb_exists in H as [e [He H]].
  apply existsb_exists. exists e. split; auto.
Qed.
Lemma avail_mono s s' b :
  incl (packs s) (packs s') -> incl (idxs s) (idxs s') -> avail s b = true -> avail s' b = true.
Proof.
  unfold avail. intros Hp Hi H.
  apply existsb_exists in H as [e [He H]]. apply existsb_exists. exists e. split; [auto|].
  unfold index_avail in *. apply existsb_exists in H as [ip [Hip H]].
  apply existsb_exists. exists ip. split; [auto|].
  unfold entry_avail in *. apply andb_true_iff in H as [H1 H2]. rewrite H1. cbn.
  eapply pack_has_mono; eauto.
Qed.
Lemma index_avail_ext s s' b e : packs s = packs s' -> index_avail s b e = index_avail s' b e.
Proof. unfold index_avail, entry_avail, pack_has. intros ->. reflexivity. Qed.
Lemma avail_ext s s' b : packs s = packs s' -> idxs s = idxs s' -> avail s b = avail s' b.
Proof.
  intros Hp Hi. unfold avail. rewrite Hi. apply existsb_ext_local. intros e _.
  apply index_avail_ext; auto.
Qed.

Lemma needed_in s id n b : In (id, n) (snaps s) -> In b n -> In b (needed s).
Proof. intros. unfold needed. apply in_flat_map. exists (id, n). auto. Qed.

(* ---- one step inside the discipline loses nothing a present snapshot needs ---- *)
Lemma step_preserves s o b :
  step_ok s o = true -> In b (needed s) -> avail s b = true -> avail (apply_op s o) b = true.
Proof.
  intros Hok Hn Ha. destruct o as [ft id p | ft id].
  - destruct ft, p; cbn in Hok; try exact Ha.
    + apply negb_true_iff in Hok. apply (avail_mono s); [| |exact Ha]; cbn.
      * unfold put. rewrite del_fresh by auto. apply incl_tl, incl_refl.
      * apply incl_refl.
    + apply negb_true_iff in Hok. apply (avail_mono s); [| |exact Ha]; cbn.
      * apply incl_refl.
      * unfold put. rewrite del_fresh by auto. apply incl_tl, incl_refl.
  - destruct ft; try exact Ha.
    + (* pack removal *)
      cbn in Hok. rewrite forallb_forall in Hok. specialize (Hok b Hn).
      apply negb_true_iff in Hok.
      unfold avail in *. apply existsb_exists in Ha as [e [He Ha]].
      cbn [apply_op idxs]. apply existsb_exists. exists e. split; [exact He|].
      unfold index_avail in *. apply existsb_exists in Ha as [ip [Hip Ha]].
      apply existsb_exists. exists ip. split; [exact Hip|].
      unfold entry_avail in *. apply andb_true_iff in Ha as [H1 H2].
      rewrite H1. cbn [andb]. apply andb_true_iff in H1 as [Hm Hb].
      destruct (ip_pack ip =? id) eqn:Heq.
      * exfalso. assert (through_pack s id b = true); [|congruence].
        unfold through_pack. apply existsb_exists. exists e. split; [exact He|].
        apply existsb_exists. exists ip. split; [exact Hip|].
        rewrite Hm, Heq, Hb. reflexivity.
      * unfold pack_has in *. apply existsb_exists in H2 as [pe [Hpe H2]].
        apply existsb_exists. exists pe. split; [|exact H2].
        cbn [apply_op packs]. apply in_del. split; [exact Hpe|].
        apply andb_true_iff in H2 as [H2 _]. apply N.eqb_eq in H2. rewrite H2. exact Heq.
    + (* index removal *)
      cbn [step_ok] in Hok. rewrite forallb_forall in Hok. specialize (Hok b Hn).
      apply orb_true_iff in Hok as [Hok|Hok]; [|exact Hok].
      apply negb_true_iff in Hok.
      unfold avail in Ha. apply existsb_exists in Ha as [e [He Ha]].
      destruct (fst e =? id) eqn:Heq.
      * exfalso. assert (listed_by s id b = true); [|congruence].
        unfold listed_by. apply existsb_exists. exists e. split; [exact He|].
        rewrite Heq, Ha. reflexivity.
      * unfold avail. cbn [apply_op idxs]. apply existsb_exists. exists e. split.
        -- apply in_del. auto.
        -- rewrite <- Ha. apply index_avail_ext. reflexivity.
Qed.

Lemma snaps_after s o id n :
  In (id, n) (snaps (apply_op s o)) -> In (id, n) (snaps s) \/ o = Write FSnap id (PSnap n).
Proof.
  destruct o as [ft i p | ft i].
  - destruct ft, p; cbn; auto.
    intros [H|H]; [inv H; auto|]. apply in_del in H. tauto.
  - destruct ft; cbn; auto. intro H. apply in_del in H. tauto.
Qed.

Lemma step_inv s o : Inv s -> step_ok s o = true -> Inv (apply_op s o).
Proof.
  intros HI Hok id n Hin b Hb.
  destruct (snaps_after _ _ _ _ Hin) as [Hold | ->].
  - apply step_preserves; auto.
    + eapply needed_in; eauto.
    + eapply HI; eauto.
  - cbn in Hok. unfold closedb in Hok. rewrite forallb_forall in Hok.
    rewrite <- (Hok b Hb). apply avail_ext; reflexivity.
Qed.

Lemma discipline_app s a b :
  discipline_ok s (a ++ b) = discipline_ok s a && discipline_ok (apply a s) b.
Proof.
  revert s; induction a as [|o a IH]; intro s; [reflexivity|].
  cbn [app discipline_ok]. rewrite IH, apply_cons, andb_assoc. reflexivity.
Qed.

Lemma discipline_inv log : forall s, Inv s -> discipline_ok s log = true -> Inv (apply log s).
Proof.
  induction log as [|o r IH]; intros s HI H; [exact HI|].
  cbn [discipline_ok] in H. apply andb_true_iff in H as [H1 H2].
  rewrite apply_cons. apply IH; auto. apply step_inv; auto.
Qed.

Lemma discipline_prefix_safe_lemma s0 log :
  Inv s0 -> discipline_ok s0 log = true ->
  forall pre post, log = pre ++ post -> Inv (apply pre s0).
Proof.
  intros HI H pre post ->. rewrite discipline_app in H. apply andb_true_iff in H as [H _].
  apply discipline_inv; auto.
Qed.

(* without assuming that the start state is closed (repair commands start from a damaged
   repository): new snapshots are closed, old ones lose nothing that was readable *)
Lemma no_loss_full log : forall s0, discipline_ok s0 log = true ->
  forall id n, In (id, n) (snaps (apply log s0)) ->
    (forall b, In b n -> avail (apply log s0) b = true) \/
    (In (id, n) (snaps s0) /\
     forall b, In b n -> avail s0 b = true -> avail (apply log s0) b = true).
Proof.
  induction log as [|o r IH]; intros s0 H id n Hin.
  - right. split; auto.
  - cbn [discipline_ok] in H. apply andb_true_iff in H as [H1 H2].
    rewrite apply_cons in *. destruct (IH _ H2 _ _ Hin) as [Hc | [Hin1 Hp]]; [left; exact Hc|].
    destruct (snaps_after _ _ _ _ Hin1) as [Hold | ->].
    + right. split; [exact Hold|]. intros b Hb Ha. apply Hp; auto.
      apply step_preserves; auto. eapply needed_in; eauto.
    + left. intros b Hb. apply Hp; auto.
      cbn in H1. unfold closedb in H1. rewrite forallb_forall in H1.
      rewrite <- (H1 b Hb). apply avail_ext; reflexivity.
Qed.

Lemma no_loss_lemma s0 log : discipline_ok s0 log = true ->
  forall pre post, log = pre ++ post ->
  forall id n, In (id, n) (snaps (apply pre s0)) ->
    (forall b, In b n -> avail (apply pre s0) b = true) \/
    (In (id, n) (snaps s0) /\
     forall b, In b n -> avail s0 b = true -> avail (apply pre s0) b = true).
Proof.
  intros H pre post ->. rewrite discipline_app in H. apply andb_true_iff in H as [H _].
  apply no_loss_full; auto.
Qed.
