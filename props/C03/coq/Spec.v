(* C03 — declarative side: the invariant the property demands of every storage state a
   reader can be confronted with (after a crash, after a failed write, after success). *)
From Verif.Base Require Import Tactics.
From Verif.C03 Require Import Model.
Local Open Scope N_scope.

(* every present snapshot is CLOSED: each blob it needs is listed unmarked by a present
   index file in a present pack (whose header lists it) *)
Definition Inv (s : repo) : Prop :=
  forall id n, In (id, n) (snaps s) -> forall b, In b n -> avail s b = true.

(* the ops a command's writer threads may still complete after one of its backend calls
   failed: plain writes of new packs / new index files, nothing else *)
Definition fresh (s : repo) (ws : list op) : Prop :=
  NoDup (wpacks ws) /\ NoDup (widxs ws) /\
  (forall id, In id (wpacks ws) -> present id (packs s) = false) /\
  (forall id, In id (widxs ws) -> present id (idxs s) = false).
