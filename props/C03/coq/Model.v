(* C03 — crash-order discipline (`CrashOrder`): executable definitions only.

   The abstract repository is what a FRESH reader can see in the storage backend:
   which pack files are present (each with the blobs its header lists), which index
   files are present (each listing packs -> blob (type,id) entries, in the `packs`
   section = unmarked, or in the `packs_to_delete` section = marked), and which
   snapshot files are present (each with the set of blobs (type,id) its trees need:
   every tree blob reachable from the root tree and every data blob of every file).

   A command is seen only through the ordered list of `write_bytes` / `remove` calls
   that reach the backend (`op`); the harness decodes the payloads into these
   abstractions through the repository's own readers.

   Anchors: crates/core/src/archiver.rs (Archiver::archive), blob/packer.rs
   (FileWriterHandle::process/index), index/indexer.rs (Indexer::finalize),
   commands/{prune,copy,merge,rewrite,forget}.rs, commands/repair/{snapshots,index}.rs,
   blob/tree/modify.rs (TreeModifier::finalize). *)
From Verif.Base Require Import Tactics.
Local Open Scope N_scope.

Inductive btype := Data | Tree.
Definition blob := (btype * N)%type.

Definition btype_eqb (a b : btype) : bool :=
  match a, b with Data, Data => true | Tree, Tree => true | _, _ => false end.
Definition blob_eqb (a b : blob) : bool := btype_eqb (fst a) (fst b) && (snd a =? snd b).
Definition memb (b : blob) (l : list blob) : bool := existsb (blob_eqb b) l.

(* one pack entry of an index file *)
Record ixpack := { ip_pack : N; ip_marked : bool; ip_blobs : list blob }.

(* file classes: packs, index files, snapshots; keys and the config file are `FOther`
   (they carry no blob references; their crash behaviour is only observed dynamically) *)
Inductive ftype := FPack | FIndex | FSnap | FOther.
Inductive payload :=
| PPack (bl : list blob)
| PIndex (l : list ixpack)
| PSnap (needs : list blob)
| POther.
Inductive op :=
| Write (ft : ftype) (id : N) (p : payload)
| Remove (ft : ftype) (id : N).

Record repo := {
  packs : list (N * list blob);
  idxs  : list (N * list ixpack);
  snaps : list (N * list blob) }.

(* ---- what a reader finds ---- *)

(* pack `p` is present and its header lists `b` *)
Definition pack_has (s : repo) (p : N) (b : blob) : bool :=
  existsb (fun e => (fst e =? p) && memb b (snd e)) (packs s).

(* index entry `ip` makes `b` readable: unmarked, lists `b`, and the pack is there *)
Definition entry_avail (s : repo) (b : blob) (ip : ixpack) : bool :=
  negb (ip_marked ip) && memb b (ip_blobs ip) && pack_has s (ip_pack ip) b.
Definition index_avail (s : repo) (b : blob) (e : N * list ixpack) : bool :=
  existsb (entry_avail s b) (snd e).
(* `b` is listed unmarked by a present index file in a present pack *)
Definition avail (s : repo) (b : blob) : bool := existsb (index_avail s b) (idxs s).

Definition closedb (s : repo) (needs : list blob) : bool := forallb (avail s) needs.
Definition invb (s : repo) : bool := forallb (fun e => closedb s (snd e)) (snaps s).

(* ---- effect of the backend calls ---- *)
Definition del {A} (id : N) (l : list (N * A)) : list (N * A) :=
  filter (fun e => negb (fst e =? id)) l.
Definition put {A} (id : N) (v : A) (l : list (N * A)) : list (N * A) := (id, v) :: del id l.
Definition present {A} (id : N) (l : list (N * A)) : bool := existsb (fun e => fst e =? id) l.

Definition apply_op (s : repo) (o : op) : repo :=
  match o with
  | Write FPack id (PPack bl) => {| packs := put id bl (packs s); idxs := idxs s; snaps := snaps s |}
  | Write FIndex id (PIndex l) => {| packs := packs s; idxs := put id l (idxs s); snaps := snaps s |}
  | Write FSnap id (PSnap n) => {| packs := packs s; idxs := idxs s; snaps := put id n (snaps s) |}
  | Write _ _ _ => s
  | Remove FPack id => {| packs := del id (packs s); idxs := idxs s; snaps := snaps s |}
  | Remove FIndex id => {| packs := packs s; idxs := del id (idxs s); snaps := snaps s |}
  | Remove FSnap id => {| packs := packs s; idxs := idxs s; snaps := del id (snaps s) |}
  | Remove FOther _ => s
  end.
Definition apply (l : list op) (s : repo) : repo := fold_left apply_op l s.

(* ---- the discipline ---- *)

(* every blob some present snapshot needs *)
Definition needed (s : repo) : list blob := flat_map snd (snaps s).

(* index file `id` is present and makes `b` readable *)
Definition listed_by (s : repo) (id : N) (b : blob) : bool :=
  existsb (fun e => (fst e =? id) && index_avail s b e) (idxs s).

(* some present index file lists `b` unmarked in pack `p` *)
Definition through_pack (s : repo) (p : N) (b : blob) : bool :=
  existsb (fun e => existsb (fun ip => negb (ip_marked ip) && (ip_pack ip =? p) && memb b (ip_blobs ip)) (snd e))
          (idxs s).

Definition step_ok (s : repo) (o : op) : bool :=
  match o with
  (* packs and index files are content-addressed: a write never replaces a present file *)
  | Write FPack id (PPack _) => negb (present id (packs s))
  | Write FIndex id (PIndex _) => negb (present id (idxs s))
  (* a snapshot is written only when it is already closed in the current state *)
  | Write FSnap _ (PSnap n) => closedb s n
  | Write _ _ _ => true
  (* an index file is removed only when every entry a present snapshot needs is listed
     by ANOTHER present index file (in a present pack) *)
  | Remove FIndex id =>
      forallb (fun b => negb (listed_by s id b) || avail (apply_op s (Remove FIndex id)) b) (needed s)
  (* a pack is removed only when no present snapshot needs it through any present index *)
  | Remove FPack id => forallb (fun b => negb (through_pack s id b)) (needed s)
  | Remove _ _ => true
  end.

Fixpoint discipline_ok (s : repo) (log : list op) : bool :=
  match log with
  | [] => true
  | o :: r => step_ok s o && discipline_ok (apply_op s o) r
  end.

(* position of the first op that leaves the discipline (for reports) *)
Fixpoint first_bad (s : repo) (log : list op) (k : nat) : option nat :=
  match log with
  | [] => None
  | o :: r => if step_ok s o then first_bad (apply_op s o) r (S k) else Some k
  end.

(* ---- shapes of op lists used by the per-command lemmas ---- *)
Definition is_plain (o : op) : bool :=
  match o with
  | Write FPack _ (PPack _) => true
  | Write FIndex _ (PIndex _) => true
  | _ => false
  end.
Definition wpack_id (o : op) : list N :=
  match o with Write FPack id (PPack _) => [id] | _ => [] end.
Definition widx_id (o : op) : list N :=
  match o with Write FIndex id (PIndex _) => [id] | _ => [] end.
Definition wpacks (l : list op) : list N := flat_map wpack_id l.
Definition widxs (l : list op) : list N := flat_map widx_id l.

Definition wsnap (e : N * list blob) : op := Write FSnap (fst e) (PSnap (snd e)).
Definition rsnap (id : N) : op := Remove FSnap id.
Definition ridx (id : N) : op := Remove FIndex id.
Definition rpack (id : N) : op := Remove FPack id.
