(* C03 — a log that is a concatenation of fragments along a SAFE phase order, and whose END state
   meets the data-flow conditions, is inside the discipline at every step. *)
From Verif.Base Require Import Tactics.
From Verif.C03 Require Import Model Spec Proofs Proofs2 Proofs3 Order.

Definition fits (ps : list phase) (frags : list (list op)) : Prop :=
  Forall2 (fun p f => forallb (accepts p) f = true) ps frags.

Lemma accepts_kind p o : accepts p o = true -> okind o = rank p.
Proof.
  destruct p, o as [ft id pl|ft id]; try destruct ft; try destruct pl; cbn; intro H;
    try discriminate; reflexivity.
Qed.

Lemma span_spec f : forall l a b, span f l = (a, b) -> l = a ++ b /\ forallb f a = true.
Proof.
  induction l as [|o r IH]; cbn; intros a b H.
  - inv H. split; reflexivity.
  - destruct (f o) eqn:Hf.
    + destruct (span f r) as [x y] eqn:S. inv H. destruct (IH _ _ eq_refl) as [E F].
      split; cbn; [f_equal; exact E|rewrite Hf; exact F].
    + inv H. split; reflexivity.
Qed.

Lemma segment_sound : forall ps log frags,
  segment ps log = Some frags -> log = concat frags /\ fits ps frags.
Proof.
  induction ps as [|p ps IH]; cbn; intros log frags H.
  - destruct log; inv H. split; [reflexivity|constructor].
  - destruct (span (accepts p) log) as [x y] eqn:S.
    destruct (segment ps y) as [fr|] eqn:G; cbn in H; inv H.
    destruct (span_spec _ _ _ _ S) as [E F], (IH _ _ G) as [E' F'].
    split; [cbn; congruence|constructor; auto].
Qed.

(* ---- sortedness ---- *)
Lemma ssorted_app x : forall y,
  ssorted x = true -> ssorted y = true -> (forall a b, In a x -> In b y -> a <= b) ->
  ssorted (x ++ y) = true.
Proof.
  induction x as [|a x IH]; cbn; intros y Hx Hy Hc; [exact Hy|].
  apply andb_true_iff in Hx as [H1 H2]. apply andb_true_iff. split.
  - rewrite forallb_app, H1. cbn. apply forallb_forall. intros b Hb. apply Nat.leb_le. apply Hc; auto.
  - apply IH; auto.
Qed.
Lemma ssorted_const k x : (forall a, In a x -> a = k) -> ssorted x = true.
Proof.
  induction x as [|a x IH]; cbn; intro H; [reflexivity|].
  apply andb_true_iff. split.
  - apply forallb_forall. intros b Hb. apply Nat.leb_le.
    rewrite (H a) by (left; reflexivity). rewrite (H b) by (right; exact Hb). constructor.
  - apply IH. intros b Hb. apply H. right; exact Hb.
Qed.

Lemma fits_in ps frags o : fits ps frags -> In o (concat frags) ->
  exists p, In p ps /\ accepts p o = true.
Proof.
  induction 1 as [|p f ps' fr Hf HF IH]; cbn; intro Hin; [contradiction|].
  apply in_app_or in Hin as [Hin|Hin].
  - exists p. split; [left; reflexivity|]. rewrite forallb_forall in Hf. auto.
  - destruct (IH Hin) as [q [Hq Ha]]. exists q. split; [right; exact Hq|exact Ha].
Qed.

Lemma fits_sorted ps frags : fits ps frags -> ssorted (map rank ps) = true ->
  ssorted (map okind (concat frags)) = true.
Proof.
  induction 1 as [|p f ps' fr Hf HF IH]; intro S; [reflexivity|].
  cbn [map ssorted] in S. apply andb_true_iff in S as [S1 S2].
  cbn [concat]. rewrite map_app. apply ssorted_app.
  - apply (ssorted_const (rank p)). intros a Ha. apply in_map_iff in Ha as [o [<- Ho]].
    apply accepts_kind. rewrite forallb_forall in Hf. auto.
  - apply IH. exact S2.
  - intros a b Ha Hb. apply in_map_iff in Ha as [o [<- Ho]]. apply in_map_iff in Hb as [o' [<- Ho']].
    rewrite forallb_forall in Hf. rewrite (accepts_kind p o) by auto.
    destruct (fits_in _ _ _ HF Ho') as [q [Hq Hacc]]. rewrite (accepts_kind q o') by exact Hacc.
    rewrite forallb_forall in S1. apply Nat.leb_le. apply S1. apply in_map. exact Hq.
Qed.

Lemma three_way k0 k1 k2 : k0 < k1 -> k1 < k2 -> forall l,
  ssorted (map okind l) = true ->
  (forall o, In o l -> okind o = k0 \/ okind o = k1 \/ okind o = k2) ->
  exists a b c, l = a ++ b ++ c /\ (forall o, In o a -> okind o = k0) /\
                (forall o, In o b -> okind o = k1) /\ (forall o, In o c -> okind o = k2).
Proof.
  intros L1 L2. induction l as [|o r IH]; intros S K.
  - exists [], [], []. split; [reflexivity|]. split; [|split]; intros ? [].
  - cbn [map ssorted] in S. apply andb_true_iff in S as [Sge Ss].
    destruct (IH Ss) as (a & b & c & E & A & B & C); [intros; apply K; right; assumption|].
    assert (GE : forall x, In x r -> okind o <= okind x).
    { intros x Hx. rewrite forallb_forall in Sge. apply Nat.leb_le, Sge, in_map, Hx. }
    destruct (K o (or_introl eq_refl)) as [Ko|[Ko|Ko]].
    + exists (o :: a), b, c. subst r. split; [reflexivity|]. split; [|split]; auto.
      intros x [<-|Hx]; auto.
    + destruct a as [|x a'].
      * exists [], (o :: b), c. subst r. split; [reflexivity|].
        split; [|split]; auto; solve [intros ? []|intros x [<-|Hx]; auto].
      * exfalso. assert (Hx : In x r) by (subst r; left; reflexivity).
        specialize (GE x Hx). rewrite (A x (or_introl eq_refl)), Ko in GE. lia.
    + destruct a as [|x a']; [destruct b as [|y b']|].
      * exists [], [], (o :: c). subst r. split; [reflexivity|].
        split; [|split]; solve [intros ? []|intros x [<-|Hx]; auto].
      * exfalso. assert (Hy : In y r) by (subst r; left; reflexivity).
        specialize (GE y Hy). rewrite (B y (or_introl eq_refl)), Ko in GE. lia.
      * exfalso. assert (Hx : In x r) by (subst r; left; reflexivity).
        specialize (GE x Hx). rewrite (A x (or_introl eq_refl)), Ko in GE. lia.
Qed.

(* ---- ops of one stage ---- *)
Lemma kind0_plain_op o : okind o = 0 -> is_plain o = true.
Proof. destruct o as [ft id pl|ft id]; destruct ft; try destruct pl; cbn; intro; try discriminate; reflexivity. Qed.
Lemma kind0_plain l : (forall o, In o l -> okind o = 0) -> forallb is_plain l = true.
Proof. intro H. apply forallb_forall. intros o Ho. apply kind0_plain_op. auto. Qed.

Lemma kind1_map l : (forall o, In o l -> okind o = 1) -> exists sns, l = map wsnap sns.
Proof.
  induction l as [|o r IH]; intro H; [exists []; reflexivity|].
  destruct IH as [sns ->]; [intros; apply H; right; assumption|].
  specialize (H o (or_introl eq_refl)).
  destruct o as [ft id pl|ft id]; destruct ft; try destruct pl; cbn in H; try discriminate.
  exists ((id, needs) :: sns). reflexivity.
Qed.
Lemma kind2_map l : (forall o, In o l -> okind o = 2) -> exists dl, l = map rsnap dl.
Proof.
  induction l as [|o r IH]; intro H; [exists []; reflexivity|].
  destruct IH as [dl ->]; [intros; apply H; right; assumption|].
  specialize (H o (or_introl eq_refl)).
  destruct o as [ft id pl|ft id]; destruct ft; try destruct pl; cbn in H; try discriminate.
  exists (id :: dl). reflexivity.
Qed.
Lemma kind3_map l : (forall o, In o l -> okind o = 3) -> exists dl, l = map ridx dl.
Proof.
  induction l as [|o r IH]; intro H; [exists []; reflexivity|].
  destruct IH as [dl ->]; [intros; apply H; right; assumption|].
  specialize (H o (or_introl eq_refl)).
  destruct o as [ft id pl|ft id]; destruct ft; try destruct pl; cbn in H; try discriminate.
  exists (id :: dl). reflexivity.
Qed.
Lemma kind4_map l : (forall o, In o l -> okind o = 4) -> exists dl, l = map rpack dl.
Proof.
  induction l as [|o r IH]; intro H; [exists []; reflexivity|].
  destruct IH as [dl ->]; [intros; apply H; right; assumption|].
  specialize (H o (or_introl eq_refl)).
  destruct o as [ft id pl|ft id]; destruct ft; try destruct pl; cbn in H; try discriminate.
  exists (id :: dl). reflexivity.
Qed.

Lemma nonplain_ids o : okind o <> 0 -> wpack_id o = [] /\ widx_id o = [].
Proof.
  destruct o as [ft id pl|ft id]; destruct ft; try destruct pl; cbn; intro H; try (split; reflexivity);
    exfalso; apply H; reflexivity.
Qed.
Lemma nonplain_w l : (forall o, In o l -> okind o <> 0) -> wpacks l = [] /\ widxs l = [].
Proof.
  unfold wpacks, widxs. induction l as [|o r IH]; intro H; [split; reflexivity|].
  cbn [flat_map]. destruct (nonplain_ids o (H o (or_introl eq_refl))) as [-> ->].
  apply IH. intros; apply H; right; assumption.
Qed.
Lemma fresh_drop_nonplain s x y z :
  (forall o, In o x -> okind o <> 0) -> (forall o, In o z -> okind o <> 0) ->
  fresh s (x ++ y ++ z) -> fresh s y.
Proof.
  intros Hx Hz. unfold fresh, wpacks, widxs. rewrite !flat_map_app.
  destruct (nonplain_w x Hx) as [Px Ix], (nonplain_w z Hz) as [Pz Iz].
  unfold wpacks, widxs in *. rewrite Px, Ix, Pz, Iz. cbn [app]. rewrite !app_nil_r. auto.
Qed.

Lemma snap_ops_frame l : forall s, (forall o, In o l -> okind o = 1 \/ okind o = 2) ->
  packs (apply l s) = packs s /\ idxs (apply l s) = idxs s.
Proof.
  induction l as [|o r IH]; intros s H; [split; reflexivity|].
  rewrite apply_cons. destruct (IH (apply_op s o)) as [A B]; [intros; apply H; right; assumption|].
  rewrite A, B. specialize (H o (or_introl eq_refl)).
  destruct o as [ft id pl|ft id]; destruct ft; try destruct pl; cbn in H; destruct H; try discriminate;
    split; reflexivity.
Qed.

(* ---- reflection of the executable freshness check ---- *)
Lemma nodupb_spec l : nodupb l = true -> NoDup l.
Proof.
  induction l as [|a r IH]; cbn; intro H; [constructor|].
  apply andb_true_iff in H as [H1 H2]. constructor; [|auto].
  intro Hin. apply negb_true_iff in H1. assert (existsb (N.eqb a) r = true); [|congruence].
  apply existsb_exists. exists a. split; [exact Hin|apply N.eqb_refl].
Qed.
Lemma freshb_spec s log : freshb s log = true -> fresh s log.
Proof.
  unfold freshb, fresh. intro H. repeat (apply andb_true_iff in H as [H ?]).
  repeat split.
  - apply nodupb_spec; assumption.
  - apply nodupb_spec; assumption.
  - intros id Hin. rewrite forallb_forall in H1. apply negb_true_iff. auto.
  - intros id Hin. rewrite forallb_forall in H0. apply negb_true_iff. auto.
Qed.

(* ---- family 1: snapshot commands ---- *)
Lemma snapshot_family_lemma ps frags s :
  order_ok1 ps = true -> fits ps frags ->
  freshb s (concat frags) = true -> written_snaps_closed s (concat frags) = true ->
  discipline_ok s (concat frags) = true.
Proof.
  intros Ho HF Hfr Hc. apply freshb_spec in Hfr.
  unfold order_ok1 in Ho. apply andb_true_iff in Ho as [Hr Hs].
  assert (K : forall o, In o (concat frags) -> okind o = 0 \/ okind o = 1 \/ okind o = 2).
  { intros o Ho. destruct (fits_in _ _ _ HF Ho) as [p [Hp Ha]]. rewrite (accepts_kind _ _ Ha).
    rewrite forallb_forall in Hr. specialize (Hr p Hp). apply Nat.leb_le in Hr. lia. }
  destruct (three_way 0 1 2 ltac:(lia) ltac:(lia) _ (fits_sorted _ _ HF Hs) K) as (a & b & c & E & A & B & C).
  destruct (kind1_map b B) as [sns Eb], (kind2_map c C) as [dl Ec].
  unfold written_snaps_closed in Hc. rewrite E in *. subst b c.
  apply writes_snapshots_removes_ok_lemma.
  - apply kind0_plain; exact A.
  - apply (fresh_drop_nonplain s [] a (map wsnap sns ++ map rsnap dl)); [intros ? []| |exact Hfr].
    intros o Ho. apply in_app_or in Ho as [Ho|Ho]; [rewrite (B o Ho)|rewrite (C o Ho)]; discriminate.
  - intros e He. rewrite forallb_forall in Hc.
    specialize (Hc (wsnap e)). cbn [wsnap] in Hc.
    rewrite <- Hc.
    + rewrite apply_app. apply closedb_ext; symmetry;
        apply (snap_ops_frame (map wsnap sns ++ map rsnap dl) (apply a s));
        intros o Ho; apply in_app_or in Ho as [Ho|Ho]; auto.
    + apply in_or_app. right. apply in_or_app. left. apply (in_map wsnap). exact He.
Qed.

(* ---- family 2: removal commands ---- *)
Lemma removal_core s U rest :
  (forall o, In o U -> okind o = 4) ->
  ssorted (map okind rest) = true ->
  (forall o, In o rest -> okind o = 0 \/ okind o = 3 \/ okind o = 4) ->
  fresh s (U ++ rest) -> unindexed_unlisted s U = true ->
  needed_kept s (U ++ rest) = true -> removed_packs_unlisted s (U ++ rest) = true ->
  discipline_ok s (U ++ rest) = true.
Proof.
  intros HU Hs K Hfr Hun Hkeep Hunl.
  destruct (kind4_map U HU) as [us EU].
  destruct (three_way 0 3 4 ltac:(lia) ltac:(lia) _ Hs K) as (a & b & c & E & A & B & C).
  destruct (kind3_map b B) as [ri Eb], (kind4_map c C) as [rp Ec].
  rewrite discipline_app. apply andb_true_iff. split.
  - subst U. apply pack_removes_ok. intros p bl Hp Hb.
    unfold unindexed_unlisted in Hun. rewrite forallb_forall in Hun.
    specialize (Hun (rpack p) (in_map rpack _ _ Hp)). cbn [rpack] in Hun.
    rewrite forallb_forall in Hun. apply negb_true_iff. auto.
  - set (s' := apply U s).
    destruct (rpack_frame us s) as (FI & FS & FP). rewrite <- EU in FI, FS, FP. fold s' in FI, FS, FP.
    assert (N' : needed s' = needed s) by (apply needed_ext; exact FS).
    rewrite E. subst b c. apply prune_order_ok_lemma.
    + apply kind0_plain; exact A.
    + assert (F0 : fresh s a).
      { apply (fresh_drop_nonplain s U a (map ridx ri ++ map rpack rp)).
        - intros o Ho. rewrite (HU o Ho). discriminate.
        - intros o Ho. apply in_app_or in Ho as [Ho|Ho]; [rewrite (B o Ho)|rewrite (C o Ho)]; discriminate.
        - rewrite <- E. exact Hfr. }
      destruct F0 as (N1 & N2 & F1 & F2). repeat split; auto.
      * intros id Hid. apply present_false. intros e He. apply FP in He.
        specialize (F1 id Hid). rewrite present_false in F1. auto.
      * intros id Hid. rewrite FI. auto.
    + intros bl Hb. rewrite N' in Hb. unfold needed_kept in Hkeep. rewrite forallb_forall in Hkeep.
      specialize (Hkeep bl Hb). rewrite E in Hkeep. rewrite !apply_app in Hkeep. exact Hkeep.
    + intros p bl Hp Hb. rewrite N' in Hb.
      unfold removed_packs_unlisted in Hunl. rewrite forallb_forall in Hunl.
      specialize (Hunl (rpack p)). cbn [rpack] in Hunl.
      assert (Hin : In (Remove FPack p) (U ++ rest)).
      { apply in_or_app. right. rewrite E. apply in_or_app. right. apply in_or_app. right.
        apply (in_map rpack). exact Hp. }
      specialize (Hunl Hin). rewrite forallb_forall in Hunl. specialize (Hunl bl Hb).
      apply negb_true_iff in Hunl. rewrite <- Hunl.
      rewrite E, !apply_app. fold s'.
      apply through_pack_ext. symmetry.
      apply (rpack_frame rp (apply (map ridx ri) (apply a s'))).
Qed.

Lemma tail_facts ps frags : order_ok2_tail ps = true -> fits ps frags ->
  ssorted (map okind (concat frags)) = true /\
  (forall o, In o (concat frags) -> okind o = 0 \/ okind o = 3 \/ okind o = 4).
Proof.
  unfold order_ok2_tail. intros Ho HF. apply andb_true_iff in Ho as [Hc Hs]. split.
  - apply (fits_sorted _ _ HF Hs).
  - intros o Ho. destruct (fits_in _ _ _ HF Ho) as [p [Hp Ha]]. rewrite (accepts_kind _ _ Ha).
    rewrite forallb_forall in Hc. specialize (Hc p Hp). destruct p; try discriminate; cbn; auto.
Qed.

Lemma removal_family_lemma ps frags s :
  order_ok2 ps = true -> fits ps frags ->
  freshb s (concat frags) = true ->
  unindexed_unlisted s (unindexed_frag ps frags) = true ->
  needed_kept s (concat frags) = true -> removed_packs_unlisted s (concat frags) = true ->
  discipline_ok s (concat frags) = true.
Proof.
  intros Ho HF Hfr Hun Hkeep Hunl. apply freshb_spec in Hfr.
  assert (Gen : order_ok2_tail ps = true -> discipline_ok s (concat frags) = true).
  { intro Ht. destruct (tail_facts _ _ Ht HF) as [S K].
    apply (removal_core s [] (concat frags)); auto. intros ? []. }
  destruct ps as [|p ps']; [apply Gen; exact Ho|].
  destruct p; try (apply Gen; exact Ho).
  (* leading PhRmUnindexed *)
  cbn [order_ok2] in Ho. inv HF. cbn [unindexed_frag] in Hun. cbn [concat] in *.
  destruct (tail_facts _ _ Ho H3) as [S K].
  apply removal_core; auto.
  intros o Hin. rewrite forallb_forall in H1. apply (accepts_kind PhRmUnindexed). auto.
Qed.

(* ---- key / config commands ---- *)
Lemma other_ok l : (forall o, In o l -> okind o = 5) -> forall s, discipline_ok s l = true.
Proof.
  induction l as [|o r IH]; intros H s; [reflexivity|].
  cbn [discipline_ok]. rewrite IH by (intros; apply H; right; assumption).
  specialize (H o (or_introl eq_refl)).
  destruct o as [ft id pl|ft id]; destruct ft; try destruct pl; cbn in H; try discriminate; reflexivity.
Qed.
Lemma other_family_lemma ps frags s :
  order_ok_other ps = true -> fits ps frags -> discipline_ok s (concat frags) = true.
Proof.
  intros Ho HF. apply other_ok. intros o Hin.
  destruct (fits_in _ _ _ HF Hin) as [p [Hp Ha]]. rewrite (accepts_kind _ _ Ha).
  unfold order_ok_other in Ho. rewrite forallb_forall in Ho. specialize (Ho p Hp).
  destruct p; try discriminate. reflexivity.
Qed.

(* ---- a failed call reaches the command's result when every site hands its result on ---- *)
Lemma failed_call_reported_lemma : forall props outcomes,
  all_true props = true -> length outcomes = length props ->
  run_sites props outcomes = true -> all_true outcomes = true.
Proof.
  unfold all_true. induction props as [|p ps IH]; intros [|o os] Hp Hl Hr; try discriminate; [reflexivity|].
  cbn [forallb] in Hp. apply andb_true_iff in Hp as [Hp1 Hp2]. subst p.
  cbn [run_sites] in Hr. destruct o; [|discriminate].
  cbn [forallb]. cbn [andb]. apply IH; auto.
Qed.
