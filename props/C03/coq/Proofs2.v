(* C03 — per-command orders lie inside the discipline; single failed call; witnesses. *)
From Verif.Base Require Import Tactics.
From Verif.C03 Require Import Model Spec Proofs.
Local Open Scope N_scope.

Lemma present_put {A} id id' (v : A) l :
  present id' (put id v l) = (id =? id') || present id' (del id l).
Proof. reflexivity. Qed.

(* ---- plain writes of new packs / index files, in ANY order ---- *)
Lemma plain_writes_ok ws : forall s,
  forallb is_plain ws = true -> fresh s ws -> discipline_ok s ws = true.
Proof.
  induction ws as [|o r IH]; intros s Hp Hf; [reflexivity|].
  cbn [forallb] in Hp. apply andb_true_iff in Hp as [Ho Hp].
  destruct Hf as (N1 & N2 & F1 & F2).
  destruct o as [ft id p|ft id]; [|discriminate].
  destruct ft, p; try discriminate.
  - cbn [discipline_ok step_ok]. cbn in N1, F1, N2, F2. inv N1.
    rewrite (F1 id (or_introl eq_refl)). cbn [negb andb].
    apply IH; auto. repeat split; auto.
    intros id' Hin. cbn [apply_op packs]. rewrite present_put. apply orb_false_iff. split.
    + apply N.eqb_neq. intro; subst. contradiction.
    + apply present_del_false. apply F1. right; exact Hin.
  - cbn [discipline_ok step_ok]. cbn in N1, F1, N2, F2. inv N2.
    rewrite (F2 id (or_introl eq_refl)). cbn [negb andb].
    apply IH; auto. repeat split; auto.
    intros id' Hin. cbn [apply_op idxs]. rewrite present_put. apply orb_false_iff. split.
    + apply N.eqb_neq. intro; subst. contradiction.
    + apply present_del_false. apply F2. right; exact Hin.
Qed.

Lemma plain_snaps ws : forall s, forallb is_plain ws = true -> snaps (apply ws s) = snaps s.
Proof.
  induction ws as [|o r IH]; intros s Hp; [reflexivity|].
  cbn [forallb] in Hp. apply andb_true_iff in Hp as [Ho Hp]. rewrite apply_cons, IH by auto.
  destruct o as [ft id p|ft id]; [|discriminate]. destruct ft, p; try discriminate; reflexivity.
Qed.

(* ---- snapshot writes / snapshot removals ---- *)
Lemma closedb_ext s s' n : packs s = packs s' -> idxs s = idxs s' -> closedb s n = closedb s' n.
Proof.
  intros Hp Hi. unfold closedb. induction n as [|b n IH]; [reflexivity|].
  cbn [forallb]. rewrite IH, (avail_ext s s' b Hp Hi). reflexivity.
Qed.

Lemma snap_writes_ok sns : forall s,
  (forall e, In e sns -> closedb s (snd e) = true) -> discipline_ok s (map wsnap sns) = true.
Proof.
  induction sns as [|e r IH]; intros s H; [reflexivity|].
  cbn [map discipline_ok]. apply andb_true_iff. split.
  - cbn. apply H. left; reflexivity.
  - apply IH. intros e' He'. rewrite <- (H e' (or_intror He')). apply closedb_ext; reflexivity.
Qed.

Lemma snap_removes_ok dl : forall s, discipline_ok s (map rsnap dl) = true.
Proof. induction dl as [|i r IH]; intro s; [reflexivity|]. cbn [map discipline_ok]. rewrite IH. reflexivity. Qed.

(* backup, copy, merge, rewrite (with or without forget), repair snapshots (intended order),
   forget: new packs and index files in any order, THEN the snapshots (each closed once the
   writes are done), THEN removals of snapshot files *)
Lemma writes_snapshots_removes_ok_lemma s ws sns dl :
  forallb is_plain ws = true -> fresh s ws ->
  (forall e, In e sns -> closedb (apply ws s) (snd e) = true) ->
  discipline_ok s (ws ++ map wsnap sns ++ map rsnap dl) = true.
Proof.
  intros Hp Hf Hc. rewrite !discipline_app.
  rewrite plain_writes_ok by auto. rewrite snap_writes_ok by auto. rewrite snap_removes_ok. reflexivity.
Qed.

(* ---- removals of index files, then of packs (prune; repair index in the intended order) ---- *)
Lemma ridx_frame l : forall s,
  packs (apply (map ridx l) s) = packs s /\ snaps (apply (map ridx l) s) = snaps s /\
  incl (idxs (apply (map ridx l) s)) (idxs s).
Proof.
  induction l as [|i r IH]; intro s; [repeat split; apply incl_refl|].
  cbn [map]. rewrite apply_cons. destruct (IH (apply_op s (ridx i))) as (A & B & C).
  rewrite A, B. repeat split. eapply incl_tran; [exact C|]. cbn. apply del_incl.
Qed.
Lemma rpack_frame l : forall s,
  idxs (apply (map rpack l) s) = idxs s /\ snaps (apply (map rpack l) s) = snaps s /\
  incl (packs (apply (map rpack l) s)) (packs s).
Proof.
  induction l as [|i r IH]; intro s; [repeat split; apply incl_refl|].
  cbn [map]. rewrite apply_cons. destruct (IH (apply_op s (rpack i))) as (A & B & C).
  rewrite A, B. repeat split. eapply incl_tran; [exact C|]. cbn. apply del_incl.
Qed.

Lemma needed_ext s s' : snaps s = snaps s' -> needed s = needed s'.
Proof. unfold needed. intros ->. reflexivity. Qed.

Lemma idx_removes_ok ri : forall s,
  (forall b, In b (needed s) -> avail (apply (map ridx ri) s) b = true) ->
  discipline_ok s (map ridx ri) = true.
Proof.
  induction ri as [|i r IH]; intros s H; [reflexivity|].
  cbn [map discipline_ok]. apply andb_true_iff. split.
  - cbn [ridx step_ok]. apply forallb_forall. intros b Hb. apply orb_true_iff. right.
    specialize (H b Hb). cbn [map] in H. rewrite apply_cons in H.
    destruct (ridx_frame r (apply_op s (ridx i))) as (A & _ & C).
    eapply avail_mono; [| |exact H].
    + rewrite A. apply incl_refl.
    + exact C.
  - apply IH. intros b Hb. apply (H b). exact Hb.
Qed.

Lemma through_pack_ext s s' p b : idxs s = idxs s' -> through_pack s p b = through_pack s' p b.
Proof. unfold through_pack. intros ->. reflexivity. Qed.

Lemma pack_removes_ok rp : forall s,
  (forall p b, In p rp -> In b (needed s) -> through_pack s p b = false) ->
  discipline_ok s (map rpack rp) = true.
Proof.
  induction rp as [|p r IH]; intros s H; [reflexivity|].
  cbn [map discipline_ok]. apply andb_true_iff. split.
  - cbn [rpack step_ok]. apply forallb_forall. intros b Hb. rewrite H; auto. left; reflexivity.
  - apply IH. intros q b Hq Hb.
    rewrite <- (H q b (or_intror Hq) Hb). apply through_pack_ext. reflexivity.
Qed.

Lemma prune_order_ok_lemma s ws ri rp :
  forallb is_plain ws = true -> fresh s ws ->
  (forall b, In b (needed s) ->
     avail (apply (map rpack rp) (apply (map ridx ri) (apply ws s))) b = true) ->
  (forall p b, In p rp -> In b (needed s) ->
     through_pack (apply (map ridx ri) (apply ws s)) p b = false) ->
  discipline_ok s (ws ++ map ridx ri ++ map rpack rp) = true.
Proof.
  intros Hp Hf Hfin Hun. rewrite !discipline_app. rewrite plain_writes_ok by auto. cbn [andb].
  set (s1 := apply ws s) in *. set (s2 := apply (map ridx ri) s1) in *.
  assert (N1 : needed s1 = needed s) by (apply needed_ext, plain_snaps; auto).
  destruct (ridx_frame ri s1) as (_ & B2 & _). fold s2 in B2.
  assert (N2 : needed s2 = needed s) by (rewrite <- N1; apply needed_ext; exact B2).
  destruct (rpack_frame rp s2) as (A3 & _ & C3).
  apply andb_true_iff. split.
  - apply idx_removes_ok. fold s2. intros b Hb. rewrite N1 in Hb.
    eapply avail_mono; [exact C3| |exact (Hfin b Hb)]. rewrite A3. apply incl_refl.
  - apply pack_removes_ok. intros p b Hpin Hb. rewrite N2 in Hb. auto.
Qed.

(* ---- one failed backend call ---- *)
Lemma single_fault_safe_lemma s0 log :
  Inv s0 -> discipline_ok s0 log = true ->
  forall k extra, forallb is_plain extra = true -> fresh (apply (firstn k log) s0) extra ->
  forall pre post, firstn k log ++ extra = pre ++ post -> Inv (apply pre s0).
Proof.
  intros HI H k extra Hp Hf pre post E.
  apply (discipline_prefix_safe_lemma s0 (firstn k log ++ extra)) with (post := post); auto.
  rewrite discipline_app. apply andb_true_iff. split.
  - rewrite <- (firstn_skipn k log) in H. rewrite discipline_app in H.
    apply andb_true_iff in H. tauto.
  - apply plain_writes_ok; auto.
Qed.

(* ---- concrete repositories and logs ---- *)
Definition ixp p m bl := {| ip_pack := p; ip_marked := m; ip_blobs := bl |}.
Definition ex_s0 : repo :=
  {| packs := [(1, [(Tree, 10); (Data, 11)])];
     idxs := [(2, [ixp 1 false [(Tree, 10); (Data, 11)]])];
     snaps := [(3, [(Tree, 10); (Data, 11)])] |}.
Definition ex_new_snap : op := Write FSnap 7 (PSnap [(Tree, 13); (Data, 12); (Data, 11)]).
Definition ex_new_writes : list op :=
  [Write FPack 4 (PPack [(Data, 12)]); Write FPack 5 (PPack [(Tree, 13)]);
   Write FIndex 6 (PIndex [ixp 4 false [(Data, 12)]; ixp 5 false [(Tree, 13)]])].
(* backup as Archiver::archive issues it: packs, index, snapshot *)
Definition ex_backup : list op := ex_new_writes ++ [ex_new_snap].
(* the order recorded for `repair snapshots` on the unchanged tree: snapshot first *)
Definition ex_snapshot_first : list op := ex_new_snap :: ex_new_writes ++ [Remove FSnap 3].
(* repack of pack 1 into pack 20, old index removed, old pack removed at once *)
Definition ex_prune : list op :=
  [Write FPack 20 (PPack [(Tree, 10); (Data, 11)]);
   Write FIndex 21 (PIndex [ixp 20 false [(Tree, 10); (Data, 11)]; ixp 1 true [(Tree, 10); (Data, 11)]]);
   Remove FIndex 2; Remove FPack 1].
(* `repair index --read-all` on the unchanged tree: old index file removed, then the rebuilt one written *)
Definition ex_index_removed_first : list op :=
  [Remove FIndex 2; Write FIndex 8 (PIndex [ixp 1 false [(Tree, 10); (Data, 11)]])].
Definition ex_index_written_first : list op :=
  [Write FIndex 8 (PIndex [ixp 1 false [(Tree, 10); (Data, 11)]]); Remove FIndex 2].

Lemma ex_backup_ok : Inv ex_s0 /\ discipline_ok ex_s0 ex_backup = true.
Proof. split; [apply invb_spec|]; vm_compute; reflexivity. Qed.
Lemma ex_prune_ok : Inv ex_s0 /\ discipline_ok ex_s0 ex_prune = true.
Proof. split; [apply invb_spec|]; vm_compute; reflexivity. Qed.
Lemma ex_index_written_first_ok : discipline_ok ex_s0 ex_index_written_first = true.
Proof. vm_compute; reflexivity. Qed.
Lemma ex_fresh : forallb is_plain ex_new_writes = true /\ fresh ex_s0 ex_new_writes.
Proof.
  split; [reflexivity|]. unfold fresh. cbn. repeat split.
  - repeat constructor; cbn; intuition discriminate.
  - repeat constructor; cbn; intuition.
  - intros id [<-|[<-|[]]]; reflexivity.
  - intros id [<-|[]]; reflexivity.
Qed.

Lemma snapshot_first_refuted_lemma :
  exists s0 log pre post,
    Inv s0 /\ log = pre ++ post /\ Inv (apply log s0) /\
    discipline_ok s0 log = false /\ ~ Inv (apply pre s0).
Proof.
  exists ex_s0, ex_snapshot_first, [ex_new_snap], (ex_new_writes ++ [Remove FSnap 3]).
  split; [apply invb_spec; vm_compute; reflexivity|].
  split; [reflexivity|].
  split; [apply invb_spec; vm_compute; reflexivity|].
  split; [vm_compute; reflexivity|].
  intro H. apply invb_spec in H. vm_compute in H. discriminate.
Qed.

Lemma index_removed_first_refuted_lemma :
  exists s0 log pre post,
    Inv s0 /\ log = pre ++ post /\ Inv (apply log s0) /\
    discipline_ok s0 log = false /\ ~ Inv (apply pre s0).
Proof.
  exists ex_s0, ex_index_removed_first, [Remove FIndex 2],
         [Write FIndex 8 (PIndex [ixp 1 false [(Tree, 10); (Data, 11)]])].
  split; [apply invb_spec; vm_compute; reflexivity|].
  split; [reflexivity|].
  split; [apply invb_spec; vm_compute; reflexivity|].
  split; [vm_compute; reflexivity|].
  intro H. apply invb_spec in H. vm_compute in H. discriminate.
Qed.
