(* C03 — the order among the plain writes of one command is irrelevant: every interleaving of
   the data packer, the tree packer and the indexer reaches the same set of present files. *)
From Verif.Base Require Import Tactics.
From Verif.C03 Require Import Model Spec Proofs Proofs2.
Local Open Scope N_scope.

Lemma fresh_tail o r s : is_plain o = true -> fresh s (o :: r) -> fresh (apply_op s o) r.
Proof.
  intros Ho (N1 & N2 & F1 & F2).
  destruct o as [ft id p|ft id]; [|discriminate]. destruct ft, p; try discriminate.
  - cbn in N1, F1, N2, F2. inv N1. repeat split; auto.
    intros id' Hin. cbn [apply_op packs]. rewrite present_put. apply orb_false_iff. split.
    + apply N.eqb_neq. intro; subst. contradiction.
    + apply present_del_false. apply F1. right; exact Hin.
  - cbn in N1, F1, N2, F2. inv N2. repeat split; auto.
    intros id' Hin. cbn [apply_op idxs]. rewrite present_put. apply orb_false_iff. split.
    + apply N.eqb_neq. intro; subst. contradiction.
    + apply present_del_false. apply F2. right; exact Hin.
Qed.

Lemma plain_step_packs o r s : is_plain o = true -> fresh s (o :: r) ->
  forall e, In e (packs (apply_op s o)) <-> In e (packs s) \/ Write FPack (fst e) (PPack (snd e)) = o.
Proof.
  intros Ho (N1 & N2 & F1 & F2) e.
  destruct o as [ft id p|ft id]; [|discriminate]. destruct ft, p; try discriminate.
  - cbn [apply_op packs]. unfold put. rewrite del_fresh by (apply F1; left; reflexivity).
    cbn [In]. destruct e as [i b]. cbn [fst snd]. split.
    + intros [H|H]; [inv H; auto|auto].
    + intros [H|H]; [auto|inv H; auto].
  - cbn [apply_op packs]. split; [auto|]. intros [H|H]; [auto|discriminate].
Qed.

Lemma plain_step_idxs o r s : is_plain o = true -> fresh s (o :: r) ->
  forall e, In e (idxs (apply_op s o)) <-> In e (idxs s) \/ Write FIndex (fst e) (PIndex (snd e)) = o.
Proof.
  intros Ho (N1 & N2 & F1 & F2) e.
  destruct o as [ft id p|ft id]; [|discriminate]. destruct ft, p; try discriminate.
  - cbn [apply_op idxs]. split; [auto|]. intros [H|H]; [auto|discriminate].
  - cbn [apply_op idxs]. unfold put. rewrite del_fresh by (apply F2; left; reflexivity).
    cbn [In]. destruct e as [i b]. cbn [fst snd]. split.
    + intros [H|H]; [inv H; auto|auto].
    + intros [H|H]; [auto|inv H; auto].
Qed.

Lemma plain_packs ws : forall s, forallb is_plain ws = true -> fresh s ws ->
  forall e, In e (packs (apply ws s)) <-> In e (packs s) \/ In (Write FPack (fst e) (PPack (snd e))) ws.
Proof.
  induction ws as [|o r IH]; intros s Hp Hf e.
  - cbn. tauto.
  - cbn [forallb] in Hp. apply andb_true_iff in Hp as [Ho Hp].
    rewrite apply_cons, IH by (auto using fresh_tail).
    rewrite (plain_step_packs o r s Ho Hf). cbn [In]. intuition (subst; auto).
Qed.

Lemma plain_idxs ws : forall s, forallb is_plain ws = true -> fresh s ws ->
  forall e, In e (idxs (apply ws s)) <-> In e (idxs s) \/ In (Write FIndex (fst e) (PIndex (snd e))) ws.
Proof.
  induction ws as [|o r IH]; intros s Hp Hf e.
  - cbn. tauto.
  - cbn [forallb] in Hp. apply andb_true_iff in Hp as [Ho Hp].
    rewrite apply_cons, IH by (auto using fresh_tail).
    rewrite (plain_step_idxs o r s Ho Hf). cbn [In]. intuition (subst; auto).
Qed.

Lemma avail_same s s' b :
  (forall e, In e (packs s) <-> In e (packs s')) -> (forall e, In e (idxs s) <-> In e (idxs s')) ->
  avail s b = avail s' b.
Proof.
  intros Hp Hi.
  destruct (avail s b) eqn:A, (avail s' b) eqn:B; auto.
  - rewrite <- B. symmetry. eapply (avail_mono s s'); auto; intros e He; [apply Hp|apply Hi]; auto.
  - rewrite <- A. eapply (avail_mono s' s); auto; intros e He; [apply Hp|apply Hi]; auto.
Qed.

Lemma perm_plain ws ws' : Permutation ws ws' -> forallb is_plain ws = true -> forallb is_plain ws' = true.
Proof.
  intros P H. rewrite forallb_forall in *. intros o Ho. apply H.
  eapply Permutation_in; [apply Permutation_sym; exact P|exact Ho].
Qed.

Lemma perm_flat_map {A B} (f : A -> list B) l l' : Permutation l l' -> Permutation (flat_map f l) (flat_map f l').
Proof.
  induction 1; cbn.
  - constructor.
  - apply Permutation_app_head; auto.
  - rewrite !app_assoc. apply Permutation_app_tail, Permutation_app_comm.
  - eapply perm_trans; eauto.
Qed.

Lemma perm_fresh s ws ws' : Permutation ws ws' -> fresh s ws -> fresh s ws'.
Proof.
  intros P (N1 & N2 & F1 & F2).
  assert (P1 : Permutation (wpacks ws) (wpacks ws')) by (apply perm_flat_map; auto).
  assert (P2 : Permutation (widxs ws) (widxs ws')) by (apply perm_flat_map; auto).
  repeat split.
  - eapply Permutation_NoDup; eauto.
  - eapply Permutation_NoDup; eauto.
  - intros id H. apply F1. eapply Permutation_in; [apply Permutation_sym; exact P1|exact H].
  - intros id H. apply F2. eapply Permutation_in; [apply Permutation_sym; exact P2|exact H].
Qed.

Lemma closedb_perm s ws ws' n :
  Permutation ws ws' -> forallb is_plain ws = true -> fresh s ws ->
  closedb (apply ws s) n = closedb (apply ws' s) n.
Proof.
  intros P Hp Hf. unfold closedb. induction n as [|b n IH]; [reflexivity|].
  cbn [forallb]. rewrite IH. f_equal. apply avail_same; intro e.
  - rewrite (plain_packs ws s Hp Hf), (plain_packs ws' s (perm_plain _ _ P Hp) (perm_fresh _ _ _ P Hf)).
    split; intros [H|H]; auto; right;
      [eapply Permutation_in; [exact P|exact H] | eapply Permutation_in; [apply Permutation_sym; exact P|exact H]].
  - rewrite (plain_idxs ws s Hp Hf), (plain_idxs ws' s (perm_plain _ _ P Hp) (perm_fresh _ _ _ P Hf)).
    split; intros [H|H]; auto; right;
      [eapply Permutation_in; [exact P|exact H] | eapply Permutation_in; [apply Permutation_sym; exact P|exact H]].
Qed.

Lemma any_interleaving_ok_lemma s ws ws' sns dl :
  Permutation ws ws' -> forallb is_plain ws = true -> fresh s ws ->
  (forall e, In e sns -> closedb (apply ws s) (snd e) = true) ->
  discipline_ok s (ws' ++ map wsnap sns ++ map rsnap dl) = true.
Proof.
  intros P Hp Hf Hc. apply writes_snapshots_removes_ok_lemma.
  - eapply perm_plain; eauto.
  - eapply perm_fresh; eauto.
  - intros e He. rewrite <- (closedb_perm s ws ws' (snd e) P Hp Hf). auto.
Qed.
