(* C03 — storage-effect PHASES of a command and the shape of the logs they allow
   (executable definitions only).

   props/C03/extract.py regenerates, for every repository-changing command, the TEXTUAL order of
   the storage-effect call sites of its function as a list of phase tokens (Extracted.v:
   order_backup, order_copy, order_prune, ...).  A phase stands for the set of backend calls that
   may reach storage while the command is between the previous and this call site:

     PhPacks       a packer / blob copier is fed or finalized: writes of new packs (the shared
                   indexer may save index files meanwhile)
     PhIndex       indexer finalize / save of an index file: writes of new index files
     PhSaveSnaps   snapshot files are saved
     PhDelSnaps    snapshot files are removed
     PhRmIndex     old index files are removed
     PhRmPacks     old packs are removed
     PhRmUnindexed packs that no index file lists are removed (prune, instant_delete)
     PhOther       key / config file is written or removed                                    *)
From Verif.Base Require Import Tactics.
From Verif.C03 Require Import Model.

Inductive phase :=
| PhPacks | PhIndex | PhSaveSnaps | PhDelSnaps | PhRmIndex | PhRmPacks | PhRmUnindexed | PhOther.

Definition accepts (p : phase) (o : op) : bool :=
  match p, o with
  | PhPacks, Write FPack _ (PPack _) => true
  | PhPacks, Write FIndex _ (PIndex _) => true
  | PhIndex, Write FIndex _ (PIndex _) => true
  | PhSaveSnaps, Write FSnap _ (PSnap _) => true
  | PhDelSnaps, Remove FSnap _ => true
  | PhRmIndex, Remove FIndex _ => true
  | PhRmPacks, Remove FPack _ => true
  | PhRmUnindexed, Remove FPack _ => true
  | PhOther, Write FOther _ _ => true
  | PhOther, Remove FOther _ => true
  | _, _ => false
  end.

(* the stage a phase belongs to / the stage an op belongs to *)
Definition rank (p : phase) : nat :=
  match p with
  | PhPacks | PhIndex => 0 | PhSaveSnaps => 1 | PhDelSnaps => 2
  | PhRmIndex => 3 | PhRmPacks | PhRmUnindexed => 4 | PhOther => 5
  end.
Definition okind (o : op) : nat :=
  match o with
  | Write FPack _ (PPack _) => 0
  | Write FIndex _ (PIndex _) => 0
  | Write FSnap _ (PSnap _) => 1
  | Remove FSnap _ => 2
  | Remove FIndex _ => 3
  | Remove FPack _ => 4
  | Write FOther _ _ => 5
  | Remove FOther _ => 5
  | _ => 6
  end.

(* greedy segmentation of a log along a phase list: fragment i = the longest run of ops the
   i-th phase accepts; None = some op fits no remaining phase (the log is NOT a concatenation of
   fragments in this phase order) *)
Fixpoint span (f : op -> bool) (l : list op) : list op * list op :=
  match l with
  | o :: r => if f o then let (a, b) := span f r in (o :: a, b) else ([], l)
  | [] => ([], [])
  end.
Fixpoint segment (ps : list phase) (log : list op) : option (list (list op)) :=
  match ps with
  | [] => match log with [] => Some [] | _ => None end
  | p :: ps' => let (a, b) := span (accepts p) log in option_map (cons a) (segment ps' b)
  end.
Definition conformsb (ps : list phase) (log : list op) : bool :=
  match segment ps log with Some _ => true | None => false end.

(* ---- which phase orders are safe ---- *)
Fixpoint ssorted (l : list nat) : bool :=
  match l with [] => true | a :: r => forallb (Nat.leb a) r && ssorted r end.

(* snapshot commands (backup, copy, merge, rewrite, repair snapshots, forget):
   all pack / index writes, THEN snapshot saves, THEN snapshot removals *)
Definition order_ok1 (ps : list phase) : bool :=
  forallb (fun p => Nat.leb (rank p) 2) ps && ssorted (map rank ps).

(* removal commands (prune, repair index): [unindexed packs removed], all pack / index writes,
   THEN removals of old index files, THEN removals of old packs *)
Definition order_ok2_tail (ps : list phase) : bool :=
  forallb (fun p => match p with PhPacks | PhIndex | PhRmIndex | PhRmPacks => true | _ => false end) ps
  && ssorted (map rank ps).
Definition order_ok2 (ps : list phase) : bool :=
  match ps with PhRmUnindexed :: ps' => order_ok2_tail ps' | _ => order_ok2_tail ps end.
Definition unindexed_frag (ps : list phase) (frags : list (list op)) : list op :=
  match ps, frags with PhRmUnindexed :: _, u :: _ => u | _, _ => [] end.

(* key / config commands *)
Definition order_ok_other (ps : list phase) : bool :=
  forallb (fun p => match p with PhOther => true | _ => false end) ps.

(* ---- end-state conditions of the order theorems, executable (evaluated on every real log) ---- *)
(* every snapshot the log writes is closed in the state the log leaves behind *)
Definition written_snaps_closed (s : repo) (log : list op) : bool :=
  forallb (fun o => match o with Write FSnap _ (PSnap n) => closedb (apply log s) n | _ => true end) log.
(* everything a snapshot of the start state needs is readable in the end state *)
Definition needed_kept (s : repo) (log : list op) : bool :=
  forallb (avail (apply log s)) (needed s).
(* no index file of the end state lists a removed pack (unmarked, with a needed blob) *)
Definition removed_packs_unlisted (s : repo) (log : list op) : bool :=
  forallb (fun o => match o with
                    | Remove FPack p => forallb (fun b => negb (through_pack (apply log s) p b)) (needed s)
                    | _ => true end) log.
(* the packs removed in the leading PhRmUnindexed fragment are listed by no index file of the start state *)
Definition unindexed_unlisted (s : repo) (u : list op) : bool :=
  forallb (fun o => match o with
                    | Remove FPack p => forallb (fun b => negb (through_pack s p b)) (needed s)
                    | _ => true end) u.
(* new packs / index files get fresh, pairwise different ids *)
Fixpoint nodupb (l : list N) : bool :=
  match l with [] => true | a :: r => negb (existsb (N.eqb a) r) && nodupb r end.
Definition freshb (s : repo) (log : list op) : bool :=
  nodupb (wpacks log) && nodupb (widxs log)
  && forallb (fun id => negb (present id (packs s))) (wpacks log)
  && forallb (fun id => negb (present id (idxs s))) (widxs log).

(* ---- error propagation ---- *)
(* a command as the sequence of its storage call sites: `props` says for each site whether its
   result is handed on (`?` / tail expression), `outcomes` whether the call succeeded; the command
   returns Ok iff no site that hands its result on failed (a failing site whose result is dropped
   goes unnoticed) *)
Fixpoint run_sites (props outcomes : list bool) : bool :=
  match props, outcomes with
  | p :: ps, o :: os => if o then run_sites ps os else if p then false else run_sites ps os
  | _, _ => true
  end.
Definition all_true (l : list bool) : bool := forallb (fun b => b) l.
