(* C03 — extraction of the discipline checker and of the phase-order conformance check
   (ExtrOcamlBasic only). *)
Require Extraction.
Require Import ExtrOcamlBasic.
From Verif.C03 Require Import Model Order Extracted.
Extraction "model_ml.ml" apply_op apply step_ok discipline_ok first_bad invb closedb avail needed is_plain
  segment conformsb order_ok1 order_ok2 order_ok_other unindexed_frag
  freshb written_snaps_closed needed_kept removed_packs_unlisted unindexed_unlisted
  order_backup order_copy order_merge order_rewrite_trees order_rewrite_meta order_repair_snapshots
  order_repair_index order_forget order_prune order_config order_key_add order_key_delete.
