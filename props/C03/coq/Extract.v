(* C03 — extraction of the discipline checker (ExtrOcamlBasic only). *)
Require Extraction.
Require Import ExtrOcamlBasic.
From Verif.C03 Require Import Model.
Extraction "model_ml.ml" apply_op apply step_ok discipline_ok first_bad invb closedb avail needed is_plain.
