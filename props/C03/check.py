"""C03 — every crash point or failed write leaves only fully readable snapshots.

Stages: Coq theorems about the crash-order discipline (props/C03/coq); then, on small in-memory
repositories, for each repository-changing command: the recorded backend op log is decoded into
the model's abstractions and fed to the EXTRACTED `discipline_ok`; independently the storage state
after every prefix of the log, after every single injected failure and after crash re-runs is
opened with a fresh handle and every visible snapshot is read completely (the property itself).
The extracted model's per-snapshot verdicts (closed / nothing lost) are compared with the real
reads state by state."""
import os, sys, json, collections, re
import vlib
from vlib import ROOT, sh2, log

LABEL = {
    "W:snapshots": "snapshot-written-before-trees-flushed",
    "R:index": "index-removed-before-rebuilt-index-written",
    "R:data": "pack-removed-while-needed",
    "W:data": "pack-overwritten",
    "W:index": "index-overwritten",
}


CMD_CODES = {"backup": 0, "copy": 1, "merge": 2, "rewrite_trees": 3, "rewrite_meta": 4, "repair_snapshots": 5,
             "repair_index": 6, "forget": 7, "prune": 8, "config": 9, "key_add": 10, "key_delete": 11}


def order_name(cmd, variant):
    if cmd == "rewrite":
        return "rewrite_trees" if variant & 2 == 0 else "rewrite_meta"
    if cmd == "key":
        return "key_add" if variant == 0 else "key_delete"
    return cmd


def cmd_code(cmd, variant):
    """(command code, early_delete_index, instant_delete) for the extracted phase order"""
    early = 1 if (cmd == "prune" and variant & 2) else 0
    instant = 1 if (cmd == "prune" and variant & 1) else 0
    return (CMD_CODES[order_name(cmd, variant)], early, instant)


def prune_variants(thorough):
    if thorough:
        return [v for v in range(64) if v & 3 != 3]
    return [0, 1, 2, 5, 8, 9, 16, 20, 33]


def gen_cases(ctx):
    rng, th = ctx.rng, ctx.thorough()
    nseeds = 3 if th else 2
    reps = 2 if th else 1
    cases = []

    def add(cmd, variant, crash=0, ns=None):
        seed = rng.randrange(1, 2 ** 31)
        nfiles = rng.choice([5, 7, 9]) if not th else rng.choice([5, 7, 9, 12])
        dp = rng.choice([1500, 4000, 12000])
        tp = rng.choice([250, 1200])
        cases.append("%s %d %d %d %d %d %d %d" % (cmd, variant, seed, nfiles, dp, tp, ns or nseeds, 1 if (crash or th) else 0))

    for _ in range(reps):
        add("backup", 0, crash=1); add("backup", 1)
        add("copy", 0); add("copy", 1, crash=1)
        add("merge", 0)
        for v in range(4):
            add("rewrite", v, crash=(v == 1), ns=(None if v < 2 else 1))
        add("repair_snapshots", 0, crash=1); add("repair_snapshots", 1)
        for v in range(4):
            add("repair_index", v, ns=1)
        add("forget", 0, ns=1)
        for v in prune_variants(th):
            add("prune", v, crash=(v in (1, 16)), ns=(None if v in (0, 1, 5) else 1))
        # recovery prune after an interrupted prune (duplicate blobs in old and new packs)
        for v in ((64, 65, 72, 64, 65, 96) if not th else (64, 65, 68, 69, 72, 73, 96, 97, 64, 65)):
            add("prune", v, ns=1)
        add("config", 0, ns=1); add("key", 0, ns=1); add("key", 1, ns=1)
    return cases


def run_harness(exe, lines, tag, timeout=580):
    import threading
    path = os.path.join(vlib.BUILD, "C03", "in_%s_%d_%d.txt" % (tag, os.getpid(), threading.get_ident()))
    open(path, "w").write("\n".join(lines) + "\n")
    rc, out, err = sh2(["nice", "-n", "10", exe, path], timeout=timeout, env={"RUST_LOG": "off"})
    os.remove(path)
    res = []
    for ln in out.splitlines():
        ln = ln.strip()
        if ln.startswith("{"):
            try:
                res.append(json.loads(ln))
            except ValueError:
                pass
    return rc, res, err


def run_model(exe, lines):
    path = os.path.join(vlib.BUILD, "C03", "m_%d.txt" % os.getpid())
    open(path, "w").write("\n".join(lines) + "\n")
    rc, out, err = sh2([exe, path], timeout=900)
    os.remove(path)
    res = out.splitlines()
    if rc != 0 or len(res) != len(lines):
        raise RuntimeError("model failed rc=%s (%d of %d lines)\n%s" % (rc, len(res), len(lines), err[-1500:]))
    return res


def parse_model(o):
    """-> (disc, bad, [ {sid: (closed, lossless)} per prefix ])"""
    toks = o.split()
    nkv = 0
    while nkv < len(toks) and "=" in toks[nkv] and not toks[nkv].startswith("P"):
        nkv += 1
    d = dict(t.split("=", 1) for t in toks[:nkv])
    states, cur = [], None
    for t in toks[nkv:]:
        if t.startswith("P") and t[1:].isdigit():
            cur = {}
            states.append(cur)
        elif cur is not None:
            for it in t.split(","):
                if it:
                    sid, c, l = it.split(":")
                    cur[int(sid)] = (int(c), int(l))
    return d["disc"] == "true", int(d["bad"]), states, d


def real_map(st):
    """state json -> {sid: (readable, old, lost)}"""
    return {s[0]: (s[1], s[2], s[3]) for s in st.get("snaps", [])}


def agree(model_state, real_state):
    """the extracted model's verdict per snapshot vs the real reads"""
    if real_state.get("open_error"):
        return False
    rm = real_map(real_state)
    if set(rm) != set(model_state):
        return False
    for sid, (readable, old, lost) in rm.items():
        c, l = model_state[sid]
        if c != readable:
            return False
        if old and (1 - l) != lost:
            return False
    return True


def run(ctx):
    rng, cov = ctx.rng, ctx.coverage
    meta, err = vlib.regen_extracted("C03")
    r = vlib.proof_stage(ctx)
    if err:
        r["ok"] = False; r["failures"].append("fact extraction failed (phase order of a command no longer recognised): " + err)
    # name the order obligation that no longer checks
    named = []
    for f in r["failures"]:
        m = re.search(r"(ProofsCmd|Props)\.v:(\d+)", f)
        if m:
            src = open(os.path.join(ctx.pdir, "coq", m.group(1) + ".v")).read().splitlines()
            for i in range(min(int(m.group(2)), len(src)) - 1, -1, -1):
                mm = re.match(r"\s*(?:Lemma|Theorem|Example)\s+([\w']+)", src[i])
                if mm:
                    named.append("%s (%s.v:%s) no longer holds for the phase order regenerated from the source" % (mm.group(1), m.group(1), m.group(2)))
                    break
    r["failures"] += named
    cov["source_facts"] = {"regenerated_orders": (meta or {}).get("orders"), "prune_early_guard": (meta or {}).get("prune_early_guard"),
                           "soft_pin_misses": (meta or {}).get("soft_pin_misses"),
                           "error_propagation": {k: ({"sites": len(v), "dropped": [x["call"] for x in v if not x["propagated"]]} if k != "writer"
                                                     else {"facts": len(v), "missing": [x["fact"] for x in v if not x["holds"]]})
                                                 for k, v in ((meta or {}).get("propagation") or {}).items()}, "call_sites": len((meta or {}).get("call_sites", []))}
    cov["trusted_base"] += ["props/C03/extract.py (reads the textual order and the option guards of the storage-effect call sites of each command function; unrecognised call sites fail loudly)"]
    cov["trusted_base"] += [
        "harness/src/bin/c03.rs: decoding of recorded payloads through the repository's own readers (IndexFile/SnapshotFile via get_file, tree walk via get_tree, pack headers via the C08 hook header_from_file) and the complete read of every visible snapshot (all trees, all file blobs, fresh handle, no cache)",
        "harness/src/e2e.rs RecBackend (fault injection / recording) and the in-memory backend of rustic_testing",
    ]
    ctx.assumptions += [
        "a reader sees exactly the files present in the backend (single store, in-memory backend, atomic write_bytes/remove); torn writes and fsync are C20, hot/cold interruption is C16",
        "packs, index files and snapshots are content-addressed: a write never replaces a present file by a different payload (discipline rule `fresh`; observed on every real log)",
        "`needs` of a snapshot = every tree blob reachable from its root and every data blob of every file (computed by walking the trees in the union of the pre-state and everything the run wrote)",
        "after one failed backend call the ops still reaching storage are the fault-free prefix plus plain writes of new packs/index files by other writer threads (hypothesis `extra` of single_fault_safe); on real runs the executed log itself is fed to discipline_ok, so the hypothesis is not relied upon there",
        "the recorded logs are samples of the possible linearisations of the concurrent writers (seeded delays before backend calls); the theorems cover all linearisations inside the discipline, the real pipeline's membership is observed, not proved (PARTIAL)",
        "instant_delete + early_delete_index is excluded as the property says; keys and the config file carry no blob references in the model (FOther) and are only observed dynamically",
        "a panic of the command after an injected failure counts as a reported failure (not success); it is listed in the evidence",
    ]
    try:
        model = vlib.build_model("C03")
    except RuntimeError as e:
        model = None
        if r["ok"]:
            r["ok"] = False; r["failures"].append("extracted model no longer builds: " + str(e)[-400:])
    impl = vlib.build_harness("c03")
    cases = gen_cases(ctx)
    corpus = os.path.join(ctx.pdir, "corpus.txt")
    if os.path.exists(corpus):
        cases = [l.strip() for l in open(corpus) if l.strip() and not l.startswith("#")] + cases
    # several harness processes of bounded length, NPAR of them at a time (scenarios are independent);
    # cases are dealt to the chunks longest-first so that the chunks take about equally long
    npar = int(os.environ.get("C03_PAR", "4"))
    weight = {"prune": 5, "copy": 4, "rewrite": 3, "backup": 3, "repair_snapshots": 3, "merge": 1}
    def cost(c):
        t = c.split()
        return weight.get(t[0], 1) * int(t[6]) * (2 if t[7] != "0" else 1)
    nchunks = max(npar, (len(cases) + 11) // 12) if ctx.thorough() else npar
    chunks = [[] for _ in range(nchunks)]
    loads = [0] * nchunks
    for c in sorted(cases, key=cost, reverse=True):
        i = loads.index(min(loads))
        chunks[i].append(c); loads[i] += cost(c)
    chunks = [ch for ch in chunks if ch]
    results, hangs = [], []
    import concurrent.futures
    def do_chunk(arg):
        ci, chunk = arg
        out, hg = [], []
        rc, res, err = run_harness(impl, chunk, "c%d" % ci)
        out += res
        if len(res) < len(chunk):
            # the process ended early (hung command or crash): rerun the rest one by one
            done = set(x["case"] for x in res)
            for c in chunk:
                if c in done:
                    continue
                rc1, res1, err1 = run_harness(impl, [c], "s%d" % ci, timeout=400)
                if res1:
                    out += res1
                else:
                    hg.append((c, rc1, err1[-300:]))
        return out, hg
    with concurrent.futures.ThreadPoolExecutor(max_workers=npar) as ex:
        for out, hg in ex.map(do_chunk, list(enumerate(chunks))):
            results += out; hangs += hg
    pos = {c: i for i, c in enumerate(cases)}
    results.sort(key=lambda r_: pos.get(r_["case"], 10 ** 9))
    # a panic while SETTING UP a scenario (e.g. rustic's `index still in use` 100 ms wait under load) is
    # not a result about the command: rerun such a case alone, at most twice
    retried = 0
    for i, res in enumerate(results):
        for _ in range(2):
            if "panic" in str(results[i].get("setup_error", "")):
                retried += 1
                rc1, res1, err1 = run_harness(impl, [res["case"]], "r%d" % i, timeout=400)
                if res1:
                    results[i] = res1[0]
    viol = []          # (what, witness, signature)
    broken = []        # correspondence problems
    mlines, mref = [], []
    stats = collections.Counter()
    hist = collections.defaultdict(collections.Counter)
    nontriv, samples = set(), []
    for res in results:
        cmd = res.get("cmd", res["case"].split()[0])
        if "setup_error" in res:
            broken.append(("scenario could not be set up: " + res["setup_error"], res["case"]))
            continue
        for run_ in res["runs"]:
            kind = run_["kind"]
            stats["runs_" + kind] += 1
            hist[cmd]["runs_" + kind] += 1
            if run_.get("ret") == "hang":
                viol.append(("%s does not return (90 s watchdog) on a %s run" % (cmd, kind),
                             {"case": res["case"], "run": {k: run_[k] for k in ("kind", "seed", "k") if k in run_}}, "%s:hang" % cmd))
                continue
            if "decode_error" in run_:
                broken.append(("the op log of a %s run could not be decoded: %s" % (kind, run_["decode_error"]), res["case"]))
                continue
            mlines.append("%d %d %d " % cmd_code(cmd, res.get("variant", 0)) + run_["s0"] + " " + run_["ops"])
            mref.append((res, run_))
    mouts = run_model(model, mlines) if (model and mlines) else []
    disc_true = disc_false = agree_n = 0
    conf = collections.defaultdict(lambda: collections.Counter())
    nonconf = []
    for (res, run_), o in zip(mref, mouts):
        cmd, kind, case = res["cmd"], run_["kind"], res["case"]
        kinds = run_["kinds"]
        try:
            disc, bad, mstates, md = parse_model(o)
        except Exception:
            broken.append(("model output not understood: " + o[:200], case)); continue
        disc_true += disc; disc_false += (not disc)
        hist[cmd]["ops"] += len(kinds)
        oname = order_name(cmd, res.get("variant", 0))
        cf = conf[oname]
        cf["logs"] += 1
        conforms, hyps, ook = md.get("conf") == "true", md.get("hyps") == "true", md.get("order_ok") == "true"
        cf["conform"] += conforms; cf["end_state_hypotheses_hold"] += (conforms and hyps)
        cf["order_safe"] += ook
        if conforms and hyps and ook:
            cf["theorem_applies"] += 1
            if not disc:
                broken.append(("command_order_in_discipline_%s applies to a log (order safe, log conforms, end-state hypotheses hold) that discipline_ok rejects: driver/extraction inconsistent" % oname, case))
        if not conforms:
            nonconf.append((oname, kind, kinds, md.get("frags"), case, disc))
        sig_of_bad = None
        if not disc and 0 <= bad < len(kinds):
            sig_of_bad = "%s:%s" % (cmd, LABEL.get(kinds[bad], "outside-discipline-at-" + kinds[bad]))
        short = {"case": case, "run": {k: run_[k] for k in ("kind", "seed", "k", "ret", "failed_kind") if k in run_},
                 "ops": kinds, "discipline_ok": disc, "first_op_outside_discipline": bad,
                 "how_to_replay": "echo '<case>' | RUST_LOG=off <harness target>/debug/c03 -   (JSON: runs[].states[k].safe / runs[].final.safe)"}
        if kind == "full":
            if run_["ret"] != "ok":
                broken.append(("%s fails without any injected fault: %s %s" % (cmd, run_["ret"], run_.get("err", "")[:200]), case))
            if not run_.get("rebuilt_equal", True):
                broken.append(("replaying the recorded log on the pre-state does not give the store the run left behind", case))
            states = run_["states"]
            stats["states_evaluated"] += len(states)
            hist[cmd]["prefix_states"] += len(states)
            first_unsafe = next((k for k, st in enumerate(states) if not st["safe"]), None)
            for k, st in enumerate(states):
                if k < len(mstates):
                    if agree(mstates[k], st):
                        agree_n += 1
                    else:
                        broken.append(("model and real reads disagree on the state after %d ops: model %s real %s" % (k, mstates[k], real_map(st)), case))
                if st["safe"] and res.get("pre_check") and not st["check"]:
                    stats["check_reports_error_on_safe_state"] += 1
            if first_unsafe is not None:
                opk = kinds[first_unsafe - 1] if first_unsafe >= 1 else "none"
                sig = "%s:%s" % (cmd, LABEL.get(opk, "unsafe-after-" + opk))
                w = dict(short); w["crash_after_ops"] = first_unsafe; w["state"] = states[first_unsafe]
                viol.append(("%s: a crash right after a backend call %s (prefix of the recorded log) leaves a visible snapshot that cannot be read completely" % (cmd, opk), w, sig))
                if disc or bad + 1 != first_unsafe:
                    broken.append(("the discipline checker does not predict the failing crash point (bad=%d, first unsafe prefix=%d)" % (bad, first_unsafe), case))
                else:
                    stats["failing_crash_points_predicted_by_model"] += 1
            elif not disc:
                broken.append(("discipline_ok rejects a log (op %d, %s) all of whose prefix states are safe" % (bad, kinds[bad] if 0 <= bad < len(kinds) else "?"), case))
            if len(set(kinds)) >= 2:
                nontriv.add((cmd, res["variant"], tuple(kinds)))
            if len(samples) < 6 and len(kinds) >= 3 and cmd not in [s["cmd"] for s in samples]:
                samples.append({"cmd": cmd, "case": case, "ops": kinds, "discipline_ok": disc, "prefix_states_safe": [int(s["safe"]) for s in states]})
        else:
            fin = run_["final"]
            stats["states_evaluated"] += 1
            hist[cmd]["%s_states" % kind] += 1
            if mstates and agree(mstates[-1], fin):
                agree_n += 1
            else:
                broken.append(("model and real reads disagree on the final state of a %s run (k=%s): model %s real %s" % (kind, run_.get("k"), mstates[-1] if mstates else None, real_map(fin)), case))
            if run_.get("injected"):
                stats["injected_" + kind] += 1
                if run_["ret"] == "ok":
                    fk = run_.get("failed_kind", "")
                    viol.append(("%s returns success although its backend call %s failed" % (cmd, fk), short, "%s:failure-of-%s-reported-as-success" % (cmd, fk)))
                elif run_["ret"] == "panic":
                    stats["panics_after_injected_failure"] += 1
                    hist[cmd]["panics_after_injected_failure"] += 1
                if kind == "fault":
                    non_plain = [a for a in run_.get("after", []) if a not in ("W:data", "W:index")]
                    stats["fault_runs_extra_plain" if not non_plain else "fault_runs_extra_not_plain"] += 1
            if not fin["safe"]:
                sig = sig_of_bad or "%s:unsafe-state-inside-discipline" % cmd
                w = dict(short); w["state"] = fin
                w["k"] = run_.get("k")
                viol.append(("%s: after %s a visible snapshot cannot be read completely" % (cmd, "one failed backend call" if kind == "fault" else "a crash re-run"), w, sig))
                if disc:
                    broken.append(("a %s run inside the discipline ends in an unsafe state" % kind, case))
            elif not disc:
                # the order is outside the discipline although this particular end state is fine: only a
                # violation if some prefix is unsafe, which the full runs decide; remember it
                stats["faulted_logs_outside_discipline_but_final_safe"] += 1
    for c, rc1, err1 in hangs:
        viol.append(("%s: the harness process did not finish the case (rc=%s)" % (c.split()[0], rc1), {"case": c, "stderr": err1}, "%s:hang" % c.split()[0]))
    for oname, kind, kinds, frags, case, disc in nonconf:
        broken.append(("a real %s log of `%s` is NOT a concatenation of fragments in the phase order regenerated from the source: %s" % (kind, oname, " ".join(kinds)), case))
    cov["phase_order_conformance"] = {k: dict(v) for k, v in conf.items()}
    cov.update({
        "evaluations": stats["states_evaluated"], "distinct_nontrivial": len(nontriv),
        "rule": "one evaluation = one storage state (after a prefix of a recorded fault-free log, after one injected failure, or after a crash re-run) opened with a fresh handle, every listed snapshot read completely and compared with its pre-command content; non-trivial = distinct (command, variant, op-kind sequence) of a fault-free log with at least two kinds of backend calls",
        "samples": samples, "distribution": {k: dict(v) for k, v in hist.items()}, "totals": dict(stats),
        "cases": len(cases), "cases_rerun_after_setup_panic": retried, "logs_fed_to_extracted_discipline_ok": len(mouts), "discipline_ok_true": disc_true, "discipline_ok_false": disc_false,
        "traces_validated_against_impl": agree_n,
        "disagreements_checked": len(broken) + len(viol), "model_impl_mismatches": len(broken), "oracle_violations": len(viol),
    })
    seen = set()
    for what, w, sig in viol:
        if (what, sig) in seen:
            continue
        seen.add((what, sig))
        ctx.violation(what, w, signature=sig)
    real_new = [v for v in ctx.violations if not v.get("no_failing_input_found")]
    if broken and not real_new:
        kinds_ = collections.Counter(b[0].split(":")[0][:80] for b in broken)
        # mismatches that merely accompany a known finding (the discipline checker flags the same log) are not reported twice
        ctx.violation("correspondence broken: %d disagreement(s) between the extracted model and the real runs; first: %s" % (len(broken), broken[0][0][:300]),
                      {"first_case": broken[0][1], "kinds": dict(kinds_), "all": [b[0][:200] for b in broken[:10]]}, no_input=True)
    vlib.finish_broken_obligations(ctx)
