(* C14 — PackInfo::coalesce: merging adjacent (pack, location) entries into one partial read never
   merges an entry that is read from an existing file with a following blob (the guard of the code
   as extracted), preserves the blobs and their order; with the other guard a following blob is
   written with the bytes of the first one. *)
From Verif.Base Require Import Tactics.
From Verif.C14 Require Import Model Extracted Witness.
Local Open Scope N_scope.

Lemma coal_blobs g cc : forall rest cur,
  flat_map pi_blobs (coal g cc cur rest) = pi_blobs cur ++ flat_map pi_blobs rest.
Proof.
  induction rest as [|n t IH]; intros cur; simpl; [reflexivity|].
  unfold pcoalesce. destruct (_ && _ && _); simpl.
  - rewrite IH. simpl. rewrite app_assoc. reflexivity.
  - rewrite IH. reflexivity.
Qed.
(* every blob (with its bytes and its locations) is processed exactly once, in the plan's order *)
Lemma coalesce_preserves_blobs_lemma g cc l : flat_map pi_blobs (coalesce_all g cc l) = flat_map pi_blobs l.
Proof. destruct l; simpl; [reflexivity|apply coal_blobs]. Qed.

(* with the guard `self.from_file.is_none()`: a PackInfo that reads from an existing file is one of
   the original entries, unmerged *)
Lemma coal_self_from cc : forall rest cur p,
  In p (coal CgSelf cc cur rest) -> pi_from p <> None -> p = cur \/ In p rest.
Proof.
  induction rest as [|n t IH]; intros cur p H Hf; simpl in H; [destruct H as [<-|[]]; auto|].
  unfold pcoalesce in H. destruct (pi_from cur) eqn:Ec.
  - (* cur reads from a file: never merged *)
    simpl in H. rewrite andb_false_r in H. simpl in H. destruct H as [<-|H]; [auto|].
    destruct (IH _ _ H Hf) as [->|X]; [right; left; reflexivity|right; right; assumption].
  - simpl in H. destruct ((pi_pack cur =? pi_pack n) && true && cc cur n).
    + destruct (IH _ _ H Hf) as [->|Hin]; [simpl in Hf; congruence|right; right; assumption].
    + destruct H as [<-|H]; [auto|]. destruct (IH _ _ H Hf) as [->|X]; [right; left; reflexivity|right; right; assumption].
Qed.
Lemma coalesce_self_from_lemma cc r p :
  In p (coalesce_all CgSelf cc (map of_entry r)) -> pi_from p <> None ->
  exists e, In e r /\ p = of_entry e /\ length (pi_blobs p) = 1%nat.
Proof.
  intros H Hf. assert (Hin : In p (map of_entry r)).
  { destruct r as [|e t]; [destruct H|]. simpl in H. destruct (coal_self_from cc _ _ _ H Hf) as [->|Hin]; [left; reflexivity|right; assumption]. }
  apply in_map_iff in Hin as (e & <- & He). exists e. split; [assumption|]. split; [reflexivity|].
  destruct e as [k [d fls]]. reflexivity.
Qed.

Lemma coalesce_code_guard : code_coalesce_guard = CgSelf.
Proof. reflexivity. Qed.
Lemma coalesce_from_file_unmerged_code cc r p :
  In p (coalesce_all code_coalesce_guard cc (map of_entry r)) -> pi_from p <> None ->
  exists e, In e r /\ p = of_entry e /\ length (pi_blobs p) = 1%nat.
Proof. rewrite coalesce_code_guard. apply coalesce_self_from_lemma. Qed.

(* ---------------------------------------------------------------- witness: the other guard *)
(* destination file of the snapshot's size, other mtime: first blob intact, second modified; the two
   blobs are adjacent in one pack *)
Definition cA := mkB 100 0 [1; 2].
Definition cB := mkB 100 2 [3; 4].
Definition snapC : list node := [Node (nm 5) (IFile [cA; cB] 4 1000 420) []].
Definition worldC : fs := world0 ++ [([1; 2; 5], EFile [1; 2; 9; 9] 5 420)].
Definition cc0 := can_coalesce 262144 41943040.

Lemma w_coalesce :
  fs_get (r_fs (restore_c cfg_fixed CgOther cc0 o_plain droot0 snapC worldC)) [1; 2; 5] = Some (EFile [1; 2; 1; 2] 1000 420) /\
  fs_get (r_fs (restore_c cfg_fixed CgSelf cc0 o_plain droot0 snapC worldC)) [1; 2; 5] = Some (EFile [1; 2; 3; 4] 1000 420) /\
  fs_get (r_fs (restore cfg_fixed o_plain droot0 snapC worldC)) [1; 2; 5] = Some (EFile [1; 2; 3; 4] 1000 420) /\
  (exists p, In p (coalesce_all CgOther cc0 (map of_entry
      [((100, 0), ([1; 2], [mkFl 0 0 true])); ((100, 2), ([3; 4], [mkFl 0 2 false]))])) /\
     pi_from p <> None /\ length (pi_blobs p) = 2%nat).
Proof.
  split; [vm_compute; reflexivity|]. split; [vm_compute; reflexivity|]. split; [vm_compute; reflexivity|].
  eexists. split; [vm_compute; left; reflexivity|]. split; [discriminate|reflexivity].
Qed.

(* on the worked destination of Proofs3 (shared blobs, reads from existing files) the coalesced
   execution with the code's guard gives the same destination as the entry-by-entry one *)
Lemma w_coalesce_same :
  forall verify sparse del,
    r_fs (restore_c code_cfg code_coalesce_guard code_cc (mkO del verify sparse) droot0 snapC worldC) =
    r_fs (restore code_cfg (mkO del verify sparse) droot0 snapC worldC).
Proof. intros [] [] []; vm_compute; reflexivity. Qed.
