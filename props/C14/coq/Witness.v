(* C14 — concrete witnesses (evaluated by vm_compute): what the model of the tree as it was found
   (cfg all false) does on the inputs that violate the property, and what the model of the
   repaired code does on the same inputs.  Every witness is replayed on the real code by the
   check (harness/src/bin/c14.rs, modes `hostile` and `model`). *)
From Verif.Base Require Import Tactics.
From Verif.C14 Require Import Model.
Local Open Scope N_scope.

Definition cfg_found : cfg := mkC false false false.
Definition cfg_fixed : cfg := mkC true true true.

(* world: /1 (dir), /1/2 = destination (dir), /1/9 = sentinel file next to the destination *)
Definition droot0 : apath := [1; 2].
Definition sentinel : apath := [1; 9].
Definition world0 : fs :=
  [([1], EDir 5 493); ([1; 2], EDir 5 493); (sentinel, EFile [42; 42] 7 420)].
Definition nm (n : N) : pbuf := mkP false [CNormal n].
Definition o_plain := mkO false false false.
Definition o_delete_ := mkO true false false.
Definition o_sparse_ := mkO false false true.
Definition blob1 (d : list N) : blob := mkB 100 0 d.
Definition file1 (n : pbuf) (d : list N) : node := Node n (IFile [blob1 d] (nlen d) 1000 420) [].

(* --- hostile names *)
Definition hostile_parent : list node := [file1 (mkP false [CParent; CNormal 9]) [1; 2; 3]].
Definition hostile_abs : list node := [file1 (mkP true [CNormal 1; CNormal 8]) [1; 2; 3]].
Definition hostile_dotdot_dir : list node :=
  [Node (mkP false [CParent]) (IDir 1000 493) [file1 (nm 8) [4]]].

(* --- type clashes, delete = false *)
Definition world_dir_for_file : fs := world0 ++ [([1; 2; 5], EDir 5 493); ([1; 2; 5; 6], EFile [9] 5 420)].
Definition snap_file5 : list node := [file1 (nm 5) [1; 2; 3]].
Definition world_file_for_dir : fs := world0 ++ [([1; 2; 5], EFile [9] 5 420)].
Definition snap_dir5_with_child : list node := [Node (nm 5) (IDir 1000 493) [file1 (nm 6) [1]]].
Definition snap_empty_dir5 : list node := [Node (nm 5) (IDir 1000 493) []].
Definition world_other_link : fs := world0 ++ [([1; 2; 7], ELink 1)].
Definition snap_link7 : list node := [Node (nm 7) (ILink 2) []].
Definition world_file_for_link : fs := world0 ++ [([1; 2; 7], EFile [9] 5 420)].

(* --- sparse over an existing file of the same size with other bytes and another mtime *)
Definition world_old_bytes : fs := world0 ++ [([1; 2; 5], EFile [7; 7] 5 420)].
Definition snap_zero_file : list node := [file1 (nm 5) [0; 0]].

Definition get_after (c : cfg) (o : opts) (roots : list node) (s : fs) (p : apath) :=
  fs_get (r_fs (restore c o droot0 roots s)) p.
Definition out_of (c : cfg) (o : opts) (roots : list node) (s : fs) := r_out (restore c o droot0 roots s).

Lemma w_hostile_parent_found :
  out_of cfg_found o_plain hostile_parent world0 = OOk /\
  get_after cfg_found o_plain hostile_parent world0 sentinel = Some (EFile [1; 2; 3] 1000 420).
Proof. vm_compute. split; reflexivity. Qed.
Lemma w_hostile_abs_found :
  out_of cfg_found o_plain hostile_abs world0 = OOk /\
  fs_get world0 [1; 8] = None /\
  get_after cfg_found o_plain hostile_abs world0 [1; 8] = Some (EFile [1; 2; 3] 1000 420).
Proof. vm_compute. repeat split; reflexivity. Qed.
Lemma w_hostile_dotdot_dir_found :
  get_after cfg_found o_plain hostile_dotdot_dir world0 [1; 8] = Some (EFile [4] 1000 420).
Proof. vm_compute. reflexivity. Qed.
Lemma w_hostile_fixed :
  restore cfg_fixed o_plain droot0 hostile_parent world0 = mkR OErr world0 [] [] /\
  restore cfg_fixed o_plain droot0 hostile_abs world0 = mkR OErr world0 [] [] /\
  restore cfg_fixed o_plain droot0 hostile_dotdot_dir world0 = mkR OErr world0 [] [].
Proof. vm_compute. repeat split; reflexivity. Qed.

Lemma w_dir_for_file : forall c, out_of c o_plain snap_file5 world_dir_for_file = OPanic.
Proof. intros [[] [] []]; vm_compute; reflexivity. Qed.
Lemma w_file_for_dir : forall c, out_of c o_plain snap_dir5_with_child world_file_for_dir = OPanic.
Proof. intros [[] [] []]; vm_compute; reflexivity. Qed.
Lemma w_symlink_kept : forall c,
  out_of c o_plain snap_link7 world_other_link = OOk /\
  get_after c o_plain snap_link7 world_other_link [1; 2; 7] = Some (ELink 1).
Proof. intros [[] [] []]; vm_compute; split; reflexivity. Qed.
Lemma w_file_for_link_kept : forall c,
  out_of c o_plain snap_link7 world_file_for_link = OOk /\
  get_after c o_plain snap_link7 world_file_for_link [1; 2; 7] = Some (EFile [9] 5 420).
Proof. intros [[] [] []]; vm_compute; split; reflexivity. Qed.
(* with `delete` the same inputs end with the snapshot's content *)
Lemma w_clash_with_delete :
  get_after cfg_fixed o_delete_ snap_file5 world_dir_for_file [1; 2; 5] = Some (EFile [1; 2; 3] 1000 420) /\
  get_after cfg_fixed o_delete_ snap_file5 world_dir_for_file [1; 2; 5; 6] = None /\
  get_after cfg_fixed o_delete_ snap_link7 world_other_link [1; 2; 7] = Some (ELink 2) /\
  get_after cfg_fixed o_delete_ snap_dir5_with_child world_file_for_dir [1; 2; 5; 6] = Some (EFile [1] 1000 420).
Proof. vm_compute. repeat split; reflexivity. Qed.

(* delete = true, a file where the snapshot has an empty directory *)
Lemma w_empty_dir_found :
  out_of cfg_found o_delete_ snap_empty_dir5 world_file_for_dir = OOk /\
  get_after cfg_found o_delete_ snap_empty_dir5 world_file_for_dir [1; 2; 5] = None.
Proof. vm_compute. split; reflexivity. Qed.
Lemma w_empty_dir_fixed :
  get_after cfg_fixed o_delete_ snap_empty_dir5 world_file_for_dir [1; 2; 5] = Some (EDir 1000 493).
Proof. vm_compute. reflexivity. Qed.

(* sparse restore over old bytes *)
Lemma w_sparse_found :
  out_of cfg_found o_sparse_ snap_zero_file world_old_bytes = OOk /\
  get_after cfg_found o_sparse_ snap_zero_file world_old_bytes [1; 2; 5] = Some (EFile [7; 7] 1000 420) /\
  get_after cfg_found o_plain snap_zero_file world_old_bytes [1; 2; 5] = Some (EFile [0; 0] 1000 420).
Proof. vm_compute. repeat split; reflexivity. Qed.
Lemma w_sparse_fixed :
  get_after cfg_fixed o_sparse_ snap_zero_file world_old_bytes [1; 2; 5] = Some (EFile [0; 0] 1000 420).
Proof. vm_compute. reflexivity. Qed.
