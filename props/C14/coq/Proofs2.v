(* C14 — packs read by restore_contents are among RestorePlan::to_packs (used by C16);
   a sparse hole over zeros equals writing the zeros. *)
From Verif.Base Require Import Tactics.
From Verif.C14 Require Import Model.
Local Open Scope N_scope.

Lemma find_none_forallb {A} (f : A -> bool) l : find f l = None -> forallb (fun x => negb (f x)) l = true.
Proof. induction l; simpl; [reflexivity|]. destruct (f a); [discriminate|]. simpl. assumption. Qed.

Lemma dedup_adj_in x : forall l, In x l -> In x (dedup_adj l).
Proof.
  induction l as [|a [|b t] IH]; simpl; intros H; try assumption.
  destruct (a =? b) eqn:E.
  - apply IH. destruct H as [<-|H]; [left; apply N.eqb_eq in E; congruence|assumption].
  - destruct H as [<-|H]; [left; reflexivity|right; apply IH; assumption].
Qed.

Definition needed (e : key * (list N * list floc)) : bool :=
  forallb (fun fl => negb (fl_matches fl)) (snd (snd e)).

Lemma do_entry_reads c o droot names pre s sizes reads e s' sizes' reads' :
  do_entry c o droot names pre (Some (s, sizes, reads)) e = Some (s', sizes', reads') ->
  forall p, In p reads' -> In p reads \/ (needed e = true /\ p = fst (fst e)).
Proof.
  intros H p Hp. unfold do_entry in H. destruct e as [k [data fls]].
  destruct (filter (fun fl => negb (fl_matches fl)) fls) as [|fl0 dests]; [inv H; auto|].
  destruct (find fl_matches fls) as [fl|] eqn:Ef.
  - destruct (nth_name names (fl_idx fl)); [|discriminate].
    destruct (read_at _ _ _ _); [|discriminate].
    destruct (fold_left _ _ _) as [[s2 sz2]|]; inv H. auto.
  - destruct (fold_left _ _ _) as [[s2 sz2]|]; inv H.
    apply in_app_or in Hp as [Hp|[<-|[]]]; [auto|].
    right. split; [|reflexivity]. unfold needed. simpl. apply find_none_forallb. assumption.
Qed.

Lemma do_entries_reads c o droot names pre : forall r s sizes reads s' sizes' reads',
  fold_left (do_entry c o droot names pre) r (Some (s, sizes, reads)) = Some (s', sizes', reads') ->
  forall p, In p reads' -> In p reads \/ exists e, In e r /\ needed e = true /\ p = fst (fst e).
Proof.
  induction r as [|e t IH]; intros s sizes reads s' sizes' reads' H p Hp; cbn [fold_left] in H.
  - inv H. auto.
  - destruct (do_entry c o droot names pre (Some (s, sizes, reads)) e) as [[[s1 sz1] rd1]|] eqn:E.
    + destruct (IH _ _ _ _ _ _ H p Hp) as [H1|(e' & Hin & Hn & Hpe)].
      * destruct (do_entry_reads _ _ _ _ _ _ _ _ _ _ _ _ E p H1) as [H2|[Hn Hpe]]; [auto|].
        right. exists e. split; [left; reflexivity|auto].
      * right. exists e'. split; [right; assumption|auto].
    + exfalso. clear -H. induction t; simpl in H; [discriminate|auto].
Qed.

Lemma to_packs_covers_reads_lemma : forall c o droot roots s p,
  In p (r_reads (restore c o droot roots s)) -> In p (r_to_packs (restore c o droot roots s)).
Proof.
  intros c o droot roots s p. unfold restore.
  destruct (collect_and_prepare c o droot s (stream c roots)) as [[oc s1] pl].
  destruct oc; simpl; try tauto.
  destruct (restore_contents c o droot s1 pl) as [[oc2 s2] reads] eqn:E.
  assert (Hr : In p reads -> In p (to_packs pl)).
  { intros Hp. unfold restore_contents in E.
    destruct (create_empty droot s1 (pl_names pl) (pl_lengths pl)); [|inv E; destruct Hp].
    destruct (fold_left _ _ _) as [[[s3 sz] rd]|] eqn:E2; inv E; [|destruct Hp].
    destruct (do_entries_reads _ _ _ _ _ _ _ _ _ _ _ _ E2 p Hp) as [[]|(e & Hin & Hn & ->)].
    unfold to_packs. apply dedup_adj_in. apply in_map_iff. exists e. split; [reflexivity|].
    apply filter_In. split; assumption. }
  destruct oc2; simpl; assumption.
Qed.

(* ---------------------------------------------------------------- sparse *)
Lemma firstn_zeros k n : firstn k (zeros n) = zeros (Nat.min k n).
Proof. revert n. induction k; destruct n; simpl; try reflexivity. unfold zeros in *. simpl. rewrite IHk. reflexivity. Qed.
Lemma skipn_zeros k n : skipn k (zeros n) = zeros (n - k).
Proof. revert n. induction k; destruct n; simpl; try reflexivity. apply IHk. Qed.
Lemma zeros_app a b : zeros a ++ zeros b = zeros (a + b).
Proof. unfold zeros. symmetry. apply repeat_app. Qed.
Lemma all_zero_zeros d : all_zero d = true -> d = zeros (length d).
Proof.
  induction d; simpl; intros H; [reflexivity|]. apply andb_true_iff in H as [H1 H2].
  apply N.eqb_eq in H1. subst. unfold zeros in *. simpl. f_equal. auto.
Qed.

(* after set_length of a new file (all zeros), writing an all-zero blob inside the file changes
   nothing: leaving the hole is the same as writing it *)
Lemma sparse_hole_is_write_lemma : forall n off data,
  all_zero data = true -> (off + length data <= n)%nat ->
  write_bytes (zeros n) off data = zeros n.
Proof.
  intros n off data Hz Hle. rewrite (all_zero_zeros _ Hz). unfold write_bytes.
  replace (off - length (zeros n))%nat with 0%nat by (unfold zeros; rewrite repeat_length; lia).
  change (zeros 0) with (@nil N). rewrite app_nil_r.
  rewrite firstn_zeros, skipn_zeros, !zeros_app. f_equal.
  unfold zeros at 1. rewrite repeat_length. lia.
Qed.

(* set_length of a path that does not exist yields exactly that zero file *)
Lemma set_length_new_is_zeros s p n s1 :
  p <> [] -> mkdir_all s (removelast p) = Some s1 -> fs_get s1 p = None ->
  set_length s p n = Some (fs_set s1 p (EFile (zeros (N.to_nat n)) new_mtime new_fmode)).
Proof. intros Hp Hm Hg. unfold set_length. destruct p; [congruence|]. rewrite Hm, Hg. reflexivity. Qed.
