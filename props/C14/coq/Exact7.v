(* C14 — restore_exact, pre-existing files (partial): the per-file part of add_file and
   restore_contents for a file that exists in the destination with the snapshot's size.
   `file_locs` are the locations add_file's loop produces for one file (same reader, same flags);
   the plan is exactly the insertion of these locations; a flag is set iff the existing bytes at
   the blob's offset are the blob; writing the unflagged blobs over the existing bytes yields the
   concatenation of the blobs.  (Order: file order here; the order independence over the whole
   plan and the reads from other existing files are the open part, see NOTES.md.) *)
From Verif.Base Require Import Tactics.
From Verif.C14 Require Import Model Proofs Exact1 Exact2.

Fixpoint file_locs (idx : nat) (openf : option (list N)) (pos : N) (bl : list blob) : list (blob * floc) :=
  match bl with
  | [] => []
  | b :: t =>
    let len := length (b_data b) in
    let '(m, openf') :=
      match openf with
      | None => (false, None)
      | Some rem => (list_eqb (firstn len rem) (b_data b), Some (skipn len rem))
      end in
    (b, mkFl idx pos m) :: file_locs idx openf' (pos + N.of_nat len) t
  end.

Lemma plan_blobs_locs : forall bl idx openf pos r,
  plan_blobs idx openf pos bl r =
  (fold_left (fun r x => r_insert r (bkey (fst x)) (b_data (fst x)) (snd x)) (file_locs idx openf pos bl) r,
   (pos + N.of_nat (blen bl))%N).
Proof.
  induction bl as [|b t IH]; intros idx openf pos r; simpl.
  - f_equal. lia.
  - destruct openf as [rem|]; rewrite IH; simpl; f_equal; unfold dlen; lia.
Qed.

Lemma list_eqb_eq : forall a b, list_eqb a b = true <-> a = b.
Proof.
  induction a; destruct b; simpl; split; intros H; try discriminate; try reflexivity.
  - apply andb_true_iff in H as [H1 H2]. apply N.eqb_eq in H1. apply IHa in H2. congruence.
  - inv H. rewrite N.eqb_refl. simpl. apply IHa. reflexivity.
Qed.

Lemma skipn_skipn' {A} : forall x y (l : list A), skipn x (skipn y l) = skipn (x + y) l.
Proof.
  intros x y. revert x. induction y; intros x l; [rewrite Nat.add_0_r; reflexivity|].
  destruct l; [rewrite !skipn_nil; reflexivity|]. rewrite Nat.add_succ_r. simpl. apply IHy.
Qed.

Lemma file_locs_spec idx d0 : forall rest done k b fl,
  nth_error (file_locs idx (Some (skipn (blen done) d0)) (N.of_nat (blen done)) rest) k = Some (b, fl) ->
  nth_error rest k = Some b /\ fl_idx fl = idx /\
  fl_start fl = N.of_nat (blen (done ++ firstn k rest)) /\
  (fl_matches fl = true <-> firstn (dlen b) (skipn (blen (done ++ firstn k rest)) d0) = b_data b).
Proof.
  induction rest as [|b0 t IH]; intros done k b fl H; [destruct k; discriminate|].
  destruct k; simpl in H.
  - inv H. simpl. rewrite app_nil_r. repeat split; auto; apply list_eqb_eq.
  - assert (Hb : blen (done ++ [b0]) = length (b_data b0) + blen done) by (rewrite blen_app; simpl; unfold dlen; lia).
    assert (E1 : skipn (length (b_data b0)) (skipn (blen done) d0) = skipn (blen (done ++ [b0])) d0)
      by (rewrite skipn_skipn', Hb; reflexivity).
    assert (E2 : (N.of_nat (blen done) + N.of_nat (length (b_data b0)))%N = N.of_nat (blen (done ++ [b0]))) by lia.
    rewrite E1, E2 in H.
    destruct (IH _ _ _ _ H) as (H1 & H2 & H3 & H4).
    simpl. rewrite <- app_assoc in H3, H4. simpl in H3, H4. auto.
Qed.

(* what restore_contents does with one location of a file that existed before (no hole) *)
Definition apply_loc (d : list N) (x : blob * floc) : list N :=
  if fl_matches (snd x) then d else write_bytes d (N.to_nat (fl_start (snd x))) (b_data (fst x)).

Lemma write_bytes_app (A rem data : list N) : length data <= length rem ->
  write_bytes (A ++ rem) (length A) data = A ++ data ++ skipn (length data) rem.
Proof.
  intros H. unfold write_bytes. rewrite app_length. replace (length A - (length A + length rem)) with 0 by lia.
  change (zeros 0) with (@nil N). rewrite app_nil_r. rewrite firstn_exact. f_equal. f_equal.
  rewrite skipn_app. rewrite skipn_all2 by lia. simpl. f_equal. lia.
Qed.

Lemma existing_file_writes idx : forall rest A rem,
  length rem = blen rest ->
  fold_left apply_loc (file_locs idx (Some rem) (N.of_nat (length A)) rest) (A ++ rem) = A ++ econt rest.
Proof.
  induction rest as [|b t IH]; intros A rem Hl; simpl in *.
  - destruct rem; [reflexivity|discriminate].
  - assert (Hle : length (b_data b) <= length rem) by (unfold dlen in Hl; lia).
    assert (Hrest : length (skipn (length (b_data b)) rem) = blen t) by (rewrite skipn_length; unfold dlen in Hl; lia).
    replace (N.of_nat (length A) + N.of_nat (length (b_data b)))%N with (N.of_nat (length (A ++ b_data b)))
      by (rewrite app_length; lia).
    unfold econt. simpl. fold (econt t). unfold apply_loc at 2. simpl.
    destruct (list_eqb (firstn (length (b_data b)) rem) (b_data b)) eqn:E.
    + apply list_eqb_eq in E.
      replace (A ++ rem) with ((A ++ b_data b) ++ skipn (length (b_data b)) rem)
        by (rewrite <- app_assoc; f_equal; rewrite <- E at 1; apply firstn_skipn).
      rewrite IH by assumption. rewrite <- app_assoc. reflexivity.
    + rewrite Nat2N.id. rewrite write_bytes_app by assumption.
      replace (A ++ b_data b ++ skipn (length (b_data b)) rem) with ((A ++ b_data b) ++ skipn (length (b_data b)) rem)
        by (rewrite <- app_assoc; reflexivity).
      rewrite IH by assumption. rewrite <- app_assoc. reflexivity.
Qed.

Theorem existing_file_exact : forall idx bl d0 r,
  length d0 = blen bl ->
  plan_blobs idx (Some d0) 0%N bl r =
    (fold_left (fun r x => r_insert r (bkey (fst x)) (b_data (fst x)) (snd x)) (file_locs idx (Some d0) 0%N bl) r,
     N.of_nat (blen bl)) /\
  (forall k b fl, nth_error (file_locs idx (Some d0) 0%N bl) k = Some (b, fl) ->
     nth_error bl k = Some b /\ fl_idx fl = idx /\ fl_start fl = N.of_nat (blen (firstn k bl)) /\
     (fl_matches fl = true <-> firstn (dlen b) (skipn (blen (firstn k bl)) d0) = b_data b)) /\
  fold_left apply_loc (file_locs idx (Some d0) 0%N bl) d0 = econt bl.
Proof.
  intros idx bl d0 r Hl. split; [|split].
  - rewrite plan_blobs_locs. f_equal.
  - intros k b fl H. apply (file_locs_spec idx d0 bl [] k b fl H).
  - apply (existing_file_writes idx bl [] d0 Hl).
Qed.
