(* C14 — property theorems.  Statements closed by `exact`, each followed by Print Assumptions.
   Model.v mirrors restore.rs / local_destination.rs / NodeStreamer; `code_cfg` (Extracted.v) is
   regenerated from the source on every run and says which repairs the code contains. *)
From Verif.Base Require Import Tactics.
From Verif.C14 Require Import Model Extracted Witness.
Local Open Scope N_scope.

(* Destination entry of another type and delete = false: whatever the repairs, the model's
   set_length / create_dir_all fails inside the worker pool (panic), and an existing symlink or
   file where the snapshot has a symlink is silently kept.  Replayed on the real code. *)
Theorem restore_type_clash_refuted : forall c,
  r_out (restore c (mkO false false false) droot0 snap_file5 world_dir_for_file) = OPanic /\
  r_out (restore c (mkO false false false) droot0 snap_dir5_with_child world_file_for_dir) = OPanic /\
  (r_out (restore c (mkO false false false) droot0 snap_link7 world_other_link) = OOk /\
   fs_get (r_fs (restore c (mkO false false false) droot0 snap_link7 world_other_link)) [1; 2; 7] = Some (ELink 1)) /\
  (r_out (restore c (mkO false false false) droot0 snap_link7 world_file_for_link) = OOk /\
   fs_get (r_fs (restore c (mkO false false false) droot0 snap_link7 world_file_for_link)) [1; 2; 7] = Some (EFile [9] 5 420)).
Proof. exact (fun c => conj (w_dir_for_file c) (conj (w_file_for_dir c) (conj (w_symlink_kept c) (w_file_for_link_kept c)))). Qed.
Print Assumptions restore_type_clash_refuted.

(* Without the name check a node named `../9`, an absolute name or a directory named `..`
   writes outside the destination [1;2] ... *)
Theorem hostile_name_refuted :
  exists roots p, is_prefix droot0 p = false /\
    fs_get (r_fs (restore (mkC false false false) (mkO false false false) droot0 roots world0)) p <> fs_get world0 p.
Proof. exists hostile_parent, sentinel. split; [reflexivity|]. destruct w_hostile_parent_found as [_ H]. unfold get_after in H. rewrite H. discriminate. Qed.
Print Assumptions hostile_name_refuted.
