(* C14 — property theorems.  Statements closed by `exact`, each followed by Print Assumptions.
   Model.v mirrors restore.rs / local_destination.rs / NodeStreamer; `code_cfg` (Extracted.v) is
   regenerated from the source on every run and says which repairs the code contains
   (name check in NodeStreamer::next, exists flag after a removed clash, sparse guard).

   (Round 4, below: nodes_ok derived from the tree; merge_walk_classifies for arbitrary destinations;
   add_file_plan_correct / restore_contents_writes_plan with real match flags and from_file reads.
   What remains is the joint induction that assembles them — NOTES.md gap G1''.)

   restore_exact: PROVED for every destination that holds nothing at a snapshot path (fresh
   destination, or any extras) — restore_exact_fresh_dest below, all trees / options / worlds —
   via the four lemmas merge_walk_extras_only, add_file_plan_correct_fresh,
   restore_contents_writes_plan_fresh, metadata_pass_exact.  STILL OPEN (NOTES.md, gap G1'):
   destinations with entries AT snapshot paths (identical / modified / shorter / longer files of
   the same type, and other types with delete):

     Theorem restore_exact : forall o droot roots nodes s,
       stream code_cfg roots = map toO nodes -> nodes_ok nodes -> nodes_sorted nodes ->
       dirs_ok droot s -> tree_shaped droot s -> SameTypeOrDelete o droot nodes s ->
       let r := restore code_cfg o droot roots s in
       r_out r = OOk /\
       (forall x, In x nodes -> unconstrained o s x \/ good droot (r_fs r) x) /\
       (forall q e, strictly_under droot q = true -> fs_get s q = Some e -> ~ nodepath droot nodes q ->
          if o_delete o then fs_get (r_fs r) q = None else fs_get (r_fs r) q = Some e).

     where unconstrained = "same size and mtime, other bytes, verify_existing off" (the
     property's own exclusion).  For that case: the worked instance restore_exact_instance_partial
     (every option combination on a destination with identical / modified / shorter / longer /
     missing / extra entries and shared blobs); the executable form of the statement is evaluated
     by the check on every generated case, on the model and on the real code. *)
From Verif.Base Require Import Tactics.
From Verif.C14 Require Import Model Extracted Witness Proofs Proofs2 Proofs3 Exact1 Exact2 Exact3 Exact4 Exact5 Exact6 Exact7 Exact8 Order Merge Merge2 Merge3 Contents2 Plan2 Coalesce.
Local Open Scope N_scope.

(* No path outside the destination — nor the destination root itself — is created, modified or
   removed, whatever names the snapshot's trees contain, for every option record, every tree and
   every world in which the destination root and its ancestors are directories; also when the
   restore ends in an error or a panic. *)
Theorem restore_confined : forall o droot roots s q,
  dirs_ok droot s -> strictly_under droot q = false ->
  fs_get (r_fs (restore code_cfg o droot roots s)) q = fs_get s q.
Proof. exact restore_confined_code. Qed.
Print Assumptions restore_confined.
Example restore_confined_hyps : dirs_ok droot0 world0 /\ strictly_under droot0 sentinel = false.
Proof. split; [intros [|[|[|k]]]; reflexivity|reflexivity]. Qed.

(* Without the name check (the tree as it was found) a node named `../9` overwrites the sentinel
   next to the destination.  Replayed on the real code with a crafted tree. *)
Theorem hostile_name_refuted :
  exists roots p, strictly_under droot0 p = false /\ dirs_ok droot0 world0 /\
    fs_get (r_fs (restore (mkC false false false) (mkO false false false) droot0 roots world0)) p <> fs_get world0 p.
Proof. exact hostile_name_refuted_lemma. Qed.
Print Assumptions hostile_name_refuted.

(* The code as extracted refuses `..`, absolute names and a directory named `..`: error, nothing changed. *)
Theorem hostile_name_rejected :
  restore code_cfg (mkO false false false) droot0 hostile_parent world0 = mkR OErr world0 [] [] /\
  restore code_cfg (mkO false false false) droot0 hostile_abs world0 = mkR OErr world0 [] [] /\
  restore code_cfg (mkO false false false) droot0 hostile_dotdot_dir world0 = mkR OErr world0 [] [].
Proof. exact hostile_name_rejected_code. Qed.
Print Assumptions hostile_name_rejected.

(* Destination entry of another type and delete = false: whatever the repairs, set_length /
   create_dir_all fails inside the worker pool (panic), and an existing symlink or file where the
   snapshot has a symlink is silently kept.  Replayed on the real code (known findings). *)
Theorem restore_type_clash_refuted : forall c,
  r_out (restore c (mkO false false false) droot0 snap_file5 world_dir_for_file) = OPanic /\
  r_out (restore c (mkO false false false) droot0 snap_dir5_with_child world_file_for_dir) = OPanic /\
  (r_out (restore c (mkO false false false) droot0 snap_link7 world_other_link) = OOk /\
   fs_get (r_fs (restore c (mkO false false false) droot0 snap_link7 world_other_link)) [1; 2; 7] = Some (ELink 1)) /\
  (r_out (restore c (mkO false false false) droot0 snap_link7 world_file_for_link) = OOk /\
   fs_get (r_fs (restore c (mkO false false false) droot0 snap_link7 world_file_for_link)) [1; 2; 7] = Some (EFile [9] 5 420)).
Proof. exact (fun c => conj (w_dir_for_file c) (conj (w_file_for_dir c) (conj (w_symlink_kept c) (w_file_for_link_kept c)))). Qed.
Print Assumptions restore_type_clash_refuted.

(* Every pack read by restore_contents is in RestorePlan::to_packs (all inputs, all outcomes). *)
Theorem to_packs_covers_reads : forall c o droot roots s p,
  In p (r_reads (restore c o droot roots s)) -> In p (r_to_packs (restore c o droot roots s)).
Proof. exact to_packs_covers_reads_lemma. Qed.
Print Assumptions to_packs_covers_reads.

(* sparse = dense, part 1: in a file just allocated by set_length (all zeros) leaving the hole of an
   all-zero blob equals writing it. *)
Theorem sparse_equals_dense_partial : forall n off data,
  all_zero data = true -> (off + length data <= n)%nat ->
  write_bytes (zeros n) off data = zeros n.
Proof. exact sparse_hole_is_write_lemma. Qed.
Print Assumptions sparse_equals_dense_partial.
Example sparse_hyps : all_zero [0; 0] = true /\ (1 + length [0; 0] <= 4)%nat.
Proof. split; [reflexivity|simpl; lia]. Qed.

(* sparse = dense, part 2: over a file that existed before, the code as found kept the old bytes;
   the code as extracted writes the zeros. *)
Theorem sparse_over_existing_refuted :
  get_after (mkC false false false) (mkO false false true) snap_zero_file world_old_bytes [1; 2; 5] <>
  get_after (mkC false false false) (mkO false false false) snap_zero_file world_old_bytes [1; 2; 5].
Proof. exact sparse_refuted_found. Qed.
Print Assumptions sparse_over_existing_refuted.
Theorem sparse_over_existing_code :
  get_after code_cfg (mkO false false true) snap_zero_file world_old_bytes [1; 2; 5] =
  get_after code_cfg (mkO false false false) snap_zero_file world_old_bytes [1; 2; 5].
Proof. exact sparse_code. Qed.
Print Assumptions sparse_over_existing_code.

(* delete = true, a file where the snapshot has an empty directory: found code loses the directory *)
Theorem delete_nondir_for_dir_refuted :
  r_out (restore (mkC false false false) (mkO true false false) droot0 snap_empty_dir5 world_file_for_dir) = OOk /\
  fs_get (r_fs (restore (mkC false false false) (mkO true false false) droot0 snap_empty_dir5 world_file_for_dir)) [1; 2; 5] = None.
Proof. exact w_empty_dir_found. Qed.
Print Assumptions delete_nondir_for_dir_refuted.
Theorem delete_nondir_for_dir_code :
  get_after code_cfg (mkO true false false) snap_empty_dir5 world_file_for_dir [1; 2; 5] = Some (EDir 1000 493).
Proof. exact delete_dir_code. Qed.
Print Assumptions delete_nondir_for_dir_code.

(* restore_exact on a worked destination (identical, other bytes, shorter, longer, non-empty for
   empty, missing file and symlink, extra file and extra dir; shared blobs read from an existing
   file): every snapshot path holds the snapshot's bytes/type/target/mode/mtime, extras are removed
   iff delete and otherwise untouched — for all of verify_existing x sparse x delete. *)
Theorem restore_exact_instance_partial : forall verify sparse,
  (r_out (restore code_cfg (mkO false verify sparse) droot0 snapX worldX) = OOk /\
   holds (r_fs (restore code_cfg (mkO false verify sparse) droot0 snapX worldX)) (expected_snapshot_paths ++ extras)) /\
  (r_out (restore code_cfg (mkO true verify sparse) droot0 snapX worldX) = OOk /\
   holds (r_fs (restore code_cfg (mkO true verify sparse) droot0 snapX worldX)) expected_snapshot_paths /\
   absent (r_fs (restore code_cfg (mkO true verify sparse) droot0 snapX worldX)) extras).
Proof. exact restore_exact_instance. Qed.
Print Assumptions restore_exact_instance_partial.

(* ================================================================ restore_exact (gap G1) *)
Local Close Scope N_scope.

(* (a) The merge-walk of collect_and_prepare when no destination entry stands at a snapshot path:
   from any point of the walk (nodes = done ++ rem, remaining walker entries dst all extras, the
   invariant KInv: done directories exist, nothing at file/symlink paths, plan correct for the
   files of done) it ends Ok with the invariant for all nodes; every walker entry is classified
   as extra (removed iff delete — Estep), every node is visited once, in order. *)
Theorem merge_walk_extras_only : forall o droot nodes c,
  NoDup (map fst nodes) -> (forall x, In x nodes -> fst x <> []) ->
  (forall x j, In x nodes -> 0 < j < length (fst x) -> exists mt mo, In (firstn j (fst x), IDir mt mo) nodes) ->
  consistent (files_of nodes) ->
  forall fuel done rem s pl dst,
  nodes = done ++ rem -> length dst + length rem < fuel -> KInv droot nodes done s pl ->
  (forall d, In d dst -> extra_entry droot nodes d) ->
  exists s1 pl1, collect c fuel o droot s pl dst (map toO rem) = (OOk, s1, pl1) /\
    KInv droot nodes nodes s1 pl1 /\ Estep o droot nodes s dst s1 [].
Proof. exact collect_fresh. Qed.
Print Assumptions merge_walk_extras_only.

(* (b) RestorePlan::add_file for a file that is not in the destination keeps the plan invariant:
   names / lengths / preexisting flags in file order, every location of the plan is a blob of its
   file at the blob's offset with the blob's bytes, every blob of every file has a location. *)
Theorem add_file_plan_correct_fresh : forall o droot s pl files l blobs size mt,
  PlanInv pl files -> consistent (files ++ [(l, blobs)]) -> fs_get s (droot ++ l) = None ->
  PlanInv (add_file o droot s pl (np l) blobs size mt) (files ++ [(l, blobs)]).
Proof. exact add_file_fresh. Qed.
Print Assumptions add_file_plan_correct_fresh.

(* (c) restore_contents executes such a plan: Ok; every planned file holds exactly the
   concatenation of its blobs (set_length once, write_at per location in the plan's (pack,
   location) order, a location shared by several files written to each, the hole of an all-zero
   blob left only in the file just allocated — any sparse setting); nothing else changes. *)
Theorem restore_contents_writes_plan_fresh : forall c o droot files s0,
  files_ok files -> forall pl, PlanInv pl files -> dirs_ok droot s0 -> parents_ok droot files s0 ->
  (forall f, In f files -> fs_get s0 (P droot f) = None) ->
  exists s' reads, restore_contents c o droot s0 pl = (OOk, s', reads) /\ dirs_ok droot s' /\
    (forall f, In f files -> exists mt mo, fs_get s' (P droot f) = Some (EFile (econt (snd f)) mt mo)) /\
    (forall q, (forall f, In f files -> q <> P droot f) -> fs_get s' q = fs_get s0 q).
Proof. exact restore_contents_fresh. Qed.
Print Assumptions restore_contents_writes_plan_fresh.

(* (d) the metadata pass (directory stack included): from "content in place" to the snapshot's
   type / target / mode / mtime at every node; nothing else changes. *)
Theorem metadata_pass_exact_thm : forall droot all,
  NoDup (map fst all) -> (forall x, In x all -> fst x <> []) -> forall s, all_pend droot all s ->
  (forall x, In x all -> good droot (meta_loop droot s [] (map toO all)) x) /\
  (forall q, (forall x, In x all -> q <> Pn droot x) -> fs_get (meta_loop droot s [] (map toO all)) q = fs_get s q).
Proof. exact metadata_pass_exact. Qed.
Print Assumptions metadata_pass_exact_thm.

(* restore_exact for every destination without an entry at a snapshot path: for every option
   record (delete, verify_existing, sparse), every destination root whose ancestors are
   directories, every tree whose node stream is `nodes` (nodes_ok: unique non-empty paths, proper
   prefixes are directory nodes, one byte string per (pack, location)) and every world: the
   restore ends Ok, every snapshot path holds exactly the snapshot's bytes / type / link target /
   mode / mtime, and every other entry below the root is removed iff delete and otherwise
   untouched. *)
Theorem restore_exact_fresh_dest : forall o droot roots nodes s,
  stream code_cfg roots = map toO nodes -> nodes_ok nodes -> dirs_ok droot s ->
  (forall x, In x nodes -> fs_get s (Pn droot x) = None) ->
  r_out (restore code_cfg o droot roots s) = OOk /\
  (forall x, In x nodes -> good droot (r_fs (restore code_cfg o droot roots s)) x) /\
  (forall q e, strictly_under droot q = true -> fs_get s q = Some e ->
     if o_delete o then fs_get (r_fs (restore code_cfg o droot roots s)) q = None
     else fs_get (r_fs (restore code_cfg o droot roots s)) q = Some e).
Proof. exact restore_exact_fresh_dest_code. Qed.
Print Assumptions restore_exact_fresh_dest.
Example restore_exact_fresh_dest_hyps :
  stream code_cfg snapY = map toO nodesY /\ nodes_ok nodesY /\ dirs_ok droot0 worldY /\
  (forall x, In x nodesY -> fs_get worldY (Pn droot0 x) = None).
Proof. exact exampleY_hyps. Qed.

(* Pre-existing file of the snapshot's size (the case verify_existing / size+mtime differing sends
   into the per-blob comparison), per file: (1) the plan is exactly the insertion of the file's
   locations `file_locs` (the reader of add_file's loop); (2) location k is blob k at the blob's
   offset, flagged `matches` iff the existing bytes there are the blob (hash = equality);
   (3) writing the unflagged blobs over the existing bytes (no hole: the file existed) yields the
   concatenation of the blobs.  PARTIAL: in file order, one file; see NOTES.md gap G1'. *)
Theorem restore_exact_existing_file_partial : forall idx bl d0 r,
  length d0 = blen bl ->
  plan_blobs idx (Some d0) 0%N bl r =
    (fold_left (fun r x => r_insert r (bkey (fst x)) (b_data (fst x)) (snd x)) (file_locs idx (Some d0) 0%N bl) r,
     N.of_nat (blen bl)) /\
  (forall k b fl, nth_error (file_locs idx (Some d0) 0%N bl) k = Some (b, fl) ->
     nth_error bl k = Some b /\ fl_idx fl = idx /\ fl_start fl = N.of_nat (blen (firstn k bl)) /\
     (fl_matches fl = true <-> firstn (dlen b) (skipn (blen (firstn k bl)) d0) = b_data b)) /\
  fold_left apply_loc (file_locs idx (Some d0) 0%N bl) d0 = econt bl.
Proof. exact existing_file_exact. Qed.
Print Assumptions restore_exact_existing_file_partial.
Example existing_file_hyps : length [1%N; 2%N; 9%N; 9%N] = blen [kA; kB].
Proof. reflexivity. Qed.

(* The node stream of a tree whose visited names are single normal components (nnb) is the
   pre-order flattening of the tree — for every code configuration. *)
Theorem node_stream_is_flattening : forall c roots,
  forallb nnb roots = true -> stream c roots = map toO (flat_list [] roots).
Proof. exact stream_flat. Qed.
Print Assumptions node_stream_is_flattening.

(* restore_exact_fresh_dest stated on the tree: names single normal components, the flattening
   satisfies nodes_ok (unique paths = distinct sibling names; prefixes are directories by
   construction; index consistency), nothing in the destination at a snapshot path. *)
Theorem restore_exact_fresh_dest_tree : forall o droot roots s,
  forallb nnb roots = true -> nodes_ok (flat_list [] roots) -> dirs_ok droot s ->
  (forall x, In x (flat_list [] roots) -> fs_get s (Pn droot x) = None) ->
  r_out (restore code_cfg o droot roots s) = OOk /\
  (forall x, In x (flat_list [] roots) -> good droot (r_fs (restore code_cfg o droot roots s)) x) /\
  (forall q e, strictly_under droot q = true -> fs_get s q = Some e ->
     if o_delete o then fs_get (r_fs (restore code_cfg o droot roots s)) q = None
     else fs_get (r_fs (restore code_cfg o droot roots s)) q = Some e).
Proof. exact restore_exact_fresh_dest_tree_lemma. Qed.
Print Assumptions restore_exact_fresh_dest_tree.
Example restore_exact_fresh_dest_tree_hyps :
  forallb nnb snapY = true /\ flat_list [] snapY = nodesY /\ nodes_ok nodesY /\ dirs_ok droot0 worldY /\
  (forall x, In x nodesY -> fs_get worldY (Pn droot0 x) = None).
Proof. exact (conj (proj1 exampleY_tree) (conj (proj2 exampleY_tree) (proj2 exampleY_hyps))). Qed.

(* ================================================================ gap G1', round 4 *)

(* (1) nodes_ok is no hypothesis any more: it follows from the tree — visited names single normal
   components, sibling names distinct in every visited directory, one byte string per
   (pack, location). *)
Theorem nodes_ok_from_tree : forall roots,
  forallb nnb roots = true -> sibs_distinct roots -> index_consistent roots -> nodes_ok (flat_list [] roots).
Proof. exact nodes_ok_of_tree. Qed.
Print Assumptions nodes_ok_from_tree.

Theorem restore_exact_fresh_dest_of_tree : forall o droot roots s,
  forallb nnb roots = true -> sibs_distinct roots -> index_consistent roots -> dirs_ok droot s ->
  (forall x, In x (flat_list [] roots) -> fs_get s (Pn droot x) = None) ->
  r_out (restore code_cfg o droot roots s) = OOk /\
  (forall x, In x (flat_list [] roots) -> good droot (r_fs (restore code_cfg o droot roots s)) x) /\
  (forall q e, strictly_under droot q = true -> fs_get s q = Some e ->
     if o_delete o then fs_get (r_fs (restore code_cfg o droot roots s)) q = None
     else fs_get (r_fs (restore code_cfg o droot roots s)) q = Some e).
Proof. exact restore_exact_fresh_dest_of_tree_lemma. Qed.
Print Assumptions restore_exact_fresh_dest_of_tree.

(* (2) both listings of the merge-walk are strictly sorted by the component-wise order *)
Theorem walk_sorted : forall droot s, NoDup (map fst s) -> ssD (walk droot s).
Proof. exact walk_sorted_lemma. Qed.
Print Assumptions walk_sorted.
Theorem node_stream_sorted : forall roots, forallb nnb roots = true -> sibs_sorted roots ->
  StronglySorted (fun p q => ncmp p q = Lt) (map fst (flat_list [] roots)).
Proof. exact flat_sorted. Qed.
Print Assumptions node_stream_sorted.
(* the paths below p form an interval: what lies after p and not below it lies after all of them,
   so `drop_under` (skip_current_dir) removes exactly the skipped subtree from a sorted listing *)
Theorem paths_below_form_interval : forall p y z,
  is_prefix p y = true -> ncmp p z = Lt -> is_prefix p z = false -> ncmp y z = Lt.
Proof. exact interval. Qed.
Print Assumptions paths_below_form_interval.

(* merge_walk_classifies, arbitrary destinations (entries AT snapshot paths included): the
   comparison of the walk is Path::cmp in the source (regenerated fact), and then for every tree
   with sorted children and every world with unique paths:
   collect_and_prepare = the interpretation `run` of the pure classification `classify`
   (same control flow); every node is visited exactly once, in order (ev_nodes);
   EvMatch/EvClash d y: d stands at y's path, same type / other type; EvExtra d: d's path is no
   snapshot path; EvNew y: no walker entry stands at y's path (ev_ok);
   the classified entries are a strictly sorted sub-listing of the walk (each at most once) and
   every walker entry is classified or lies below a classified extra/clashing directory
   (covered_by); under SameTypeOrDelete a clash only occurs with delete (or is an identical
   symlink).  The invariant behind it: processed nodes lie before all remaining walker entries
   (classify_spec), which is what a string-wise comparison breaks. *)
Theorem merge_walk_classifies : merge_cmp_component_wise = true /\
  forall o droot roots s,
  forallb nnb roots = true -> sibs_sorted roots -> NoDup (map fst s) ->
  let nodes := flat_list [] roots in
  let dst := walk droot s in
  let evs := classify droot (S (length dst + length nodes)) dst nodes in
  stream code_cfg roots = map toO nodes /\
  ssD dst /\ StronglySorted (ltN droot) nodes /\
  collect_and_prepare code_cfg o droot s (stream code_cfg roots) = run code_cfg o droot evs s plan0 /\
  ev_nodes evs = nodes /\
  Forall (ev_ok droot nodes dst nodes) evs /\
  ssD (ev_entries evs) /\
  (forall d, In d dst -> covered_by evs d) /\
  (SameTypeOrDelete o droot nodes s ->
   forall d y, In (EvClash d y) evs -> o_delete o = true \/ exists t, snd y = ILink t /\ snd d = ELink t).
Proof. exact merge_walk_classifies_code. Qed.
Print Assumptions merge_walk_classifies.
Example tree_hyps :
  forallb nnb snapY = true /\ sibs_sorted snapY /\ sibs_distinct snapY /\ index_consistent snapY /\
  NoDup (map fst worldY) /\ dirs_ok droot0 worldY /\
  (forall x, In x (flat_list [] snapY) -> fs_get worldY (Pn droot0 x) = None).
Proof. exact exampleY_tree_hyps. Qed.

(* (3) the plan invariant with REAL match flags and the contents phase over it (strongest form
   landed; the assembly with the merge-walk into restore_exact for destinations with entries at
   snapshot paths is the remaining part of G1', see NOTES.md). *)

(* add_file for a path that holds nothing, a file of another size, or a file of the snapshot's size
   that gets compared (non-empty; verify_existing or another mtime): GPlanInv is kept — names,
   lengths, preexisting flags; every location is blob k of its file at the blob's offset, and its
   `matches` flag is only set if the existing file has the snapshot's size and holds the blob
   there; every blob has a location. *)
Theorem add_file_plan_correct : forall o droot s pl (gfiles : list gfileT) l blobs size mt base,
  GPlanInv pl gfiles -> consistent (map fst (gfiles ++ [((l, blobs), base)])) ->
  size = N.of_nat (blen blobs) -> planned o s (droot ++ l) size mt base ->
  GPlanInv (add_file o droot s pl (np l) blobs size mt) (gfiles ++ [((l, blobs), base)]).
Proof. exact add_file_general. Qed.
Print Assumptions add_file_plan_correct.
Example add_file_plan_correct_hyps :
  GPlanInv plan0 [] /\ planned (mkO false true false) worldY (droot0 ++ [0%N]) 1 1000 (Some [5%N]) /\
  planned (mkO false false false) worldY (droot0 ++ [5%N]) 3 1000 None.
Proof.
  split; [exact GPlanInv0|]. split.
  - eapply pl_compared; [reflexivity|reflexivity|discriminate|left; reflexivity].
  - apply pl_absent. reflexivity.
Qed.

(* restore_contents over such a plan (needs the sparse repair: c_sparse_pre): Ok; set_length once per
   file (a pre-existing file keeps its old bytes, resized); locations flagged `matches` are not
   written; an entry with a matching location is read from that existing file (from_file: the read
   returns the blob because a flagged region is never made wrong) and written to the other files;
   holes only in files created by this restore; afterwards every planned file is the concatenation
   of its blobs and nothing else changed. *)
Theorem restore_contents_writes_plan : forall c o droot (gfiles : list gfileT) s0 pl,
  c_sparse_pre c = true -> files_ok (map fst gfiles) -> GPlanInv pl gfiles ->
  dirs_ok droot s0 -> parents_ok droot (map fst gfiles) s0 -> (forall g, In g gfiles -> gstate0 droot s0 g) ->
  exists s' reads, restore_contents c o droot s0 pl = (OOk, s', reads) /\ dirs_ok droot s' /\
    (forall g, In g gfiles -> exists mt mo, fs_get s' (P droot (fst g)) = Some (EFile (econt (snd (fst g))) mt mo)) /\
    (forall q, (forall g, In g gfiles -> q <> P droot (fst g)) -> fs_get s' q = fs_get s0 q).
Proof. exact restore_contents_of_plan. Qed.
Print Assumptions restore_contents_writes_plan.
Example restore_contents_writes_plan_hyps : c_sparse_pre code_cfg = true /\ files_ok (map fst (@nil gfileT)) /\ GPlanInv plan0 [].
Proof.
  split; [reflexivity|]. split; [|exact GPlanInv0].
  constructor; [constructor|intros f []|intros f f' b b' []].
Qed.

(* ================================================================ PackInfo::coalesce (round 5) *)
Local Open Scope N_scope.

(* The guard of PackInfo::coalesce is regenerated from the source (code_coalesce_guard; CgSelf =
   `self.from_file.is_none()`).  With it, whatever BlobLocations::can_coalesce allows: a coalesced
   PackInfo that reads from an existing destination file is one of the original (pack, location)
   entries, unmerged — it carries exactly its own blob, so `read_data.clone()` is written only to
   the locations of the blob that was read. *)
Theorem coalesce_from_file_unmerged : forall cc r p,
  In p (coalesce_all code_coalesce_guard cc (map of_entry r)) -> pi_from p <> None ->
  exists e, In e r /\ p = of_entry e /\ length (pi_blobs p) = 1%nat.
Proof. exact coalesce_from_file_unmerged_code. Qed.
Print Assumptions coalesce_from_file_unmerged.
Example coalesce_from_file_unmerged_hyps : exists p,
  In p (coalesce_all code_coalesce_guard code_cc (map of_entry
      [((100, 0), ([1; 2], [mkFl 0 0 true])); ((100, 2), ([3; 4], [mkFl 0 2 false]))])) /\ pi_from p <> None.
Proof. eexists. split; [vm_compute; left; reflexivity|discriminate]. Qed.

(* coalescing (any guard, any can_coalesce) neither drops, duplicates nor reorders blobs: the blobs
   with their bytes and non-matching locations are those of the plan, in the plan's order *)
Theorem coalesce_preserves_blobs : forall g cc l, flat_map pi_blobs (coalesce_all g cc l) = flat_map pi_blobs l.
Proof. exact coalesce_preserves_blobs_lemma. Qed.
Print Assumptions coalesce_preserves_blobs.

(* the other guard (`other.from_file.is_none()`): an intact first blob read from the existing file is
   merged with the modified following blob, which is then written with the first blob's bytes
   ([1;2;1;2] instead of [1;2;3;4]); with the code's guard the coalesced execution gives the
   snapshot's bytes, like the entry-by-entry execution the other theorems are about. *)
Theorem coalesce_other_guard_refuted :
  fs_get (r_fs (restore_c cfg_fixed CgOther cc0 o_plain droot0 snapC worldC)) [1; 2; 5] = Some (EFile [1; 2; 1; 2] 1000 420) /\
  fs_get (r_fs (restore_c cfg_fixed CgSelf cc0 o_plain droot0 snapC worldC)) [1; 2; 5] = Some (EFile [1; 2; 3; 4] 1000 420) /\
  fs_get (r_fs (restore cfg_fixed o_plain droot0 snapC worldC)) [1; 2; 5] = Some (EFile [1; 2; 3; 4] 1000 420) /\
  (exists p, In p (coalesce_all CgOther cc0 (map of_entry
      [((100, 0), ([1; 2], [mkFl 0 0 true])); ((100, 2), ([3; 4], [mkFl 0 2 false]))])) /\
     pi_from p <> None /\ length (pi_blobs p) = 2%nat).
Proof. exact w_coalesce. Qed.
Print Assumptions coalesce_other_guard_refuted.

(* the executable model used by the correspondence is the coalesced one (restore_c with the
   extracted guard and constants); on the witness it equals the entry-by-entry restore for every option *)
Theorem coalesced_equals_entrywise_on_witness : forall verify sparse del,
  r_fs (restore_c code_cfg code_coalesce_guard code_cc (mkO del verify sparse) droot0 snapC worldC) =
  r_fs (restore code_cfg (mkO del verify sparse) droot0 snapC worldC).
Proof. exact w_coalesce_same. Qed.
Print Assumptions coalesced_equals_entrywise_on_witness.
