(* C14 — towards restore_exact: restore_contents executes the plan.  For files that do not
   exist in the destination: set_length once, write_at per location (in the plan's order, which
   groups by (pack, location), not by file), a hole only for all-zero blobs — afterwards every
   planned file holds exactly the concatenation of its blobs. *)
From Verif.Base Require Import Tactics.
From Verif.C14 Require Import Model Proofs Exact1 Exact2.

Definition P (droot : apath) (f : fileT) : apath := droot ++ fst f.
Notation job := (list N * floc)%type.

Definition covered (S : list job) (i x : nat) : Prop :=
  exists d fl, In (d, fl) S /\ fl_idx fl = i /\ N.to_nat (fl_start fl) <= x < N.to_nat (fl_start fl) + length d.

(* either not yet allocated, or allocated: every byte is already the snapshot's, or still the zero
   of the allocation and not covered by any location processed so far *)
Definition pointwise (bl : list blob) (S : list job) (i : nat) (d : list N) : Prop :=
  forall x, x < blen bl -> nth x d 0%N = nth x (econt bl) 0%N \/ (nth x d 0%N = 0%N /\ ~ covered S i x).
Definition fstate droot (s : fs) (sizes : list N) (S : list job) (i : nat) (f : fileT) : Prop :=
  (nth i sizes 0%N = N.of_nat (blen (snd f)) /\ 0 < blen (snd f) /\ fs_get s (P droot f) = None /\ forall x, ~ covered S i x)
  \/ (nth i sizes 0%N = 0%N /\ exists d mt mo, fs_get s (P droot f) = Some (EFile d mt mo) /\ length d = blen (snd f) /\
        pointwise (snd f) S i d).

Record files_ok (files : list fileT) : Prop := mkFO {
  fo_nodup : NoDup (map fst files);
  fo_ne : forall f, In f files -> fst f <> [];
  fo_cons : consistent files }.
Definition parents_ok droot (files : list fileT) (s : fs) : Prop :=
  forall f j, In f files -> 0 < j < length (fst f) -> isdir s (droot ++ firstn j (fst f)).

Record CInv droot (files : list fileT) (s0 s : fs) (sizes : list N) (S : list job) : Prop := mkCI {
  ci_dirs : dirs_ok droot s;
  ci_par : parents_ok droot files s;
  ci_len : length sizes = length files;
  ci_files : forall i f, nth_error files i = Some f -> fstate droot s sizes S i f;
  ci_frame : forall q, (forall f, In f files -> q <> P droot f) -> fs_get s q = fs_get s0 q }.

Definition vjob (files : list fileT) (j : job) : Prop :=
  fl_matches (snd j) = false /\
  exists f kk b, nth_error files (fl_idx (snd j)) = Some f /\ nth_error (snd f) kk = Some b /\
    fl_start (snd j) = N.of_nat (blen (firstn kk (snd f))) /\ fst j = b_data b.

(* ---------------------------------------------------------------- small facts *)
Lemma set_nth_length {A} (x : A) : forall l i, length (set_nth l i x) = length l.
Proof. induction l; destruct i; simpl; auto. Qed.
Lemma nth_set_nth_same {A} (x d : A) : forall l i, i < length l -> nth i (set_nth l i x) d = x.
Proof. induction l; destruct i; simpl; intros; try lia; auto. apply IHl. lia. Qed.
Lemma nth_set_nth_other {A} (x d : A) : forall l i j, i <> j -> nth j (set_nth l i x) d = nth j l d.
Proof. induction l; destruct i, j; simpl; intros; try congruence; auto. Qed.
Lemma nth_map_nth_error {A B} (g : A -> B) d0 : forall l i a, nth_error l i = Some a -> nth i (map g l) d0 = g a.
Proof. induction l; destruct i; simpl; intros; try discriminate; [inv H; reflexivity|eauto]. Qed.
Lemma nth_map_false {A} : forall (l : list A) i, nth i (map (fun _ => false) l) false = false.
Proof. induction l; destruct i; simpl; auto. Qed.
Lemma nodup_fst_idx (files : list fileT) i i' f f' :
  NoDup (map fst files) -> nth_error files i = Some f -> nth_error files i' = Some f' -> fst f = fst f' -> i = i'.
Proof.
  intros Hn H1 H2 E. rewrite NoDup_nth_error in Hn. apply Hn.
  - rewrite map_length. apply nth_error_Some. rewrite H1. discriminate.
  - rewrite (map_nth_error fst _ _ H1), (map_nth_error fst _ _ H2). congruence.
Qed.
Lemma nodup_fst_inj (files : list fileT) f f' :
  NoDup (map fst files) -> In f files -> In f' files -> fst f = fst f' -> f = f'.
Proof.
  intros Hn H1 H2 E. apply In_nth_error in H1 as [i H1]. apply In_nth_error in H2 as [i' H2].
  assert (i = i') by (eapply nodup_fst_idx; eauto). subst. congruence.
Qed.
Lemma P_inj droot f f' : P droot f = P droot f' -> fst f = fst f'.
Proof. unfold P. apply app_inv_head. Qed.
Lemma su_P droot files f : files_ok files -> In f files -> strictly_under droot (P droot f) = true.
Proof. intros H Hi. apply su_app. apply (fo_ne _ H). assumption. Qed.

Lemma removelast_firstn_eq {A} (l : list A) j : j < length l -> firstn j (removelast l) = firstn j l.
Proof.
  intros H. rewrite removelast_firstn_len, firstn_firstn. f_equal. lia.
Qed.

(* set_length of a path below the root whose parents exist and which does not exist itself *)
Lemma set_length_fresh_P droot s l n :
  dirs_ok droot s -> l <> [] ->
  (forall j, 0 < j < length l -> isdir s (droot ++ firstn j l)) ->
  fs_get s (droot ++ l) = None ->
  set_length s (droot ++ l) n = Some (fs_set s (droot ++ l) (EFile (zeros (N.to_nat n)) new_mtime new_fmode)).
Proof.
  intros Hok Hl Hp Hg. unfold set_length.
  destruct (droot ++ l) eqn:E; [destruct droot; destruct l; try discriminate; congruence|]. rewrite <- E in *.
  rewrite removelast_app by assumption.
  rewrite (mkdir_all_noop droot s (removelast l) Hok).
  - rewrite Hg. reflexivity.
  - intros j Hj. assert (length (removelast l) = length l - 1).
    { rewrite removelast_firstn_len, firstn_length. lia. }
    rewrite removelast_firstn_eq by lia. apply Hp. lia.
Qed.

(* ---------------------------------------------------------------- one location *)
Lemma covered_cons_other S d fl i x : fl_idx fl <> i -> covered ((d, fl) :: S) i x -> covered S i x.
Proof.
  intros Hne (d' & fl' & [H|H] & Hi & Hr); [inv H; congruence|]. exists d', fl'. auto.
Qed.
Lemma covered_mono S S' i x : (forall j, In j S -> In j S') -> covered S i x -> covered S' i x.
Proof. intros H (d & fl & Hin & Hr). exists d, fl. auto. Qed.

Lemma CInv_update droot files s0 s sizes S s' sizes' f d fl dnew mt mo :
  files_ok files -> CInv droot files s0 s sizes S ->
  nth_error files (fl_idx fl) = Some f ->
  fs_get s' (P droot f) = Some (EFile dnew mt mo) ->
  (forall q, q <> P droot f -> fs_get s' q = fs_get s q) ->
  (forall m mo', fs_get s (P droot f) <> Some (EDir m mo')) ->
  length sizes' = length sizes -> nth (fl_idx fl) sizes' 0%N = 0%N ->
  (forall i, i <> fl_idx fl -> nth i sizes' 0%N = nth i sizes 0%N) ->
  length dnew = blen (snd f) -> pointwise (snd f) ((d, fl) :: S) (fl_idx fl) dnew ->
  CInv droot files s0 s' sizes' ((d, fl) :: S).
Proof.
  intros Hfo [Hd Hp Hl Hf Hfr] Hnth Hg Hoth Hnd Hl' Hz Hsz Hdl Hpw.
  assert (Hin : In f files) by (eapply nth_error_In; eassumption).
  constructor.
  - eapply dirs_ok_frame; [exact Hd|]. intros q Hq. apply Hoth. intros ->. rewrite (su_P _ _ _ Hfo Hin) in Hq. discriminate.
  - intros f' j Hf' Hj. destruct (Hp f' j Hf' Hj) as (m & mo' & Hq). exists m, mo'.
    rewrite Hoth; [assumption|]. intros E. rewrite E in Hq. apply (Hnd _ _ Hq).
  - congruence.
  - intros i f' Hi. destruct (Nat.eq_dec i (fl_idx fl)) as [->|Hne].
    + rewrite Hnth in Hi. inv Hi. right. split; [assumption|]. exists dnew, mt, mo. auto.
    + assert (HP : P droot f' <> P droot f).
      { intros E. apply Hne. eapply nodup_fst_idx; eauto using fo_nodup. apply P_inj in E. assumption. }
      destruct (Hf i f' Hi) as [(A1 & A2 & A3 & A4)|(B1 & d0 & m0 & mo0 & B2 & B3 & B4)].
      * left. rewrite Hsz by assumption. rewrite Hoth by assumption. repeat split; try assumption.
        intros x Hc. apply (A4 x). eapply covered_cons_other; [|exact Hc]. congruence.
      * right. rewrite Hsz by assumption. split; [assumption|]. exists d0, m0, mo0. rewrite Hoth by assumption.
        repeat split; try assumption. intros x Hx. destruct (B4 x Hx) as [X|[X Y]]; [left; assumption|right].
        split; [assumption|]. intros Hc. apply Y. eapply covered_cons_other; [|exact Hc]. congruence.
  - intros q Hq. rewrite Hoth; [apply Hfr; assumption|]. apply Hq. assumption.
Qed.

(* writing (or leaving the hole of) tile kk into content dold *)
Lemma tile_pointwise bl kk b S i d fl dold dnew :
  nth_error bl kk = Some b -> d = b_data b -> fl_idx fl = i ->
  fl_start fl = N.of_nat (blen (firstn kk bl)) ->
  length dold = blen bl -> pointwise bl S i dold ->
  (dnew = write_bytes dold (blen (firstn kk bl)) d \/ (all_zero d = true /\ dnew = dold)) ->
  length dnew = blen bl /\ pointwise bl ((d, fl) :: S) i dnew.
Proof.
  intros Hk Hd Hi Hs Hl Hpw Hnew.
  destruct (tile_in_econt _ _ _ Hk) as [Hb Hy]. set (st := blen (firstn kk bl)) in *.
  assert (Hdl : length d = dlen b) by (subst d; reflexivity).
  assert (Hnc : forall x, ~ (st <= x < st + length d) -> ~ covered S i x -> ~ covered ((d, fl) :: S) i x).
  { intros x Hr Hc (d' & fl' & [H|H] & Hi' & Hr').
    - inv H. apply Hr. rewrite Hs in Hr'. unfold st. lia.
    - apply Hc. exists d', fl'. auto. }
  destruct Hnew as [->|[Hz ->]].
  - destruct (write_bytes_spec dold st d) as [L Nn]; [lia|]. split; [lia|].
    intros x Hx. rewrite Nn.
    destruct (st <=? x) eqn:E1; simpl; [destruct (x <? st + length d) eqn:E2|].
    + left. apply Nat.leb_le in E1. apply Nat.ltb_lt in E2.
      replace x with (st + (x - st)) at 2 by lia. rewrite Hy by lia. subst d. reflexivity.
    + apply Nat.leb_le in E1. apply Nat.ltb_ge in E2.
      destruct (Hpw x Hx) as [X|[X Y]]; [left; assumption|right; split; [assumption|apply Hnc; [lia|assumption]]].
    + apply Nat.leb_gt in E1.
      destruct (Hpw x Hx) as [X|[X Y]]; [left; assumption|right; split; [assumption|apply Hnc; [lia|assumption]]].
  - split; [assumption|]. intros x Hx.
    destruct (Hpw x Hx) as [X|[X Y]]; [left; assumption|].
    destruct (Nat.le_gt_cases st x) as [H1|H1]; [destruct (Nat.lt_ge_cases x (st + length d)) as [H2|H2]|].
    + left. rewrite X. replace x with (st + (x - st)) by lia. rewrite Hy by lia.
      rewrite <- Hd. symmetry. apply all_zero_nth. assumption.
    + right. split; [assumption|apply Hnc; [lia|assumption]].
    + right. split; [assumption|apply Hnc; [lia|assumption]].
Qed.

Section Contents.
Variables (c : cfg) (o : opts) (droot : apath) (files : list fileT) (s0 : fs).
Let names := map (fun f : fileT => np (fst f)) files.
Let pre := map (fun _ : fileT => false) files.
Hypothesis Hfo : files_ok files.

Lemma write_dest_step s sizes S d fl :
  CInv droot files s0 s sizes S -> vjob files (d, fl) ->
  exists s' sizes', write_dest c o droot names pre d (Some (s, sizes)) fl = Some (s', sizes') /\
    CInv droot files s0 s' sizes' ((d, fl) :: S).
Proof.
  intros HC (Hm & f & kk & b & Hf & Hk & Hst & Hd). simpl in *.
  assert (Hin : In f files) by (eapply nth_error_In; eassumption).
  assert (Hidx : fl_idx fl < length sizes).
  { rewrite (ci_len _ _ _ _ _ _ HC). apply nth_error_Some. rewrite Hf. discriminate. }
  assert (Hne : fst f <> []) by (apply (fo_ne _ Hfo); assumption).
  unfold write_dest, nth_name, names. rewrite (map_nth_error _ _ _ Hf). rewrite dpath_np. fold (P droot f).
  unfold pre. rewrite nth_map_false, andb_false_r. simpl negb. rewrite andb_true_r.
  (* phase 1: the allocation *)
  assert (Halloc : exists s1 sizes1 dold m1 mo1,
    (if (0 <? nth (fl_idx fl) sizes 0)%N
     then match set_length s (P droot f) (nth (fl_idx fl) sizes 0%N) with
          | Some s' => Some (s', set_nth sizes (fl_idx fl) 0%N) | None => None end
     else Some (s, sizes)) = Some (s1, sizes1) /\
    fs_get s1 (P droot f) = Some (EFile dold m1 mo1) /\
    (forall q, q <> P droot f -> fs_get s1 q = fs_get s q) /\
    length sizes1 = length sizes /\ nth (fl_idx fl) sizes1 0%N = 0%N /\
    (forall i, i <> fl_idx fl -> nth i sizes1 0%N = nth i sizes 0%N) /\
    length dold = blen (snd f) /\ pointwise (snd f) S (fl_idx fl) dold).
  { destruct (ci_files _ _ _ _ _ _ HC _ _ Hf) as [(A1 & A2 & A3 & A4)|(B1 & d0 & m0 & mo0 & B2 & B3 & B4)].
    - rewrite A1. replace (0 <? N.of_nat (blen (snd f)))%N with true by (symmetry; apply N.ltb_lt; lia).
      unfold P in *. rewrite set_length_fresh_P; auto.
      + rewrite Nat2N.id. eexists _, _, (zeros (blen (snd f))), _, _. split; [reflexivity|].
        split; [apply get_set_same|]. split; [intros q Hq; apply get_set_other; apply path_eqb_neq; congruence|].
        split; [apply set_nth_length|]. split; [apply nth_set_nth_same; assumption|].
        split; [intros i Hi; apply nth_set_nth_other; congruence|].
        split; [apply zeros_length|]. intros x Hx. right. split; [apply nth_zeros|apply A4].
      + apply (ci_dirs _ _ _ _ _ _ HC).
      + intros j Hj. apply (ci_par _ _ _ _ _ _ HC f j Hin Hj).
    - rewrite B1. simpl. exists s, sizes, d0, m0, mo0. repeat split; auto. }
  destruct Halloc as (s1 & sizes1 & dold & m1 & mo1 & Ea & G1 & O1 & L1 & Z1 & Oth1 & Ld & Pw).
  rewrite Ea.
  assert (Hnd : forall m mo', fs_get s (P droot f) <> Some (EDir m mo')).
  { intros m mo' E. destruct (ci_files _ _ _ _ _ _ HC _ _ Hf) as [(_ & _ & A3 & _)|(_ & d0 & m0 & mo0 & B2 & _)]; congruence. }
  destruct (o_sparse o && all_zero d) eqn:Esk.
  - (* the hole *)
    apply andb_true_iff in Esk as [_ Hz].
    destruct (tile_pointwise (snd f) kk b S (fl_idx fl) d fl dold dold Hk Hd eq_refl Hst Ld Pw (or_intror (conj Hz eq_refl))) as [L2 Pw2].
    exists s1, sizes1. split; [reflexivity|].
    eapply CInv_update; eauto.
  - unfold write_at. rewrite G1.
    destruct (tile_pointwise (snd f) kk b S (fl_idx fl) d fl dold _ Hk Hd eq_refl Hst Ld Pw (or_introl eq_refl)) as [L2 Pw2].
    rewrite Hst, Nat2N.id.
    eexists _, sizes1. split; [reflexivity|].
    eapply CInv_update; eauto.
    + apply get_set_same.
    + intros q Hq. rewrite get_set_other by (apply path_eqb_neq; congruence). apply O1. assumption.
Qed.

Lemma fold_none_wd d : forall fls, fold_left (write_dest c o droot names pre d) fls None = None.
Proof. induction fls; simpl; auto. Qed.

Lemma write_dests_inv d : forall fls s sizes S,
  CInv droot files s0 s sizes S -> (forall fl, In fl fls -> vjob files (d, fl)) ->
  exists s' sizes' S', fold_left (write_dest c o droot names pre d) fls (Some (s, sizes)) = Some (s', sizes') /\
    CInv droot files s0 s' sizes' S' /\ (forall j, In j S -> In j S') /\ (forall fl, In fl fls -> In (d, fl) S').
Proof.
  induction fls as [|fl t IH]; intros s sizes S HC Hv.
  - exists s, sizes, S. split; [reflexivity|]. split; [exact HC|]. split; [auto|]. intros fl [].
  - cbn [fold_left]. destruct (write_dest_step s sizes S d fl HC (Hv fl (or_introl eq_refl))) as (s1 & sz1 & E & HC1).
    rewrite E. destruct (IH s1 sz1 _ HC1 (fun fl' H => Hv fl' (or_intror H))) as (s' & sz' & S' & E' & HC' & I1 & I2).
    exists s', sz', S'. split; [exact E'|]. split; [exact HC'|]. split.
    + intros j Hj. apply I1. right. assumption.
    + intros fl' [<-|H]; [apply I1; left; reflexivity|auto].
Qed.

Lemma filter_nomatch fls : (forall fl, In fl fls -> fl_matches fl = false) ->
  filter (fun fl => negb (fl_matches fl)) fls = fls /\ find fl_matches fls = None.
Proof.
  induction fls; simpl; intros H; [auto|]. rewrite (H a (or_introl eq_refl)). simpl.
  destruct IHfls as [-> ->]; auto.
Qed.

Lemma do_entries_inv : forall r s sizes reads S,
  CInv droot files s0 s sizes S ->
  (forall k d fls fl, In (k, (d, fls)) r -> In fl fls -> vjob files (d, fl)) ->
  exists s' sizes' reads' S', fold_left (do_entry c o droot names pre) r (Some (s, sizes, reads)) = Some (s', sizes', reads') /\
    CInv droot files s0 s' sizes' S' /\ (forall j, In j S -> In j S') /\
    (forall k d fls fl, In (k, (d, fls)) r -> In fl fls -> In (d, fl) S').
Proof.
  induction r as [|[k [d fls]] t IH]; intros s sizes reads S HC Hv.
  - exists s, sizes, reads, S. split; [reflexivity|]. split; [exact HC|]. split; [auto|]. intros k d fls fl [].
  - cbn [fold_left].
    assert (Hv0 : forall fl, In fl fls -> vjob files (d, fl)) by (intros fl H; apply (Hv k d fls fl); [left; reflexivity|assumption]).
    destruct (filter_nomatch fls (fun fl H => proj1 (Hv0 fl H))) as [Ef En].
    destruct (write_dests_inv d fls s sizes S HC Hv0) as (s1 & sz1 & S1 & E1 & HC1 & I1 & I2).
    assert (Estep : exists reads1, do_entry c o droot names pre (Some (s, sizes, reads)) (k, (d, fls)) = Some (s1, sz1, reads1)).
    { unfold do_entry. rewrite Ef, En. destruct fls as [|fl0 fls']; [simpl in E1; inv E1; eauto|].
      rewrite E1. eauto. }
    destruct Estep as [reads1 Estep]. rewrite Estep.
    destruct (IH s1 sz1 reads1 S1 HC1) as (s' & sz' & rd' & S' & E' & HC' & J1 & J2).
    { intros k' d' fls' fl' H. apply (Hv k' d' fls' fl'). right. assumption. }
    exists s', sz', rd', S'. split; [exact E'|]. split; [exact HC'|]. split; [auto|].
    intros k' d' fls' fl' [H|H] Hfl; [inv H; apply J1; apply I2; assumption|eapply J2; eassumption].
Qed.

(* "first create needed empty files" *)
Lemma create_empty_spec : forall (fl : list fileT) s,
  dirs_ok droot s -> NoDup (map fst fl) -> (forall f, In f fl -> fst f <> []) ->
  parents_ok droot fl s -> (forall f, In f fl -> fs_get s (P droot f) = None) ->
  exists s', create_empty droot s (map (fun f : fileT => np (fst f)) fl) (map (fun f : fileT => N.of_nat (blen (snd f))) fl) = Some s' /\
    dirs_ok droot s' /\
    (forall f, In f fl -> blen (snd f) = 0 -> fs_get s' (P droot f) = Some (EFile [] new_mtime new_fmode)) /\
    (forall q, (forall f, In f fl -> blen (snd f) = 0 -> q <> P droot f) -> fs_get s' q = fs_get s q).
Proof.
  induction fl as [|f t IH]; intros s Hok Hn Hne Hp Hg.
  - exists s. simpl. repeat split; auto. intros f [].
  - simpl. inv Hn.
    assert (Htl : forall f', In f' t -> P droot f' <> P droot f).
    { intros f' Hf' E. apply P_inj in E. apply H1. rewrite <- E. apply in_map. assumption. }
    destruct (blen (snd f)) eqn:Eb.
    + simpl. rewrite dpath_np. fold (P droot f). unfold P at 1.
      rewrite set_length_fresh_P; auto; [|apply Hne; left; reflexivity|intros j Hj; apply (Hp f j (or_introl eq_refl) Hj)|apply Hg; left; reflexivity].
      simpl. fold (P droot f).
      assert (Hne' : forall f', In f' t -> fst f' <> []) by (intros f' Hf'; apply Hne; right; assumption).
      destruct (IH (fs_set s (P droot f) (EFile [] new_mtime new_fmode))) as (s' & E & D' & Z & Fr); [|exact H2|exact Hne'| | |].
      * eapply dirs_ok_frame; [exact Hok|]. apply frame_set. apply su_app. apply Hne. left. reflexivity.
      * intros f' j Hf' Hj. destruct (Hp f' j (or_intror Hf') Hj) as (m & mo & Hq). exists m, mo.
        rewrite get_set_other; [assumption|]. apply path_eqb_neq. intros E. rewrite <- E in Hq.
        rewrite (Hg f (or_introl eq_refl)) in Hq. discriminate.
      * intros f' Hf'. rewrite get_set_other by (apply path_eqb_neq; intros E; apply (Htl f' Hf'); congruence).
        apply Hg. right. assumption.
      * exists s'. split; [exact E|]. split; [exact D'|]. split.
        -- intros f' [<-|Hf'] Hb; [|auto]. rewrite Fr; [apply get_set_same|].
           intros f' Hf' _. intros E'. apply (Htl f' Hf'). congruence.
        -- intros q Hq. rewrite Fr by (intros f' Hf' Hb; apply Hq; [right; assumption|assumption]).
           apply get_set_other. apply path_eqb_neq. intros E'. apply (Hq f (or_introl eq_refl) Eb). congruence.
    + replace (N.of_nat (S n) =? 0)%N with false by (symmetry; apply N.eqb_neq; lia).
      assert (Hne' : forall f', In f' t -> fst f' <> []) by (intros f' Hf'; apply Hne; right; assumption).
      destruct (IH s) as (s' & E & D' & Z & Fr); [exact Hok|exact H2|exact Hne'| | |].
      * intros f' j Hf' Hj. apply (Hp f' j (or_intror Hf') Hj).
      * intros f' Hf'. apply Hg. right. assumption.
      * exists s'. split; [exact E|]. split; [exact D'|]. split.
        -- intros f' [<-|Hf'] Hb; [lia|auto].
        -- intros q Hq. apply Fr. intros f' Hf' Hb. apply Hq; [right; assumption|assumption].
Qed.

(* restore_contents on a plan for files none of which exists *)
Theorem restore_contents_fresh pl :
  PlanInv pl files -> dirs_ok droot s0 -> parents_ok droot files s0 ->
  (forall f, In f files -> fs_get s0 (P droot f) = None) ->
  exists s' reads, restore_contents c o droot s0 pl = (OOk, s', reads) /\
    dirs_ok droot s' /\
    (forall f, In f files -> exists mt mo, fs_get s' (P droot f) = Some (EFile (econt (snd f)) mt mo)) /\
    (forall q, (forall f, In f files -> q <> P droot f) -> fs_get s' q = fs_get s0 q).
Proof.
  intros HP Hok Hp Hg. pose (s := s0). fold s in Hok, Hp, Hg |- *. unfold restore_contents.
  rewrite (pi_names _ _ HP), (pi_lens _ _ HP), (pi_pre _ _ HP).
  destruct (create_empty_spec files s Hok (fo_nodup _ Hfo) (fo_ne _ Hfo) Hp Hg) as (s1 & E1 & D1 & Z1 & F1).
  rewrite E1.
  assert (HC : CInv droot files s0 s1 (map (fun f : fileT => N.of_nat (blen (snd f))) files) []).
  { constructor.
    - exact D1.
    - intros f j Hf Hj. destruct (Hp f j Hf Hj) as (m & mo & Hq). exists m, mo. rewrite F1; [assumption|].
      intros f' Hf' _ E. rewrite E in Hq. rewrite (Hg f' Hf') in Hq. discriminate.
    - apply map_length.
    - intros i f Hi. assert (Hin : In f files) by (eapply nth_error_In; eassumption).
      unfold fstate. rewrite (nth_map_nth_error _ _ _ _ _ Hi).
      destruct (blen (snd f)) eqn:Eb.
      + right. split; [reflexivity|]. exists [], new_mtime, new_fmode. rewrite Z1 by assumption.
        repeat split; auto. intros x Hx. lia.
      + left. repeat split; try lia.
        * rewrite F1; [apply Hg; assumption|]. intros f' Hf' Hb E. apply P_inj in E.
          assert (f = f') by (eapply nodup_fst_inj; eauto using fo_nodup). subst f'. lia.
        * intros x (d & fl & [] & _).
    - intros q Hq. apply F1. intros f Hf _. apply Hq. assumption. }
  destruct (do_entries_inv (pl_r pl) s1 _ [] [] HC) as (s' & sz' & rd' & S' & E' & HC' & _ & J).
  { intros k d fls fl Hi Hfl.
    destruct (job_data _ _ _ _ _ _ (fo_cons _ Hfo) (pi_esound _ _ HP) (pi_fsound _ _ HP) Hi Hfl) as (Hm & f & kk & b & H1 & H2 & H3 & H4).
    split; [assumption|]. exists f, kk, b. auto. }
  fold names pre in E'. unfold names, pre in E'. rewrite E'.
  exists s', rd'. split; [reflexivity|]. split; [apply (ci_dirs _ _ _ _ _ _ HC')|]. split.
  - intros f Hf. apply In_nth_error in Hf as [i Hi].
    assert (Hcov : forall x, x < blen (snd f) -> covered S' i x).
    { intros x Hx. destruct (econt_covered _ _ Hx) as (kk & b & Hk & Hr).
      destruct (pi_complete _ _ HP i f kk b Hi Hk I) as (d & fls & fl & G1 & G2 & G3 & G4).
      destruct (pi_esound _ _ HP _ _ _ G1) as (f' & b' & X1 & X2 & X3 & X4).
      assert (d = b_data b).
      { subst d. apply (fo_cons _ Hfo f' f b' b); auto; eapply nth_error_In; eassumption. }
      exists d, fl. split; [eapply J; eassumption|]. split; [assumption|].
      rewrite G4, Nat2N.id, H. unfold dlen in Hr. lia. }
    destruct (ci_files _ _ _ _ _ _ HC' i f Hi) as [(A1 & A2 & A3 & A4)|(B1 & d & mt & mo & B2 & B3 & B4)].
    + exfalso. apply (A4 0). apply Hcov. assumption.
    + exists mt, mo. rewrite B2. do 2 f_equal.
      apply (nth_ext _ _ 0%N 0%N); [rewrite econt_length; assumption|].
      intros x Hx. rewrite B3 in Hx. destruct (B4 x Hx) as [X|[_ Y]]; [assumption|]. exfalso. apply Y. apply Hcov. assumption.
  - intros q Hq. rewrite (ci_frame _ _ _ _ _ _ HC' q Hq). reflexivity.
Qed.
End Contents.
