(* C14 — confinement: with the name check, restore never changes anything that is not strictly
   below the destination root.  Frame lemmas for the primitives, then every phase. *)
From Verif.Base Require Import Tactics.
From Verif.C14 Require Import Model.
Local Open Scope N_scope.

(* ---------------------------------------------------------------- paths *)
Lemma path_eqb_refl a : path_eqb a a = true.
Proof. induction a; simpl; [reflexivity|]. rewrite N.eqb_refl. assumption. Qed.
Lemma path_eqb_eq a : forall b, path_eqb a b = true -> a = b.
Proof.
  induction a; destruct b; simpl; intros H; try discriminate; [reflexivity|].
  apply andb_true_iff in H as [H1 H2]. apply N.eqb_eq in H1. subst. f_equal. auto.
Qed.
Lemma is_prefix_app p : forall r, is_prefix p (p ++ r) = true.
Proof. induction p; simpl; intros; [reflexivity|]. rewrite N.eqb_refl. simpl. apply IHp. Qed.
Lemma is_prefix_inv p : forall q, is_prefix p q = true -> exists r, q = p ++ r.
Proof.
  induction p; simpl; intros q H; [exists q; reflexivity|].
  destruct q; [discriminate|]. apply andb_true_iff in H as [H1 H2]. apply N.eqb_eq in H1. subst.
  destruct (IHp _ H2) as [r ->]. exists r. reflexivity.
Qed.
Lemma su_app droot l : l <> [] -> strictly_under droot (droot ++ l) = true.
Proof.
  intros Hl. unfold strictly_under. rewrite is_prefix_app. simpl.
  destruct (path_eqb droot (droot ++ l)) eqn:E; [|reflexivity].
  apply path_eqb_eq in E. rewrite <- (app_nil_r droot) in E at 1. apply app_inv_head in E. congruence.
Qed.
Lemma su_inv droot q : strictly_under droot q = true -> exists l, l <> [] /\ q = droot ++ l.
Proof.
  unfold strictly_under. intros H. apply andb_true_iff in H as [H1 H2].
  destruct (is_prefix_inv _ _ H1) as [l ->]. exists l. split; [|reflexivity].
  intros ->. rewrite app_nil_r, path_eqb_refl in H2. discriminate.
Qed.
Lemma not_su_firstn droot k : strictly_under droot (firstn k droot) = false.
Proof.
  destruct (strictly_under droot (firstn k droot)) eqn:E; [|reflexivity].
  apply su_inv in E as (l & Hl & E).
  apply (f_equal (@length _)) in E. rewrite firstn_length, app_length in E.
  destruct l; [congruence|]. simpl in E. lia.
Qed.
Lemma su_trans droot t q : strictly_under droot t = true -> is_prefix t q = true -> strictly_under droot q = true.
Proof.
  intros H1 H2. apply su_inv in H1 as (l & Hl & ->). apply is_prefix_inv in H2 as [r ->].
  rewrite <- app_assoc. apply su_app. destruct l; [congruence|discriminate].
Qed.
Lemma su_prefix droot q : strictly_under droot q = true -> is_prefix droot q = true.
Proof. unfold strictly_under. intros H. apply andb_true_iff in H. tauto. Qed.

(* ---------------------------------------------------------------- map lemmas *)
Lemma fs_get_filter f s q :
  (forall x, path_eqb (fst x) q = true -> f x = true) -> fs_get (filter f s) q = fs_get s q.
Proof.
  intros Hf. induction s as [|[p e] s IH]; simpl; [reflexivity|].
  destruct (f (p, e)) eqn:E; simpl.
  - rewrite IH. reflexivity.
  - destruct (path_eqb p q) eqn:E2; [|assumption].
    rewrite (Hf (p, e) E2) in E. discriminate.
Qed.
Lemma get_set_other s p e q : path_eqb p q = false -> fs_get (fs_set s p e) q = fs_get s q.
Proof.
  intros H. unfold fs_set, fs_del. simpl. rewrite H. apply fs_get_filter.
  intros x Hx. apply path_eqb_eq in Hx. rewrite Hx.
  destruct (path_eqb q p) eqn:E; [|reflexivity]. apply path_eqb_eq in E. subst. rewrite path_eqb_refl in H. discriminate.
Qed.
Lemma get_set_same s p e : fs_get (fs_set s p e) p = Some e.
Proof. unfold fs_set. simpl. rewrite path_eqb_refl. reflexivity. Qed.

(* ---------------------------------------------------------------- frames *)
Definition frame (droot : apath) (s s' : fs) : Prop :=
  forall q, strictly_under droot q = false -> fs_get s' q = fs_get s q.
Lemma frame_refl droot s : frame droot s s. Proof. intros q _. reflexivity. Qed.
Lemma frame_trans droot a b c : frame droot a b -> frame droot b c -> frame droot a c.
Proof. intros H1 H2 q Hq. rewrite H2, H1 by assumption. reflexivity. Qed.

Lemma frame_set droot s t e : strictly_under droot t = true -> frame droot s (fs_set s t e).
Proof.
  intros Ht q Hq. apply get_set_other. destruct (path_eqb t q) eqn:E; [|reflexivity].
  apply path_eqb_eq in E. congruence.
Qed.
Lemma frame_del droot s t : strictly_under droot t = true -> frame droot s (fs_del s t).
Proof.
  intros Ht q Hq. apply fs_get_filter. intros x Hx. apply path_eqb_eq in Hx. rewrite Hx.
  destruct (path_eqb q t) eqn:E; [|reflexivity]. apply path_eqb_eq in E. congruence.
Qed.
Lemma frame_del_tree droot s t : strictly_under droot t = true -> frame droot s (fs_del_tree s t).
Proof.
  intros Ht q Hq. apply fs_get_filter. intros x Hx. apply path_eqb_eq in Hx. rewrite Hx.
  destruct (is_prefix t q) eqn:E; [|reflexivity]. rewrite (su_trans _ _ _ Ht E) in Hq. discriminate.
Qed.

(* the destination root and all its ancestors are directories *)
Definition dirs_ok (droot : apath) (s : fs) : Prop := forall k, dir_exists s (firstn k droot) = true.
Lemma dirs_ok_frame droot s s' : dirs_ok droot s -> frame droot s s' -> dirs_ok droot s'.
Proof.
  intros H F k. specialize (H k). unfold dir_exists in *.
  destruct (firstn k droot) eqn:E; [reflexivity|]. rewrite F; [assumption|].
  rewrite <- E. apply not_su_firstn.
Qed.

Lemma prefix_dich droot : forall p T, is_prefix p T = true -> is_prefix droot T = true ->
  strictly_under droot p = true \/ exists k, p = firstn k droot.
Proof.
  induction droot as [|d dr IH]; intros p T H1 H2.
  - destruct p; [right; exists O; reflexivity|left; reflexivity].
  - destruct T as [|t T']; simpl in H2; [discriminate|].
    apply andb_true_iff in H2 as [Hd H2]. apply N.eqb_eq in Hd. subst t.
    destruct p as [|x p']; [right; exists O; reflexivity|].
    simpl in H1. apply andb_true_iff in H1 as [Hx H1]. apply N.eqb_eq in Hx. subst x.
    destruct (IH _ _ H1 H2) as [H|[k ->]].
    + left. unfold strictly_under in *. simpl. rewrite N.eqb_refl. simpl. assumption.
    + right. exists (S k). reflexivity.
Qed.

Lemma mkdir_from_frame droot : forall todo done s s',
  dirs_ok droot s -> is_prefix droot (done ++ todo) = true ->
  mkdir_from s done todo = Some s' -> frame droot s s'.
Proof.
  induction todo as [|a todo IH]; simpl; intros done s s' Hok Hp H.
  - inv H. apply frame_refl.
  - assert (Hpp : is_prefix (done ++ [a]) (done ++ a :: todo) = true).
    { replace (done ++ a :: todo) with ((done ++ [a]) ++ todo) by (rewrite <- app_assoc; reflexivity). apply is_prefix_app. }
    assert (Hp' : is_prefix droot ((done ++ [a]) ++ todo) = true) by (rewrite <- app_assoc; exact Hp).
    destruct (fs_get s (done ++ [a])) as [e|] eqn:E.
    + destruct e; try discriminate. eapply IH; eauto.
    + destruct (prefix_dich droot _ _ Hpp Hp) as [Hsu|[k Hk]].
      * eapply frame_trans; [apply frame_set; exact Hsu|].
        eapply IH; [|exact Hp'|exact H]. eapply dirs_ok_frame; [exact Hok|apply frame_set; exact Hsu].
      * exfalso. specialize (Hok k). rewrite <- Hk in Hok. unfold dir_exists in Hok. rewrite E in Hok.
        destruct (done ++ [a]) eqn:E2; [destruct done; discriminate|discriminate].
Qed.
Lemma mkdir_all_frame droot s t s' :
  dirs_ok droot s -> is_prefix droot t = true -> mkdir_all s t = Some s' -> frame droot s s'.
Proof. intros. eapply (mkdir_from_frame droot t []); eauto. Qed.

Lemma removelast_app_ne {A} (a l : list A) : l <> [] -> removelast (a ++ l) = a ++ removelast l.
Proof. intros. apply removelast_app. assumption. Qed.

Lemma set_length_frame droot s l n s' :
  dirs_ok droot s -> l <> [] -> set_length s (droot ++ l) n = Some s' -> frame droot s s'.
Proof.
  intros Hok Hl H. unfold set_length in H.
  destruct (droot ++ l) eqn:E0; [discriminate|]. rewrite <- E0 in *.
  destruct (mkdir_all s (removelast (droot ++ l))) as [s1|] eqn:E; [|discriminate].
  assert (F1 : frame droot s s1).
  { eapply mkdir_all_frame; eauto. rewrite removelast_app_ne by assumption. apply is_prefix_app. }
  destruct (fs_get s1 (droot ++ l)) as [[d m mo| |]|]; inv H; try discriminate;
    (eapply frame_trans; [exact F1|apply frame_set, su_app; assumption]).
Qed.
Lemma write_at_frame droot s l off d s' :
  l <> [] -> write_at s (droot ++ l) off d = Some s' -> frame droot s s'.
Proof.
  intros Hl H. unfold write_at in H.
  destruct (fs_get s (droot ++ l)) as [[? ? ?| |]|]; try discriminate.
  - inv H. apply frame_set, su_app; assumption.
  - destruct (_ && _); inv H. apply frame_set, su_app; assumption.
Qed.
Lemma symlink_at_frame droot s l t s' :
  l <> [] -> symlink_at s (droot ++ l) t = Some s' -> frame droot s s'.
Proof.
  intros Hl H. unfold symlink_at in H. destruct (fs_get s (droot ++ l)); [discriminate|].
  destruct (_ && _); inv H. apply frame_set, su_app; assumption.
Qed.
Lemma set_perm_frame droot s l m s' : l <> [] -> set_perm s (droot ++ l) m = Some s' -> frame droot s s'.
Proof.
  intros Hl H. unfold set_perm in H. destruct (fs_get s (droot ++ l)) as [[? ? ?| |]|]; inv H;
    apply frame_set, su_app; assumption.
Qed.
Lemma set_times_frame droot s l m s' : l <> [] -> set_times s (droot ++ l) m = Some s' -> frame droot s s'.
Proof.
  intros Hl H. unfold set_times in H. destruct (fs_get s (droot ++ l)) as [[? ? ?| |]|]; inv H;
    try (apply frame_set, su_app; assumption). apply frame_refl.
Qed.

(* ---------------------------------------------------------------- normal relative paths *)
Definition np (l : list name) : pbuf := mkP false (map CNormal l).
Definition nne (p : pbuf) : Prop := exists l, l <> [] /\ p = np l.

Lemma fold_res_normal l : forall acc, fold_left res_step (map CNormal l) acc = rev l ++ acc.
Proof.
  induction l; simpl; intros; [reflexivity|]. rewrite IHl. rewrite <- app_assoc. reflexivity.
Qed.
Lemma dpath_np droot l : dpath droot (np l) = droot ++ l.
Proof.
  unfold dpath, djoin, pjoin, np, root_of, resolve. simpl. rewrite <- map_app, fold_res_normal.
  rewrite app_nil_r. apply rev_involutive.
Qed.
Lemma pjoin_np a b : pjoin (np a) (np b) = np (a ++ b).
Proof. unfold pjoin, np. simpl. rewrite map_app. reflexivity. Qed.
Lemma ppop_np a : ppop (np a) = np (removelast a).
Proof.
  unfold ppop, np. simpl. f_equal. induction a as [|x [|y a] IH]; try reflexivity.
  simpl in *. rewrite IH. reflexivity.
Qed.
Lemma name_ok_np nm : name_ok nm = true -> exists n, nm = np [n].
Proof.
  destruct nm as [[] cs]; simpl; [discriminate|].
  destruct cs as [|[| |n] [|? ?]]; try discriminate. intros _. exists n. reflexivity.
Qed.

(* every item of the stream has a non-empty normal relative path *)
Definition items_ok (l : list (option (pbuf * item))) : Prop :=
  forall x, In (Some x) l -> nne (fst x).

Fixpoint node_ind' (P : node -> Prop)
         (H : forall nm it ch, Forall P ch -> P (Node nm it ch)) (n : node) : P n :=
  match n with
  | Node nm it ch =>
    H nm it ch ((fix go (l : list node) : Forall P l :=
                   match l with [] => Forall_nil P | x :: t => Forall_cons x (node_ind' P H x) (go t) end) ch)
  end.

Lemma stream_go_eq c : forall ch path,
  (fix go (path : pbuf) (ch : list node) : list (option (pbuf * item)) * pbuf :=
     match ch with
     | [] => ([], path)
     | x :: cs => let '(l1, q1) := stream_node c path x in
                  let '(l2, q2) := go q1 cs in (l1 ++ l2, q2)
     end) path ch = stream_list c path ch.
Proof. induction ch; intros; simpl; [reflexivity|]. destruct (stream_node c path a). rewrite IHch. reflexivity. Qed.

Lemma stream_node_ok c : c_names c = true -> forall n a,
  items_ok (fst (stream_node c (np a) n)) /\ exists b, snd (stream_node c (np a) n) = np b.
Proof.
  intros Hc. induction n as [nm it ch IH] using node_ind'. intros a.
  simpl. rewrite Hc. simpl. destruct (name_ok nm) eqn:En; simpl.
  2:{ split; [intros x [Hx|[]]; discriminate|exists a; reflexivity]. }
  destruct (name_ok_np _ En) as [n ->]. rewrite pjoin_np.
  destruct (is_idir it).
  - rewrite stream_go_eq.
    assert (HL : forall ch, Forall (fun n => forall a, items_ok (fst (stream_node c (np a) n)) /\ exists b, snd (stream_node c (np a) n) = np b) ch ->
                 forall a, items_ok (fst (stream_list c (np a) ch)) /\ exists b, snd (stream_list c (np a) ch) = np b).
    { clear. induction ch as [|x cs IHc]; intros HF a; simpl.
      - split; [intros x []|exists a; reflexivity].
      - inv HF. destruct (H1 a) as [Hi [b Hb]]. destruct (stream_node c (np a) x) as [l1 q1]. simpl in *. subst q1.
        destruct (IHc H2 b) as [Hi2 [b2 Hb2]]. destruct (stream_list c (np b) cs) as [l2 q2]. simpl in *.
        split; [|exists b2; assumption]. intros y Hy. apply in_app_or in Hy as [Hy|Hy]; auto. }
    destruct (HL ch IH (a ++ [n])) as [Hi [b Hb]].
    destruct (stream_list c (np (a ++ [n])) ch) as [l p1]. simpl in *. subst p1. split.
    + intros x [Hx|Hx]; [inv Hx; exists (a ++ [n]); split; [destruct a; discriminate|reflexivity]|auto].
    + rewrite ppop_np. eexists; reflexivity.
  - simpl. split; [|exists a; reflexivity].
    intros x [Hx|[]]. inv Hx. exists (a ++ [n]). split; [destruct a; discriminate|reflexivity].
Qed.

Lemma stream_ok c roots : c_names c = true -> items_ok (stream c roots).
Proof.
  intros Hc. unfold stream. change pempty with (np []).
  assert (HL : forall ch a, items_ok (fst (stream_list c (np a) ch)) /\ exists b, snd (stream_list c (np a) ch) = np b).
  { induction ch as [|x cs IHc]; intros a; simpl.
    - split; [intros x []|exists a; reflexivity].
    - destruct (stream_node_ok c Hc x a) as [Hi [b Hb]]. destruct (stream_node c (np a) x) as [l1 q1]. simpl in *. subst q1.
      destruct (IHc b) as [Hi2 [b2 Hb2]]. destruct (stream_list c (np b) cs) as [l2 q2]. simpl in *.
      split; [|exists b2; assumption]. intros y Hy. apply in_app_or in Hy as [Hy|Hy]; auto. }
  apply HL.
Qed.

(* ---------------------------------------------------------------- collect *)
Definition names_ok (pl : plan) : Prop := Forall nne (pl_names pl).
Definition dst_ok (droot : apath) (dst : list (apath * entry)) : Prop :=
  Forall (fun x => strictly_under droot (fst x) = true) dst.

Lemma drop_under_ok droot p dst : dst_ok droot dst -> dst_ok droot (drop_under p dst).
Proof.
  unfold dst_ok. induction dst; simpl; intros H; [constructor|]. inv H.
  destruct (is_prefix p (fst a)); [auto|constructor; assumption].
Qed.
Lemma process_existing_frame droot o s d rest s' rest' :
  strictly_under droot (fst d) = true -> dst_ok droot rest ->
  process_existing o s d rest = (s', rest') -> frame droot s s' /\ dst_ok droot rest'.
Proof.
  intros Hd Hr H. unfold process_existing in H. inv H. split.
  - destruct (o_delete o); [|apply frame_refl].
    destruct (is_dir_entry (snd d)); [apply frame_del_tree|apply frame_del]; assumption.
  - destruct (is_dir_entry (snd d)); [apply drop_under_ok|]; assumption.
Qed.

Lemma add_file_names o droot s pl path blobs size mt :
  nne path -> names_ok pl -> names_ok (add_file o droot s pl path blobs size mt).
Proof.
  intros Hp Hn. unfold add_file.
  destruct (get_matching_file s (dpath droot path) size) as [[d m]|].
  - destruct (size =? 0); [assumption|]. destruct (_ && _); [assumption|].
    destruct (plan_blobs _ _ _ _ _). unfold names_ok. simpl. apply Forall_app. split; [assumption|constructor; [assumption|constructor]].
  - destruct (plan_blobs _ _ _ _ _). unfold names_ok. simpl. apply Forall_app. split; [assumption|constructor; [assumption|constructor]].
Qed.

Lemma process_node_frame droot o s pl path it ex oc s' pl' :
  dirs_ok droot s -> nne path -> names_ok pl ->
  process_node o droot s pl path it ex = (oc, s', pl') -> frame droot s s' /\ names_ok pl'.
Proof.
  intros Hok (l & Hl & ->) Hn H. unfold process_node in H. destruct it.
  - inv H. split; [apply frame_refl|]. apply add_file_names; [exists l; auto|assumption].
  - destruct ex; [inv H; split; [apply frame_refl|assumption]|].
    rewrite dpath_np in H. destruct (mkdir_all s (droot ++ l)) eqn:E; inv H; (split; [|assumption]).
    + eapply mkdir_all_frame; eauto. apply is_prefix_app.
    + apply frame_refl.
  - inv H. split; [apply frame_refl|assumption].
Qed.

Local Opaque process_existing process_node.
Lemma collect_frame c droot o : forall fuel s pl dst nodes oc s' pl',
  dirs_ok droot s -> names_ok pl -> dst_ok droot dst -> items_ok nodes ->
  collect c fuel o droot s pl dst nodes = (oc, s', pl') -> frame droot s s' /\ names_ok pl'.
Proof.
  induction fuel as [|fuel IH]; intros s pl dst nodes oc s' pl' Hok Hn Hd Hi H; simpl in H.
  - inv H. split; [apply frame_refl|assumption].
  - assert (Htl : forall x ns, nodes = x :: ns -> items_ok ns) by (intros x ns ->; intros y Hy; apply Hi; right; assumption).
    assert (Hhd : forall x ns, nodes = Some x :: ns -> nne (fst x)) by (intros x ns ->; apply Hi; left; reflexivity).
    destruct dst as [|d ds]; destruct nodes as [|[[path it]|] ns]; try (inv H; split; [apply frame_refl|assumption]).
    + destruct (process_node o droot s pl path it false) as [[oc1 s1] pl1] eqn:E.
      destruct (process_node_frame _ _ _ _ _ _ _ _ _ _ Hok (Hhd _ _ eq_refl) Hn E) as [F1 N1].
      destruct oc1; try (inv H; split; assumption).
      destruct (IH _ _ _ _ _ _ _ (dirs_ok_frame _ _ _ Hok F1) N1 Hd (Htl _ _ eq_refl) H) as [F2 N2].
      split; [eapply frame_trans; eassumption|assumption].
    + inv Hd. destruct (process_existing o s d ds) as [s1 ds1] eqn:E.
      destruct (process_existing_frame _ _ _ _ _ _ _ H2 H3 E) as [F1 D1].
      destruct (IH _ _ _ _ _ _ _ (dirs_ok_frame _ _ _ Hok F1) Hn D1 Hi H) as [F2 N2].
      split; [eapply frame_trans; eassumption|assumption].
    + pose proof Hd as Hd0. inv Hd.
      destruct (pcmp _ _).
      * (* Eq *)
        destruct (if type_mismatch it (snd d) then process_existing o s d ds else (s, ds)) as [s1 ds1] eqn:E.
        assert (F1 : frame droot s s1 /\ dst_ok droot ds1).
        { destruct (type_mismatch it (snd d)); [eapply process_existing_frame; eauto|inv E; split; [apply frame_refl|assumption]]. }
        destruct F1 as [F1 D1].
        match type of H with context [process_node ?a ?b ?cc ?dd ?e ?f ?g] => destruct (process_node a b cc dd e f g) as [[oc1 s2] pl1] eqn:E2 end.
        destruct (process_node_frame _ _ _ _ _ _ _ _ _ _ (dirs_ok_frame _ _ _ Hok F1) (Hhd _ _ eq_refl) Hn E2) as [F2 N1].
        assert (F12 : frame droot s s2) by (eapply frame_trans; eassumption).
        destruct oc1; try (inv H; split; assumption).
        destruct (IH _ _ _ _ _ _ _ (dirs_ok_frame _ _ _ Hok F12) N1 D1 (Htl _ _ eq_refl) H) as [F3 N3].
        split; [eapply frame_trans; eassumption|assumption].
      * (* Lt *)
        destruct (process_existing o s d ds) as [s1 ds1] eqn:E.
        destruct (process_existing_frame _ _ _ _ _ _ _ H2 H3 E) as [F1 D1].
        destruct (IH _ _ _ _ _ _ _ (dirs_ok_frame _ _ _ Hok F1) Hn D1 Hi H) as [F2 N2].
        split; [eapply frame_trans; eassumption|assumption].
      * (* Gt *)
        destruct (process_node o droot s pl path it false) as [[oc1 s1] pl1] eqn:E.
        destruct (process_node_frame _ _ _ _ _ _ _ _ _ _ Hok (Hhd _ _ eq_refl) Hn E) as [F1 N1].
        destruct oc1; try (inv H; split; assumption).
        destruct (IH _ _ _ _ _ _ _ (dirs_ok_frame _ _ _ Hok F1) N1 Hd0 (Htl _ _ eq_refl) H) as [F2 N2].
        split; [eapply frame_trans; eassumption|assumption].
Qed.

Local Transparent process_existing process_node.
Lemma ins_sorted_in x l y : In y (ins_sorted x l) -> y = x \/ In y l.
Proof.
  induction l as [|z t IH]; simpl; intros H; [destruct H as [<-|[]]; auto|].
  destruct (ncmp (fst x) (fst z)); simpl in H.
  - destruct H as [<-|H]; auto.
  - destruct H as [<-|H]; auto.
  - destruct H as [<-|H]; [right; left; reflexivity|]. destruct (IH H); auto.
Qed.
Lemma walk_ok droot s : dst_ok droot (walk droot s).
Proof.
  unfold dst_ok, walk, sort_entries. apply Forall_forall. intros x Hx.
  assert (Hin : In x (filter (fun x => strictly_under droot (fst x)) s)).
  { revert Hx. generalize (filter (fun x0 => strictly_under droot (fst x0)) s). induction l; simpl; intros H; [assumption|].
    apply ins_sorted_in in H as [->|H]; auto. }
  apply filter_In in Hin. tauto.
Qed.

(* ---------------------------------------------------------------- contents *)
Lemma create_empty_frame droot : forall names lens s s',
  dirs_ok droot s -> Forall nne names -> create_empty droot s names lens = Some s' -> frame droot s s'.
Proof.
  induction names as [|nm ns IH]; intros lens s s' Hok Hn H; simpl in H; [inv H; apply frame_refl|].
  destruct lens as [|l ls]; [inv H; apply frame_refl|]. inv Hn. destruct H2 as (a & Ha & ->).
  destruct (l =? 0); [|eauto]. rewrite dpath_np in H.
  destruct (set_length s (droot ++ a) 0) as [s1|] eqn:E; [|discriminate].
  pose proof (set_length_frame _ _ _ _ _ Hok Ha E) as F1.
  eapply frame_trans; [exact F1|]. eapply IH; [|eassumption|eassumption]; eapply dirs_ok_frame; eauto.
Qed.

Lemma nth_name_ok names i nm : Forall nne names -> nth_name names i = Some nm -> nne nm.
Proof. unfold nth_name. intros H E. apply nth_error_In in E. rewrite Forall_forall in H. auto. Qed.

Lemma write_dest_frame c o droot names pre d s sizes fl s' sizes' :
  dirs_ok droot s -> Forall nne names ->
  write_dest c o droot names pre d (Some (s, sizes)) fl = Some (s', sizes') -> frame droot s s'.
Proof.
  intros Hok Hn H. unfold write_dest in H.
  destruct (nth_name names (fl_idx fl)) as [nm|] eqn:En; [|discriminate].
  destruct (nth_name_ok _ _ _ Hn En) as (a & Ha & ->). rewrite dpath_np in H.
  destruct (0 <? nth (fl_idx fl) sizes 0).
  - destruct (set_length s (droot ++ a) _) as [s1|] eqn:E; [|discriminate].
    pose proof (set_length_frame _ _ _ _ _ Hok Ha E) as F1.
    destruct (_ && _); [inv H; assumption|].
    destruct (write_at s1 (droot ++ a) _ _) as [s2|] eqn:E2; inv H.
    eapply frame_trans; [exact F1|eapply write_at_frame; eauto].
  - destruct (_ && _); [inv H; apply frame_refl|].
    destruct (write_at s (droot ++ a) _ _) as [s2|] eqn:E2; inv H. eapply write_at_frame; eauto.
Qed.
Lemma write_dests_frame c o droot names pre d : forall dests s sizes s' sizes',
  dirs_ok droot s -> Forall nne names ->
  fold_left (write_dest c o droot names pre d) dests (Some (s, sizes)) = Some (s', sizes') -> frame droot s s'.
Proof.
  induction dests as [|fl t IH]; intros s sizes s' sizes' Hok Hn H; cbn [fold_left] in H; [inv H; apply frame_refl|].
  destruct (write_dest c o droot names pre d (Some (s, sizes)) fl) as [[s1 sz1]|] eqn:E.
  - pose proof (write_dest_frame _ _ _ _ _ _ _ _ _ _ _ Hok Hn E) as F1.
    eapply frame_trans; [exact F1|]. eapply IH; [|eassumption|eassumption]; eapply dirs_ok_frame; eauto.
  - exfalso. clear -H. induction t; simpl in H; [discriminate|auto].
Qed.
Lemma do_entry_frame c o droot names pre s sizes reads e s' sizes' reads' :
  dirs_ok droot s -> Forall nne names ->
  do_entry c o droot names pre (Some (s, sizes, reads)) e = Some (s', sizes', reads') -> frame droot s s'.
Proof.
  intros Hok Hn H. unfold do_entry in H. destruct e as [k [data fls]].
  destruct (filter (fun fl => negb (fl_matches fl)) fls) as [|fl0 dests] eqn:Ed; [inv H; apply frame_refl|].
  match type of H with match ?src with _ => _ end = _ => destruct src as [[d rd]|]; [|discriminate] end.
  destruct (fold_left _ _ _) as [[s2 sz2]|] eqn:E; inv H.
  eapply write_dests_frame; eauto.
Qed.
Lemma do_entries_frame c o droot names pre : forall r s sizes reads s' sizes' reads',
  dirs_ok droot s -> Forall nne names ->
  fold_left (do_entry c o droot names pre) r (Some (s, sizes, reads)) = Some (s', sizes', reads') -> frame droot s s'.
Proof.
  induction r as [|e t IH]; intros s sizes reads s' sizes' reads' Hok Hn H; cbn [fold_left] in H; [inv H; apply frame_refl|].
  destruct (do_entry c o droot names pre (Some (s, sizes, reads)) e) as [[[s1 sz1] rd1]|] eqn:E.
  - pose proof (do_entry_frame _ _ _ _ _ _ _ _ _ _ _ _ Hok Hn E) as F1.
    eapply frame_trans; [exact F1|]. eapply IH; [|eassumption|eassumption]; eapply dirs_ok_frame; eauto.
  - exfalso. clear -H. induction t; simpl in H; [discriminate|auto].
Qed.
Lemma restore_contents_frame c o droot s pl oc s' reads :
  dirs_ok droot s -> names_ok pl -> restore_contents c o droot s pl = (oc, s', reads) -> frame droot s s'.
Proof.
  intros Hok Hn H. unfold restore_contents in H.
  destruct (create_empty droot s (pl_names pl) (pl_lengths pl)) as [s1|] eqn:E; [|inv H; apply frame_refl].
  pose proof (create_empty_frame _ _ _ _ _ Hok Hn E) as F1.
  destruct (fold_left _ _ _) as [[[s2 sz] rd]|] eqn:E2; inv H; [|assumption].
  eapply frame_trans; [exact F1|]. eapply do_entries_frame; eauto. eapply dirs_ok_frame; eauto.
Qed.

(* ---------------------------------------------------------------- metadata *)
Lemma or_keep_frame droot s r : (forall s', r = Some s' -> frame droot s s') -> frame droot s (or_keep s r).
Proof. destruct r; simpl; intros H; [apply H; reflexivity|apply frame_refl]. Qed.
Lemma set_metadata_frame droot s x : nne (fst x) -> frame droot s (set_metadata droot s x).
Proof.
  intros (a & Ha & E). destruct x as [p it]. simpl in E. subst p. unfold set_metadata. simpl fst. simpl snd.
  rewrite dpath_np. destruct it.
  - eapply frame_trans; apply or_keep_frame; intros s' E; [eapply set_perm_frame|eapply set_times_frame]; eauto.
  - eapply frame_trans; apply or_keep_frame; intros s' E; [eapply set_perm_frame|eapply set_times_frame]; eauto.
  - apply or_keep_frame. intros s' E. eapply symlink_at_frame; eauto.
Qed.
Lemma fold_meta_frame droot : forall stack s, Forall (fun x => nne (fst x)) stack ->
  frame droot s (fold_left (set_metadata droot) stack s).
Proof.
  induction stack; simpl; intros s H; [apply frame_refl|]. inv H.
  eapply frame_trans; [apply set_metadata_frame; eassumption|auto].
Qed.
Lemma pop_frame droot path : forall stack s s' st', Forall (fun x => nne (fst x)) stack ->
  pop_non_parents droot s stack path = (s', st') -> frame droot s s' /\ Forall (fun x => nne (fst x)) st'.
Proof.
  induction stack as [|x t IH]; simpl; intros s s' st' Hs H; [inv H; split; [apply frame_refl|constructor]|].
  destruct (pstarts_with path (fst x)); [inv H; split; [apply frame_refl|assumption]|].
  inv Hs. destruct (IH _ _ _ H3 H) as [F N]. split; [|assumption].
  eapply frame_trans; [apply set_metadata_frame; eassumption|assumption].
Qed.
Lemma meta_loop_frame droot : forall nodes s stack, items_ok nodes -> Forall (fun x => nne (fst x)) stack ->
  frame droot s (meta_loop droot s stack nodes).
Proof.
  induction nodes as [|[[path it]|] ns IH]; intros s stack Hi Hs; simpl.
  - apply fold_meta_frame; assumption.
  - assert (Hp : nne path) by (apply (Hi (path, it)); left; reflexivity).
    assert (Hi' : items_ok ns) by (intros y Hy; apply Hi; right; assumption).
    destruct (is_idir it).
    + destruct (pop_non_parents droot s stack path) as [s1 st1] eqn:E.
      destruct (pop_frame _ _ _ _ _ _ Hs E) as [F N].
      eapply frame_trans; [exact F|]. apply IH; [assumption|constructor; assumption].
    + eapply frame_trans; [apply (set_metadata_frame droot s (path, it)); assumption|]. apply IH; assumption.
  - apply frame_refl.
Qed.

(* ---------------------------------------------------------------- the whole restore *)
Lemma restore_frame c o droot roots s :
  c_names c = true -> dirs_ok droot s -> frame droot s (r_fs (restore c o droot roots s)).
Proof.
  intros Hc Hok. unfold restore. pose proof (stream_ok c roots Hc) as Hi.
  unfold collect_and_prepare.
  destruct (collect c _ o droot s plan0 (walk droot s) (stream c roots)) as [[oc s1] pl] eqn:E.
  assert (N0 : names_ok plan0) by constructor.
  destruct (collect_frame _ _ _ _ _ _ _ _ _ _ _ Hok N0 (walk_ok droot s) Hi E) as [F1 N1].
  destruct oc; try (simpl; assumption).
  destruct (restore_contents c o droot s1 pl) as [[oc2 s2] reads] eqn:E2.
  pose proof (restore_contents_frame _ _ _ _ _ _ _ _ (dirs_ok_frame _ _ _ Hok F1) N1 E2) as F2.
  assert (F12 : frame droot s s2) by (eapply frame_trans; eassumption).
  destruct oc2; simpl; try assumption.
  eapply frame_trans; [exact F12|]. apply meta_loop_frame; [assumption|constructor].
Qed.

Theorem restore_confined_lemma : forall c o droot roots s q,
  c_names c = true -> dirs_ok droot s -> strictly_under droot q = false ->
  fs_get (r_fs (restore c o droot roots s)) q = fs_get s q.
Proof. intros. apply restore_frame; assumption. Qed.
