(* C14 — extraction of the executable model (ExtrOcamlBasic only).
   Z.add is listed only because lib/prelude_zn.ml expects the extracted type Z. *)
Require Extraction.
Require Import ExtrOcamlBasic.
From Coq Require Import ZArith.
From Verif.C14 Require Import Model Extracted.
Extraction "model_ml.ml" restore restore_c code_coalesce_guard code_cc code_cfg walk fs_get stream to_packs Z.add.
