(* C14 — towards restore_exact: byte-level, map-level and create_dir_all lemmas. *)
From Verif.Base Require Import Tactics.
From Verif.C14 Require Import Model Proofs.

(* ---------------------------------------------------------------- bytes *)
Lemma nth_firstn_lt {A} (d : A) : forall n l x, x < n -> nth x (firstn n l) d = nth x l d.
Proof.
  induction n; intros l x H; [lia|]. destruct l; [destruct x; reflexivity|].
  simpl. destruct x; [reflexivity|]. apply IHn. lia.
Qed.
Lemma nth_skipn_add {A} (d : A) : forall n l x, nth x (skipn n l) d = nth (n + x) l d.
Proof.
  induction n; intros l x; [reflexivity|]. destruct l; simpl; [destruct x; reflexivity|]. apply IHn.
Qed.
Lemma nth_zeros x n : nth x (zeros n) 0%N = 0%N.
Proof. revert x. induction n; destruct x; simpl; auto. Qed.
Lemma zeros_length n : length (zeros n) = n.
Proof. apply repeat_length. Qed.

Lemma write_bytes_spec d off data : off + length data <= length d ->
  length (write_bytes d off data) = length d /\
  forall x, nth x (write_bytes d off data) 0%N =
            if (off <=? x) && (x <? off + length data) then nth (x - off) data 0%N else nth x d 0%N.
Proof.
  intros H. unfold write_bytes. replace (off - length d) with 0 by lia.
  change (zeros 0) with (@nil N). rewrite app_nil_r.
  assert (Hf : length (firstn off d) = off) by (apply firstn_length_le; lia).
  split.
  - rewrite !app_length, Hf, skipn_length. lia.
  - intros x. destruct (off <=? x) eqn:E1; simpl.
    + apply Nat.leb_le in E1. destruct (x <? off + length data) eqn:E2.
      * apply Nat.ltb_lt in E2. rewrite app_nth2 by lia. rewrite Hf. rewrite app_nth1 by lia. reflexivity.
      * apply Nat.ltb_ge in E2. rewrite app_nth2 by lia. rewrite Hf. rewrite app_nth2 by lia.
        rewrite nth_skipn_add. f_equal. lia.
    + apply Nat.leb_gt in E1. rewrite app_nth1 by lia. apply nth_firstn_lt. assumption.
Qed.

Lemma all_zero_nth d : all_zero d = true -> forall x, nth x d 0%N = 0%N.
Proof.
  induction d; simpl; intros H x; [destruct x; reflexivity|].
  apply andb_true_iff in H as [H1 H2]. apply N.eqb_eq in H1. destruct x; [assumption|auto].
Qed.

(* blobs of a file *)
Definition dlen (b : blob) : nat := length (b_data b).
Fixpoint blen (bl : list blob) : nat := match bl with [] => 0 | b :: t => dlen b + blen t end.
Definition econt (bl : list blob) : list N := concat (map b_data bl).

Lemma econt_length bl : length (econt bl) = blen bl.
Proof. unfold econt. induction bl; simpl; [reflexivity|]. rewrite app_length, IHbl. reflexivity. Qed.

Lemma tile_in_econt : forall bl k b, nth_error bl k = Some b ->
  blen (firstn k bl) + dlen b <= blen bl /\
  forall y, y < dlen b -> nth (blen (firstn k bl) + y) (econt bl) 0%N = nth y (b_data b) 0%N.
Proof.
  induction bl as [|a bl IH]; intros k b H; [destruct k; discriminate|].
  destruct k; simpl in H.
  - inv H. simpl. split; [lia|]. intros y Hy. unfold econt. simpl. apply app_nth1. exact Hy.
  - destruct (IH _ _ H) as [H1 H2]. simpl. split; [lia|]. intros y Hy.
    unfold econt in *. simpl. rewrite app_nth2 by (unfold dlen; lia).
    replace (dlen a + blen (firstn k bl) + y - length (b_data a)) with (blen (firstn k bl) + y) by (unfold dlen; lia).
    apply H2. exact Hy.
Qed.
Lemma econt_covered : forall bl x, x < blen bl ->
  exists k b, nth_error bl k = Some b /\ blen (firstn k bl) <= x < blen (firstn k bl) + dlen b.
Proof.
  induction bl as [|a bl IH]; intros x H; simpl in H; [lia|].
  destruct (Nat.lt_ge_cases x (dlen a)).
  - exists 0, a. simpl. split; [reflexivity|lia].
  - destruct (IH (x - dlen a)) as (k & b & Hk & Hr); [lia|].
    exists (S k), b. simpl. split; [assumption|lia].
Qed.
Lemma blen_firstn_all bl : blen (firstn (length bl) bl) = blen bl.
Proof. rewrite firstn_all. reflexivity. Qed.

(* ---------------------------------------------------------------- maps *)
Lemma path_eqb_neq a b : a <> b -> path_eqb a b = false.
Proof. intros H. destruct (path_eqb a b) eqn:E; [|reflexivity]. apply path_eqb_eq in E. congruence. Qed.
Lemma fs_get_filter_none f s q :
  (forall x, path_eqb (fst x) q = true -> f x = false) -> fs_get (filter f s) q = None.
Proof.
  intros Hf. induction s as [|[p e] s IH]; simpl; [reflexivity|].
  destruct (f (p, e)) eqn:E; simpl; [|assumption].
  destruct (path_eqb p q) eqn:E2; [|assumption]. rewrite (Hf (p, e) E2) in E. discriminate.
Qed.
Lemma fs_get_del_same s p : fs_get (fs_del s p) p = None.
Proof. apply fs_get_filter_none. intros x Hx. rewrite Hx. reflexivity. Qed.
Lemma fs_get_del_other s p q : p <> q -> fs_get (fs_del s p) q = fs_get s q.
Proof.
  intros H. apply fs_get_filter. intros x Hx. apply path_eqb_eq in Hx. rewrite Hx.
  rewrite path_eqb_neq by congruence. reflexivity.
Qed.
Lemma fs_get_del_tree_under s p q : is_prefix p q = true -> fs_get (fs_del_tree s p) q = None.
Proof. intros H. apply fs_get_filter_none. intros x Hx. apply path_eqb_eq in Hx. rewrite Hx, H. reflexivity. Qed.
Lemma fs_get_del_tree_other s p q : is_prefix p q = false -> fs_get (fs_del_tree s p) q = fs_get s q.
Proof. intros H. apply fs_get_filter. intros x Hx. apply path_eqb_eq in Hx. rewrite Hx, H. reflexivity. Qed.
Lemma in_fs_get s q e : In (q, e) s -> fs_get s q <> None.
Proof.
  induction s as [|[p e'] s IH]; simpl; intros H; [destruct H|].
  destruct (path_eqb p q) eqn:E; [discriminate|]. destruct H as [H|H]; [|auto].
  inv H. rewrite path_eqb_refl in E. discriminate.
Qed.
Lemma fs_get_in s q e : fs_get s q = Some e -> In (q, e) s.
Proof.
  induction s as [|[p e'] s IH]; simpl; intros H; [discriminate|].
  destruct (path_eqb p q) eqn:E; [inv H; apply path_eqb_eq in E; subst; left; reflexivity|right; auto].
Qed.
Lemma get_set s p e q : fs_get (fs_set s p e) q = if path_eqb p q then Some e else fs_get s q.
Proof.
  destruct (path_eqb p q) eqn:E.
  - apply path_eqb_eq in E. subst. apply get_set_same.
  - apply get_set_other. assumption.
Qed.
Lemma is_prefix_refl p : is_prefix p p = true.
Proof. rewrite <- (app_nil_r p) at 2. apply is_prefix_app. Qed.

(* ---------------------------------------------------------------- create_dir_all *)
Definition isdir (s : fs) (p : apath) : Prop := exists m mo, fs_get s p = Some (EDir m mo).

Lemma mkdir_from_spec : forall todo done s,
  (forall k, 0 < k <= length todo -> fs_get s (done ++ firstn k todo) = None \/ isdir s (done ++ firstn k todo)) ->
  exists s', mkdir_from s done todo = Some s' /\
    (forall q, fs_get s q <> None -> fs_get s' q = fs_get s q) /\
    (forall q, fs_get s q = None -> fs_get s' q = None \/
       (fs_get s' q = Some (EDir new_mtime new_dmode) /\ exists k, 0 < k <= length todo /\ q = done ++ firstn k todo)) /\
    (forall k, 0 < k <= length todo -> isdir s' (done ++ firstn k todo)).
Proof.
  induction todo as [|a t IH]; intros done s H.
  - exists s. simpl. split; [reflexivity|]. split; [auto|]. split; [auto|]. intros k Hk. lia.
  - simpl. set (p := done ++ [a]).
    assert (Hp : p = done ++ firstn 1 (a :: t)) by reflexivity.
    assert (Hk1 : forall k, (done ++ [a]) ++ firstn k t = done ++ firstn (S k) (a :: t))
      by (intros k; rewrite <- app_assoc; reflexivity).
    assert (Hne : forall k, 0 < k <= length t -> p <> (done ++ [a]) ++ firstn k t).
    { intros k Hk E. apply (f_equal (@length _)) in E. unfold p in E. rewrite !app_length, firstn_length in E. simpl in E. lia. }
    destruct (H 1 ltac:(simpl; lia)) as [Hn|(m & mo & Hd)]; rewrite <- Hp in *.
    + rewrite Hn.
      destruct (IH p (fs_set s p (EDir new_mtime new_dmode))) as (s' & E & M1 & M2 & M3).
      { intros k Hk. unfold p. rewrite Hk1. rewrite get_set, path_eqb_neq by (rewrite <- Hk1; apply Hne; assumption).
        destruct (H (S k) ltac:(simpl; lia)) as [X|(m & mo & X)]; [left; assumption|right].
        exists m, mo. rewrite get_set, path_eqb_neq by (rewrite <- Hk1; apply Hne; assumption). assumption. }
      exists s'. split; [exact E|]. split; [|split].
      * intros q Hq. rewrite M1.
        -- rewrite get_set. destruct (path_eqb p q) eqn:Eq; [apply path_eqb_eq in Eq; subst; congruence|reflexivity].
        -- rewrite get_set. destruct (path_eqb p q); [discriminate|assumption].
      * intros q Hq. destruct (path_eqb p q) eqn:Eq.
        -- apply path_eqb_eq in Eq. subst q. right. split.
           ++ rewrite M1; rewrite get_set_same; [reflexivity|discriminate].
           ++ exists 1. split; [simpl; lia|exact Hp].
        -- destruct (M2 q) as [X|(X & k & Hk & Hq')].
           ++ rewrite get_set, Eq. assumption.
           ++ left. assumption.
           ++ right. split; [assumption|]. exists (S k). split; [simpl; lia|]. rewrite <- Hk1. assumption.
      * intros k Hk. destruct k as [|k]; [lia|]. destruct k as [|k].
        -- rewrite <- Hp. exists new_mtime, new_dmode. rewrite M1; rewrite get_set_same; [reflexivity|discriminate].
        -- rewrite <- Hk1. apply M3. simpl in Hk. lia.
    + rewrite Hd.
      destruct (IH p s) as (s' & E & M1 & M2 & M3).
      { intros k Hk. unfold p. rewrite Hk1. apply H. simpl. lia. }
      exists s'. split; [exact E|]. split; [exact M1|]. split.
      * intros q Hq. destruct (M2 q Hq) as [X|(X & k & Hk & Hq')]; [left; assumption|].
        right. split; [assumption|]. exists (S k). split; [simpl; lia|]. rewrite <- Hk1. assumption.
      * intros k Hk. destruct k as [|k]; [lia|]. destruct k as [|k].
        -- rewrite <- Hp. exists m, mo. rewrite M1; [assumption|congruence].
        -- rewrite <- Hk1. apply M3. simpl in Hk. lia.
Qed.

Lemma dirs_ok_isdir droot s k : dirs_ok droot s -> 0 < k <= length droot -> isdir s (firstn k droot).
Proof.
  intros H Hk. specialize (H k). unfold dir_exists in H.
  destruct (firstn k droot) eqn:E.
  - apply (f_equal (@length _)) in E. rewrite firstn_length in E. simpl in E. lia.
  - unfold isdir. destruct (fs_get s (n :: l)) as [[| |]|]; try discriminate. eexists; eexists; reflexivity.
Qed.

(* create_dir_all of a path below the destination root *)
Lemma mkdir_all_P droot s l : dirs_ok droot s ->
  (forall j, 0 < j <= length l -> fs_get s (droot ++ firstn j l) = None \/ isdir s (droot ++ firstn j l)) ->
  exists s', mkdir_all s (droot ++ l) = Some s' /\
    (forall q, fs_get s q <> None -> fs_get s' q = fs_get s q) /\
    (forall q, fs_get s q = None -> fs_get s' q = None \/
       (fs_get s' q = Some (EDir new_mtime new_dmode) /\ exists j, 0 < j <= length l /\ q = droot ++ firstn j l)) /\
    (forall j, 0 < j <= length l -> isdir s' (droot ++ firstn j l)).
Proof.
  intros Hok H.
  assert (Hf : forall k, 0 < k <= length (droot ++ l) ->
     (k <= length droot /\ firstn k (droot ++ l) = firstn k droot) \/
     (length droot < k /\ firstn k (droot ++ l) = droot ++ firstn (k - length droot) l)).
  { intros k Hk. rewrite firstn_app. destruct (Nat.le_gt_cases k (length droot)).
    - left. split; [assumption|]. replace (k - length droot) with 0 by lia. simpl. apply app_nil_r.
    - right. split; [assumption|]. rewrite firstn_all2 by lia. reflexivity. }
  destruct (mkdir_from_spec (droot ++ l) [] s) as (s' & E & M1 & M2 & M3).
  { intros k Hk. simpl. destruct (Hf k Hk) as [[Hle ->]|[Hgt ->]].
    - right. apply dirs_ok_isdir; [assumption|lia].
    - apply H. rewrite app_length in Hk. lia. }
  exists s'. split; [exact E|]. split; [exact M1|]. split.
  - intros q Hq. destruct (M2 q Hq) as [X|(X & k & Hk & Hq')]; [left; assumption|].
    simpl in Hq'. destruct (Hf k Hk) as [[Hle Hfk]|[Hgt Hfk]]; rewrite Hfk in Hq'.
    + exfalso. destruct (dirs_ok_isdir droot s k Hok ltac:(lia)) as (m & mo & Hd). subst q. congruence.
    + right. split; [assumption|]. exists (k - length droot). rewrite app_length in Hk. split; [lia|assumption].
  - intros j Hj. specialize (M3 (length droot + j)). simpl in M3.
    rewrite firstn_app in M3. rewrite firstn_all2 in M3 by lia.
    replace (length droot + j - length droot) with j in M3 by lia. apply M3. rewrite app_length. lia.
Qed.

Lemma mkdir_from_noop : forall todo done s,
  (forall k, 0 < k <= length todo -> isdir s (done ++ firstn k todo)) -> mkdir_from s done todo = Some s.
Proof.
  induction todo as [|a t IH]; intros done s H; [reflexivity|]. simpl.
  destruct (H 1 ltac:(simpl; lia)) as (m & mo & Hd). simpl in Hd. rewrite Hd.
  apply IH. intros k Hk. rewrite <- app_assoc. apply (H (S k)). simpl. lia.
Qed.
Lemma mkdir_all_noop droot s l : dirs_ok droot s ->
  (forall j, 0 < j <= length l -> isdir s (droot ++ firstn j l)) -> mkdir_all s (droot ++ l) = Some s.
Proof.
  intros Hok H. apply mkdir_from_noop. intros k Hk. simpl. rewrite firstn_app.
  destruct (Nat.le_gt_cases k (length droot)).
  - replace (k - length droot) with 0 by lia. simpl. rewrite app_nil_r. apply dirs_ok_isdir; [assumption|lia].
  - rewrite firstn_all2 by lia. apply H. rewrite app_length in Hk. lia.
Qed.
