(* C14 — code-level wrappers and examples for Order / Merge. *)
From Verif.Base Require Import Tactics.
From Verif.C14 Require Import Model Extracted Witness Proofs Exact1 Exact2 Exact3 Exact4 Exact5 Exact6 Exact8 Order Merge Merge2.

Lemma restore_exact_fresh_dest_of_tree_lemma : forall o droot roots s,
  forallb nnb roots = true -> sibs_distinct roots -> index_consistent roots -> dirs_ok droot s ->
  (forall x, In x (flat_list [] roots) -> fs_get s (Pn droot x) = None) ->
  r_out (restore code_cfg o droot roots s) = OOk /\
  (forall x, In x (flat_list [] roots) -> good droot (r_fs (restore code_cfg o droot roots s)) x) /\
  (forall q e, strictly_under droot q = true -> fs_get s q = Some e ->
     if o_delete o then fs_get (r_fs (restore code_cfg o droot roots s)) q = None
     else fs_get (r_fs (restore code_cfg o droot roots s)) q = Some e).
Proof.
  intros o droot roots s Hn Hd Hi. apply restore_exact_fresh_dest_tree_lemma; [assumption|].
  apply nodes_ok_of_tree; assumption.
Qed.

Lemma merge_walk_classifies_code : merge_cmp_component_wise = true /\
  forall o droot roots s,
  forallb nnb roots = true -> sibs_sorted roots -> NoDup (map fst s) ->
  let nodes := flat_list [] roots in
  let dst := walk droot s in
  let evs := classify droot (S (length dst + length nodes)) dst nodes in
  stream code_cfg roots = map toO nodes /\
  ssD dst /\ StronglySorted (ltN droot) nodes /\
  collect_and_prepare code_cfg o droot s (stream code_cfg roots) = run code_cfg o droot evs s plan0 /\
  ev_nodes evs = nodes /\
  Forall (ev_ok droot nodes dst nodes) evs /\
  ssD (ev_entries evs) /\
  (forall d, In d dst -> covered_by evs d) /\
  (SameTypeOrDelete o droot nodes s ->
   forall d y, In (EvClash d y) evs -> o_delete o = true \/ exists t, snd y = ILink t /\ snd d = ELink t).
Proof. split; [exact merge_cmp_fact|]. intros o droot roots s. apply merge_walk_classifies_tree_lemma. Qed.

Local Open Scope N_scope.
Lemma exampleY_tree_hyps :
  forallb nnb snapY = true /\ sibs_sorted snapY /\ sibs_distinct snapY /\ index_consistent snapY /\
  NoDup (map fst worldY) /\ dirs_ok droot0 worldY /\
  (forall x, In x (flat_list [] snapY) -> fs_get worldY (Pn droot0 x) = None).
Proof.
  assert (Hs : sibs_sorted snapY).
  { split; simpl; repeat (split || constructor). }
  split; [reflexivity|]. split; [exact Hs|]. split; [apply sorted_distinct; exact Hs|]. split; [|split; [|split]].
  - intros b b' Hb Hb' Hk. simpl in Hb, Hb'. intuition (subst; try reflexivity; discriminate).
  - simpl. repeat constructor; simpl; intuition discriminate.
  - intros [|[|[|k]]]; reflexivity.
  - intros x Hx. simpl in Hx. destruct Hx as [<-|[<-|[<-|[<-|[]]]]]; reflexivity.
Qed.
