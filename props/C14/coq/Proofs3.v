(* C14 — instantiation for the code as extracted (code_cfg), and a worked instance of the full
   exactness statement. *)
From Verif.Base Require Import Tactics.
From Verif.C14 Require Import Model Extracted Witness Proofs Proofs2.
Local Open Scope N_scope.

Lemma restore_confined_code : forall o droot roots s q,
  dirs_ok droot s -> strictly_under droot q = false ->
  fs_get (r_fs (restore code_cfg o droot roots s)) q = fs_get s q.
Proof. intros. apply restore_confined_lemma; [reflexivity|assumption|assumption]. Qed.

Lemma hostile_name_refuted_lemma :
  exists roots p, strictly_under droot0 p = false /\ dirs_ok droot0 world0 /\
    fs_get (r_fs (restore cfg_found o_plain droot0 roots world0)) p <> fs_get world0 p.
Proof.
  exists hostile_parent, sentinel. split; [reflexivity|]. split.
  - intros [|[|[|k]]]; reflexivity.
  - destruct w_hostile_parent_found as [_ H]. unfold get_after in H. rewrite H. discriminate.
Qed.

Lemma hostile_name_rejected_code :
  restore code_cfg o_plain droot0 hostile_parent world0 = mkR OErr world0 [] [] /\
  restore code_cfg o_plain droot0 hostile_abs world0 = mkR OErr world0 [] [] /\
  restore code_cfg o_plain droot0 hostile_dotdot_dir world0 = mkR OErr world0 [] [].
Proof. vm_compute. repeat split; reflexivity. Qed.

Lemma sparse_code :
  get_after code_cfg o_sparse_ snap_zero_file world_old_bytes [1; 2; 5] =
  get_after code_cfg o_plain snap_zero_file world_old_bytes [1; 2; 5].
Proof. vm_compute. reflexivity. Qed.
Lemma sparse_refuted_found :
  get_after cfg_found o_sparse_ snap_zero_file world_old_bytes [1; 2; 5] <>
  get_after cfg_found o_plain snap_zero_file world_old_bytes [1; 2; 5].
Proof. vm_compute. discriminate. Qed.

Lemma delete_dir_code :
  get_after code_cfg o_delete_ snap_empty_dir5 world_file_for_dir [1; 2; 5] = Some (EDir 1000 493).
Proof. vm_compute. reflexivity. Qed.

(* ---- a worked instance of restore_exact: identical / stale / other bytes / shorter / longer /
   missing files, a symlink, extras; files of two and three blobs with a shared blob *)
Definition bA := mkB 100 0 [1; 2].
Definition bB := mkB 100 10 [0; 0].
Definition bC := mkB 101 0 [3].
Definition snapX : list node :=
  [ Node (nm 1) (IFile [bA; bB] 4 1000 420) [];               (* identical in the destination *)
    Node (nm 2) (IFile [bA; bC] 3 1000 420) [];               (* other bytes, same size, other mtime *)
    Node (nm 3) (IDir 2000 493)
      [ Node (nm 1) (IFile [bB; bA; bC] 5 1000 384) [];       (* shorter in the destination *)
        Node (nm 2) (IFile [bC] 1 1000 420) [];               (* missing *)
        Node (nm 3) (ILink 7) [] ];                           (* missing *)
    Node (nm 4) (IFile [bA] 2 1000 420) [];                   (* longer in the destination *)
    Node (nm 5) (IFile [] 0 1000 420) [] ].                   (* non-empty in the destination *)
Definition worldX : fs := world0 ++
  [ ([1; 2; 1], EFile [1; 2; 0; 0] 1000 420);
    ([1; 2; 2], EFile [1; 9; 9] 3000 420);
    ([1; 2; 3], EDir 3000 448);
    ([1; 2; 3; 1], EFile [0; 0; 1] 3000 384);
    ([1; 2; 4], EFile [1; 2; 8; 8] 3000 420);
    ([1; 2; 5], EFile [6] 3000 420);
    ([1; 2; 0], EFile [5] 3000 420);                          (* extra file *)
    ([1; 2; 3; 9], EDir 3000 493);                            (* extra dir with a file *)
    ([1; 2; 3; 9; 1], EFile [4] 3000 420) ].
Definition expected_snapshot_paths : list (apath * entry) :=
  [ ([1; 2; 1], EFile [1; 2; 0; 0] 1000 420); ([1; 2; 2], EFile [1; 2; 3] 1000 420);
    ([1; 2; 3], EDir 2000 493); ([1; 2; 3; 1], EFile [0; 0; 1; 2; 3] 1000 384);
    ([1; 2; 3; 2], EFile [3] 1000 420); ([1; 2; 3; 3], ELink 7);
    ([1; 2; 4], EFile [1; 2] 1000 420); ([1; 2; 5], EFile [] 1000 420) ].
Definition extras : list (apath * entry) :=
  [ ([1; 2; 0], EFile [5] 3000 420); ([1; 2; 3; 9], EDir 3000 493); ([1; 2; 3; 9; 1], EFile [4] 3000 420) ].
Definition holds (s : fs) (l : list (apath * entry)) : Prop := Forall (fun x => fs_get s (fst x) = Some (snd x)) l.
Definition absent (s : fs) (l : list (apath * entry)) : Prop := Forall (fun x => fs_get s (fst x) = None) l.

Lemma restore_exact_instance : forall verify sparse,
  (r_out (restore code_cfg (mkO false verify sparse) droot0 snapX worldX) = OOk /\
   holds (r_fs (restore code_cfg (mkO false verify sparse) droot0 snapX worldX)) (expected_snapshot_paths ++ extras)) /\
  (r_out (restore code_cfg (mkO true verify sparse) droot0 snapX worldX) = OOk /\
   holds (r_fs (restore code_cfg (mkO true verify sparse) droot0 snapX worldX)) expected_snapshot_paths /\
   absent (r_fs (restore code_cfg (mkO true verify sparse) droot0 snapX worldX)) extras).
Proof. intros [] []; vm_compute; repeat split; repeat constructor. Qed.
