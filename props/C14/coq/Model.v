(* C14 — executable model of restore (crates/core/src/commands/restore.rs,
   backend/local_destination.rs, blob/tree.rs NodeStreamer).  Definitions only.

   The world is a finite map from absolute, normalised paths (lists of names) to entries;
   the destination is the subtree below [droot].  `PathBuf`s are kept *unnormalised*
   (component lists with `..` and `.`) exactly as `Path::join` builds them; the operating
   system's resolution is the lexical [resolve].  Symbolic links are opaque leaves: the model
   never follows one (operations that would follow a link fail in the model; the e2e oracle
   observes what the real code does). *)
From Verif.Base Require Import Tactics.
Local Open Scope N_scope.

(* ---------------------------------------------------------------- paths *)
Definition name := N.
Inductive comp := CCur | CParent | CNormal (n : name).
Record pbuf := mkP { p_abs : bool; p_comps : list comp }.

(* PathBuf::join / push: an absolute argument replaces the base *)
Definition pjoin (b r : pbuf) : pbuf :=
  if p_abs r then r else mkP (p_abs b) (p_comps b ++ p_comps r).
(* PathBuf::pop *)
Definition ppop (b : pbuf) : pbuf := mkP (p_abs b) (removelast (p_comps b)).
Definition pempty : pbuf := mkP false [].

Definition apath := list name.
Definition res_step (acc : list name) (c : comp) : list name :=
  match c with CCur => acc | CParent => tl acc | CNormal n => n :: acc end.
(* lexical resolution of an absolute path; the accumulator is reversed *)
Definition resolve (cs : list comp) : apath := rev (fold_left res_step cs []).
Definition root_of (droot : apath) : pbuf := mkP true (map CNormal droot).
(* LocalDestination::path (is_file = false): base.join(item), then resolved by the OS *)
Definition djoin (droot : apath) (item : pbuf) : pbuf := pjoin (root_of droot) item.
Definition dpath (droot : apath) (item : pbuf) : apath := resolve (p_comps (djoin droot item)).

Fixpoint path_eqb (a b : apath) : bool :=
  match a, b with
  | [], [] => true
  | x :: a', y :: b' => (x =? y) && path_eqb a' b'
  | _, _ => false
  end.
Fixpoint is_prefix (p q : apath) : bool :=
  match p, q with
  | [], _ => true
  | x :: p', y :: q' => (x =? y) && is_prefix p' q'
  | _, _ => false
  end.
Definition strictly_under (p q : apath) : bool := is_prefix p q && negb (path_eqb p q).

(* Ord of std::path::Component: CurDir < ParentDir < Normal *)
Definition comp_cmp (a b : comp) : comparison :=
  match a, b with
  | CCur, CCur => Eq | CCur, _ => Lt
  | CParent, CCur => Gt | CParent, CParent => Eq | CParent, CNormal _ => Lt
  | CNormal x, CNormal y => x ?= y | CNormal _, _ => Gt
  end.
Fixpoint pcmp (a b : list comp) : comparison :=
  match a, b with
  | [], [] => Eq | [], _ => Lt | _, [] => Gt
  | x :: a', y :: b' => match comp_cmp x y with Eq => pcmp a' b' | c => c end
  end.
(* Path::components drops interior `.` *)
Definition is_cur (c : comp) : bool := match c with CCur => true | _ => false end.
Definition cmp_comps (droot : apath) (item : pbuf) : list comp :=
  filter (fun c => negb (is_cur c)) (p_comps (djoin droot item)).
Fixpoint comps_prefix (p q : list comp) : bool :=
  match p, q with
  | [], _ => true
  | x :: p', y :: q' => match comp_cmp x y with Eq => comps_prefix p' q' | _ => false end
  | _, _ => false
  end.
(* Path::starts_with *)
Definition pstarts_with (a b : pbuf) : bool :=
  Bool.eqb (p_abs a) (p_abs b) && comps_prefix (p_comps b) (p_comps a).

(* ---------------------------------------------------------------- file system *)
Inductive entry :=
| EFile (data : list N) (mtime mode : N)
| EDir (mtime mode : N)
| ELink (target : N).
Definition fs := list (apath * entry).

Fixpoint fs_get (s : fs) (p : apath) : option entry :=
  match s with
  | [] => None
  | (q, e) :: r => if path_eqb q p then Some e else fs_get r p
  end.
Definition fs_del (s : fs) (p : apath) : fs := filter (fun x => negb (path_eqb (fst x) p)) s.
Definition fs_set (s : fs) (p : apath) (e : entry) : fs := (p, e) :: fs_del s p.
Definition fs_del_tree (s : fs) (p : apath) : fs := filter (fun x => negb (is_prefix p (fst x))) s.

Definition is_dir_entry (e : entry) := match e with EDir _ _ => true | _ => false end.
Definition is_file_entry (e : entry) := match e with EFile _ _ _ => true | _ => false end.
Definition dir_exists (s : fs) (p : apath) : bool :=
  match p with
  | [] => true
  | _ => match fs_get s p with Some (EDir _ _) => true | _ => false end
  end.

(* what a freshly created object looks like before restore_metadata *)
Definition new_mtime : N := 0.
Definition new_fmode : N := 420.  (* 0o644 *)
Definition new_dmode : N := 493.  (* 0o755 *)

(* fs::create_dir_all *)
Fixpoint mkdir_from (s : fs) (done : apath) (todo : list name) : option fs :=
  match todo with
  | [] => Some s
  | n :: t =>
    let p := done ++ [n] in
    match fs_get s p with
    | None => mkdir_from (fs_set s p (EDir new_mtime new_dmode)) p t
    | Some (EDir _ _) => mkdir_from s p t
    | Some _ => None
    end
  end.
Definition mkdir_all (s : fs) (p : apath) : option fs := mkdir_from s [] p.

Definition zeros (n : nat) : list N := repeat 0 n.
Definition resize (d : list N) (n : nat) : list N := firstn n d ++ zeros (n - length d).

(* LocalDestination::set_length: create_dir_all(parent); open(create, no truncate); set_len *)
Definition set_length (s : fs) (p : apath) (n : N) : option fs :=
  match p with
  | [] => None
  | _ =>
    match mkdir_all s (removelast p) with
    | None => None
    | Some s1 =>
      match fs_get s1 p with
      | None => Some (fs_set s1 p (EFile (zeros (N.to_nat n)) new_mtime new_fmode))
      | Some (EFile d _ mo) => Some (fs_set s1 p (EFile (resize d (N.to_nat n)) new_mtime mo))
      | Some _ => None
      end
    end
  end.

Definition write_bytes (d : list N) (off : nat) (data : list N) : list N :=
  let d' := d ++ zeros (off - length d) in
  firstn off d' ++ data ++ skipn (off + length data) d'.

(* LocalDestination::write_at: open(create, no truncate); seek; write_all *)
Definition write_at (s : fs) (p : apath) (off : N) (data : list N) : option fs :=
  match fs_get s p with
  | Some (EFile d _ mo) => Some (fs_set s p (EFile (write_bytes d (N.to_nat off) data) new_mtime mo))
  | None =>
    if dir_exists s (removelast p) && negb (path_eqb p [])
    then Some (fs_set s p (EFile (write_bytes [] (N.to_nat off) data) new_mtime new_fmode))
    else None
  | Some _ => None
  end.

(* LocalDestination::read_at: read_exact *)
Definition read_at (s : fs) (p : apath) (off len : N) : option (list N) :=
  match fs_get s p with
  | Some (EFile d _ _) =>
    if (N.to_nat off + N.to_nat len <=? length d)%nat
    then Some (firstn (N.to_nat len) (skipn (N.to_nat off) d)) else None
  | _ => None
  end.

Definition symlink_at (s : fs) (p : apath) (t : N) : option fs :=
  match fs_get s p with
  | Some _ => None
  | None => if dir_exists s (removelast p) && negb (path_eqb p []) then Some (fs_set s p (ELink t)) else None
  end.
Definition set_perm (s : fs) (p : apath) (mode : N) : option fs :=
  match fs_get s p with
  | Some (EFile d m _) => Some (fs_set s p (EFile d m mode))
  | Some (EDir m _) => Some (fs_set s p (EDir m mode))
  | _ => None
  end.
Definition set_times (s : fs) (p : apath) (mt : N) : option fs :=
  match fs_get s p with
  | Some (EFile d _ mo) => Some (fs_set s p (EFile d mt mo))
  | Some (EDir _ mo) => Some (fs_set s p (EDir mt mo))
  | Some (ELink _) => Some s
  | None => None
  end.
Definition or_keep (s : fs) (r : option fs) : fs := match r with Some s' => s' | None => s end.

(* ---------------------------------------------------------------- snapshot trees *)
Record blob := mkB { b_pack : N; b_off : N; b_data : list N }.
Inductive item :=
| IFile (blobs : list blob) (size mtime mode : N)
| IDir (mtime mode : N)
| ILink (target : N).
(* a node: raw name as Path::components parses it, item, children (used for IDir only) *)
Inductive node := Node (nm : pbuf) (it : item) (children : list node).

Definition is_idir (it : item) := match it with IDir _ _ => true | _ => false end.
Definition is_ifile (it : item) := match it with IFile _ _ _ _ => true | _ => false end.
Definition is_special (it : item) := match it with ILink _ => true | _ => false end.

(* Which of the repairs made for this property the code contains (regenerated from the source
   into Extracted.v on every run; all false = the tree as it was found):
   c_names      NodeStreamer::next refuses names that are not a single normal component
   c_exists     collect_and_prepare creates a directory whose clashing entry was removed
   c_sparse_pre restore_contents leaves holes only in files created by the restore *)
Record cfg := mkC { c_names : bool; c_exists : bool; c_sparse_pre : bool }.

Definition name_ok (nm : pbuf) : bool :=
  match nm with mkP false [CNormal _] => true | _ => false end.

(* NodeStreamer::next: path = self.path.join(name); for a subtree self.path.push(name), and
   one self.path.pop() when the subtree is exhausted (so multi-component names drift).
   [None] is the error item; consumers stop there (`.transpose()?`). *)
Fixpoint stream_node (c : cfg) (path : pbuf) (n : node) : list (option (pbuf * item)) * pbuf :=
  match n with
  | Node nm it ch =>
    if c_names c && negb (name_ok nm) then ([None], path) else
    let p := pjoin path nm in
    if is_idir it then
      let '(l, p1) :=
        (fix go (path : pbuf) (ch : list node) : list (option (pbuf * item)) * pbuf :=
           match ch with
           | [] => ([], path)
           | x :: cs => let '(l1, q1) := stream_node c path x in
                        let '(l2, q2) := go q1 cs in (l1 ++ l2, q2)
           end) p ch in
      (Some (p, it) :: l, ppop p1)
    else ([Some (p, it)], path)
  end.
Fixpoint stream_list (c : cfg) (path : pbuf) (ch : list node) : list (option (pbuf * item)) * pbuf :=
  match ch with
  | [] => ([], path)
  | x :: cs => let '(l1, q1) := stream_node c path x in
               let '(l2, q2) := stream_list c q1 cs in (l1 ++ l2, q2)
  end.
Definition stream (c : cfg) (roots : list node) : list (option (pbuf * item)) :=
  fst (stream_list c pempty roots).

(* ---------------------------------------------------------------- WalkDir(dest).sort_by_file_name() *)
Fixpoint ncmp (a b : apath) : comparison :=
  match a, b with
  | [], [] => Eq | [], _ => Lt | _, [] => Gt
  | x :: a', y :: b' => match x ?= y with Eq => ncmp a' b' | c => c end
  end.
Fixpoint ins_sorted (x : apath * entry) (l : list (apath * entry)) : list (apath * entry) :=
  match l with
  | [] => [x]
  | y :: t => match ncmp (fst x) (fst y) with Gt => y :: ins_sorted x t | _ => x :: l end
  end.
Definition sort_entries (l : list (apath * entry)) := fold_right ins_sorted [] l.
(* entries below the destination root (depth > 0), pre-order, siblings by name *)
Definition walk (droot : apath) (s : fs) : list (apath * entry) :=
  sort_entries (filter (fun x => strictly_under droot (fst x)) s).

(* ---------------------------------------------------------------- options, plan *)
Record opts := mkO { o_delete : bool; o_verify : bool; o_sparse : bool }.
Inductive outcome := OOk | OErr | OPanic.

Record floc := mkFl { fl_idx : nat; fl_start : N; fl_matches : bool }.
Definition key := (N * N)%type.
Definition key_cmp (a b : key) : comparison :=
  match fst a ?= fst b with Eq => snd a ?= snd b | c => c end.
(* RestoreInfo: BTreeMap<(PackId, BlobLocation), SmallVec<FileLocation>>; the blob's bytes ride along *)
Definition rinfo := list (key * (list N * list floc)).
Fixpoint r_insert (r : rinfo) (k : key) (d : list N) (fl : floc) : rinfo :=
  match r with
  | [] => [(k, (d, [fl]))]
  | (k', (d', fls)) :: t =>
    match key_cmp k k' with
    | Lt => (k, (d, [fl])) :: r
    | Eq => (k', (d', fls ++ [fl])) :: t
    | Gt => (k', (d', fls)) :: r_insert t k d fl
    end
  end.
Record plan := mkPl { pl_names : list pbuf; pl_lengths : list N; pl_pre : list bool; pl_r : rinfo }.
Definition plan0 : plan := mkPl [] [] [] [].

Fixpoint list_eqb (a b : list N) : bool :=
  match a, b with
  | [], [] => true
  | x :: a', y :: b' => (x =? y) && list_eqb a' b'
  | _, _ => false
  end.
Definition nlen (l : list N) : N := N.of_nat (length l).

(* LocalDestination::get_matching_file: symlink_metadata is a regular file of that size *)
Definition get_matching_file (s : fs) (p : apath) (size : N) : option (list N * N) :=
  match fs_get s p with
  | Some (EFile d m _) => if nlen d =? size then Some (d, m) else None
  | _ => None
  end.

(* the loop of RestorePlan::add_file; Id::blob_matches_reader reads the next `length` bytes of the
   open file sequentially and compares their hash with the blob id (collision-freedom: equality) *)
Fixpoint plan_blobs (idx : nat) (openf : option (list N)) (pos : N) (bl : list blob) (r : rinfo) : rinfo * N :=
  match bl with
  | [] => (r, pos)
  | b :: t =>
    let len := length (b_data b) in
    let '(m, openf') :=
      match openf with
      | None => (false, None)
      | Some rem => (list_eqb (firstn len rem) (b_data b), Some (skipn len rem))
      end in
    plan_blobs idx openf' (pos + N.of_nat len) t (r_insert r (b_pack b, b_off b) (b_data b) (mkFl idx pos m))
  end.

Definition add_file (o : opts) (droot : apath) (s : fs) (pl : plan) (path : pbuf)
           (blobs : list blob) (size mtime : N) : plan :=
  let openf := get_matching_file s (dpath droot path) size in
  let pre := match fs_get s (dpath droot path) with Some _ => true | None => false end in
  match openf with
  | Some (d, m) =>
    if (size =? 0) then pl                                   (* empty file exists *)
    else if negb (o_verify o) && (m =? mtime) then pl         (* size and mtime fit: accepted *)
    else let '(r', pos) := plan_blobs (length (pl_names pl)) (Some d) 0 blobs (pl_r pl) in
         mkPl (pl_names pl ++ [path]) (pl_lengths pl ++ [pos]) (pl_pre pl ++ [pre]) r'
  | None =>
    let '(r', pos) := plan_blobs (length (pl_names pl)) None 0 blobs (pl_r pl) in
    mkPl (pl_names pl ++ [path]) (pl_lengths pl ++ [pos]) (pl_pre pl ++ [pre]) r'
  end.

(* ---------------------------------------------------------------- collect_and_prepare *)
Fixpoint drop_under (p : apath) (l : list (apath * entry)) : list (apath * entry) :=
  match l with
  | [] => []
  | x :: t => if is_prefix p (fst x) then drop_under p t else l
  end.

(* process_existing (depth > 0): remove only with `delete`; never descend into an extra dir *)
Definition process_existing (o : opts) (s : fs) (d : apath * entry) (rest : list (apath * entry))
  : fs * list (apath * entry) :=
  let isd := is_dir_entry (snd d) in
  let s' := if o_delete o then (if isd then fs_del_tree s (fst d) else fs_del s (fst d)) else s in
  (s', if isd then drop_under (fst d) rest else rest).

Definition process_node (o : opts) (droot : apath) (s : fs) (pl : plan) (path : pbuf) (it : item) (exists_ : bool)
  : outcome * fs * plan :=
  match it with
  | IDir _ _ =>
    if exists_ then (OOk, s, pl)
    else match mkdir_all s (dpath droot path) with
         | Some s' => (OOk, s', pl)
         | None => (OErr, s, pl)
         end
  | IFile blobs size mtime _ => (OOk, s, add_file o droot s pl path blobs size mtime)
  | ILink _ => (OOk, s, pl)
  end.

Definition type_mismatch (it : item) (e : entry) : bool :=
  (is_idir it && negb (is_dir_entry e)) || (is_ifile it && negb (is_file_entry e)) || is_special it.

Fixpoint collect (c : cfg) (fuel : nat) (o : opts) (droot : apath) (s : fs) (pl : plan)
         (dst : list (apath * entry)) (nodes : list (option (pbuf * item))) : outcome * fs * plan :=
  match fuel with
  | O => (OErr, s, pl)
  | S fuel' =>
    match dst, nodes with
    | _, None :: _ => (OErr, s, pl)           (* the streamer returned an error *)
    | [], [] => (OOk, s, pl)
    | d :: ds, [] =>
      let '(s1, ds1) := process_existing o s d ds in collect c fuel' o droot s1 pl ds1 []
    | d :: ds, Some (path, it) :: ns =>
      match pcmp (map CNormal (fst d)) (cmp_comps droot path) with
      | Lt => let '(s1, ds1) := process_existing o s d ds in collect c fuel' o droot s1 pl ds1 nodes
      | Eq =>
        let mm := type_mismatch it (snd d) in
        let '(s1, ds1) := if mm then process_existing o s d ds else (s, ds) in
        let ex := if mm && c_exists c then negb (o_delete o) else true in
        match process_node o droot s1 pl path it ex with
        | (OOk, s2, pl2) => collect c fuel' o droot s2 pl2 ds1 ns
        | other => other
        end
      | Gt =>
        match process_node o droot s pl path it false with
        | (OOk, s2, pl2) => collect c fuel' o droot s2 pl2 dst ns
        | other => other
        end
      end
    | [], Some (path, it) :: ns =>
      match process_node o droot s pl path it false with
      | (OOk, s2, pl2) => collect c fuel' o droot s2 pl2 [] ns
      | other => other
      end
    end
  end.

Definition collect_and_prepare (c : cfg) (o : opts) (droot : apath) (s : fs) (nodes : list (option (pbuf * item))) :=
  let dst := walk droot s in
  collect c (S (length dst + length nodes)) o droot s plan0 dst nodes.

(* ---------------------------------------------------------------- restore_contents *)
(* filenames[file_idx]: an index out of bounds panics *)
Definition nth_name (pl_names : list pbuf) (i : nat) : option pbuf := nth_error pl_names i.

(* "first create needed empty files" *)
Fixpoint create_empty (droot : apath) (s : fs) (names : list pbuf) (lens : list N) : option fs :=
  match names, lens with
  | nm :: ns, l :: ls =>
    if l =? 0 then match set_length s (dpath droot nm) 0 with
                   | Some s' => create_empty droot s' ns ls
                   | None => None
                   end
    else create_empty droot s ns ls
  | _, _ => Some s
  end.

Fixpoint set_nth {A} (l : list A) (i : nat) (x : A) : list A :=
  match l, i with
  | [], _ => []
  | _ :: t, O => x :: t
  | y :: t, S i' => y :: set_nth t i' x
  end.
Definition all_zero (d : list N) : bool := forallb (fun b => b =? 0) d.

(* the innermost task: allocate the file once, then write unless sparse and all-zero *)
Definition write_dest (c : cfg) (o : opts) (droot : apath) (names : list pbuf) (pre : list bool) (data : list N)
           (st : option (fs * list N)) (fl : floc) : option (fs * list N) :=
  match st with
  | None => None
  | Some (s, sizes) =>
    match nth_name names (fl_idx fl) with None => None | Some nm =>
    let p := dpath droot nm in
    let sz := nth (fl_idx fl) sizes 0 in
    let alloc := if 0 <? sz then match set_length s p sz with
                                 | Some s' => Some (s', set_nth sizes (fl_idx fl) 0)
                                 | None => None
                                 end
                 else Some (s, sizes) in
    match alloc with
    | None => None
    | Some (s1, sizes1) =>
      if o_sparse o && all_zero data && negb (c_sparse_pre c && nth (fl_idx fl) pre false) then Some (s1, sizes1)
      else match write_at s1 p (fl_start fl) data with
           | Some s2 => Some (s2, sizes1)
           | None => None
           end
    end
    end
  end.

(* one (pack, location) entry: data comes from an existing matching file if there is one,
   else from the pack (logged); then every non-matching location is written *)
Definition do_entry (c : cfg) (o : opts) (droot : apath) (names : list pbuf) (pre : list bool)
           (st : option (fs * list N * list N)) (e : key * (list N * list floc)) : option (fs * list N * list N) :=
  match st with
  | None => None
  | Some (s, sizes, reads) =>
    let '(k, (data, fls)) := e in
    let dests := filter (fun fl => negb (fl_matches fl)) fls in
    match dests with
    | [] => Some (s, sizes, reads)
    | _ =>
      let src :=
        match find fl_matches fls with
        | Some fl => match nth_name names (fl_idx fl) with
                     | None => None
                     | Some nm => match read_at s (dpath droot nm) (fl_start fl) (nlen data) with
                                  | Some d => Some (d, reads)
                                  | None => None
                                  end
                     end
        | None => Some (data, reads ++ [fst k])
        end in
      match src with
      | None => None
      | Some (d, reads') =>
        match fold_left (write_dest c o droot names pre d) dests (Some (s, sizes)) with
        | Some (s', sizes') => Some (s', sizes', reads')
        | None => None
        end
      end
    end
  end.

Definition restore_contents (c : cfg) (o : opts) (droot : apath) (s : fs) (pl : plan) : outcome * fs * list N :=
  match create_empty droot s (pl_names pl) (pl_lengths pl) with
  | None => (OErr, s, [])
  | Some s1 =>
    match fold_left (do_entry c o droot (pl_names pl) (pl_pre pl)) (pl_r pl) (Some (s1, pl_lengths pl, [])) with
    | Some (s2, _, reads) => (OOk, s2, reads)
    | None => (OPanic, s1, [])     (* an unwrap() inside the worker pool *)
    end
  end.

(* RestorePlan::to_packs *)
Fixpoint dedup_adj (l : list N) : list N :=
  match l with
  | x :: ((y :: _) as t) => if x =? y then dedup_adj t else x :: dedup_adj t
  | _ => l
  end.
Definition to_packs (pl : plan) : list N :=
  dedup_adj (map (fun e => fst (fst e))
                 (filter (fun e => forallb (fun fl => negb (fl_matches fl)) (snd (snd e))) (pl_r pl))).

(* ---------------------------------------------------------------- restore_metadata *)
(* set_metadata (no_ownership): create_special, set_permission (not for symlinks), set_times;
   every failure is only logged *)
Definition set_metadata (droot : apath) (s : fs) (x : pbuf * item) : fs :=
  let p := dpath droot (fst x) in
  match snd x with
  | ILink t => or_keep s (symlink_at s p t)
  | IFile _ _ mt mo => let s1 := or_keep s (set_perm s p mo) in or_keep s1 (set_times s1 p mt)
  | IDir mt mo => let s1 := or_keep s (set_perm s p mo) in or_keep s1 (set_times s1 p mt)
  end.

Fixpoint pop_non_parents (droot : apath) (s : fs) (stack : list (pbuf * item)) (path : pbuf)
  : fs * list (pbuf * item) :=
  match stack with
  | [] => (s, [])
  | x :: t => if pstarts_with path (fst x) then (s, stack)
              else pop_non_parents droot (set_metadata droot s x) t path
  end.
Fixpoint meta_loop (droot : apath) (s : fs) (stack : list (pbuf * item)) (nodes : list (option (pbuf * item))) : fs :=
  match nodes with
  | [] => fold_left (set_metadata droot) stack s
  | None :: _ => s
  | Some (path, it) :: ns =>
    if is_idir it then
      let '(s1, st1) := pop_non_parents droot s stack path in meta_loop droot s1 ((path, it) :: st1) ns
    else meta_loop droot (set_metadata droot s (path, it)) stack ns
  end.

(* ---------------------------------------------------------------- the whole restore *)
Record result := mkR { r_out : outcome; r_fs : fs; r_reads : list N; r_to_packs : list N }.
Definition restore (c : cfg) (o : opts) (droot : apath) (roots : list node) (s : fs) : result :=
  let nodes := stream c roots in
  match collect_and_prepare c o droot s nodes with
  | (OOk, s1, pl) =>
    match restore_contents c o droot s1 pl with
    | (OOk, s2, reads) => mkR OOk (meta_loop droot s2 [] nodes) reads (to_packs pl)
    | (oc, s2, reads) => mkR oc s2 reads (to_packs pl)
    end
  | (oc, s1, pl) => mkR oc s1 [] (to_packs pl)
  end.

(* ---------------------------------------------------------------- PackInfo::coalesce (restore_contents)
   The (pack, location) entries are turned into PackInfo's and adjacent ones of a pack are merged
   into one partial read (itertools `coalesce`).  `pi_from` = from_file: (file index, start, length
   of the entry's own blob) when one of its locations matches an existing file.  The guard of the
   merge is a fact regenerated from the source (cguard). *)
Inductive cguard := CgSelf | CgOther.
Record pinfo := mkPI {
  pi_pack : N; pi_from : option (nat * N * N); pi_off : N; pi_len : N;
  pi_blobs : list (N * N * list N * list floc) }.     (* (offset, length, bytes, non-matching locations) *)
Definition of_entry (e : key * (list N * list floc)) : pinfo :=
  let '(k, (data, fls)) := e in
  mkPI (fst k)
       (match find fl_matches fls with Some fl => Some (fl_idx fl, fl_start fl, nlen data) | None => None end)
       (snd k) (nlen data)
       [(snd k, nlen data, data, filter (fun fl => negb (fl_matches fl)) fls)].
Definition is_none {A} (x : option A) : bool := match x with None => true | Some _ => false end.
(* BlobLocations::can_coalesce *)
Definition can_coalesce (maxhole limit : N) (a b : pinfo) : bool :=
  (pi_off b <=? pi_off a + pi_len a + maxhole) && (pi_off a + pi_len a <=? pi_off b) &&
  (pi_off b + pi_len b - pi_off a <=? limit).
Definition pcoalesce (g : cguard) (cc : pinfo -> pinfo -> bool) (a b : pinfo) : option pinfo :=
  if (pi_pack a =? pi_pack b) && (match g with CgSelf => is_none (pi_from a) | CgOther => is_none (pi_from b) end) && cc a b
  then Some (mkPI (pi_pack a) (pi_from a) (pi_off a) (pi_off b + pi_len b - pi_off a) (pi_blobs a ++ pi_blobs b))
  else None.
Fixpoint coal (g : cguard) (cc : pinfo -> pinfo -> bool) (cur : pinfo) (rest : list pinfo) : list pinfo :=
  match rest with
  | [] => [cur]
  | n :: t => match pcoalesce g cc cur n with Some m => coal g cc m t | None => cur :: coal g cc n t end
  end.
Definition coalesce_all (g : cguard) (cc : pinfo -> pinfo -> bool) (l : list pinfo) : list pinfo :=
  match l with [] => [] | a :: t => coal g cc a t end.

(* one PackInfo: read once (from the existing file, or the pack range); every blob of it is written
   to its locations — `if from_file.is_some() { read_data.clone() } else { <the blob's slice> }` *)
Definition do_pinfo (c : cfg) (o : opts) (droot : apath) (names : list pbuf) (pre : list bool)
           (st : option (fs * list N * list N)) (p : pinfo) : option (fs * list N * list N) :=
  match st with
  | None => None
  | Some (s, sizes, reads) =>
    let src :=
      match pi_from p with
      | Some (idx, start, len) =>
        match nth_name names idx with
        | None => None
        | Some nm => match read_at s (dpath droot nm) start len with Some d => Some (d, reads) | None => None end
        end
      | None => Some ([], reads ++ [pi_pack p])
      end in
    match src with
    | None => None
    | Some (rd, reads') =>
      match fold_left (fun st b => let '(_, _, data, dests) := b in
                                   fold_left (write_dest c o droot names pre (if is_none (pi_from p) then data else rd)) dests st)
                      (pi_blobs p) (Some (s, sizes)) with
      | Some (s', sizes') => Some (s', sizes', reads')
      | None => None
      end
    end
  end.
Definition restore_contents_c (c : cfg) (g : cguard) (cc : pinfo -> pinfo -> bool) (o : opts) (droot : apath) (s : fs) (pl : plan)
  : outcome * fs * list N :=
  match create_empty droot s (pl_names pl) (pl_lengths pl) with
  | None => (OErr, s, [])
  | Some s1 =>
    match fold_left (do_pinfo c o droot (pl_names pl) (pl_pre pl)) (coalesce_all g cc (map of_entry (pl_r pl)))
                    (Some (s1, pl_lengths pl, [])) with
    | Some (s2, _, reads) => (OOk, s2, reads)
    | None => (OPanic, s1, [])
    end
  end.
Definition restore_c (c : cfg) (g : cguard) (cc : pinfo -> pinfo -> bool) (o : opts) (droot : apath) (roots : list node) (s : fs) : result :=
  let nodes := stream c roots in
  match collect_and_prepare c o droot s nodes with
  | (OOk, s1, pl) =>
    match restore_contents_c c g cc o droot s1 pl with
    | (OOk, s2, reads) => mkR OOk (meta_loop droot s2 [] nodes) reads (to_packs pl)
    | (oc, s2, reads) => mkR oc s2 reads (to_packs pl)
    end
  | (oc, s1, pl) => mkR oc s1 [] (to_packs pl)
  end.
