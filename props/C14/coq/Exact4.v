(* C14 — towards restore_exact: the metadata pass (restore_metadata with its directory stack)
   applies set_metadata to every node; afterwards every node carries the snapshot's type, link
   target, mode and mtime, whatever the order in which the stack is emptied. *)
From Verif.Base Require Import Tactics.
From Verif.C14 Require Import Model Proofs Exact1 Exact2 Exact3.

Notation nodeT := (list name * item)%type.
Definition Pn (droot : apath) (x : nodeT) : apath := droot ++ fst x.
Definition toS (x : nodeT) : pbuf * item := (np (fst x), snd x).
Definition toO (x : nodeT) : option (pbuf * item) := Some (toS x).

Definition item_blobs (it : item) : list blob := match it with IFile bl _ _ _ => bl | _ => [] end.

(* the snapshot's content, type, target, mode and mtime at the node's path *)
Definition good droot (s : fs) (x : nodeT) : Prop :=
  match snd x with
  | IFile bl _ mt mo => fs_get s (Pn droot x) = Some (EFile (econt bl) mt mo)
  | IDir mt mo => fs_get s (Pn droot x) = Some (EDir mt mo)
  | ILink t => fs_get s (Pn droot x) = Some (ELink t)
  end.
(* what restore_contents / collect_and_prepare leave for the metadata pass *)
Definition ready droot (s : fs) (x : nodeT) : Prop :=
  match snd x with
  | IFile bl _ _ _ => exists mt mo, fs_get s (Pn droot x) = Some (EFile (econt bl) mt mo)
  | IDir _ _ => isdir s (Pn droot x)
  | ILink _ => fs_get s (Pn droot x) = None /\ dir_exists s (removelast (Pn droot x)) = true
  end.
Definition pend droot s x := ready droot s x \/ good droot s x.

Lemma dpath_toS droot x : dpath droot (fst (toS x)) = Pn droot x.
Proof. unfold toS, Pn. simpl. apply dpath_np. Qed.

Lemma set_metadata_other droot s x q : q <> Pn droot x -> fs_get (set_metadata droot s (toS x)) q = fs_get s q.
Proof.
  intros Hq. unfold set_metadata. rewrite dpath_toS. simpl snd.
  assert (Hs : forall s' e, fs_get (fs_set s' (Pn droot x) e) q = fs_get s' q)
    by (intros; apply get_set_other; apply path_eqb_neq; congruence).
  assert (Hperm : forall s' mo, fs_get (or_keep s' (set_perm s' (Pn droot x) mo)) q = fs_get s' q).
  { intros s' mo. unfold set_perm. destruct (fs_get s' (Pn droot x)) as [[| |]|]; cbn [or_keep]; rewrite ?Hs; reflexivity. }
  assert (Htime : forall s' mt, fs_get (or_keep s' (set_times s' (Pn droot x) mt)) q = fs_get s' q).
  { intros s' mt. unfold set_times. destruct (fs_get s' (Pn droot x)) as [[| |]|]; cbn [or_keep]; rewrite ?Hs; reflexivity. }
  destruct (snd x).
  - rewrite Htime, Hperm. reflexivity.
  - rewrite Htime, Hperm. reflexivity.
  - unfold symlink_at. destruct (fs_get s (Pn droot x)); cbn [or_keep]; [reflexivity|].
    destruct (_ && _); cbn [or_keep]; rewrite ?Hs; reflexivity.
Qed.

Lemma set_metadata_isdir droot s x q : isdir s q -> isdir (set_metadata droot s (toS x)) q.
Proof.
  intros (m & mo & Hq). destruct (path_eqb q (Pn droot x)) eqn:E.
  - apply path_eqb_eq in E. subst q. unfold set_metadata. rewrite dpath_toS. simpl snd.
    assert (Hp : forall s' mo', isdir s' (Pn droot x) -> isdir (or_keep s' (set_perm s' (Pn droot x) mo')) (Pn droot x)).
    { intros s' mo' (m1 & mo1 & H1). unfold set_perm. rewrite H1. cbn [or_keep]. exists m1, mo'. apply get_set_same. }
    assert (Ht : forall s' mt', isdir s' (Pn droot x) -> isdir (or_keep s' (set_times s' (Pn droot x) mt')) (Pn droot x)).
    { intros s' mt' (m1 & mo1 & H1). unfold set_times. rewrite H1. cbn [or_keep]. exists mt', mo1. apply get_set_same. }
    assert (H0 : isdir s (Pn droot x)) by (exists m, mo; assumption).
    destruct (snd x); auto.
    unfold symlink_at. rewrite Hq. cbn [or_keep]. assumption.
  - exists m, mo. rewrite set_metadata_other; [assumption|]. intros ->. rewrite path_eqb_refl in E. discriminate.
Qed.
Lemma set_metadata_dir_exists droot s x q : dir_exists s q = true -> dir_exists (set_metadata droot s (toS x)) q = true.
Proof.
  unfold dir_exists. destruct q; [reflexivity|]. intros H.
  destruct (fs_get s (n :: q)) as [[| |]|] eqn:E; try discriminate.
  destruct (set_metadata_isdir droot s x (n :: q)) as (m & mo & H1); [eexists; eexists; exact E|]. rewrite H1. reflexivity.
Qed.

Lemma pend_good droot s x : fst x <> [] -> pend droot s x -> good droot (set_metadata droot s (toS x)) x.
Proof.
  intros Hne Hp. unfold good, set_metadata. rewrite dpath_toS. simpl snd.
  assert (Hnn : Pn droot x <> []) by (unfold Pn; destruct droot; destruct (fst x); simpl; congruence).
  destruct Hp as [Hr|Hg]; unfold ready, good in *; destruct (snd x).
  - destruct Hr as (m0 & mo0 & H). unfold set_perm. rewrite H. cbn [or_keep]. unfold set_times. rewrite get_set_same. cbn [or_keep].
    rewrite get_set_same. reflexivity.
  - destruct Hr as (m0 & mo0 & H). unfold set_perm. rewrite H. cbn [or_keep]. unfold set_times. rewrite get_set_same. cbn [or_keep].
    rewrite get_set_same. reflexivity.
  - destruct Hr as [H1 H2]. unfold symlink_at. rewrite H1, H2. rewrite path_eqb_neq by assumption. cbn [negb andb or_keep].
    apply get_set_same.
  - unfold set_perm. rewrite Hg. cbn [or_keep]. unfold set_times. rewrite get_set_same. cbn [or_keep]. rewrite get_set_same. reflexivity.
  - unfold set_perm. rewrite Hg. cbn [or_keep]. unfold set_times. rewrite get_set_same. cbn [or_keep]. rewrite get_set_same. reflexivity.
  - unfold symlink_at. rewrite Hg. cbn [or_keep]. assumption.
Qed.

Section Meta.
Variables (droot : apath) (all : list nodeT).
Hypothesis Hnd : NoDup (map fst all).
Hypothesis Hne : forall x, In x all -> fst x <> [].

Lemma node_eq x y : In x all -> In y all -> Pn droot x = Pn droot y -> x = y.
Proof.
  intros Hx Hy E. unfold Pn in E. apply app_inv_head in E.
  apply In_nth_error in Hx as [i Hi]. apply In_nth_error in Hy as [j Hj].
  assert (i = j).
  { rewrite NoDup_nth_error in Hnd. apply Hnd.
    - rewrite map_length. apply nth_error_Some. rewrite Hi. discriminate.
    - rewrite (map_nth_error fst _ _ Hi), (map_nth_error fst _ _ Hj). congruence. }
  subst. congruence.
Qed.

Definition all_pend s := forall x, In x all -> pend droot s x.

Lemma good_other s x y : Pn droot x <> Pn droot y -> good droot s x -> good droot (set_metadata droot s (toS y)) x.
Proof. intros H. unfold good. rewrite set_metadata_other by assumption. auto. Qed.

Lemma step s y : In y all -> all_pend s ->
  all_pend (set_metadata droot s (toS y)) /\ good droot (set_metadata droot s (toS y)) y /\
  (forall x, In x all -> good droot s x -> good droot (set_metadata droot s (toS y)) x) /\
  (forall q, (forall x, In x all -> q <> Pn droot x) -> fs_get (set_metadata droot s (toS y)) q = fs_get s q).
Proof.
  intros Hy Hp.
  assert (Gy : good droot (set_metadata droot s (toS y)) y) by (apply pend_good; auto).
  assert (Gx : forall x, In x all -> good droot s x -> good droot (set_metadata droot s (toS y)) x).
  { intros x Hx Hg. destruct (path_eqb (Pn droot x) (Pn droot y)) eqn:E.
    - apply path_eqb_eq in E. assert (x = y) by (apply node_eq; auto). subst. assumption.
    - apply good_other; [|assumption]. intros E'. rewrite E', path_eqb_refl in E. discriminate. }
  split; [|split; [exact Gy|split; [exact Gx|]]].
  - intros x Hx. destruct (path_eqb (Pn droot x) (Pn droot y)) eqn:E.
    + apply path_eqb_eq in E. assert (x = y) by (apply node_eq; auto). subst. right. assumption.
    + assert (Hneq : Pn droot x <> Pn droot y) by (intros E'; rewrite E', path_eqb_refl in E; discriminate).
      destruct (Hp x Hx) as [Hr|Hg]; [left|right; apply good_other; assumption].
      unfold ready in *. destruct (snd x).
      * rewrite set_metadata_other by assumption. assumption.
      * apply set_metadata_isdir. assumption.
      * destruct Hr as [H1 H2]. split; [rewrite set_metadata_other by assumption; assumption|].
        apply set_metadata_dir_exists. assumption.
  - intros q Hq. apply set_metadata_other. apply Hq. assumption.
Qed.

Definition trans (s s' : fs) (before after : nodeT -> Prop) : Prop :=
  all_pend s' /\
  (forall x, In x all -> (before x \/ good droot s x) -> (good droot s' x \/ after x)) /\
  (forall q, (forall x, In x all -> q <> Pn droot x) -> fs_get s' q = fs_get s q).

Lemma trans_refl s B : all_pend s -> trans s s B B.
Proof. intros H. split; [assumption|]. split; [intros x _ [Hb|G]; auto|auto]. Qed.
Lemma trans_weaken s s' B A (B' A' : nodeT -> Prop) :
  trans s s' B A -> (forall x, B' x -> B x) -> (forall x, A x -> A' x) -> trans s s' B' A'.
Proof.
  intros (P1 & P2 & P3) HB HA. split; [assumption|]. split; [|assumption].
  intros x Hx [Hb|G]; (destruct (P2 x Hx) as [X|X]; [auto|left; assumption|right; auto]).
Qed.
Lemma trans_step s y s' B A : In y all -> all_pend s -> trans (set_metadata droot s (toS y)) s' B A ->
  trans s s' (fun x => x = y \/ B x) A.
Proof.
  intros Hy Hp (Q1 & Q2 & Q3). destruct (step s y Hy Hp) as (P1 & P2 & P3 & P4).
  split; [assumption|]. split.
  - intros x Hx [[->|Hb]|Hg]; apply Q2; auto.
  - intros q Hq. rewrite Q3 by assumption. apply P4. assumption.
Qed.
Lemma trans_comp s s1 s2 B1 A1 B2 A2 :
  trans s s1 B1 A1 -> trans s1 s2 B2 A2 -> (forall x, A1 x -> B2 x) -> trans s s2 (fun x => B1 x \/ B2 x) A2.
Proof.
  intros (P1 & P2 & P3) (Q1 & Q2 & Q3) H. split; [assumption|]. split.
  - intros x Hx [[Hb|Hb]|Hg].
    + destruct (P2 x Hx (or_introl Hb)) as [X|X]; apply Q2; auto.
    + apply Q2; auto.
    + destruct (P2 x Hx (or_intror Hg)) as [X|X]; apply Q2; auto.
  - intros q Hq. rewrite Q3, P3 by assumption. reflexivity.
Qed.

Lemma fold_meta_spec : forall stack s, incl stack all -> all_pend s ->
  trans s (fold_left (set_metadata droot) (map toS stack) s) (fun x => In x stack) (fun _ => False).
Proof.
  induction stack as [|y t IH]; intros s Hi Hp; simpl.
  - eapply trans_weaken; [apply (trans_refl s (fun _ => False)); assumption|intros x []|auto].
  - assert (Hy : In y all) by (apply Hi; left; reflexivity).
    destruct (step s y Hy Hp) as (P1 & _).
    eapply trans_weaken; [apply (trans_step s y _ _ _ Hy Hp (IH _ (fun x H => Hi x (or_intror H)) P1))| |auto].
    intros x [<-|H]; auto.
Qed.

Lemma pop_spec path : forall stack s, incl stack all -> all_pend s ->
  exists s' stack', pop_non_parents droot s (map toS stack) path = (s', map toS stack') /\
    incl stack' all /\ trans s s' (fun x => In x stack) (fun x => In x stack').
Proof.
  induction stack as [|y t IH]; intros s Hi Hp; simpl.
  - exists s, []. split; [reflexivity|]. split; [intros x []|]. apply trans_refl. assumption.
  - destruct (pstarts_with path (np (fst y))) eqn:E.
    + exists s, (y :: t). split; [reflexivity|]. split; [assumption|]. apply trans_refl. assumption.
    + assert (Hy : In y all) by (apply Hi; left; reflexivity).
      destruct (step s y Hy Hp) as (P1 & _).
      destruct (IH (set_metadata droot s (toS y)) (fun x H => Hi x (or_intror H)) P1) as (s' & st' & E1 & I1 & Tr).
      exists s', st'. split; [exact E1|]. split; [assumption|].
      eapply trans_weaken; [apply (trans_step s y _ _ _ Hy Hp Tr)| |auto]. intros x [<-|H]; auto.
Qed.

Lemma meta_loop_spec : forall rem stack s, incl rem all -> incl stack all -> all_pend s ->
  trans s (meta_loop droot s (map toS stack) (map toO rem)) (fun x => In x stack \/ In x rem) (fun _ => False).
Proof.
  induction rem as [|y ns IH]; intros stack s Hr Hs Hp.
  - simpl. eapply trans_weaken; [apply fold_meta_spec; assumption| |auto]. intros x [H|[]]. assumption.
  - assert (Hy : In y all) by (apply Hr; left; reflexivity).
    assert (Hns : incl ns all) by (intros x H; apply Hr; right; assumption).
    cbn [map meta_loop toO toS]. destruct (is_idir (snd y)) eqn:Ed.
    + destruct (pop_spec (np (fst y)) stack s Hs Hp) as (s1 & st1 & E1 & I1 & Tr1).
      rewrite E1.
      assert (Hp1 : all_pend s1) by apply Tr1.
      assert (Hst : incl (y :: st1) all) by (intros x [<-|H]; auto).
      pose proof (IH (y :: st1) s1 Hns Hst Hp1) as Tr2. cbn [map toS] in Tr2.
      eapply trans_weaken; [apply (trans_comp _ _ _ _ _ _ _ Tr1 Tr2)| |auto].
      * intros x H. left. right. assumption.
      * intros x [H|[<-|H]]; [left; assumption|right; left; left; reflexivity|right; right; assumption].
    + destruct (step s y Hy Hp) as (P1 & _).
      pose proof (IH stack _ Hns Hs P1) as Tr.
      eapply trans_weaken; [apply (trans_step s y _ _ _ Hy Hp Tr)| |auto].
      intros x [H|[<-|H]]; auto.
Qed.

(* the metadata pass: from `ready` to `good` for every node, nothing else changes *)
Theorem metadata_pass_exact s :
  all_pend s ->
  (forall x, In x all -> good droot (meta_loop droot s [] (map toO all)) x) /\
  (forall q, (forall x, In x all -> q <> Pn droot x) -> fs_get (meta_loop droot s [] (map toO all)) q = fs_get s q).
Proof.
  intros Hp. destruct (meta_loop_spec all [] s (fun x H => H) (fun x H => match H with end) Hp) as (_ & B & C).
  split; [|exact C]. intros x Hx. destruct (B x Hx (or_introl (or_intror Hx))) as [G|[]]. exact G.
Qed.
End Meta.
