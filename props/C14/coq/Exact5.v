(* C14 — restore_exact for destinations that hold nothing at a snapshot path (fresh destination
   or extras only): collect_and_prepare (merge-walk, process_existing, process_node), then
   restore_contents, then the metadata pass. *)
From Verif.Base Require Import Tactics.
From Verif.C14 Require Import Model Proofs Exact1 Exact2 Exact3 Exact4.

Fixpoint files_of (ns : list nodeT) : list fileT :=
  match ns with
  | [] => []
  | (l, IFile bl _ _ _) :: t => (l, bl) :: files_of t
  | _ :: t => files_of t
  end.
Lemma files_of_app a b : files_of (a ++ b) = files_of a ++ files_of b.
Proof. induction a as [|[l [| |]] a IH]; simpl; rewrite ?IH; reflexivity. Qed.
Lemma files_of_in ns l bl : In (l, bl) (files_of ns) -> exists sz mt mo, In (l, IFile bl sz mt mo) ns.
Proof.
  induction ns as [|[l' it] t IH]; simpl; intros H; [destruct H|].
  destruct it as [bl' sz mt mo| |].
  - destruct H as [H|H]; [inv H; exists sz, mt, mo; left; reflexivity|].
    destruct (IH H) as (a & b & c & X). exists a, b, c. right. exact X.
  - destruct (IH H) as (a & b & c & X). exists a, b, c. right. exact X.
  - destruct (IH H) as (a & b & c & X). exists a, b, c. right. exact X.
Qed.
Lemma in_files_of ns l bl sz mt mo : In (l, IFile bl sz mt mo) ns -> In (l, bl) (files_of ns).
Proof.
  induction ns as [|[l' it] t IH]; simpl; intros H; [destruct H|].
  destruct H as [H|H].
  - inv H. left. reflexivity.
  - destruct it; simpl; auto.
Qed.
Lemma files_of_nodup ns : NoDup (map fst ns) -> NoDup (map fst (files_of ns)).
Proof.
  induction ns as [|[l it] t IH]; simpl; intros H; [constructor|]. inv H.
  destruct it; auto. simpl. constructor; [|auto].
  intros Hin. apply in_map_iff in Hin as ([l' bl'] & E & Hin). simpl in E. subst l'.
  apply files_of_in in Hin as (a & b & c & Hin). apply H2. apply in_map_iff. exists (l, IFile bl' a b c). auto.
Qed.
Lemma consistent_incl (a b : list fileT) : (forall f, In f a -> In f b) -> consistent b -> consistent a.
Proof. intros Hi Hc f f' x x' H1 H2. apply Hc; auto. Qed.

Lemma is_prefix_trans a b c : is_prefix a b = true -> is_prefix b c = true -> is_prefix a c = true.
Proof.
  intros H1 H2. apply is_prefix_inv in H1 as [r ->]. apply is_prefix_inv in H2 as [r' ->].
  rewrite <- app_assoc. apply is_prefix_app.
Qed.
Lemma fs_get_filter_keep_none f s q : fs_get s q = None -> fs_get (filter f s) q = None.
Proof.
  induction s as [|[p e] s IH]; simpl; intros H; [reflexivity|].
  destruct (path_eqb p q) eqn:E; [discriminate|]. destruct (f (p, e)); simpl; [rewrite E|]; auto.
Qed.
Lemma drop_under_in p : forall l d, In d l -> In d (drop_under p l) \/ is_prefix p (fst d) = true.
Proof.
  induction l as [|x t IH]; intros d H; [destruct H|]. simpl.
  destruct (is_prefix p (fst x)) eqn:E.
  - destruct H as [<-|H]; [right; assumption|auto].
  - left. assumption.
Qed.
Lemma drop_under_sub p : forall l d, In d (drop_under p l) -> In d l.
Proof.
  induction l as [|x t IH]; intros d H; [destruct H|]. simpl in H.
  destruct (is_prefix p (fst x)); [right; auto|assumption].
Qed.
Lemma drop_under_len p : forall l, length (drop_under p l) <= length l.
Proof. induction l; simpl; [lia|]. destruct (is_prefix p (fst a)); simpl; lia. Qed.

Lemma pcmp_normal_eq : forall a b, pcmp (map CNormal a) (map CNormal b) = Eq -> a = b.
Proof.
  induction a; destruct b; simpl; intros H; try discriminate; [reflexivity|].
  destruct (a ?= n)%N eqn:E; try discriminate. apply N.compare_eq in E. subst. f_equal. auto.
Qed.
Lemma cmp_comps_np droot l : cmp_comps droot (np l) = map CNormal (droot ++ l).
Proof.
  unfold cmp_comps, djoin, pjoin, np, root_of. simpl. rewrite <- map_app.
  induction (droot ++ l); simpl; [reflexivity|]. rewrite IHl0. reflexivity.
Qed.
Lemma dirs_ok_ext droot s s' : dirs_ok droot s -> (forall q, fs_get s q <> None -> fs_get s' q = fs_get s q) -> dirs_ok droot s'.
Proof.
  intros H Hx k. specialize (H k). unfold dir_exists in *. destruct (firstn k droot) eqn:E; [reflexivity|].
  destruct (fs_get s (n :: l)) eqn:G; [|discriminate]. rewrite Hx; rewrite G; [assumption|discriminate].
Qed.
Lemma ins_sorted_in_conv x l y : (y = x \/ In y l) -> In y (ins_sorted x l).
Proof.
  induction l as [|z t IH]; simpl; intros H; [destruct H as [->|[]]; left; reflexivity|].
  destruct (ncmp (fst x) (fst z)); simpl.
  - destruct H as [->|H]; auto.
  - destruct H as [->|H]; auto.
  - destruct H as [->|[->|H]]; [right; apply IH; left; reflexivity|left; reflexivity|right; apply IH; right; assumption].
Qed.
Lemma walk_complete droot s q e : In (q, e) s -> strictly_under droot q = true -> In (q, e) (walk droot s).
Proof.
  intros H Hs. unfold walk, sort_entries.
  assert (Hin : In (q, e) (filter (fun x => strictly_under droot (fst x)) s)) by (apply filter_In; auto).
  revert Hin. generalize (filter (fun x => strictly_under droot (fst x)) s). induction l; simpl; intros Hin; [assumption|].
  apply ins_sorted_in_conv. destruct Hin as [->|Hin]; auto.
Qed.
Lemma walk_sound droot s d : In d (walk droot s) -> In d s /\ strictly_under droot (fst d) = true.
Proof.
  unfold walk, sort_entries. intros H.
  assert (Hin : In d (filter (fun x => strictly_under droot (fst x)) s)).
  { revert H. generalize (filter (fun x => strictly_under droot (fst x)) s). induction l; simpl; intros H; [assumption|].
    apply ins_sorted_in in H as [->|H]; auto. }
  apply filter_In in Hin. exact Hin.
Qed.

Section Fresh.
Variables (o : opts) (droot : apath) (nodes : list nodeT) (c : cfg).
Hypothesis Hc_ex : True.
Hypothesis N1 : NoDup (map fst nodes).
Hypothesis N2 : forall x, In x nodes -> fst x <> [].
Hypothesis N3 : forall x j, In x nodes -> 0 < j < length (fst x) -> exists mt mo, In (firstn j (fst x), IDir mt mo) nodes.
Hypothesis N4 : consistent (files_of nodes).

Definition nodepath (q : apath) : Prop := exists x, In x nodes /\ q = Pn droot x.
Definition extra_entry (d : apath * entry) : Prop :=
  strictly_under droot (fst d) = true /\ forall x, In x nodes -> is_prefix (fst d) (Pn droot x) = false.
Definition cov (dst : list (apath * entry)) (q : apath) : Prop :=
  exists d, In d dst /\ (q = fst d \/ (is_dir_entry (snd d) = true /\ is_prefix (fst d) q = true)).

Record KInv (done : list nodeT) (s : fs) (pl : plan) : Prop := mkK {
  k_dirs : dirs_ok droot s;
  k_nondir : forall x, In x nodes -> is_idir (snd x) = false -> fs_get s (Pn droot x) = None;
  k_dirish : forall x, In x nodes -> is_idir (snd x) = true -> fs_get s (Pn droot x) = None \/ isdir s (Pn droot x);
  k_done : forall x, In x done -> is_idir (snd x) = true -> isdir s (Pn droot x);
  k_plan : PlanInv pl (files_of done);
  k_sub : forall x, In x done -> In x nodes }.

Definition Estep (s : fs) (dst : list (apath * entry)) (s' : fs) (dst' : list (apath * entry)) : Prop :=
  (o_delete o = false -> forall q, fs_get s q <> None -> fs_get s' q = fs_get s q) /\
  (o_delete o = true -> forall q, ~ nodepath q -> (fs_get s q = None \/ cov dst q) -> (fs_get s' q = None \/ cov dst' q)).

Lemma Estep_comp s dst s' dst' s1 : Estep s dst s' dst' -> Estep s' dst' s1 [] -> Estep s dst s1 [].
Proof.
  intros [A1 A2] [B1 B2]. split.
  - intros Hd q Hq. rewrite B1; [apply A1; assumption|assumption|]. rewrite A1; assumption.
  - intros Hd q Hn Hq. apply B2; auto.
Qed.

Lemma node_inj x y : In x nodes -> In y nodes -> fst x = fst y -> x = y.
Proof. intros Hx Hy E. apply (node_eq droot nodes N1); auto. unfold Pn. congruence. Qed.

(* ---------------------------------------------------------------- process_existing on an extra entry *)
Lemma pe_step done s pl d ds : KInv done s pl -> extra_entry d ->
  exists s' ds', process_existing o s d ds = (s', ds') /\ KInv done s' pl /\ Estep s (d :: ds) s' ds' /\
    (forall d', In d' ds' -> In d' ds) /\ length ds' <= length ds.
Proof.
  intros [K1 K2 K3 K4 K5 K6] [Hsu Hnp]. unfold process_existing.
  set (s' := if o_delete o then if is_dir_entry (snd d) then fs_del_tree s (fst d) else fs_del s (fst d) else s).
  set (ds' := if is_dir_entry (snd d) then drop_under (fst d) ds else ds).
  exists s', ds'. split; [reflexivity|].
  assert (Hnode : forall x, In x nodes -> fs_get s' (Pn droot x) = fs_get s (Pn droot x)).
  { intros x Hx. unfold s'. destruct (o_delete o); [|reflexivity]. destruct (is_dir_entry (snd d)).
    - apply fs_get_del_tree_other. apply Hnp. assumption.
    - apply fs_get_del_other. intros E. specialize (Hnp x Hx). rewrite E, is_prefix_refl in Hnp. discriminate. }
  assert (Hfr : frame droot s s').
  { unfold s'. destruct (o_delete o); [|apply frame_refl]. destruct (is_dir_entry (snd d)); [apply frame_del_tree|apply frame_del]; assumption. }
  assert (Hdir : forall x, In x nodes -> isdir s (Pn droot x) -> isdir s' (Pn droot x)).
  { intros x Hx (m & mo & H). exists m, mo. rewrite Hnode; assumption. }
  split; [|split; [|split]].
  - constructor.
    + eapply dirs_ok_frame; eassumption.
    + intros x Hx Hi. rewrite Hnode by assumption. auto.
    + intros x Hx Hi. rewrite Hnode by assumption. destruct (K3 x Hx Hi); auto.
    + intros x Hx Hi. apply Hdir; [apply K6; assumption|auto].
    + assumption.
    + assumption.
  - split.
    + intros Hd q Hq. unfold s'. rewrite Hd. reflexivity.
    + intros Hd q Hn [Hq|(d0 & Hin & Hc)].
      * left. unfold s'. rewrite Hd. destruct (is_dir_entry (snd d)); apply fs_get_filter_keep_none; assumption.
      * unfold s', ds'. rewrite Hd. destruct Hin as [<-|Hin].
        -- left. destruct Hc as [->|[Hisd Hp]].
           ++ destruct (is_dir_entry (snd d)); [apply fs_get_del_tree_under, is_prefix_refl|apply fs_get_del_same].
           ++ rewrite Hisd. apply fs_get_del_tree_under. assumption.
        -- destruct (is_dir_entry (snd d)) eqn:Ed; [|right; exists d0; auto].
           destruct (drop_under_in (fst d) ds d0 Hin) as [H|H]; [right; exists d0; auto|].
           left. apply fs_get_del_tree_under. destruct Hc as [->|[_ Hp]]; [assumption|eapply is_prefix_trans; eassumption].
  - intros d' H. unfold ds' in H. destruct (is_dir_entry (snd d)); [eapply drop_under_sub; eassumption|assumption].
  - unfold ds'. destruct (is_dir_entry (snd d)); [apply drop_under_len|lia].
Qed.
Lemma Estep_refl s dst : Estep s dst s dst.
Proof. split; auto. Qed.

(* ---------------------------------------------------------------- process_node on a node that is not in the destination *)
Lemma pn_step done y rem s pl dst : nodes = done ++ y :: rem -> KInv done s pl ->
  exists s' pl', process_node o droot s pl (np (fst y)) (snd y) false = (OOk, s', pl') /\
    KInv (done ++ [y]) s' pl' /\ Estep s dst s' dst.
Proof.
  intros Hn [K1 K2 K3 K4 K5 K6].
  assert (Hy : In y nodes) by (rewrite Hn; apply in_or_app; right; left; reflexivity).
  assert (Hsub : forall x, In x (done ++ [y]) -> In x nodes).
  { intros x Hx. apply in_app_or in Hx as [Hx|[<-|[]]]; auto. }
  destruct y as [l it]. simpl fst in *. simpl snd in *. destruct it as [bl sz mt mo|mt mo|t].
  - exists s, (add_file o droot s pl (np l) bl sz mt). split; [reflexivity|]. split; [|apply Estep_refl].
    constructor; auto.
    + intros x Hx Hi. apply in_app_or in Hx as [Hx|[<-|[]]]; [auto|discriminate].
    + rewrite files_of_app. simpl. apply add_file_fresh; [assumption| |].
      * eapply consistent_incl; [|exact N4]. intros f Hf. rewrite Hn, files_of_app. simpl.
        apply in_app_or in Hf as [Hf|[<-|[]]]; apply in_or_app; [left; assumption|right; left; reflexivity].
      * apply (K2 (l, IFile bl sz mt mo) Hy eq_refl).
  - assert (Hdn : forall j, 0 < j <= length l -> exists z, In z nodes /\ fst z = firstn j l /\ is_idir (snd z) = true).
    { intros j Hj. destruct (Nat.eq_dec j (length l)) as [->|Hne].
      - exists (l, IDir mt mo). rewrite firstn_all. auto.
      - destruct (N3 (l, IDir mt mo) j Hy ltac:(simpl; lia)) as (m1 & mo1 & Hz). exists (firstn j l, IDir m1 mo1). auto. }
    destruct (mkdir_all_P droot s l K1) as (s' & E & M1 & M2 & M3).
    { intros j Hj. destruct (Hdn j Hj) as (z & Hz & Ez & Iz). rewrite <- Ez. apply (K3 z Hz Iz). }
    exists s', pl. split; [unfold process_node; rewrite dpath_np, E; reflexivity|].
    assert (Hnew : forall q, fs_get s q = None -> fs_get s' q <> None -> exists z, In z nodes /\ q = Pn droot z /\ is_idir (snd z) = true).
    { intros q Hq Hq'. destruct (M2 q Hq) as [X|(_ & j & Hj & ->)]; [congruence|].
      destruct (Hdn j Hj) as (z & Hz & Ez & Iz). exists z. unfold Pn. rewrite Ez. auto. }
    split; [constructor; auto|].
    + eapply dirs_ok_ext; eassumption.
    + intros x Hx Hi. destruct (fs_get s' (Pn droot x)) eqn:G; [|reflexivity]. exfalso.
      destruct (Hnew (Pn droot x) (K2 x Hx Hi) ltac:(congruence)) as (z & Hz & Ez & Iz).
      unfold Pn in Ez. apply app_inv_head in Ez. assert (x = z) by (apply node_inj; auto). subst. congruence.
    + intros x Hx Hi. destruct (K3 x Hx Hi) as [G|(m1 & mo1 & G)].
      * destruct (M2 _ G) as [X|[X _]]; [left; assumption|right; eexists; eexists; exact X].
      * right. exists m1, mo1. rewrite M1; [assumption|congruence].
    + intros x Hx Hi. apply in_app_or in Hx as [Hx|[<-|[]]].
      * destruct (K4 x Hx Hi) as (m1 & mo1 & G). exists m1, mo1. rewrite M1; [assumption|congruence].
      * specialize (M3 (length l) ltac:(destruct l; [exfalso; apply (N2 _ Hy); reflexivity|simpl; lia])).
        rewrite firstn_all in M3. exact M3.
    + rewrite files_of_app. simpl. rewrite app_nil_r. assumption.
    + split.
      * intros _ q Hq. apply M1. assumption.
      * intros _ q Hnp [Hq|Hc]; [|right; assumption]. left.
        destruct (fs_get s' q) eqn:G; [|reflexivity]. exfalso. apply Hnp.
        destruct (Hnew q Hq ltac:(congruence)) as (z & Hz & Ez & _). exists z. auto.
  - exists s, pl. split; [reflexivity|]. split; [|apply Estep_refl].
    constructor; auto.
    + intros x Hx Hi. apply in_app_or in Hx as [Hx|[<-|[]]]; [auto|discriminate].
    + rewrite files_of_app. simpl. rewrite app_nil_r. assumption.
Qed.

(* ---------------------------------------------------------------- the merge-walk when no entry stands at a snapshot path *)
Local Opaque process_existing process_node.
Lemma collect_fresh : forall fuel done rem s pl dst,
  nodes = done ++ rem -> length dst + length rem < fuel -> KInv done s pl ->
  (forall d, In d dst -> extra_entry d) ->
  exists s1 pl1, collect c fuel o droot s pl dst (map toO rem) = (OOk, s1, pl1) /\
    KInv nodes s1 pl1 /\ Estep s dst s1 [].
Proof.
  induction fuel as [|fuel IH]; intros done rem s pl dst Hn Hf HK Hx; [lia|].
  destruct dst as [|d ds]; destruct rem as [|y ns]; cbn [map toO toS collect].
  - rewrite app_nil_r in Hn. subst done. exists s, pl. split; [reflexivity|]. split; [assumption|apply Estep_refl].
  - destruct (pn_step done y ns s pl [] Hn HK) as (s' & pl' & E & HK' & Es). rewrite E.
    destruct (IH (done ++ [y]) ns s' pl' []) as (s1 & pl1 & E1 & HK1 & Es1); auto.
    + rewrite <- app_assoc. exact Hn.
    + simpl in *. lia.
    + exists s1, pl1. split; [exact E1|]. split; [assumption|eapply Estep_comp; eassumption].
  - destruct (pe_step done s pl d ds HK (Hx d (or_introl eq_refl))) as (s' & ds' & E & HK' & Es & Hsub & Hlen). rewrite E.
    destruct (IH done [] s' pl ds') as (s1 & pl1 & E1 & HK1 & Es1); auto.
    + simpl in *. lia.
    + intros d' Hd'. apply Hx. right. auto.
    + exists s1, pl1. split; [exact E1|]. split; [assumption|eapply Estep_comp; eassumption].
  - destruct (pcmp (map CNormal (fst d)) (cmp_comps droot (np (fst y)))) eqn:Ec.
    + exfalso. rewrite cmp_comps_np in Ec. apply pcmp_normal_eq in Ec.
      destruct (Hx d (or_introl eq_refl)) as [_ Hp].
      assert (Hy : In y nodes) by (rewrite Hn; apply in_or_app; right; left; reflexivity).
      specialize (Hp y Hy). unfold Pn in Hp. rewrite <- Ec, is_prefix_refl in Hp. discriminate.
    + destruct (pe_step done s pl d ds HK (Hx d (or_introl eq_refl))) as (s' & ds' & E & HK' & Es & Hsub & Hlen). rewrite E.
      destruct (IH done (y :: ns) s' pl ds') as (s1 & pl1 & E1 & HK1 & Es1); auto.
      * simpl in *. lia.
      * intros d' Hd'. apply Hx. right. auto.
      * cbn [map toO toS] in E1. exists s1, pl1. split; [exact E1|]. split; [assumption|eapply Estep_comp; eassumption].
    + destruct (pn_step done y ns s pl (d :: ds) Hn HK) as (s' & pl' & E & HK' & Es). rewrite E.
      destruct (IH (done ++ [y]) ns s' pl' (d :: ds)) as (s1 & pl1 & E1 & HK1 & Es1); auto.
      * rewrite <- app_assoc. exact Hn.
      * simpl in *. lia.
      * exists s1, pl1. split; [exact E1|]. split; [assumption|eapply Estep_comp; eassumption].
Qed.
Local Transparent process_existing process_node.

(* ---------------------------------------------------------------- the whole restore *)
Theorem restore_exact_fresh_dest_lemma roots s :
  stream c roots = map toO nodes -> dirs_ok droot s ->
  (forall x, In x nodes -> fs_get s (Pn droot x) = None) ->
  r_out (restore c o droot roots s) = OOk /\
  (forall x, In x nodes -> good droot (r_fs (restore c o droot roots s)) x) /\
  (forall q e, strictly_under droot q = true -> fs_get s q = Some e ->
     if o_delete o then fs_get (r_fs (restore c o droot roots s)) q = None
     else fs_get (r_fs (restore c o droot roots s)) q = Some e).
Proof.
  intros Hst Hok Hfree. unfold restore, collect_and_prepare. rewrite Hst.
  assert (HK0 : KInv [] s plan0).
  { constructor; auto; [intros x []|apply PlanInv0|intros x []]. }
  assert (Hex : forall d, In d (walk droot s) -> extra_entry d).
  { intros d Hd. apply walk_sound in Hd as [Hin Hsu]. split; [assumption|]. intros x Hx.
    destruct (is_prefix (fst d) (Pn droot x)) eqn:E; [exfalso|reflexivity].
    destruct d as [q e]. simpl in *. apply su_inv in Hsu as (l1 & Hl1 & ->).
    apply is_prefix_inv in E as [r E]. unfold Pn in E. rewrite <- app_assoc in E. apply app_inv_head in E.
    destruct r as [|a r].
    - rewrite app_nil_r in E. apply (in_fs_get _ _ _ Hin). rewrite <- E. apply (Hfree x Hx).
    - destruct (N3 x (length l1) Hx) as (m1 & mo1 & Hz).
      { rewrite E, app_length. simpl. destruct l1; [congruence|simpl; lia]. }
      rewrite E, firstn_exact in Hz. apply (in_fs_get _ _ _ Hin). apply (Hfree _ Hz). }
  destruct (collect_fresh (S (length (walk droot s) + length (map toO nodes))) [] nodes s plan0 (walk droot s) eq_refl) as (s1 & pl1 & E1 & HK1 & Es1); auto.
  { rewrite map_length. lia. }
  rewrite E1.
  assert (Hfo : files_ok (files_of nodes)).
  { constructor; [apply files_of_nodup; assumption| |assumption].
    intros [l bl] Hf. apply files_of_in in Hf as (a & b & c' & Hf). apply (N2 _ Hf). }
  assert (Hdirs1 : forall z, In z nodes -> is_idir (snd z) = true -> isdir s1 (Pn droot z)) by (apply (k_done _ _ _ HK1)).
  destruct (restore_contents_fresh c o droot (files_of nodes) s1 Hfo pl1 (k_plan _ _ _ HK1) (k_dirs _ _ _ HK1)) as (s2 & reads & E2 & D2 & C2 & F2).
  { intros [l bl] j Hf Hj. apply files_of_in in Hf as (a & b & c' & Hf). simpl in *.
    destruct (N3 _ j Hf Hj) as (m1 & mo1 & Hz). apply (Hdirs1 _ Hz eq_refl). }
  { intros [l bl] Hf. apply files_of_in in Hf as (a & b & c' & Hf). apply (k_nondir _ _ _ HK1 _ Hf eq_refl). }
  rewrite E2. cbn [r_out r_fs].
  assert (Hnf : forall x, In x nodes -> is_ifile (snd x) = false -> forall f, In f (files_of nodes) -> Pn droot x <> P droot f).
  { intros x Hx Hi [l bl] Hf E. apply files_of_in in Hf as (a & b & c' & Hf). unfold Pn, P in E. simpl in E. apply app_inv_head in E.
    assert (x = (l, IFile bl a b c')) by (apply node_inj; auto). subst x. discriminate. }
  assert (Hdirs2 : forall z, In z nodes -> is_idir (snd z) = true -> isdir s2 (Pn droot z)).
  { intros z Hz Hi. destruct (Hdirs1 z Hz Hi) as (m1 & mo1 & G). exists m1, mo1. rewrite F2; [assumption|].
    apply Hnf; [assumption|destruct (snd z); simpl in *; congruence]. }
  assert (Hpend : all_pend droot nodes s2).
  { intros x Hx. left. unfold ready. destruct x as [l it]. destruct it as [bl sz mt mo|mt mo|t]; simpl snd.
    - apply (C2 (l, bl)). eapply in_files_of. exact Hx.
    - apply (Hdirs2 _ Hx eq_refl).
    - split.
      + rewrite F2 by (apply (Hnf _ Hx eq_refl)). apply (k_nondir _ _ _ HK1 _ Hx eq_refl).
      + unfold Pn. simpl fst. assert (Hl : l <> []) by apply (N2 _ Hx).
        rewrite removelast_app by assumption.
        destruct (removelast l) eqn:Er.
        * rewrite app_nil_r. specialize (D2 (length droot)). rewrite firstn_all in D2. exact D2.
        * assert (Hlen : length (removelast l) = length l - 1) by (rewrite removelast_firstn_len, firstn_length; lia).
          destruct (N3 _ (length l - 1) Hx) as (m1 & mo1 & Hz).
          { simpl. rewrite Er in Hlen. simpl in Hlen. lia. }
          simpl fst in Hz. replace (length l - 1) with (Init.Nat.pred (length l)) in Hz by lia.
          rewrite <- removelast_firstn_len, Er in Hz.
          destruct (Hdirs2 _ Hz eq_refl) as (m2 & mo2 & G). unfold Pn in G. simpl fst in G.
          unfold dir_exists. destruct (droot ++ n :: l0) eqn:Ep; [reflexivity|]. rewrite G. reflexivity. }
  destruct (metadata_pass_exact droot nodes N1 N2 s2 Hpend) as [G3 F3].
  split; [reflexivity|]. split; [exact G3|].
  intros q e Hsu Hq.
  assert (Hnn : forall x, In x nodes -> q <> Pn droot x).
  { intros x Hx ->. rewrite (Hfree x Hx) in Hq. discriminate. }
  rewrite F3 by assumption. rewrite F2.
  2:{ intros [l bl] Hf. apply files_of_in in Hf as (a & b & c' & Hf). apply (Hnn _ Hf). }
  destruct Es1 as [Ek Ed]. destruct (o_delete o) eqn:Edel.
  - destruct (Ed eq_refl q) as [X|(d & [] & _)]; [intros (x & Hx & ->); apply (Hnn x Hx); reflexivity| |exact X].
    right. exists (q, e). split; [apply walk_complete; [apply fs_get_in; assumption|assumption]|left; reflexivity].
  - rewrite Ek; [assumption|reflexivity|congruence].
Qed.
End Fresh.
