(* C14 — restore_exact_fresh_dest for the code as extracted, with a satisfiability example. *)
From Verif.Base Require Import Tactics.
From Verif.C14 Require Import Model Extracted Witness Proofs Exact1 Exact2 Exact3 Exact4 Exact5.

(* the node stream of a snapshot: relative paths (single normal components joined), pre-order;
   unique paths, no empty path, every proper prefix of a path is a directory node of the stream,
   one (pack, location) = one byte string *)
Definition nodes_ok (nodes : list nodeT) : Prop :=
  NoDup (map fst nodes) /\ (forall x, In x nodes -> fst x <> []) /\
  (forall x j, In x nodes -> (0 < j < length (fst x))%nat -> exists mt mo, In (firstn j (fst x), IDir mt mo) nodes) /\
  consistent (files_of nodes).

Lemma restore_exact_fresh_dest_code : forall o droot roots nodes s,
  stream code_cfg roots = map toO nodes -> nodes_ok nodes -> dirs_ok droot s ->
  (forall x, In x nodes -> fs_get s (Pn droot x) = None) ->
  r_out (restore code_cfg o droot roots s) = OOk /\
  (forall x, In x nodes -> good droot (r_fs (restore code_cfg o droot roots s)) x) /\
  (forall q e, strictly_under droot q = true -> fs_get s q = Some e ->
     if o_delete o then fs_get (r_fs (restore code_cfg o droot roots s)) q = None
     else fs_get (r_fs (restore code_cfg o droot roots s)) q = Some e).
Proof.
  intros o droot roots nodes s Hst (N1 & N2 & N3 & N4). apply restore_exact_fresh_dest_lemma; assumption.
Qed.

Local Open Scope N_scope.
(* example: two files sharing blobs (one with an all-zero blob), a directory, a symlink; the
   destination holds an extra file and an extra directory with a file *)
Definition kA := mkB 100 0 [1; 2].
Definition kB := mkB 100 10 [0; 0].
Definition snapY : list node :=
  [ Node (nm 1) (IFile [kA; kB] 4 1000 420) [];
    Node (nm 3) (IDir 2000 493) [ Node (nm 1) (IFile [kB; kA; kB] 6 1000 384) []; Node (nm 3) (ILink 7) [] ] ].
Definition nodesY : list nodeT :=
  [ ([1], IFile [kA; kB] 4 1000 420); ([3], IDir 2000 493);
    ([3; 1], IFile [kB; kA; kB] 6 1000 384); ([3; 3], ILink 7) ].
Definition worldY : fs := world0 ++
  [ ([1; 2; 0], EFile [5] 3000 420); ([1; 2; 9], EDir 3000 493); ([1; 2; 9; 1], EFile [4] 3000 420) ].

Lemma exampleY_hyps :
  stream code_cfg snapY = map toO nodesY /\ nodes_ok nodesY /\ dirs_ok droot0 worldY /\
  (forall x, In x nodesY -> fs_get worldY (Pn droot0 x) = None).
Proof.
  split; [reflexivity|]. split; [|split].
  - split; [|split; [|split]].
    + simpl. repeat constructor; simpl; intuition discriminate.
    + intros x Hx. simpl in Hx. intuition (subst; discriminate).
    + intros x j Hx Hj. simpl in Hx.
      destruct Hx as [<-|[<-|[<-|[<-|[]]]]]; simpl in Hj; try lia;
        (assert (j = 1%nat) by lia; subst j; simpl; exists 2000, 493; auto).
    + intros f f' b b' Hf Hf' Hb Hb' Hk. simpl in Hf, Hf'.
      destruct Hf as [<-|[<-|[]]]; destruct Hf' as [<-|[<-|[]]]; simpl in Hb, Hb';
        intuition (subst; try reflexivity; discriminate).
  - intros [|[|[|k]]]; reflexivity.
  - intros x Hx. simpl in Hx. destruct Hx as [<-|[<-|[<-|[<-|[]]]]]; reflexivity.
Qed.
