(* C14 — the node stream of a tree whose names are single normal components is the pre-order
   flattening of the tree; restore_exact_fresh_dest stated on the tree. *)
From Verif.Base Require Import Tactics.
From Verif.C14 Require Import Model Extracted Witness Proofs Exact1 Exact2 Exact3 Exact4 Exact5 Exact6.

Fixpoint flat_node (pre : list name) (n : node) : list nodeT :=
  match n with
  | Node nm it ch =>
    match nm with
    | mkP false [CNormal a] =>
      (pre ++ [a], it) ::
      (if is_idir it
       then (fix go (ch : list node) : list nodeT :=
               match ch with [] => [] | x :: cs => flat_node (pre ++ [a]) x ++ go cs end) ch
       else [])
    | _ => []
    end
  end.
Fixpoint flat_list (pre : list name) (ch : list node) : list nodeT :=
  match ch with [] => [] | x :: cs => flat_node pre x ++ flat_list pre cs end.
(* every name (of the nodes the streamer visits) is a single normal component *)
Fixpoint nnb (n : node) : bool :=
  match n with Node nm it ch => name_ok nm && (if is_idir it then forallb nnb ch else true) end.

Lemma flat_go_eq p : forall ch,
  (fix go (ch : list node) : list nodeT :=
     match ch with [] => [] | x :: cs => flat_node p x ++ go cs end) ch = flat_list p ch.
Proof. induction ch; simpl; [reflexivity|]. rewrite IHch. reflexivity. Qed.

Lemma stream_node_flat c : forall n pre, nnb n = true ->
  stream_node c (np pre) n = (map toO (flat_node pre n), np pre).
Proof.
  induction n as [nm it ch IH] using node_ind'. intros pre H. simpl in H.
  apply andb_true_iff in H as [Hn Hc]. destruct (name_ok_np _ Hn) as [a ->].
  cbn [stream_node]. rewrite Hn. rewrite andb_false_r. rewrite pjoin_np.
  change (np [a]) with (mkP false [CNormal a]). cbn [flat_node].
  destruct (is_idir it) eqn:Ed.
  - rewrite stream_go_eq, flat_go_eq.
    assert (HL : forall ch p, Forall (fun n => forall pre, nnb n = true -> stream_node c (np pre) n = (map toO (flat_node pre n), np pre)) ch ->
                 forallb nnb ch = true -> stream_list c (np p) ch = (map toO (flat_list p ch), np p)).
    { clear. induction ch as [|x cs IHc]; intros p HF Hb; simpl; [reflexivity|].
      simpl in Hb. apply andb_true_iff in Hb as [Hx Hcs]. inv HF.
      rewrite (H1 p Hx). rewrite (IHc p H2 Hcs). rewrite map_app. reflexivity. }
    rewrite (HL ch (pre ++ [a]) IH Hc). rewrite ppop_np, removelast_last. reflexivity.
  - reflexivity.
Qed.

Lemma stream_flat c roots : forallb nnb roots = true -> stream c roots = map toO (flat_list [] roots).
Proof.
  intros H. unfold stream. change pempty with (np []).
  assert (HL : forall ch p, forallb nnb ch = true -> stream_list c (np p) ch = (map toO (flat_list p ch), np p)).
  { induction ch as [|x cs IHc]; intros p Hb; simpl; [reflexivity|].
    simpl in Hb. apply andb_true_iff in Hb as [Hx Hcs].
    rewrite (stream_node_flat c x p Hx), (IHc p Hcs), map_app. reflexivity. }
  rewrite (HL roots [] H). reflexivity.
Qed.

Lemma restore_exact_fresh_dest_tree_lemma : forall o droot roots s,
  forallb nnb roots = true -> nodes_ok (flat_list [] roots) -> dirs_ok droot s ->
  (forall x, In x (flat_list [] roots) -> fs_get s (Pn droot x) = None) ->
  r_out (restore code_cfg o droot roots s) = OOk /\
  (forall x, In x (flat_list [] roots) -> good droot (r_fs (restore code_cfg o droot roots s)) x) /\
  (forall q e, strictly_under droot q = true -> fs_get s q = Some e ->
     if o_delete o then fs_get (r_fs (restore code_cfg o droot roots s)) q = None
     else fs_get (r_fs (restore code_cfg o droot roots s)) q = Some e).
Proof.
  intros o droot roots s Hn Hok Hd Hfree. apply restore_exact_fresh_dest_code; auto. apply stream_flat. assumption.
Qed.

Lemma exampleY_tree : forallb nnb snapY = true /\ flat_list [] snapY = nodesY.
Proof. split; reflexivity. Qed.
