(* C14 — restore_contents on a plan with REAL match flags: files that do not exist, files that
   exist with another size (preexisting, nothing matches) and files that exist with the snapshot's
   size (per-blob flags).  Locations flagged `matches` are not written; a (pack, location) entry
   with a matching location is read from that existing file (`from_file`) instead of the pack and
   written to the other files.  Afterwards every planned file is the concatenation of its blobs.
   Invariant per byte: already the snapshot's byte, or still the byte of the base content (old
   bytes resized, or zeros of the allocation) and not covered by a processed location. *)
From Verif.Base Require Import Tactics.
From Verif.C14 Require Import Model Proofs Exact1 Exact2 Exact3.

(* a planned file: (relative path, blobs) and the content of the regular file that exists there *)
Notation gfileT := (fileT * option (list N))%type.
Definition gf_len (g : gfileT) : nat := blen (snd (fst g)).
Definition gbeta (g : gfileT) : list N :=
  match snd g with None => zeros (gf_len g) | Some d0 => resize d0 (gf_len g) end.
Definition gpre (g : gfileT) : bool := match snd g with Some _ => true | None => false end.
(* the flag of location kk may only be set if the existing file has the snapshot's size and holds the blob there *)
Definition gmatch_ok (g : gfileT) (kk : nat) (b : blob) : Prop :=
  exists d0, snd g = Some d0 /\ length d0 = gf_len g /\
    firstn (dlen b) (skipn (blen (firstn kk (snd (fst g)))) d0) = b_data b.

Definition gpointwise (g : gfileT) (S : list job) (i : nat) (d : list N) : Prop :=
  forall x, x < gf_len g ->
    nth x d 0%N = nth x (econt (snd (fst g))) 0%N \/ (nth x d 0%N = nth x (gbeta g) 0%N /\ ~ covered S i x).
Definition gfstate droot (s : fs) (sizes : list N) (S : list job) (i : nat) (g : gfileT) : Prop :=
  (nth i sizes 0%N = N.of_nat (gf_len g) /\ 0 < gf_len g /\ (forall x, ~ covered S i x) /\
     match snd g with
     | None => fs_get s (P droot (fst g)) = None
     | Some d0 => exists mt mo, fs_get s (P droot (fst g)) = Some (EFile d0 mt mo)
     end)
  \/ (nth i sizes 0%N = 0%N /\ exists d mt mo, fs_get s (P droot (fst g)) = Some (EFile d mt mo) /\
        length d = gf_len g /\ gpointwise g S i d).

Record GInv droot (gfiles : list gfileT) (s0 s : fs) (sizes : list N) (S : list job) : Prop := mkGI {
  gi_dirs : dirs_ok droot s;
  gi_par : parents_ok droot (map fst gfiles) s;
  gi_len : length sizes = length gfiles;
  gi_files : forall i g, nth_error gfiles i = Some g -> gfstate droot s sizes S i g;
  gi_frame : forall q, (forall g, In g gfiles -> q <> P droot (fst g)) -> fs_get s q = fs_get s0 q }.

Definition gvjob (gfiles : list gfileT) (j : job) : Prop :=
  exists g kk b, nth_error gfiles (fl_idx (snd j)) = Some g /\ nth_error (snd (fst g)) kk = Some b /\
    fl_start (snd j) = N.of_nat (blen (firstn kk (snd (fst g)))) /\ fst j = b_data b /\
    (fl_matches (snd j) = true -> gmatch_ok g kk b).

Lemma resize_length d n : length (resize d n) = n.
Proof. unfold resize. rewrite app_length, firstn_length, zeros_length. lia. Qed.
Lemma resize_same d : resize d (length d) = d.
Proof. unfold resize. rewrite firstn_all, Nat.sub_diag. apply app_nil_r. Qed.
Lemma gbeta_length g : length (gbeta g) = gf_len g.
Proof. unfold gbeta. destruct (snd g); [apply resize_length|apply zeros_length]. Qed.

Lemma gnodup_idx (gfiles : list gfileT) i i' g g' :
  NoDup (map fst (map fst gfiles)) -> nth_error gfiles i = Some g -> nth_error gfiles i' = Some g' ->
  fst (fst g) = fst (fst g') -> i = i'.
Proof.
  intros Hn H1 H2 E. apply (nodup_fst_idx (map fst gfiles) i i' (fst g) (fst g')); auto; apply map_nth_error; assumption.
Qed.

Lemma set_length_existing_P droot s l n d0 mt mo :
  dirs_ok droot s -> l <> [] ->
  (forall j, 0 < j < length l -> isdir s (droot ++ firstn j l)) ->
  fs_get s (droot ++ l) = Some (EFile d0 mt mo) ->
  set_length s (droot ++ l) n = Some (fs_set s (droot ++ l) (EFile (resize d0 (N.to_nat n)) new_mtime mo)).
Proof.
  intros Hok Hl Hp Hg. unfold set_length.
  destruct (droot ++ l) eqn:E; [destruct droot; destruct l; try discriminate; congruence|]. rewrite <- E in *.
  rewrite removelast_app by assumption.
  rewrite (mkdir_all_noop droot s (removelast l) Hok).
  - rewrite Hg. reflexivity.
  - intros j Hj. assert (length (removelast l) = length l - 1).
    { rewrite removelast_firstn_len, firstn_length. lia. }
    rewrite removelast_firstn_eq by lia. apply Hp. lia.
Qed.

Lemma GInv_update droot gfiles s0 s sizes S s' sizes' g d fl dnew mt mo :
  files_ok (map fst gfiles) -> GInv droot gfiles s0 s sizes S ->
  nth_error gfiles (fl_idx fl) = Some g ->
  fs_get s' (P droot (fst g)) = Some (EFile dnew mt mo) ->
  (forall q, q <> P droot (fst g) -> fs_get s' q = fs_get s q) ->
  (forall m mo', fs_get s (P droot (fst g)) <> Some (EDir m mo')) ->
  length sizes' = length sizes -> nth (fl_idx fl) sizes' 0%N = 0%N ->
  (forall i, i <> fl_idx fl -> nth i sizes' 0%N = nth i sizes 0%N) ->
  length dnew = gf_len g -> gpointwise g ((d, fl) :: S) (fl_idx fl) dnew ->
  GInv droot gfiles s0 s' sizes' ((d, fl) :: S).
Proof.
  intros Hfo [Hd Hp Hl Hf Hfr] Hnth Hg Hoth Hnd Hl' Hz Hsz Hdl Hpw.
  assert (Hin : In (fst g) (map fst gfiles)) by (apply in_map; eapply nth_error_In; eassumption).
  constructor.
  - eapply dirs_ok_frame; [exact Hd|]. intros q Hq. apply Hoth. intros ->. rewrite (su_P _ _ _ Hfo Hin) in Hq. discriminate.
  - intros f' j Hf' Hj. destruct (Hp f' j Hf' Hj) as (m & mo' & Hq). exists m, mo'.
    rewrite Hoth; [assumption|]. intros E. rewrite E in Hq. apply (Hnd _ _ Hq).
  - congruence.
  - intros i g' Hi. destruct (Nat.eq_dec i (fl_idx fl)) as [->|Hne].
    + rewrite Hnth in Hi. inv Hi. right. split; [assumption|]. exists dnew, mt, mo. auto.
    + assert (HP : P droot (fst g') <> P droot (fst g)).
      { intros E. apply Hne. eapply gnodup_idx; eauto using fo_nodup. apply P_inj in E. assumption. }
      destruct (Hf i g' Hi) as [(A1 & A2 & A3 & A4)|(B1 & d0 & m0 & mo0 & B2 & B3 & B4)].
      * left. rewrite Hsz by assumption. rewrite Hoth by assumption. repeat split; try assumption.
        intros x Hc. apply (A3 x). eapply covered_cons_other; [|exact Hc]. congruence.
      * right. rewrite Hsz by assumption. split; [assumption|]. exists d0, m0, mo0. rewrite Hoth by assumption.
        repeat split; try assumption. intros x Hx. destruct (B4 x Hx) as [X|[X Y]]; [left; assumption|right].
        split; [assumption|]. intros Hc. apply Y. eapply covered_cons_other; [|exact Hc]. congruence.
  - intros q Hq. rewrite Hoth; [apply Hfr; assumption|]. apply Hq. eapply nth_error_In. eassumption.
Qed.

Lemma gtile_pointwise (g : gfileT) kk b S i d fl dold dnew :
  nth_error (snd (fst g)) kk = Some b -> d = b_data b -> fl_idx fl = i ->
  fl_start fl = N.of_nat (blen (firstn kk (snd (fst g)))) ->
  length dold = gf_len g -> gpointwise g S i dold ->
  (dnew = write_bytes dold (blen (firstn kk (snd (fst g)))) d \/
   (all_zero d = true /\ dnew = dold /\ forall x, nth x (gbeta g) 0%N = 0%N)) ->
  length dnew = gf_len g /\ gpointwise g ((d, fl) :: S) i dnew.
Proof.
  intros Hk Hd Hi Hs Hl Hpw Hnew. unfold gf_len in *.
  destruct (tile_in_econt _ _ _ Hk) as [Hb Hy]. set (st := blen (firstn kk (snd (fst g)))) in *.
  assert (Hdl : length d = dlen b) by (subst d; reflexivity).
  assert (Hnc : forall x, ~ (st <= x < st + length d) -> ~ covered S i x -> ~ covered ((d, fl) :: S) i x).
  { intros x Hr Hc (d' & fl' & [H|H] & Hi' & Hr').
    - inv H. apply Hr. rewrite Hs in Hr'. unfold st. lia.
    - apply Hc. exists d', fl'. auto. }
  destruct Hnew as [->|(Hz & -> & Hb0)].
  - destruct (write_bytes_spec dold st d) as [L Nn]; [lia|]. split; [lia|].
    intros x Hx. rewrite Nn.
    destruct (st <=? x) eqn:E1; simpl; [destruct (x <? st + length d) eqn:E2|].
    + left. apply Nat.leb_le in E1. apply Nat.ltb_lt in E2.
      replace x with (st + (x - st)) at 2 by lia. rewrite Hy by lia. subst d. reflexivity.
    + apply Nat.leb_le in E1. apply Nat.ltb_ge in E2.
      destruct (Hpw x Hx) as [X|[X Y]]; [left; assumption|right; split; [assumption|apply Hnc; [lia|assumption]]].
    + apply Nat.leb_gt in E1.
      destruct (Hpw x Hx) as [X|[X Y]]; [left; assumption|right; split; [assumption|apply Hnc; [lia|assumption]]].
  - split; [assumption|]. intros x Hx.
    destruct (Hpw x Hx) as [X|[X Y]]; [left; assumption|].
    destruct (Nat.le_gt_cases st x) as [H1|H1]; [destruct (Nat.lt_ge_cases x (st + length d)) as [H2|H2]|].
    + left. rewrite X, Hb0. replace x with (st + (x - st)) by lia. rewrite Hy by lia.
      rewrite <- Hd. symmetry. apply all_zero_nth. assumption.
    + right. split; [assumption|apply Hnc; [lia|assumption]].
    + right. split; [assumption|apply Hnc; [lia|assumption]].
Qed.

Section GContents.
Variables (c : cfg) (o : opts) (droot : apath) (gfiles : list gfileT) (s0 : fs).
Let names := map (fun g : gfileT => np (fst (fst g))) gfiles.
Let pre := map gpre gfiles.
Hypothesis Hfo : files_ok (map fst gfiles).
Hypothesis Hsp : c_sparse_pre c = true.

Lemma gwrite_dest_step s sizes S d fl :
  GInv droot gfiles s0 s sizes S -> gvjob gfiles (d, fl) ->
  exists s' sizes', write_dest c o droot names pre d (Some (s, sizes)) fl = Some (s', sizes') /\
    GInv droot gfiles s0 s' sizes' ((d, fl) :: S).
Proof.
  intros HC (g & kk & b & Hf & Hk & Hst & Hd & _). simpl in *.
  assert (Hin : In (fst g) (map fst gfiles)) by (apply in_map; eapply nth_error_In; eassumption).
  assert (Hidx : fl_idx fl < length sizes).
  { rewrite (gi_len _ _ _ _ _ _ HC). apply nth_error_Some. rewrite Hf. discriminate. }
  assert (Hne : fst (fst g) <> []) by (apply (fo_ne _ Hfo); assumption).
  unfold write_dest, nth_name, names. rewrite (map_nth_error _ _ _ Hf). rewrite dpath_np. fold (P droot (fst g)).
  unfold pre. rewrite (nth_map_nth_error gpre false _ _ _ Hf). rewrite Hsp. cbn [andb].
  assert (Hpar : forall j, 0 < j < length (fst (fst g)) -> isdir s (droot ++ firstn j (fst (fst g))))
    by (intros j Hj; apply (gi_par _ _ _ _ _ _ HC (fst g) j Hin Hj)).
  assert (Halloc : exists s1 sizes1 dold m1 mo1,
    (if (0 <? nth (fl_idx fl) sizes 0)%N
     then match set_length s (P droot (fst g)) (nth (fl_idx fl) sizes 0%N) with
          | Some s' => Some (s', set_nth sizes (fl_idx fl) 0%N) | None => None end
     else Some (s, sizes)) = Some (s1, sizes1) /\
    fs_get s1 (P droot (fst g)) = Some (EFile dold m1 mo1) /\
    (forall q, q <> P droot (fst g) -> fs_get s1 q = fs_get s q) /\
    length sizes1 = length sizes /\ nth (fl_idx fl) sizes1 0%N = 0%N /\
    (forall i, i <> fl_idx fl -> nth i sizes1 0%N = nth i sizes 0%N) /\
    length dold = gf_len g /\ gpointwise g S (fl_idx fl) dold).
  { destruct (gi_files _ _ _ _ _ _ HC _ _ Hf) as [(A1 & A2 & A3 & A4)|(B1 & d0 & m0 & mo0 & B2 & B3 & B4)].
    - rewrite A1. replace (0 <? N.of_nat (gf_len g))%N with true by (symmetry; apply N.ltb_lt; lia).
      unfold P in *.
      assert (Hcommon : forall e, exists s1 sizes1, Some (fs_set s (droot ++ fst (fst g)) e, set_nth sizes (fl_idx fl) 0%N) = Some (s1, sizes1) /\
                fs_get s1 (droot ++ fst (fst g)) = Some e /\
                (forall q, q <> droot ++ fst (fst g) -> fs_get s1 q = fs_get s q) /\
                length sizes1 = length sizes /\ nth (fl_idx fl) sizes1 0%N = 0%N /\
                (forall i, i <> fl_idx fl -> nth i sizes1 0%N = nth i sizes 0%N)).
      { intros e. eexists _, _. split; [reflexivity|]. split; [apply get_set_same|].
        split; [intros q Hq; apply get_set_other; apply path_eqb_neq; congruence|].
        split; [apply set_nth_length|]. split; [apply nth_set_nth_same; assumption|].
        intros i Hi; apply nth_set_nth_other; congruence. }
      destruct (snd g) as [d0|] eqn:Eg.
      + destruct A4 as (mt0 & mo0 & A4).
        rewrite (set_length_existing_P droot s _ _ d0 mt0 mo0 (gi_dirs _ _ _ _ _ _ HC) Hne Hpar A4). rewrite Nat2N.id.
        destruct (Hcommon (EFile (resize d0 (gf_len g)) new_mtime mo0)) as (s1 & sz1 & E1 & G1 & O1 & L1 & Z1 & Oth1).
        exists s1, sz1, (resize d0 (gf_len g)), new_mtime, mo0. repeat split; auto; [apply resize_length|].
        intros x Hx. right. split; [unfold gbeta; rewrite Eg; reflexivity|apply A3].
      + rewrite (set_length_fresh_P droot s _ _ (gi_dirs _ _ _ _ _ _ HC) Hne Hpar A4). rewrite Nat2N.id.
        destruct (Hcommon (EFile (zeros (gf_len g)) new_mtime new_fmode)) as (s1 & sz1 & E1 & G1 & O1 & L1 & Z1 & Oth1).
        exists s1, sz1, (zeros (gf_len g)), new_mtime, new_fmode. repeat split; auto; [apply zeros_length|].
        intros x Hx. right. split; [unfold gbeta; rewrite Eg; reflexivity|apply A3].
    - rewrite B1. simpl. exists s, sizes, d0, m0, mo0. repeat split; auto. }
  destruct Halloc as (s1 & sizes1 & dold & m1 & mo1 & Ea & G1 & O1 & L1 & Z1 & Oth1 & Ld & Pw).
  rewrite Ea.
  assert (Hnd : forall m mo', fs_get s (P droot (fst g)) <> Some (EDir m mo')).
  { intros m mo' E. destruct (gi_files _ _ _ _ _ _ HC _ _ Hf) as [(_ & _ & _ & A4)|(_ & d0 & m0 & mo0 & B2 & _)]; [|congruence].
    destruct (snd g); [destruct A4 as (? & ? & A4)|]; congruence. }
  destruct (o_sparse o && all_zero d && negb (gpre g)) eqn:Esk.
  - (* the hole: only in a file created by this restore *)
    apply andb_true_iff in Esk as [Esk Hpre]. apply andb_true_iff in Esk as [_ Hz].
    assert (Hb0 : forall x, nth x (gbeta g) 0%N = 0%N).
    { intros x. unfold gbeta, gpre in *. destruct (snd g); [discriminate|apply nth_zeros]. }
    destruct (gtile_pointwise g kk b S (fl_idx fl) d fl dold dold Hk Hd eq_refl Hst Ld Pw (or_intror (conj Hz (conj eq_refl Hb0)))) as [L2 Pw2].
    exists s1, sizes1. split; [reflexivity|]. eapply GInv_update; eauto.
  - unfold write_at. rewrite G1.
    destruct (gtile_pointwise g kk b S (fl_idx fl) d fl dold _ Hk Hd eq_refl Hst Ld Pw (or_introl eq_refl)) as [L2 Pw2].
    rewrite Hst, Nat2N.id.
    eexists _, sizes1. split; [reflexivity|].
    eapply GInv_update; eauto.
    + apply get_set_same.
    + intros q Hq. rewrite get_set_other by (apply path_eqb_neq; congruence). apply O1. assumption.
Qed.

Lemma gwrite_dests_inv d : forall fls s sizes S,
  GInv droot gfiles s0 s sizes S -> (forall fl, In fl fls -> gvjob gfiles (d, fl)) ->
  exists s' sizes' S', fold_left (write_dest c o droot names pre d) fls (Some (s, sizes)) = Some (s', sizes') /\
    GInv droot gfiles s0 s' sizes' S' /\ (forall j, In j S -> In j S') /\ (forall fl, In fl fls -> In (d, fl) S').
Proof.
  induction fls as [|fl t IH]; intros s sizes S HC Hv.
  - exists s, sizes, S. split; [reflexivity|]. split; [exact HC|]. split; [auto|]. intros fl [].
  - cbn [fold_left]. destruct (gwrite_dest_step s sizes S d fl HC (Hv fl (or_introl eq_refl))) as (s1 & sz1 & E & HC1).
    rewrite E. destruct (IH s1 sz1 _ HC1 (fun fl' H => Hv fl' (or_intror H))) as (s' & sz' & S' & E' & HC' & I1 & I2).
    exists s', sz', S'. split; [exact E'|]. split; [exact HC'|]. split.
    + intros j Hj. apply I1. right. assumption.
    + intros fl' [<-|H]; [apply I1; left; reflexivity|auto].
Qed.

(* a location flagged `matches` still holds its blob: read_at returns the blob's bytes *)
Lemma gread_matching s sizes S d fl :
  GInv droot gfiles s0 s sizes S -> gvjob gfiles (d, fl) -> fl_matches fl = true ->
  exists nm, nth_name names (fl_idx fl) = Some nm /\ read_at s (dpath droot nm) (fl_start fl) (nlen d) = Some d.
Proof.
  intros HC (g & kk & b & Hf & Hk & Hst & Hd & Hm) Hfl. simpl in *.
  destruct (Hm Hfl) as (d0 & Eg & Ld0 & Hslice).
  exists (np (fst (fst g))). split; [unfold nth_name, names; rewrite (map_nth_error (fun g : gfileT => np (fst (fst g))) _ _ Hf); reflexivity|].
  rewrite dpath_np. fold (P droot (fst g)).
  destruct (tile_in_econt _ _ _ Hk) as [Hb Hy]. set (st := blen (firstn kk (snd (fst g)))) in *.
  assert (Hbeta : gbeta g = d0) by (unfold gbeta; rewrite Eg, <- Ld0; apply resize_same).
  assert (Hcur : exists dc mt mo, fs_get s (P droot (fst g)) = Some (EFile dc mt mo) /\ length dc = gf_len g /\
                   forall y, y < dlen b -> nth (st + y) dc 0%N = nth y (b_data b) 0%N).
  { assert (Hd0 : forall y, y < dlen b -> nth (st + y) d0 0%N = nth y (b_data b) 0%N).
    { intros y Hy'. rewrite <- Hslice. rewrite nth_firstn_lt by assumption. rewrite nth_skipn_add. reflexivity. }
    destruct (gi_files _ _ _ _ _ _ HC _ _ Hf) as [(A1 & A2 & A3 & A4)|(B1 & dc & mt & mo & B2 & B3 & B4)].
    - rewrite Eg in A4. destruct A4 as (mt & mo & A4). exists d0, mt, mo. auto.
    - exists dc, mt, mo. split; [assumption|]. split; [assumption|]. intros y Hy'.
      destruct (B4 (st + y)) as [X|[X _]]; [unfold gf_len; lia| |].
      + rewrite X. apply Hy. assumption.
      + rewrite X, Hbeta. apply Hd0. assumption. }
  destruct Hcur as (dc & mt & mo & G & L & Hn).
  unfold read_at. rewrite G. rewrite Hst, Nat2N.id. unfold nlen. rewrite Nat2N.id.
  assert (Hdl : length d = dlen b) by (subst d; reflexivity).
  replace (st + length d <=? length dc) with true by (symmetry; apply Nat.leb_le; unfold gf_len in L; lia).
  f_equal. apply (nth_ext _ _ 0%N 0%N).
  - rewrite firstn_length, skipn_length. unfold gf_len in L. lia.
  - intros x Hx. rewrite firstn_length, skipn_length in Hx.
    rewrite nth_firstn_lt by lia. rewrite nth_skipn_add. rewrite Hn by lia. subst d. reflexivity.
Qed.

Lemma gdo_entries_inv : forall r s sizes reads S,
  GInv droot gfiles s0 s sizes S ->
  (forall k d fls fl, In (k, (d, fls)) r -> In fl fls -> gvjob gfiles (d, fl)) ->
  exists s' sizes' reads' S', fold_left (do_entry c o droot names pre) r (Some (s, sizes, reads)) = Some (s', sizes', reads') /\
    GInv droot gfiles s0 s' sizes' S' /\ (forall j, In j S -> In j S') /\
    (forall k d fls fl, In (k, (d, fls)) r -> In fl fls -> fl_matches fl = false -> In (d, fl) S').
Proof.
  induction r as [|[k [d fls]] t IH]; intros s sizes reads S HC Hv.
  - exists s, sizes, reads, S. split; [reflexivity|]. split; [exact HC|]. split; [auto|]. intros k d fls fl [].
  - cbn [fold_left].
    assert (Hv0 : forall fl, In fl fls -> gvjob gfiles (d, fl)) by (intros fl H; apply (Hv k d fls fl); [left; reflexivity|assumption]).
    set (dests := filter (fun fl => negb (fl_matches fl)) fls).
    assert (Hvd : forall fl, In fl dests -> gvjob gfiles (d, fl)) by (intros fl H; apply filter_In in H as [H _]; auto).
    destruct (gwrite_dests_inv d dests s sizes S HC Hvd) as (s1 & sz1 & S1 & E1 & HC1 & I1 & I2).
    assert (Estep : exists reads1, do_entry c o droot names pre (Some (s, sizes, reads)) (k, (d, fls)) = Some (s1, sz1, reads1)).
    { unfold do_entry. fold dests. destruct dests as [|fl0 dests'] eqn:Ed; [simpl in E1; inv E1; eauto|].
      destruct (find fl_matches fls) as [flm|] eqn:Efind.
      - apply find_some in Efind as [Hin Hm].
        destruct (gread_matching s sizes S d flm HC (Hv0 flm Hin) Hm) as (nm & En & Er).
        rewrite En, Er. rewrite E1. eauto.
      - rewrite E1. eauto. }
    destruct Estep as [reads1 Estep]. rewrite Estep.
    destruct (IH s1 sz1 reads1 S1 HC1) as (s' & sz' & rd' & S' & E' & HC' & J1 & J2).
    { intros k' d' fls' fl' H. apply (Hv k' d' fls' fl'). right. assumption. }
    exists s', sz', rd', S'. split; [exact E'|]. split; [exact HC'|]. split; [auto|].
    intros k' d' fls' fl' [H|H] Hfl Hm; [inv H; apply J1; apply I2; apply filter_In; split; [assumption|rewrite Hm; reflexivity]|eapply J2; eassumption].
Qed.
Definition gstate0 (s : fs) (g : gfileT) : Prop :=
  match snd g with
  | None => fs_get s (P droot (fst g)) = None
  | Some d0 => exists mt mo, fs_get s (P droot (fst g)) = Some (EFile d0 mt mo)
  end.

Lemma gcreate_empty_spec : forall (gl : list gfileT) s,
  dirs_ok droot s -> NoDup (map fst (map fst gl)) -> (forall g, In g gl -> fst (fst g) <> []) ->
  parents_ok droot (map fst gl) s -> (forall g, In g gl -> gstate0 s g) ->
  exists s', create_empty droot s (map (fun g : gfileT => np (fst (fst g))) gl) (map (fun g : gfileT => N.of_nat (gf_len g)) gl) = Some s' /\
    dirs_ok droot s' /\
    (forall g, In g gl -> gf_len g = 0 -> exists mt mo, fs_get s' (P droot (fst g)) = Some (EFile [] mt mo)) /\
    (forall q, (forall g, In g gl -> gf_len g = 0 -> q <> P droot (fst g)) -> fs_get s' q = fs_get s q).
Proof.
  induction gl as [|g t IH]; intros s Hok Hn Hne Hp Hg.
  - exists s. simpl. split; [reflexivity|]. split; [assumption|]. split; [intros g []|auto].
  - simpl. inv Hn.
    assert (Htl : forall g', In g' t -> P droot (fst g') <> P droot (fst g)).
    { intros g' Hg' E. apply P_inj in E. apply H1. rewrite <- E. apply in_map. apply in_map. assumption. }
    assert (Hne' : forall g', In g' t -> fst (fst g') <> []) by (intros g' Hg'; apply Hne; right; assumption).
    assert (Hp' : forall s', (forall q, q <> P droot (fst g) -> fs_get s' q = fs_get s q) ->
                  (forall m mo, fs_get s (P droot (fst g)) <> Some (EDir m mo)) -> parents_ok droot (map fst t) s').
    { intros s' Hs' Hnd f' j Hf' Hj. destruct (Hp f' j (or_intror Hf') Hj) as (m & mo & Hq). exists m, mo.
      rewrite Hs'; [assumption|]. intros E. rewrite E in Hq. apply (Hnd _ _ Hq). }
    assert (Hnd : forall m mo, fs_get s (P droot (fst g)) <> Some (EDir m mo)).
    { intros m mo E. specialize (Hg g (or_introl eq_refl)). unfold gstate0 in Hg. destruct (snd g); [destruct Hg as (? & ? & Hg)|]; congruence. }
    destruct (gf_len g) eqn:Eb.
    + simpl. rewrite dpath_np. fold (P droot (fst g)).
      assert (Hset : exists e, set_length s (P droot (fst g)) 0 = Some (fs_set s (P droot (fst g)) e) /\ exists mt mo, e = EFile [] mt mo).
      { pose proof (Hg g (or_introl eq_refl)) as G. unfold gstate0 in G. unfold P in *. destruct (snd g) as [d0|].
        - destruct G as (mt & mo & G). eexists. split; [apply (set_length_existing_P droot s _ _ d0 mt mo Hok (Hne g (or_introl eq_refl)))|].
          + intros j Hj. apply (Hp (fst g) j (or_introl eq_refl) Hj).
          + exact G.
          + simpl. exists new_mtime, mo. reflexivity.
        - eexists. split; [apply (set_length_fresh_P droot s _ _ Hok (Hne g (or_introl eq_refl)))|].
          + intros j Hj. apply (Hp (fst g) j (or_introl eq_refl) Hj).
          + exact G.
          + simpl. exists new_mtime, new_fmode. reflexivity. }
      destruct Hset as (e & Es & mt & mo & ->). rewrite Es.
      set (s1 := fs_set s (P droot (fst g)) (EFile [] mt mo)).
      assert (Ho : forall q, q <> P droot (fst g) -> fs_get s1 q = fs_get s q)
        by (intros q Hq; apply get_set_other; apply path_eqb_neq; congruence).
      destruct (IH s1) as (s' & E & D' & Z & Fr); [|exact H2|exact Hne'|apply Hp'; assumption| |].
      * eapply dirs_ok_frame; [exact Hok|]. apply frame_set. apply su_app. apply Hne. left. reflexivity.
      * intros g' Hg'. unfold gstate0. rewrite Ho by (apply Htl; assumption). apply Hg. right. assumption.
      * exists s'. split; [exact E|]. split; [exact D'|]. split.
        -- intros g' [<-|Hg'] Hb; [|auto]. exists mt, mo. rewrite Fr; [apply get_set_same|].
           intros g' Hg' _ E'. apply (Htl g' Hg'). congruence.
        -- intros q Hq. rewrite Fr by (intros g' Hg' Hb; apply Hq; [right; assumption|assumption]).
           apply Ho. apply Hq; [left; reflexivity|assumption].
    + replace (N.of_nat (S n) =? 0)%N with false by (symmetry; apply N.eqb_neq; lia).
      destruct (IH s) as (s' & E & D' & Z & Fr); [exact Hok|exact H2|exact Hne'|apply Hp'; auto| |].
      * intros g' Hg'. apply Hg. right. assumption.
      * exists s'. split; [exact E|]. split; [exact D'|]. split.
        -- intros g' [<-|Hg'] Hb; [lia|auto].
        -- intros q Hq. apply Fr. intros g' Hg' Hb. apply Hq; [right; assumption|assumption].
Qed.

Theorem restore_contents_general pl :
  pl_names pl = names -> pl_lengths pl = map (fun g : gfileT => N.of_nat (gf_len g)) gfiles -> pl_pre pl = pre ->
  (forall k d fls fl, In (k, (d, fls)) (pl_r pl) -> In fl fls -> gvjob gfiles (d, fl)) ->
  (forall i g kk b, nth_error gfiles i = Some g -> nth_error (snd (fst g)) kk = Some b ->
     exists k d fls fl, In (k, (d, fls)) (pl_r pl) /\ In fl fls /\ fl_idx fl = i /\
       fl_start fl = N.of_nat (blen (firstn kk (snd (fst g)))) /\ d = b_data b) ->
  dirs_ok droot s0 -> parents_ok droot (map fst gfiles) s0 -> (forall g, In g gfiles -> gstate0 s0 g) ->
  exists s' reads, restore_contents c o droot s0 pl = (OOk, s', reads) /\ dirs_ok droot s' /\
    (forall g, In g gfiles -> exists mt mo, fs_get s' (P droot (fst g)) = Some (EFile (econt (snd (fst g))) mt mo)) /\
    (forall q, (forall g, In g gfiles -> q <> P droot (fst g)) -> fs_get s' q = fs_get s0 q).
Proof.
  intros Hnm Hln Hpr Hjobs Hcomp Hok Hp Hg. unfold restore_contents. rewrite Hnm, Hln, Hpr. unfold names, pre.
  assert (Hne : forall g, In g gfiles -> fst (fst g) <> []) by (intros g Hi; apply (fo_ne _ Hfo); apply in_map; assumption).
  destruct (gcreate_empty_spec gfiles s0 Hok (fo_nodup _ Hfo) Hne Hp Hg) as (s1 & E1 & D1 & Z1 & F1).
  rewrite E1.
  assert (Hdiff : forall g g', In g gfiles -> In g' gfiles -> gf_len g <> gf_len g' -> P droot (fst g) <> P droot (fst g')).
  { intros g g' Hi Hi' Hl E. apply P_inj in E. apply In_nth_error in Hi as [i Hi]. apply In_nth_error in Hi' as [i' Hi'].
    assert (i = i') by (eapply gnodup_idx; eauto using fo_nodup). subst. congruence. }
  assert (HC : GInv droot gfiles s0 s1 (map (fun g : gfileT => N.of_nat (gf_len g)) gfiles) []).
  { constructor.
    - exact D1.
    - intros f j Hf Hj. destruct (Hp f j Hf Hj) as (m & mo & Hq). exists m, mo. rewrite F1; [assumption|].
      intros g' Hg' _ E. rewrite E in Hq. specialize (Hg g' Hg'). unfold gstate0 in Hg.
      destruct (snd g'); [destruct Hg as (? & ? & Hg)|]; congruence.
    - apply map_length.
    - intros i g Hi. assert (Hin : In g gfiles) by (eapply nth_error_In; eassumption).
      unfold gfstate. rewrite (nth_map_nth_error _ _ _ _ _ Hi).
      destruct (gf_len g) eqn:Eb.
      + right. split; [reflexivity|]. destruct (Z1 g Hin Eb) as (mt & mo & G). exists [], mt, mo.
        repeat split; auto. intros x Hx. unfold gf_len in *. lia.
      + left. split; [reflexivity|]. split; [lia|]. split; [intros x (d & fl & [] & _)|].
        specialize (Hg g Hin). unfold gstate0 in Hg.
        rewrite F1; [exact Hg|]. intros g' Hg' Hb. apply Hdiff; auto. lia.
    - intros q Hq. apply F1. intros g Hi _. apply Hq. assumption. }
  destruct (gdo_entries_inv (pl_r pl) s1 _ [] [] HC Hjobs) as (s' & sz' & rd' & S' & E' & HC' & _ & J).
  fold names pre in E'. unfold names, pre in E'. rewrite E'.
  exists s', rd'. split; [reflexivity|]. split; [apply (gi_dirs _ _ _ _ _ _ HC')|]. split.
  - intros g Hgi. apply In_nth_error in Hgi as [i Hi].
    (* every byte position belongs to a location that was written, or to one whose old bytes are the blob *)
    assert (Hpos : forall x, x < gf_len g -> covered S' i x \/
              exists d0, snd g = Some d0 /\ length d0 = gf_len g /\ nth x d0 0%N = nth x (econt (snd (fst g))) 0%N).
    { intros x Hx. destruct (econt_covered _ _ Hx) as (kk & b & Hk & Hr).
      destruct (Hcomp i g kk b Hi Hk) as (k & d & fls & fl & G1 & G2 & G3 & G4 & G5).
      destruct (fl_matches fl) eqn:Em.
      - right. destruct (Hjobs _ _ _ _ G1 G2) as (g' & kk' & b' & H1 & H2 & H3 & H4 & H5). simpl in *.
        rewrite G3, Hi in H1. inv H1. destruct (H5 Em) as (d0 & Eg & Ld & Hs).
        exists d0. split; [assumption|]. split; [assumption|].
        assert (Est : blen (firstn kk' (snd (fst g'))) = blen (firstn kk (snd (fst g')))) by (rewrite G4 in H3; lia).
        assert (Edat : b_data b' = b_data b) by congruence.
        destruct (tile_in_econt _ _ _ Hk) as [_ Hy].
        replace x with (blen (firstn kk (snd (fst g'))) + (x - blen (firstn kk (snd (fst g'))))) by lia.
        rewrite Hy by lia. rewrite <- Edat, <- Hs. unfold dlen. rewrite Edat.
        rewrite nth_firstn_lt by (unfold dlen in Hr; lia). rewrite nth_skipn_add. rewrite Est. reflexivity.
      - left. exists d, fl. split; [eapply J; eassumption|]. split; [assumption|].
        rewrite G4, Nat2N.id, G5. unfold dlen in Hr. lia. }
    destruct (gi_files _ _ _ _ _ _ HC' i g Hi) as [(A1 & A2 & A3 & A4)|(B1 & d & mt & mo & B2 & B3 & B4)].
    + destruct (Hpos 0 A2) as [Hc|(d0 & Eg & Ld & _)]; [exfalso; apply (A3 0 Hc)|].
      rewrite Eg in A4. destruct A4 as (mt & mo & A4). exists mt, mo. rewrite A4. do 2 f_equal.
      apply (nth_ext _ _ 0%N 0%N); [rewrite econt_length; assumption|].
      intros x Hx. rewrite Ld in Hx. destruct (Hpos x Hx) as [Hc|(d0' & Eg' & _ & Hn)]; [exfalso; apply (A3 x Hc)|].
      rewrite Eg in Eg'. inv Eg'. assumption.
    + exists mt, mo. rewrite B2. do 2 f_equal.
      apply (nth_ext _ _ 0%N 0%N); [rewrite econt_length; assumption|].
      intros x Hx. rewrite B3 in Hx. destruct (B4 x Hx) as [X|[X Y]]; [assumption|].
      destruct (Hpos x Hx) as [Hc|(d0 & Eg & Ld & Hn)]; [exfalso; apply Y; assumption|].
      rewrite X. unfold gbeta. rewrite Eg, <- Ld, resize_same. assumption.
  - intros q Hq. rewrite (gi_frame _ _ _ _ _ _ HC' q Hq). reflexivity.
Qed.
End GContents.
