(* C14 — the plan invariant with REAL match flags: add_file for a path that holds nothing, a file
   of another size, or a file of the snapshot's size that gets compared blob by blob. *)
From Verif.Base Require Import Tactics.
From Verif.C14 Require Import Model Proofs Exact1 Exact2 Exact3 Exact7 Contents2.

Definition gfsound (r : rinfo) (gfiles : list gfileT) : Prop :=
  forall k d fls fl, In (k, (d, fls)) r -> In fl fls ->
    exists g kk b, nth_error gfiles (fl_idx fl) = Some g /\ nth_error (snd (fst g)) kk = Some b /\
      fl_start fl = N.of_nat (blen (firstn kk (snd (fst g)))) /\ bkey b = k /\
      (fl_matches fl = true -> gmatch_ok g kk b).

Record GPlanInv (pl : plan) (gfiles : list gfileT) : Prop := mkGPI {
  gp_names : pl_names pl = map (fun g : gfileT => np (fst (fst g))) gfiles;
  gp_lens : pl_lengths pl = map (fun g : gfileT => N.of_nat (gf_len g)) gfiles;
  gp_pre : pl_pre pl = map gpre gfiles;
  gp_esound : esound (pl_r pl) (map fst gfiles);
  gp_fsound : gfsound (pl_r pl) gfiles;
  gp_complete : complete (pl_r pl) (map fst gfiles) }.

Lemma GPlanInv0 : GPlanInv plan0 [].
Proof.
  constructor; try reflexivity.
  - intros k d fls [].
  - intros k d fls fl [].
  - intros i f kk b H. destruct i; discriminate.
Qed.

Lemma gfsound_mono r gfiles g : gfsound r gfiles -> gfsound r (gfiles ++ [g]).
Proof.
  intros H k d fls fl Hi Hf. destruct (H _ _ _ _ Hi Hf) as (g0 & kk & b & H1 & H2).
  exists g0, kk, b. split; [|assumption]. rewrite nth_error_app1; [assumption|]. apply nth_error_Some. rewrite H1. discriminate.
Qed.

Lemma plan_blobs_general (gfiles : list gfileT) l bl base : forall rest bs r openf,
  bl = bs ++ rest ->
  consistent (map fst (gfiles ++ [((l, bl), base)])) ->
  esound r (map fst (gfiles ++ [((l, bl), base)])) -> gfsound r (gfiles ++ [((l, bl), base)]) ->
  complete_upto r (map fst (gfiles ++ [((l, bl), base)])) (fun i kk => i < length gfiles \/ kk < length bs) ->
  (openf = None \/ exists d0, base = Some d0 /\ length d0 = blen bl /\ openf = Some (skipn (blen bs) d0)) ->
  exists r', plan_blobs (length gfiles) openf (N.of_nat (blen bs)) rest r = (r', N.of_nat (blen bl)) /\
    esound r' (map fst (gfiles ++ [((l, bl), base)])) /\ gfsound r' (gfiles ++ [((l, bl), base)]) /\
    complete_upto r' (map fst (gfiles ++ [((l, bl), base)])) (fun i kk => i < length gfiles \/ kk < length bl).
Proof.
  set (g := ((l, bl), base)).
  induction rest as [|b t IH]; intros bs r openf Hbl Hc He Hf Hcm Hop.
  - rewrite app_nil_r in Hbl. subst bs. exists r. simpl. auto.
  - cbn [plan_blobs].
    assert (Hbl' : bl = (bs ++ [b]) ++ t) by (rewrite <- app_assoc; exact Hbl).
    assert (Hnth : nth_error bl (length bs) = Some b) by (rewrite Hbl; apply nth_error_mid).
    assert (Hfile : nth_error (gfiles ++ [g]) (length gfiles) = Some g) by apply nth_error_mid.
    assert (Hfile' : nth_error (map fst (gfiles ++ [g])) (length gfiles) = Some (l, bl)) by (apply (map_nth_error fst _ _ Hfile)).
    assert (Hpos : (N.of_nat (blen bs) + N.of_nat (length (b_data b)))%N = N.of_nat (blen (bs ++ [b])))
      by (rewrite blen_app; simpl; unfold dlen; lia).
    (* the flag and the reader after this blob *)
    assert (Hflag : exists m openf',
      (match openf with
       | None => (false, None)
       | Some rem => (list_eqb (firstn (length (b_data b)) rem) (b_data b), Some (skipn (length (b_data b)) rem))
       end) = (m, openf') /\
      (m = true -> gmatch_ok g (length bs) b) /\
      (openf' = None \/ exists d0, base = Some d0 /\ length d0 = blen bl /\ openf' = Some (skipn (blen (bs ++ [b])) d0))).
    { destruct Hop as [->|(d0 & Eb & Ld & ->)].
      - exists false, None. split; [reflexivity|]. split; [discriminate|left; reflexivity].
      - eexists _, _. split; [reflexivity|]. split.
        + intros Hm. apply list_eqb_eq in Hm. exists d0. split; [exact Eb|]. split; [exact Ld|].
          simpl. rewrite Hbl at 1. rewrite firstn_exact. exact Hm.
        + right. exists d0. split; [exact Eb|]. split; [exact Ld|]. f_equal.
          rewrite skipn_skipn', blen_app. simpl. f_equal. unfold dlen. lia. }
    destruct Hflag as (m & openf' & Ef & Hm & Hop'). rewrite Ef, Hpos.
    apply (IH (bs ++ [b]) _ openf'); auto.
    + intros k d fls H. apply r_insert_inv_e in H as [[fls0 H]|[-> ->]]; [eauto|].
      exists (l, bl), b. split; [apply in_map_iff; exists g; split; [reflexivity|apply in_or_app; right; left; reflexivity]|].
      split; [apply nth_error_In in Hnth; exact Hnth|auto].
    + intros k d fls fl H Hfl. apply (r_insert_inv_f _ _ _ _ _ _ _ _ H) in Hfl as [(fls0 & H0 & H1)|[-> ->]]; [eauto|].
      cbn [fl_idx fl_start fl_matches]. exists g, (length bs), b.
      split; [exact Hfile|]. split; [exact Hnth|]. split; [|split; [reflexivity|exact Hm]].
      simpl. rewrite Hbl at 1. rewrite firstn_exact. reflexivity.
    + intros i f kk b' Hi Hk Hb. rewrite app_length in Hb. simpl in Hb.
      assert (Hcase : (i < length gfiles \/ kk < length bs) \/ (length gfiles <= i /\ kk = length bs)) by lia.
      destruct Hcase as [Hold|[Hi' ->]].
      * destruct (Hcm _ _ _ _ Hi Hk Hold) as (d & fls & fl & H1 & H2 & H3 & H4).
        destruct (r_insert_old (b_pack b, b_off b) (b_data b) (mkFl (length gfiles) (N.of_nat (blen bs)) m) _ _ _ _ _ H1 H2) as (x & Hx & Hy).
        exists d, x, fl. auto.
      * assert (i = length gfiles).
        { assert (i < length (map fst (gfiles ++ [g]))) by (apply nth_error_Some; rewrite Hi; discriminate).
          rewrite map_length, app_length in H. simpl in H. lia. }
        subst i. rewrite Hfile' in Hi. inv Hi. simpl in Hk. rewrite Hnth in Hk. inv Hk.
        destruct (r_insert_new (b_pack b', b_off b') (b_data b') (mkFl (length gfiles) (N.of_nat (blen bs)) m) r) as (d' & fls' & H1 & H2).
        exists d', fls', (mkFl (length gfiles) (N.of_nat (blen bs)) m). simpl.
        split; [exact H1|]. split; [exact H2|]. split; [reflexivity|]. rewrite firstn_exact. reflexivity.
Qed.

(* what stands at the file's path, and that the file is planned (not accepted as it is) *)
Inductive planned (o : opts) (s : fs) (p : apath) (size mt : N) : option (list N) -> Prop :=
| pl_absent : fs_get s p = None -> planned o s p size mt None
| pl_other_size d0 m mo : fs_get s p = Some (EFile d0 m mo) -> nlen d0 <> size -> planned o s p size mt (Some d0)
| pl_compared d0 m mo : fs_get s p = Some (EFile d0 m mo) -> nlen d0 = size -> size <> 0%N ->
    (o_verify o = true \/ m <> mt) -> planned o s p size mt (Some d0).

Lemma add_file_general o droot s pl (gfiles : list gfileT) l blobs size mt base :
  GPlanInv pl gfiles -> consistent (map fst (gfiles ++ [((l, blobs), base)])) ->
  size = N.of_nat (blen blobs) -> planned o s (droot ++ l) size mt base ->
  GPlanInv (add_file o droot s pl (np l) blobs size mt) (gfiles ++ [((l, blobs), base)]).
Proof.
  intros [Hn Hl Hp He Hf Hc] Hcons Hsz Hpl.
  assert (Hlen : length (pl_names pl) = length gfiles) by (rewrite Hn; apply map_length).
  assert (Hcm0 : complete_upto (pl_r pl) (map fst (gfiles ++ [((l, blobs), base)])) (fun i kk => i < length gfiles \/ kk < length (@nil blob))).
  { intros i f kk b Hi Hk [Hlt|Hlt]; [|simpl in Hlt; lia].
    rewrite map_app, nth_error_app1 in Hi by (rewrite map_length; assumption). apply (Hc i f kk b Hi Hk I). }
  assert (He0 : esound (pl_r pl) (map fst (gfiles ++ [((l, blobs), base)]))) by (rewrite map_app; apply esound_mono; assumption).
  assert (Hfin : forall openf pre,
    (openf = None \/ exists d0, base = Some d0 /\ length d0 = blen blobs /\ openf = Some (skipn (blen (@nil blob)) d0)) ->
    pre = gpre ((l, blobs), base) ->
    GPlanInv (let '(r', pos) := plan_blobs (length (pl_names pl)) openf 0 blobs (pl_r pl) in
              mkPl (pl_names pl ++ [np l]) (pl_lengths pl ++ [pos]) (pl_pre pl ++ [pre]) r') (gfiles ++ [((l, blobs), base)])).
  { intros openf pre Hop Hpre. rewrite Hlen.
    destruct (plan_blobs_general gfiles l blobs base blobs [] (pl_r pl) openf eq_refl Hcons He0 (gfsound_mono _ _ _ Hf) Hcm0 Hop) as (r' & E & He' & Hf' & Hc').
    simpl in E. rewrite E. constructor; simpl.
    - rewrite Hn, map_app. reflexivity.
    - rewrite Hl, map_app. reflexivity.
    - rewrite Hp, map_app, Hpre. reflexivity.
    - exact He'.
    - exact Hf'.
    - intros i f kk b Hi Hk _. apply (Hc' i f kk b Hi Hk).
      assert (i < length (map fst (gfiles ++ [((l, blobs), base)]))) by (apply nth_error_Some; rewrite Hi; discriminate).
      rewrite map_length, app_length in H. simpl in H.
      destruct (Nat.lt_ge_cases i (length gfiles)); [left; assumption|right].
      assert (i = length gfiles) by lia. subst i.
      rewrite (map_nth_error fst _ _ (nth_error_mid gfiles [] ((l, blobs), base))) in Hi. inv Hi. simpl in Hk.
      apply nth_error_Some. rewrite Hk. discriminate. }
  unfold add_file, get_matching_file. rewrite dpath_np.
  destruct Hpl as [Hg|d0 m mo Hg Hne|d0 m mo Hg Heq Hnz Hcmp]; rewrite Hg.
  - apply Hfin; [left; reflexivity|reflexivity].
  - replace (nlen d0 =? size)%N with false by (symmetry; apply N.eqb_neq; assumption).
    apply Hfin; [left; reflexivity|reflexivity].
  - replace (nlen d0 =? size)%N with true by (symmetry; apply N.eqb_eq; assumption).
    replace (size =? 0)%N with false by (symmetry; apply N.eqb_neq; assumption).
    replace (negb (o_verify o) && (m =? mt)%N) with false.
    + apply Hfin; [|reflexivity]. right. exists d0. split; [reflexivity|]. split; [|reflexivity].
      unfold nlen in Heq. lia.
    + symmetry. destruct Hcmp as [Hv|Hm]; [rewrite Hv; reflexivity|].
      apply andb_false_iff. right. apply N.eqb_neq. assumption.
Qed.

(* the premises of Contents2.restore_contents_general follow from GPlanInv *)
Lemma GPlanInv_jobs pl gfiles : consistent (map fst gfiles) -> GPlanInv pl gfiles ->
  (forall k d fls fl, In (k, (d, fls)) (pl_r pl) -> In fl fls -> gvjob gfiles (d, fl)) /\
  (forall i g kk b, nth_error gfiles i = Some g -> nth_error (snd (fst g)) kk = Some b ->
     exists k d fls fl, In (k, (d, fls)) (pl_r pl) /\ In fl fls /\ fl_idx fl = i /\
       fl_start fl = N.of_nat (blen (firstn kk (snd (fst g)))) /\ d = b_data b).
Proof.
  intros Hcons [Hn Hl Hp He Hf Hc]. split.
  - intros k d fls fl Hi Hfl. destruct (Hf _ _ _ _ Hi Hfl) as (g & kk & b & H1 & H2 & H3 & H4 & H5).
    destruct (He _ _ _ Hi) as (f' & b' & X1 & X2 & X3 & X4).
    exists g, kk, b. simpl. repeat split; auto.
    subst d. apply (Hcons f' (fst g) b' b); auto; [apply in_map; eapply nth_error_In; eassumption|eapply nth_error_In; eassumption|congruence].
  - intros i g kk b Hi Hk.
    destruct (Hc i (fst g) kk b (map_nth_error fst _ _ Hi) Hk I) as (d & fls & fl & G1 & G2 & G3 & G4).
    destruct (He _ _ _ G1) as (f' & b' & X1 & X2 & X3 & X4).
    exists (bkey b), d, fls, fl. repeat split; auto.
    subst d. apply (Hcons f' (fst g) b' b); auto; [apply in_map; eapply nth_error_In; eassumption|eapply nth_error_In; eassumption].
Qed.

(* (b) + (c) together: whatever mix of absent / other-size / compared files the plan was built for *)
Theorem restore_contents_of_plan c o droot (gfiles : list gfileT) s0 pl :
  c_sparse_pre c = true -> files_ok (map fst gfiles) -> GPlanInv pl gfiles ->
  dirs_ok droot s0 -> parents_ok droot (map fst gfiles) s0 -> (forall g, In g gfiles -> gstate0 droot s0 g) ->
  exists s' reads, restore_contents c o droot s0 pl = (OOk, s', reads) /\ dirs_ok droot s' /\
    (forall g, In g gfiles -> exists mt mo, fs_get s' (P droot (fst g)) = Some (EFile (econt (snd (fst g))) mt mo)) /\
    (forall q, (forall g, In g gfiles -> q <> P droot (fst g)) -> fs_get s' q = fs_get s0 q).
Proof.
  intros Hsp Hfo HP Hok Hpar Hst.
  destruct (GPlanInv_jobs pl gfiles (fo_cons _ Hfo) HP) as [Hj Hc].
  apply (restore_contents_general c o droot gfiles s0 Hfo Hsp pl); auto; [apply (gp_names _ _ HP)|apply (gp_lens _ _ HP)|apply (gp_pre _ _ HP)].
Qed.
