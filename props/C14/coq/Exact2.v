(* C14 — towards restore_exact: the restore plan (RestoreInfo keyed by (pack, location)) built by
   add_file for files that do not exist in the destination. *)
From Verif.Base Require Import Tactics.
From Verif.C14 Require Import Model Proofs Exact1.

Definition bkey (b : blob) : key := (b_pack b, b_off b).
(* a file of the snapshot: path relative to the destination root, blobs *)
Notation fileT := (list name * list blob)%type.

(* index consistency: one (pack, location) holds one byte string *)
Definition consistent (files : list fileT) : Prop :=
  forall f f' b b', In f files -> In f' files -> In b (snd f) -> In b' (snd f') ->
    bkey b = bkey b' -> b_data b = b_data b'.

Definition esound (r : rinfo) (files : list fileT) : Prop :=
  forall k d fls, In (k, (d, fls)) r ->
    exists f b, In f files /\ In b (snd f) /\ bkey b = k /\ d = b_data b.
Definition fsound (r : rinfo) (files : list fileT) : Prop :=
  forall k d fls fl, In (k, (d, fls)) r -> In fl fls ->
    fl_matches fl = false /\
    exists f kk b, nth_error files (fl_idx fl) = Some f /\ nth_error (snd f) kk = Some b /\
      fl_start fl = N.of_nat (blen (firstn kk (snd f))) /\ bkey b = k.
(* every blob kk of file i below the bound has a location in the plan *)
Definition complete_upto (r : rinfo) (files : list fileT) (bound : nat -> nat -> Prop) : Prop :=
  forall i f kk b, nth_error files i = Some f -> nth_error (snd f) kk = Some b -> bound i kk ->
    exists d fls fl, In (bkey b, (d, fls)) r /\ In fl fls /\ fl_idx fl = i /\
      fl_start fl = N.of_nat (blen (firstn kk (snd f))).
Definition complete (r : rinfo) (files : list fileT) : Prop := complete_upto r files (fun _ _ => True).

Record PlanInv (pl : plan) (files : list fileT) : Prop := mkPI {
  pi_names : pl_names pl = map (fun f => np (fst f)) files;
  pi_lens : pl_lengths pl = map (fun f => N.of_nat (blen (snd f))) files;
  pi_pre : pl_pre pl = map (fun _ => false) files;
  pi_esound : esound (pl_r pl) files;
  pi_fsound : fsound (pl_r pl) files;
  pi_complete : complete (pl_r pl) files }.

Lemma key_cmp_eq a b : key_cmp a b = Eq -> a = b.
Proof.
  destruct a as [a1 a2], b as [b1 b2]. unfold key_cmp. simpl.
  destruct (a1 ?= b1)%N eqn:E; try discriminate. intros H.
  apply N.compare_eq in E. apply N.compare_eq in H. congruence.
Qed.

Lemma r_insert_old k d fl : forall r k' d' fls' fl', In (k', (d', fls')) r -> In fl' fls' ->
  exists fls'', In (k', (d', fls'')) (r_insert r k d fl) /\ In fl' fls''.
Proof.
  induction r as [|[k0 [d0 fls0]] t IH]; intros k' d' fls' fl' H Hf; [destruct H|].
  simpl. destruct (key_cmp k k0) eqn:E.
  - destruct H as [H|H].
    + inv H. exists (fls' ++ [fl]). split; [left; reflexivity|apply in_or_app; left; assumption].
    + exists fls'. split; [right; assumption|assumption].
  - exists fls'. split; [right; assumption|assumption].
  - destruct H as [H|H].
    + inv H. exists fls'. split; [left; reflexivity|assumption].
    + destruct (IH _ _ _ _ H Hf) as (x & Hx & Hy). exists x. split; [right; assumption|assumption].
Qed.
Lemma r_insert_new k d fl : forall r, exists d' fls', In (k, (d', fls')) (r_insert r k d fl) /\ In fl fls'.
Proof.
  induction r as [|[k0 [d0 fls0]] t IH]; simpl.
  - exists d, [fl]. split; left; reflexivity.
  - destruct (key_cmp k k0) eqn:E.
    + apply key_cmp_eq in E. subst k0. exists d0, (fls0 ++ [fl]). split; [left; reflexivity|apply in_or_app; right; left; reflexivity].
    + exists d, [fl]. split; left; reflexivity.
    + destruct IH as (d' & fls' & H1 & H2). exists d', fls'. split; [right; assumption|assumption].
Qed.
Lemma r_insert_inv_e k d fl : forall r k' d' fls', In (k', (d', fls')) (r_insert r k d fl) ->
  (exists fls0, In (k', (d', fls0)) r) \/ (k' = k /\ d' = d).
Proof.
  induction r as [|[k0 [d0 fls0]] t IH]; intros k' d' fls' H; simpl in H.
  - destruct H as [H|[]]. inv H. right. auto.
  - destruct (key_cmp k k0) eqn:E.
    + destruct H as [H|H]; [inv H; left; exists fls0; left; reflexivity|left; exists fls'; right; assumption].
    + destruct H as [H|H]; [inv H; right; auto|left; exists fls'; assumption].
    + destruct H as [H|H]; [inv H; left; exists fls'; left; reflexivity|].
      destruct (IH _ _ _ H) as [[x Hx]|Hx]; [left; exists x; right; assumption|right; assumption].
Qed.
Lemma r_insert_inv_f k d fl : forall r k' d' fls' fl', In (k', (d', fls')) (r_insert r k d fl) -> In fl' fls' ->
  (exists fls0, In (k', (d', fls0)) r /\ In fl' fls0) \/ (k' = k /\ fl' = fl).
Proof.
  induction r as [|[k0 [d0 fls0]] t IH]; intros k' d' fls' fl' H Hf; simpl in H.
  - destruct H as [H|[]]. inv H. destruct Hf as [<-|[]]. right. auto.
  - destruct (key_cmp k k0) eqn:E.
    + destruct H as [H|H].
      * inv H. apply in_app_or in Hf as [Hf|[<-|[]]].
        -- left. exists fls0. split; [left; reflexivity|assumption].
        -- right. apply key_cmp_eq in E. auto.
      * left. exists fls'. split; [right; assumption|assumption].
    + destruct H as [H|H].
      * inv H. destruct Hf as [<-|[]]. right. auto.
      * left. exists fls'. split; assumption.
    + destruct H as [H|H].
      * inv H. left. exists fls'. split; [left; reflexivity|assumption].
      * destruct (IH _ _ _ _ H Hf) as [(x & Hx & Hy)|Hx]; [left; exists x; split; [right; assumption|assumption]|right; assumption].
Qed.

Lemma blen_app a b : blen (a ++ b) = blen a + blen b.
Proof. induction a; simpl; [reflexivity|]. rewrite IHa. lia. Qed.
Lemma firstn_exact {A} (a b : list A) : firstn (length a) (a ++ b) = a.
Proof. rewrite firstn_app, Nat.sub_diag, firstn_all. simpl. apply app_nil_r. Qed.
Lemma nth_error_mid {A} (a b : list A) x : nth_error (a ++ x :: b) (length a) = Some x.
Proof. rewrite nth_error_app2 by lia. rewrite Nat.sub_diag. reflexivity. Qed.

(* the loop of add_file for a file that is not in the destination *)
Lemma plan_blobs_fresh files l bl : forall rest bs r,
  bl = bs ++ rest ->
  consistent (files ++ [(l, bl)]) ->
  esound r (files ++ [(l, bl)]) -> fsound r (files ++ [(l, bl)]) ->
  complete_upto r (files ++ [(l, bl)]) (fun i kk => i < length files \/ kk < length bs) ->
  exists r', plan_blobs (length files) None (N.of_nat (blen bs)) rest r = (r', N.of_nat (blen bl)) /\
    esound r' (files ++ [(l, bl)]) /\ fsound r' (files ++ [(l, bl)]) /\
    complete_upto r' (files ++ [(l, bl)]) (fun i kk => i < length files \/ kk < length bl).
Proof.
  induction rest as [|b t IH]; intros bs r Hbl Hc He Hf Hcm.
  - rewrite app_nil_r in Hbl. subst bs. exists r. simpl. auto.
  - simpl.
    replace (N.of_nat (blen bs) + N.of_nat (length (b_data b)))%N with (N.of_nat (blen (bs ++ [b])))
      by (rewrite blen_app; simpl; unfold dlen; lia).
    assert (Hbl' : bl = (bs ++ [b]) ++ t) by (rewrite <- app_assoc; exact Hbl).
    assert (Hnth : nth_error bl (length bs) = Some b) by (rewrite Hbl; apply nth_error_mid).
    assert (Hfile : nth_error (files ++ [(l, bl)]) (length files) = Some (l, bl)) by apply nth_error_mid.
    apply (IH (bs ++ [b])); auto.
    + intros k d fls H. apply r_insert_inv_e in H as [[fls0 H]|[-> ->]]; [eauto|].
      exists (l, bl), b. split; [apply in_or_app; right; left; reflexivity|].
      split; [apply nth_error_In in Hnth; exact Hnth|auto].
    + intros k d fls fl H Hfl. apply (r_insert_inv_f _ _ _ _ _ _ _ _ H) in Hfl as [(fls0 & H0 & H1)|[-> ->]]; [eauto|].
      simpl. split; [reflexivity|]. exists (l, bl), (length bs), b.
      split; [exact Hfile|]. split; [exact Hnth|]. split; [|reflexivity].
      simpl. rewrite Hbl, firstn_exact. reflexivity.
    + intros i f kk b' Hi Hk Hb. rewrite app_length in Hb. simpl in Hb.
      assert (Hcase : (i < length files \/ kk < length bs) \/ (length files <= i /\ kk = length bs)) by lia.
      destruct Hcase as [Hold|[Hi' ->]].
      * destruct (Hcm _ _ _ _ Hi Hk Hold) as (d & fls & fl & H1 & H2 & H3 & H4).
        destruct (r_insert_old (b_pack b, b_off b) (b_data b) (mkFl (length files) (N.of_nat (blen bs)) false) _ _ _ _ _ H1 H2) as (x & Hx & Hy).
        exists d, x, fl. auto.
      * assert (i = length files).
        { assert (i < length (files ++ [(l, bl)])) by (apply nth_error_Some; rewrite Hi; discriminate). rewrite app_length in H. simpl in H. lia. }
        subst i. rewrite Hfile in Hi. inv Hi. simpl in Hk. rewrite Hnth in Hk. inv Hk.
        destruct (r_insert_new (b_pack b', b_off b') (b_data b') (mkFl (length files) (N.of_nat (blen bs)) false) r) as (d' & fls' & H1 & H2).
        exists d', fls', (mkFl (length files) (N.of_nat (blen bs)) false). simpl.
        split; [exact H1|]. split; [exact H2|]. split; [reflexivity|]. rewrite firstn_exact. reflexivity.
Qed.

Lemma esound_mono r files f : esound r files -> esound r (files ++ [f]).
Proof. intros H k d fls Hi. destruct (H _ _ _ Hi) as (f0 & b & H1 & H2). exists f0, b. split; [apply in_or_app; left; assumption|assumption]. Qed.
Lemma fsound_mono r files f : fsound r files -> fsound r (files ++ [f]).
Proof.
  intros H k d fls fl Hi Hf. destruct (H _ _ _ _ Hi Hf) as (Hm & f0 & kk & b & H1 & H2).
  split; [assumption|]. exists f0, kk, b. split; [|assumption].
  rewrite nth_error_app1; [assumption|]. apply nth_error_Some. rewrite H1. discriminate.
Qed.

(* add_file for a path at which the destination holds nothing *)
Lemma add_file_fresh o droot s pl files l blobs size mt :
  PlanInv pl files -> consistent (files ++ [(l, blobs)]) ->
  fs_get s (droot ++ l) = None ->
  PlanInv (add_file o droot s pl (np l) blobs size mt) (files ++ [(l, blobs)]).
Proof.
  intros [Hn Hl Hp He Hf Hc] Hcons Hg. unfold add_file, get_matching_file. rewrite dpath_np, Hg.
  assert (Hlen : length (pl_names pl) = length files) by (rewrite Hn; apply map_length).
  rewrite Hlen.
  destruct (plan_blobs_fresh files l blobs blobs [] (pl_r pl) eq_refl Hcons (esound_mono _ _ _ He) (fsound_mono _ _ _ Hf)) as (r' & E & He' & Hf' & Hc').
  { intros i f kk b Hi Hk [Hlt|Hlt]; [|simpl in Hlt; lia].
    rewrite nth_error_app1 in Hi by assumption. apply (Hc i f kk b Hi Hk I). }
  simpl in E. rewrite E. constructor; simpl.
  - rewrite Hn, map_app. reflexivity.
  - rewrite Hl, map_app. reflexivity.
  - rewrite Hp, map_app. reflexivity.
  - exact He'.
  - exact Hf'.
  - intros i f kk b Hi Hk _. apply (Hc' i f kk b Hi Hk).
    assert (i < length (files ++ [(l, blobs)])) by (apply nth_error_Some; rewrite Hi; discriminate).
    rewrite app_length in H. simpl in H.
    destruct (Nat.lt_ge_cases i (length files)); [left; assumption|right].
    assert (i = length files) by lia. subst i. rewrite nth_error_mid in Hi. inv Hi. simpl in Hk.
    apply nth_error_Some. rewrite Hk. discriminate.
Qed.

Lemma PlanInv0 : PlanInv plan0 [].
Proof.
  constructor; try reflexivity.
  - intros k d fls [].
  - intros k d fls fl [].
  - intros i f kk b H. destruct i; discriminate.
Qed.

(* the bytes an entry of the plan carries are the bytes of every blob located there *)
Lemma job_data r files k d fls fl : consistent files -> esound r files -> fsound r files ->
  In (k, (d, fls)) r -> In fl fls ->
  fl_matches fl = false /\
  exists f kk b, nth_error files (fl_idx fl) = Some f /\ nth_error (snd f) kk = Some b /\
    fl_start fl = N.of_nat (blen (firstn kk (snd f))) /\ d = b_data b.
Proof.
  intros Hc He Hf Hi Hfl. destruct (Hf _ _ _ _ Hi Hfl) as (Hm & f & kk & b & H1 & H2 & H3 & H4).
  destruct (He _ _ _ Hi) as (f' & b' & H5 & H6 & H7 & H8).
  split; [assumption|]. exists f, kk, b. repeat split; try assumption.
  subst d. apply (Hc f' f b' b); auto; [eapply nth_error_In; eassumption|eapply nth_error_In; eassumption|congruence].
Qed.
