(* C14 — the merge-walk of collect_and_prepare over arbitrary destinations: both listings are
   strictly sorted by the component-wise order; the walk classifies every destination entry once
   (match / extra / clash, or skipped below a removed-or-kept extra directory) and visits every node
   once, in order; processed nodes lie before all remaining walker entries. *)
From Verif.Base Require Import Tactics.
From Verif.C14 Require Import Model Proofs Exact1 Exact2 Exact3 Exact4 Exact5 Exact6 Exact8 Order.

Definition ltD (a b : apath * entry) : Prop := ncmp (fst a) (fst b) = Lt.
Definition ssD := StronglySorted ltD.

(* ---------------------------------------------------------------- WalkDir(..).sort_by_file_name() is strictly sorted *)
Lemma ins_sorted_ss x : forall l, ssD l -> ~ In (fst x) (map fst l) -> ssD (ins_sorted x l).
Proof.
  induction l as [|y t IH]; intros Hs Hn; simpl; [repeat constructor|]. inv Hs.
  destruct (ncmp (fst x) (fst y)) eqn:E.
  - exfalso. apply Hn. left. symmetry. apply ncmp_eq. assumption.
  - constructor; [constructor; assumption|]. constructor; [exact E|].
    eapply Forall_impl; [|exact H2]. intros z Hz. unfold ltD in *. eapply ncmp_trans; eassumption.
  - constructor.
    + apply IH; [assumption|]. intros H. apply Hn. right. assumption.
    + apply Forall_forall. intros z Hz. apply ins_sorted_in in Hz as [->|Hz].
      * apply ncmp_gt_lt. assumption.
      * rewrite Forall_forall in H2. auto.
Qed.
Lemma sort_entries_in l z : In z (sort_entries l) -> In z l.
Proof.
  induction l; simpl; intros H; [assumption|]. apply ins_sorted_in in H as [->|H]; auto.
Qed.
Lemma sort_entries_ss l : NoDup (map fst l) -> ssD (sort_entries l).
Proof.
  induction l as [|a l IH]; simpl; intros H; [constructor|]. inv H. apply ins_sorted_ss; [auto|].
  intros Hin. apply H2. apply in_map_iff in Hin as (z & E & Hz). apply sort_entries_in in Hz.
  rewrite <- E. apply in_map. assumption.
Qed.
Lemma nodup_map_filter {A B} (g : A -> B) f l : NoDup (map g l) -> NoDup (map g (filter f l)).
Proof.
  induction l; simpl; intros H; [constructor|]. inv H. destruct (f a); simpl; auto.
  constructor; auto. intros Hin. apply H2. apply in_map_iff in Hin as (z & E & Hz). apply filter_In in Hz as [Hz _].
  rewrite <- E. apply in_map. assumption.
Qed.
Theorem walk_sorted_lemma droot s : NoDup (map fst s) -> ssD (walk droot s).
Proof. intros H. unfold walk. apply sort_entries_ss. apply nodup_map_filter. assumption. Qed.

Lemma ss_app_r {A} (R : A -> A -> Prop) (a b : list A) : StronglySorted R (a ++ b) -> StronglySorted R b.
Proof. induction a; simpl; intros H; [assumption|]. inv H. auto. Qed.
Lemma ssD_nodup l : ssD l -> NoDup l.
Proof.
  induction 1; constructor; auto. intros Hin. rewrite Forall_forall in H0. specialize (H0 a Hin).
  unfold ltD in H0. rewrite ncmp_refl in H0. discriminate.
Qed.
Lemma drop_under_ss p : forall l, ssD l -> ssD (drop_under p l).
Proof. induction l; simpl; intros H; [constructor|]. inv H. destruct (is_prefix p (fst a)); auto. constructor; auto. Qed.

(* ---------------------------------------------------------------- the classification *)
Inductive ev :=
| EvExtra (d : apath * entry)
| EvMatch (d : apath * entry) (y : nodeT)
| EvClash (d : apath * entry) (y : nodeT)
| EvNew (y : nodeT).

Definition skip (d : apath * entry) (ds : list (apath * entry)) :=
  if is_dir_entry (snd d) then drop_under (fst d) ds else ds.

Section Classify.
Variable droot : apath.

(* the control flow of collect_and_prepare's loop: what is compared is the pair of paths, by the
   component-wise order (Path::cmp) *)
Fixpoint classify (fuel : nat) (dst : list (apath * entry)) (rem : list nodeT) : list ev :=
  match fuel with
  | O => []
  | S f =>
    match dst, rem with
    | [], [] => []
    | d :: ds, [] => EvExtra d :: classify f (skip d ds) []
    | d :: ds, y :: ns =>
      match ncmp (fst d) (Pn droot y) with
      | Lt => EvExtra d :: classify f (skip d ds) rem
      | Eq => if type_mismatch (snd y) (snd d) then EvClash d y :: classify f (skip d ds) ns
              else EvMatch d y :: classify f ds ns
      | Gt => EvNew y :: classify f dst ns
      end
    | [], y :: ns => EvNew y :: classify f [] ns
    end
  end.

Definition ev_nodes (evs : list ev) : list nodeT :=
  flat_map (fun e => match e with EvExtra _ => [] | EvMatch _ y | EvClash _ y | EvNew y => [y] end) evs.
Definition ev_entries (evs : list ev) : list (apath * entry) :=
  flat_map (fun e => match e with EvExtra d | EvMatch d _ | EvClash d _ => [d] | EvNew _ => [] end) evs.
(* entries below which the walker does not descend *)
Definition ev_skippers (evs : list ev) : list (apath * entry) :=
  flat_map (fun e => match e with EvExtra d | EvClash d _ => if is_dir_entry (snd d) then [d] else [] | _ => [] end) evs.

Variable nodes : list nodeT.
Definition ltN (a b : nodeT) : Prop := ncmp (Pn droot a) (Pn droot b) = Lt.
Hypothesis NS : StronglySorted ltN nodes.
Hypothesis N3 : forall x j, In x nodes -> 0 < j < length (fst x) -> exists mt mo, In (firstn j (fst x), IDir mt mo) nodes.

Definition ev_ok (dst : list (apath * entry)) (rem : list nodeT) (e : ev) : Prop :=
  match e with
  | EvExtra d => In d dst /\ forall y, In y nodes -> fst d <> Pn droot y
  | EvMatch d y => In d dst /\ In y rem /\ fst d = Pn droot y /\ type_mismatch (snd y) (snd d) = false
  | EvClash d y => In d dst /\ In y rem /\ fst d = Pn droot y /\ type_mismatch (snd y) (snd d) = true
  | EvNew y => In y rem /\ forall d, In d dst -> fst d <> Pn droot y
  end.

Lemma ss_nodup_paths : forall l, StronglySorted ltN l ->
  forall x y, In x l -> In y l -> Pn droot x = Pn droot y -> x = y.
Proof.
  induction 1 as [|a l Hs IH Hf]; intros x y Hx Hy E; [destruct Hx|].
  rewrite Forall_forall in Hf.
  destruct Hx as [<-|Hx]; destruct Hy as [<-|Hy].
  - reflexivity.
  - specialize (Hf y Hy). unfold ltN in Hf. rewrite E, ncmp_refl in Hf. discriminate.
  - specialize (Hf x Hx). unfold ltN in Hf. rewrite E, ncmp_refl in Hf. discriminate.
  - apply IH; assumption.
Qed.
Lemma nodes_nodup_paths x y : In x nodes -> In y nodes -> Pn droot x = Pn droot y -> x = y.
Proof. apply ss_nodup_paths. exact NS. Qed.

(* nothing of the snapshot lies below a path that is strictly below the root and is no node path *)
Lemma no_node_below p : strictly_under droot p = true -> (forall y, In y nodes -> p <> Pn droot y) ->
  forall y, In y nodes -> is_prefix p (Pn droot y) = false.
Proof.
  intros Hsu Hn y Hy. destruct (is_prefix p (Pn droot y)) eqn:E; [exfalso|reflexivity].
  apply su_inv in Hsu as (l1 & Hl1 & ->). apply is_prefix_inv in E as [r E].
  unfold Pn in E. rewrite <- app_assoc in E. apply app_inv_head in E. destruct r as [|a r].
  - rewrite app_nil_r in E. apply (Hn y Hy). unfold Pn. congruence.
  - destruct (N3 y (length l1) Hy) as (m & mo & Hz).
    { rewrite E, app_length. simpl. destruct l1; [congruence|simpl; lia]. }
    rewrite E, firstn_exact in Hz. apply (Hn _ Hz). reflexivity.
Qed.

Lemma ev_ok_lift dst' rem' dst rem e :
  ev_ok dst' rem' e -> incl dst' dst -> incl rem' rem ->
  (forall y, In y rem' -> forall d, In d dst -> In d dst' \/ fst d <> Pn droot y) ->
  ev_ok dst rem e.
Proof.
  intros H Hd Hr Hx. destruct e; simpl in *.
  - destruct H; auto.
  - destruct H as (A & B & C); auto.
  - destruct H as (A & B & C); auto.
  - destruct H as [A B]. split; [auto|]. intros d0 Hd0. destruct (Hx y A d0 Hd0); auto.
Qed.
Lemma Forall_ev_ok_lift dst' rem' dst rem evs :
  Forall (ev_ok dst' rem') evs -> incl dst' dst -> incl rem' rem ->
  (forall y, In y rem' -> forall d, In d dst -> In d dst' \/ fst d <> Pn droot y) ->
  Forall (ev_ok dst rem) evs.
Proof. intros H Hd Hr Hx. eapply Forall_impl; [|exact H]. intros e He. eapply ev_ok_lift; eauto. Qed.

Lemma ev_entries_in dst rem evs : Forall (ev_ok dst rem) evs -> forall d, In d (ev_entries evs) -> In d dst.
Proof.
  induction 1; simpl; intros d Hd; [destruct Hd|]. apply in_app_or in Hd as [Hd|Hd]; [|auto].
  destruct x; simpl in *; try (destruct Hd as [<-|[]]); tauto.
Qed.

Lemma skip_incl d ds : incl (skip d ds) ds.
Proof. unfold skip. destruct (is_dir_entry (snd d)); [intros x; apply drop_under_sub|apply incl_refl]. Qed.
Lemma skip_len d ds : length (skip d ds) <= length ds.
Proof. unfold skip. destruct (is_dir_entry (snd d)); [apply drop_under_len|lia]. Qed.
Lemma skip_ss d ds : ssD ds -> ssD (skip d ds).
Proof. unfold skip. destruct (is_dir_entry (snd d)); [apply drop_under_ss|auto]. Qed.
Lemma skip_in d ds x : In x ds -> In x (skip d ds) \/ (is_dir_entry (snd d) = true /\ is_prefix (fst d) (fst x) = true).
Proof.
  unfold skip. intros H. destruct (is_dir_entry (snd d)); [|auto].
  destruct (drop_under_in (fst d) ds x H); auto.
Qed.

Definition covered_by (evs : list ev) (d : apath * entry) : Prop :=
  In d (ev_entries evs) \/ exists d0, In d0 (ev_skippers evs) /\ d0 <> d /\ is_prefix (fst d0) (fst d) = true.
Lemma covered_by_cons e evs d : covered_by evs d -> covered_by (e :: evs) d.
Proof.
  intros [H|(d0 & H & Hn & Hp)]; [left|right; exists d0; split; [|auto]]; simpl; apply in_or_app; right; assumption.
Qed.

Lemma classify_spec : forall fuel done rem dst,
  nodes = done ++ rem -> length dst + length rem < fuel -> ssD dst ->
  (forall d, In d dst -> strictly_under droot (fst d) = true) ->
  (forall y d, In y done -> In d dst -> ncmp (Pn droot y) (fst d) = Lt) ->
  ev_nodes (classify fuel dst rem) = rem /\
  Forall (ev_ok dst rem) (classify fuel dst rem) /\
  ssD (ev_entries (classify fuel dst rem)) /\
  (forall d, In d dst -> covered_by (classify fuel dst rem) d).
Proof.
  induction fuel as [|fuel IH]; intros done rem dst Hn Hf Hs Hsu I1; [lia|].
  assert (Hrem : StronglySorted ltN rem).
  { apply (ss_app_r _ done). rewrite <- Hn. exact NS. }
  assert (Hinn : forall y, In y rem -> In y nodes) by (intros y Hy; rewrite Hn; apply in_or_app; right; assumption).
  assert (Hdone : forall y, In y nodes -> In y done \/ In y rem) by (intros y Hy; rewrite Hn in Hy; apply in_app_or; assumption).
  destruct dst as [|d ds]; destruct rem as [|y ns]; cbn [classify].
  - simpl. split; [reflexivity|]. split; [constructor|]. split; [constructor|]. intros d [].
  - (* walker exhausted *)
    inv Hrem.
    assert (Q1 : nodes = (done ++ [y]) ++ ns) by (rewrite <- app_assoc; assumption).
    assert (Q2 : length (@nil (apath * entry)) + length ns < fuel) by (simpl in *; lia).
    assert (Q3 : ssD []) by constructor.
    assert (Q4 : forall d : apath * entry, In d [] -> strictly_under droot (fst d) = true) by (intros d []).
    assert (Q5 : forall (y0 : nodeT) (d : apath * entry), In y0 (done ++ [y]) -> In d [] -> ncmp (Pn droot y0) (fst d) = Lt) by (intros y0 d _ []).
    destruct (IH _ _ _ Q1 Q2 Q3 Q4 Q5) as (A & B & C & D).
    simpl. rewrite A. split; [reflexivity|]. split; [|split; [assumption|intros d []]].
    constructor; [simpl; split; [left; reflexivity|intros d []]|].
    eapply Forall_ev_ok_lift; [exact B|apply incl_refl|intros x Hx; right; assumption|intros y0 _ d []].
  - (* nodes exhausted *)
    inv Hs.
    assert (Hex : forall y, In y nodes -> fst d <> Pn droot y).
    { intros y Hy E. destruct (Hdone y Hy) as [Hy'|[]]. specialize (I1 y d Hy' (or_introl eq_refl)).
      rewrite E, ncmp_refl in I1. discriminate. }
    assert (Q2 : length (skip d ds) + length (@nil nodeT) < fuel) by (pose proof (skip_len d ds); simpl in *; lia).
    assert (Q3 : ssD (skip d ds)) by (apply skip_ss; assumption).
    assert (Q4 : forall d0, In d0 (skip d ds) -> strictly_under droot (fst d0) = true)
      by (intros d0 Hd0; apply Hsu; right; apply (skip_incl d ds); assumption).
    assert (Q5 : forall y0 d0, In y0 done -> In d0 (skip d ds) -> ncmp (Pn droot y0) (fst d0) = Lt)
      by (intros y0 d0 Hy0 Hd0; apply I1; [assumption|right; apply (skip_incl d ds); assumption]).
    destruct (IH _ _ _ Hn Q2 Q3 Q4 Q5) as (A & B & C & D).
    simpl. rewrite A. split; [reflexivity|]. split; [|split].
    + constructor; [simpl; auto|].
      eapply Forall_ev_ok_lift; [exact B|intros x Hx; right; apply (skip_incl d ds); assumption|apply incl_refl|intros y0 []].
    + constructor; [assumption|]. apply Forall_forall. intros z Hz.
      apply (ev_entries_in _ _ _ B) in Hz. apply (skip_incl d ds) in Hz. rewrite Forall_forall in H2. auto.
    + intros d0 [<-|Hd0]; [left; simpl; left; reflexivity|].
      destruct (skip_in d ds d0 Hd0) as [Hin|[Hdir Hp]]; [apply covered_by_cons; auto|].
      right. exists d. split; [simpl; rewrite Hdir; left; reflexivity|]. split; [|assumption].
      intros ->. rewrite Forall_forall in H2. specialize (H2 d0 Hd0). unfold ltD in H2. rewrite ncmp_refl in H2. discriminate.
  - (* both present *)
    inv Hs. inv Hrem. rewrite Forall_forall in H2, H4.
    assert (Hyn : In y nodes) by (apply Hinn; left; reflexivity).
    assert (Hns_gt : forall y', In y' ns -> ncmp (Pn droot y) (Pn droot y') = Lt) by (intros y' Hy'; apply H4; assumption).
    destruct (ncmp (fst d) (Pn droot y)) eqn:Ec.
    + (* same path *)
      apply ncmp_eq in Ec.
      assert (I1' : forall d', forall y0 d0, In y0 (done ++ [y]) -> In d0 d' -> incl d' ds -> ncmp (Pn droot y0) (fst d0) = Lt).
      { intros d' y0 d0 Hy0 Hd0 Hi. apply in_app_or in Hy0 as [Hy0|[<-|[]]].
        - apply I1; [assumption|right; apply Hi; assumption].
        - rewrite <- Ec. apply H2. apply Hi. assumption. }
      assert (Hd_ne : forall y', In y' ns -> fst d <> Pn droot y').
      { intros y' Hy' E. specialize (Hns_gt y' Hy'). rewrite <- Ec, E, ncmp_refl in Hns_gt. discriminate. }
      destruct (type_mismatch (snd y) (snd d)) eqn:Em.
      * assert (Q1 : nodes = (done ++ [y]) ++ ns) by (rewrite <- app_assoc; assumption).
        assert (Q2 : length (skip d ds) + length ns < fuel) by (pose proof (skip_len d ds); simpl in *; lia).
        assert (Q3 : ssD (skip d ds)) by (apply skip_ss; assumption).
        assert (Q4 : forall d0, In d0 (skip d ds) -> strictly_under droot (fst d0) = true)
          by (intros d0 Hd0; apply Hsu; right; apply (skip_incl d ds); assumption).
        assert (Q5 : forall y0 d0, In y0 (done ++ [y]) -> In d0 (skip d ds) -> ncmp (Pn droot y0) (fst d0) = Lt)
          by (intros y0 d0 Hy0 Hd0; apply (I1' (skip d ds)); auto; apply skip_incl).
        destruct (IH _ _ _ Q1 Q2 Q3 Q4 Q5) as (A & B & C & D).
        simpl. rewrite A. split; [reflexivity|]. split; [|split].
        -- constructor; [simpl; auto 6|].
           eapply Forall_ev_ok_lift; [exact B|intros x Hx; right; apply (skip_incl d ds); assumption|intros x Hx; right; assumption|].
           intros y' Hy' d0 [<-|Hd0]; [right; auto|].
           destruct (skip_in d ds d0 Hd0) as [Hin|[Hdir Hp]]; [left; assumption|right].
           intros E.
           (* Pn y' below Pn y: then y is a directory node, and a directory entry does not clash with it *)
           rewrite Ec, E in Hp. apply is_prefix_inv in Hp as [r Hp]. unfold Pn in Hp. rewrite <- app_assoc in Hp. apply app_inv_head in Hp.
           destruct r as [|a r].
           ++ rewrite app_nil_r in Hp. specialize (Hns_gt y' Hy'). unfold Pn in Hns_gt. rewrite Hp, ncmp_refl in Hns_gt. discriminate.
           ++ destruct (N3 y' (length (fst y)) (Hinn y' (or_intror Hy'))) as (m & mo & Hz).
              { rewrite Hp, app_length. simpl. split; [|lia]. destruct (fst y) eqn:Ey; [|simpl; lia]. exfalso.
                (* fst y = [] would make Pn y = droot, not strictly below the root *)
                specialize (Hsu d (or_introl eq_refl)). rewrite Ec in Hsu. unfold Pn in Hsu. rewrite Ey, app_nil_r in Hsu.
                unfold strictly_under in Hsu. rewrite path_eqb_refl, andb_false_r in Hsu. discriminate. }
              rewrite Hp, firstn_exact in Hz.
              assert (y = (fst y, IDir m mo)) by (apply nodes_nodup_paths; auto).
              rewrite H in Em. simpl in Em. unfold type_mismatch in Em. simpl in Em. rewrite Hdir in Em. discriminate.
        -- constructor; [assumption|]. apply Forall_forall. intros z Hz.
           apply (ev_entries_in _ _ _ B) in Hz. apply (skip_incl d ds) in Hz. apply H2. assumption.
        -- intros d0 [<-|Hd0]; [left; simpl; left; reflexivity|].
           destruct (skip_in d ds d0 Hd0) as [Hin|[Hdir Hp]]; [apply covered_by_cons; auto|].
           right. exists d. split; [simpl; rewrite Hdir; left; reflexivity|]. split; [|assumption].
           intros ->. specialize (H2 d0 Hd0). unfold ltD in H2. rewrite ncmp_refl in H2. discriminate.
      * assert (Q1 : nodes = (done ++ [y]) ++ ns) by (rewrite <- app_assoc; assumption).
        assert (Q2 : length ds + length ns < fuel) by (simpl in *; lia).
        assert (Q4 : forall d0, In d0 ds -> strictly_under droot (fst d0) = true) by (intros d0 Hd0; apply Hsu; right; assumption).
        assert (Q5 : forall y0 d0, In y0 (done ++ [y]) -> In d0 ds -> ncmp (Pn droot y0) (fst d0) = Lt)
          by (intros y0 d0 Hy0 Hd0; apply (I1' ds); auto; apply incl_refl).
        destruct (IH _ _ _ Q1 Q2 H1 Q4 Q5) as (A & B & C & D).
        simpl. rewrite A. split; [reflexivity|]. split; [|split].
        -- constructor; [simpl; auto 6|].
           eapply Forall_ev_ok_lift; [exact B|intros x Hx; right; assumption|intros x Hx; right; assumption|].
           intros y' Hy' d0 [<-|Hd0]; [right; auto|left; assumption].
        -- constructor; [assumption|]. apply Forall_forall. intros z Hz.
           apply (ev_entries_in _ _ _ B) in Hz. apply H2. assumption.
        -- intros d0 [<-|Hd0]; [left; simpl; left; reflexivity|apply covered_by_cons; auto].
    + (* the walker entry lies before the node: an extra *)
      assert (Hex : forall y0, In y0 nodes -> fst d <> Pn droot y0).
      { intros y0 Hy0 E. destruct (Hdone y0 Hy0) as [Hy'|[<-|Hy']].
        - specialize (I1 y0 d Hy' (or_introl eq_refl)). rewrite E, ncmp_refl in I1. discriminate.
        - rewrite E, ncmp_refl in Ec. discriminate.
        - pose proof (ncmp_trans _ _ _ Ec (Hns_gt y0 Hy')) as X. rewrite E, ncmp_refl in X. discriminate. }
      assert (Q2 : length (skip d ds) + length (y :: ns) < fuel) by (pose proof (skip_len d ds); simpl in *; lia).
      assert (Q3 : ssD (skip d ds)) by (apply skip_ss; assumption).
      assert (Q4 : forall d0, In d0 (skip d ds) -> strictly_under droot (fst d0) = true)
        by (intros d0 Hd0; apply Hsu; right; apply (skip_incl d ds); assumption).
      assert (Q5 : forall y0 d0, In y0 done -> In d0 (skip d ds) -> ncmp (Pn droot y0) (fst d0) = Lt)
        by (intros y0 d0 Hy0 Hd0; apply I1; [assumption|right; apply (skip_incl d ds); assumption]).
      destruct (IH _ _ _ Hn Q2 Q3 Q4 Q5) as (A & B & C & D).
      simpl. rewrite A. split; [reflexivity|]. split; [|split].
      * constructor; [simpl; auto|].
        eapply Forall_ev_ok_lift; [exact B|intros x Hx; right; apply (skip_incl d ds); assumption|apply incl_refl|].
        intros y' Hy' d0 [<-|Hd0]; [right; apply Hex; apply Hinn; assumption|].
        destruct (skip_in d ds d0 Hd0) as [Hin|[Hdir Hp]]; [left; assumption|right].
        intros E. rewrite E in Hp.
        rewrite (no_node_below (fst d) (Hsu d (or_introl eq_refl)) Hex y' (Hinn y' Hy')) in Hp. discriminate.
      * constructor; [assumption|]. apply Forall_forall. intros z Hz.
        apply (ev_entries_in _ _ _ B) in Hz. apply (skip_incl d ds) in Hz. apply H2. assumption.
      * intros d0 [<-|Hd0]; [left; simpl; left; reflexivity|].
        destruct (skip_in d ds d0 Hd0) as [Hin|[Hdir Hp]]; [apply covered_by_cons; auto|].
        right. exists d. split; [simpl; rewrite Hdir; left; reflexivity|]. split; [|assumption].
        intros ->. specialize (H2 d0 Hd0). unfold ltD in H2. rewrite ncmp_refl in H2. discriminate.
    + (* the node lies before the walker entry: not in the destination *)
      apply ncmp_gt_lt in Ec.
      assert (Q1 : nodes = (done ++ [y]) ++ ns) by (rewrite <- app_assoc; assumption).
      assert (Q2 : length (d :: ds) + length ns < fuel) by (simpl in *; lia).
      assert (Q3 : ssD (d :: ds)) by (constructor; [assumption|apply Forall_forall; assumption]).
      assert (Q5 : forall y0 d0, In y0 (done ++ [y]) -> In d0 (d :: ds) -> ncmp (Pn droot y0) (fst d0) = Lt).
      { intros y0 d0 Hy0 Hd0. apply in_app_or in Hy0 as [Hy0|[<-|[]]]; [auto|].
        destruct Hd0 as [<-|Hd0]; [assumption|]. eapply ncmp_trans; [exact Ec|apply H2; assumption]. }
      destruct (IH _ _ _ Q1 Q2 Q3 Hsu Q5) as (A & B & C & D).
      simpl. rewrite A. split; [reflexivity|]. split; [|split; [assumption|]].
      * constructor.
        -- simpl. split; [left; reflexivity|]. intros d0 [<-|Hd0] E.
           ++ rewrite E, ncmp_refl in Ec. discriminate.
           ++ pose proof (ncmp_trans _ _ _ Ec (H2 d0 Hd0)) as X. rewrite E, ncmp_refl in X. discriminate.
        -- eapply Forall_ev_ok_lift; [exact B|apply incl_refl|intros x Hx; right; assumption|intros y' _ d0 Hd0; left; assumption].
      * intros d0 Hd0. apply covered_by_cons. auto.
Qed.
End Classify.
