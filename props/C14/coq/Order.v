(* C14 — the component-wise path order (Path::cmp, WalkDir::sort_by_file_name) and the shape of
   the node stream: nodes_ok and sortedness of the flattening derived from the tree. *)
From Verif.Base Require Import Tactics.
From Verif.C14 Require Import Model Proofs Exact1 Exact2 Exact3 Exact4 Exact5 Exact6 Exact8.

(* ---------------------------------------------------------------- ncmp is a strict total order *)
Lemma ncmp_refl a : ncmp a a = Eq.
Proof. induction a; simpl; [reflexivity|]. rewrite N.compare_refl. assumption. Qed.
Lemma ncmp_eq a : forall b, ncmp a b = Eq -> a = b.
Proof.
  induction a; destruct b; simpl; intros H; try discriminate; [reflexivity|].
  destruct (a ?= n)%N eqn:E; try discriminate. apply N.compare_eq in E. subst. f_equal. auto.
Qed.
Lemma ncmp_antisym a : forall b, ncmp b a = CompOpp (ncmp a b).
Proof.
  induction a; destruct b; simpl; auto. rewrite (N.compare_antisym a n).
  destruct (a ?= n)%N; simpl; auto.
Qed.
Lemma ncmp_gt_lt a b : ncmp a b = Gt -> ncmp b a = Lt.
Proof. intros H. rewrite ncmp_antisym, H. reflexivity. Qed.
Lemma ncmp_trans a : forall b c, ncmp a b = Lt -> ncmp b c = Lt -> ncmp a c = Lt.
Proof.
  induction a; destruct b, c; simpl; try discriminate; auto.
  destruct (a ?= n)%N eqn:E1; destruct (n ?= n0)%N eqn:E2; try discriminate; intros H1 H2.
  - apply N.compare_eq in E1, E2. subst. rewrite N.compare_refl. eauto.
  - apply N.compare_eq in E1. subst. rewrite E2. reflexivity.
  - apply N.compare_eq in E2. subst. rewrite E1. reflexivity.
  - apply N.compare_lt_iff in E1, E2. pose proof (N.lt_trans _ _ _ E1 E2) as H. apply N.compare_lt_iff in H. rewrite H. reflexivity.
Qed.
Lemma ncmp_lt_neq a b : ncmp a b = Lt -> a <> b.
Proof. intros H ->. rewrite ncmp_refl in H. discriminate. Qed.
Lemma ncmp_app_head p : forall a b, ncmp (p ++ a) (p ++ b) = ncmp a b.
Proof. induction p; simpl; intros; [reflexivity|]. rewrite N.compare_refl. auto. Qed.
Lemma ncmp_prefix_lt p x : x <> [] -> ncmp p (p ++ x) = Lt.
Proof.
  intros H. rewrite <- (app_nil_r p) at 1. rewrite ncmp_app_head. destruct x; [congruence|reflexivity].
Qed.
Lemma ncmp_sib pre a b x y : (a ?= b)%N = Lt -> ncmp (pre ++ a :: x) (pre ++ b :: y) = Lt.
Proof. intros H. rewrite ncmp_app_head. simpl. rewrite H. reflexivity. Qed.
Lemma pcmp_normal : forall a b, pcmp (map CNormal a) (map CNormal b) = ncmp a b.
Proof. induction a; destruct b; simpl; auto. destruct (a ?= n)%N; auto. Qed.

(* the paths below p form an interval: whatever lies after p and not below p lies after all of them *)
Lemma interval p : forall y z, is_prefix p y = true -> ncmp p z = Lt -> is_prefix p z = false -> ncmp y z = Lt.
Proof.
  induction p as [|a p IH]; intros y z Hy Hz Hn; [discriminate|].
  destruct y as [|b y]; [discriminate|]. simpl in Hy. apply andb_true_iff in Hy as [Hab Hy]. apply N.eqb_eq in Hab. subst b.
  destruct z as [|c z]; [discriminate|]. simpl in *.
  destruct (a ?= c)%N eqn:E; try discriminate; [|reflexivity].
  apply N.compare_eq in E. subst c. rewrite N.eqb_refl in Hn. simpl in Hn. eauto.
Qed.
Lemma prefix_le p q : is_prefix p q = true -> p = q \/ ncmp p q = Lt.
Proof.
  intros H. apply is_prefix_inv in H as [r ->]. destruct r; [left; symmetry; apply app_nil_r|right; apply ncmp_prefix_lt; discriminate].
Qed.

(* ---------------------------------------------------------------- pairwise properties of the flattening *)
Definition ncomp (n : node) : name :=
  match n with Node (mkP false [CNormal a]) _ _ => a | _ => 0%N end.

Lemma StronglySorted_app {A} (R : A -> A -> Prop) l1 l2 :
  StronglySorted R l1 -> StronglySorted R l2 -> (forall a b, In a l1 -> In b l2 -> R a b) -> StronglySorted R (l1 ++ l2).
Proof.
  induction l1; simpl; intros H1 H2 H; [assumption|]. inv H1. constructor.
  - apply IHl1; auto.
  - apply Forall_app. split; [assumption|]. apply Forall_forall. intros b Hb. apply H; auto.
Qed.

Section FlatPairs.
Variable r : name -> name -> Prop.
Variable R : list name -> list name -> Prop.
Hypothesis P1 : forall p x, x <> [] -> R p (p ++ x).
Hypothesis P2 : forall pre a b x y, r a b -> R (pre ++ a :: x) (pre ++ b :: y).

(* the children of every visited directory are pairwise r-related by name, in order *)
Fixpoint sibs_ok (n : node) : Prop :=
  match n with
  | Node nm it ch =>
    if is_idir it
    then StronglySorted r (map ncomp ch) /\
         (fix all (l : list node) : Prop := match l with [] => True | x :: t => sibs_ok x /\ all t end) ch
    else True
  end.
Fixpoint sibs_all (l : list node) : Prop := match l with [] => True | x :: t => sibs_ok x /\ sibs_all t end.
Lemma sibs_all_eq : forall l,
  (fix all (l : list node) : Prop := match l with [] => True | x :: t => sibs_ok x /\ all t end) l = sibs_all l.
Proof. induction l; simpl; [reflexivity|]. rewrite IHl. reflexivity. Qed.

Lemma flat_node_shape nm it ch pre : nnb (Node nm it ch) = true ->
  nm = np [ncomp (Node nm it ch)] /\
  flat_node pre (Node nm it ch) =
    (pre ++ [ncomp (Node nm it ch)], it) :: (if is_idir it then flat_list (pre ++ [ncomp (Node nm it ch)]) ch else []) /\
  (is_idir it = true -> forallb nnb ch = true).
Proof.
  intros H. simpl in H. apply andb_true_iff in H as [Hn Hc].
  destruct (name_ok_np _ Hn) as [a ->]. simpl. rewrite flat_go_eq.
  split; [reflexivity|]. split; [reflexivity|]. intros Hd. rewrite Hd in Hc. assumption.
Qed.

Lemma flat_list_prefix : forall ch pre x, forallb nnb ch = true -> In x (flat_list pre ch) ->
  exists c t, In c ch /\ fst x = pre ++ ncomp c :: t.
Proof.
  assert (HN : forall n pre x, nnb n = true -> In x (flat_node pre n) -> exists t, fst x = pre ++ ncomp n :: t).
  { induction n as [nm it ch IH] using node_ind'. intros pre x Hn Hx.
    destruct (flat_node_shape nm it ch pre Hn) as (En & Ef & Hc). rewrite Ef in Hx.
    set (a := ncomp (Node nm it ch)) in *.
    destruct Hx as [<-|Hx]; [exists []; reflexivity|].
    destruct (is_idir it) eqn:Ed; [|destruct Hx]. specialize (Hc eq_refl).
    assert (HL : forall l, Forall (fun n => forall pre x, nnb n = true -> In x (flat_node pre n) -> exists t, fst x = pre ++ ncomp n :: t) l ->
                 forallb nnb l = true -> forall p, In x (flat_list p l) -> exists c t, fst x = p ++ ncomp c :: t).
    { clear. induction l; simpl; intros HF Hb p Hx; [destruct Hx|]. inv HF. apply andb_true_iff in Hb as [H1' H2'].
      apply in_app_or in Hx as [Hx|Hx]; [destruct (H1 _ _ H1' Hx) as [t Ht]; eauto|eauto]. }
    destruct (HL ch IH Hc _ Hx) as (c & t & Ht). exists (ncomp c :: t). rewrite Ht, <- app_assoc. reflexivity. }
  induction ch as [|c cs IHc]; simpl; intros pre x Hb Hx; [destruct Hx|].
  apply andb_true_iff in Hb as [H1 H2]. apply in_app_or in Hx as [Hx|Hx].
  - destruct (HN _ _ _ H1 Hx) as [t Ht]. exists c, t. auto.
  - destruct (IHc _ _ H2 Hx) as (c' & t & Hc' & Ht). exists c', t. auto.
Qed.

Lemma flat_list_pairs_aux : forall ch pre, forallb nnb ch = true -> StronglySorted r (map ncomp ch) ->
  Forall (fun n => forall pre, nnb n = true -> sibs_ok n -> StronglySorted R (map fst (flat_node pre n))) ch ->
  sibs_all ch -> StronglySorted R (map fst (flat_list pre ch)).
Proof.
  induction ch as [|c cs IH]; simpl; intros pre Hb Hs HF Ha; [constructor|].
  apply andb_true_iff in Hb as [H1 H2]. inv Hs. inv HF. destruct Ha as [Ha1 Ha2].
  rewrite map_app. apply StronglySorted_app; auto.
  intros a b Ha Hb. apply in_map_iff in Ha as (x & <- & Hx). apply in_map_iff in Hb as (y & <- & Hy).
  destruct (flat_list_prefix [c] pre x) as (c1 & t1 & [<-|[]] & E1); [simpl; rewrite H1; reflexivity|simpl; rewrite app_nil_r; assumption|].
  destruct (flat_list_prefix cs pre y H2 Hy) as (c2 & t2 & Hc2 & E2).
  rewrite E1, E2. apply P2. rewrite Forall_forall in H4. apply H4. apply in_map. assumption.
Qed.

Lemma flat_node_pairs : forall n pre, nnb n = true -> sibs_ok n -> StronglySorted R (map fst (flat_node pre n)).
Proof.
  induction n as [nm it ch IH] using node_ind'. intros pre Hn Hs.
  destruct (flat_node_shape nm it ch pre Hn) as (En & Ef & Hc). rewrite Ef.
  set (a := ncomp (Node nm it ch)) in *. simpl map. simpl in Hs.
  destruct (is_idir it) eqn:Ed.
  - destruct Hs as [Hs1 Hs2]. rewrite sibs_all_eq in Hs2. specialize (Hc eq_refl). constructor.
    + apply flat_list_pairs_aux; auto.
    + apply Forall_forall. intros q Hq. apply in_map_iff in Hq as (x & <- & Hx).
      destruct (flat_list_prefix ch (pre ++ [a]) x Hc Hx) as (c & t & _ & Et). rewrite Et. apply P1. discriminate.
  - simpl. constructor; constructor.
Qed.

Lemma flat_list_pairs : forall ch pre, forallb nnb ch = true -> StronglySorted r (map ncomp ch) -> sibs_all ch ->
  StronglySorted R (map fst (flat_list pre ch)).
Proof.
  intros ch pre Hb Hs Ha. apply flat_list_pairs_aux; auto.
  apply Forall_forall. intros n _ pre' Hn Hs'. apply flat_node_pairs; assumption.
Qed.
End FlatPairs.

(* ---------------------------------------------------------------- nodes_ok from the tree *)
Lemma ss_neq_nodup {A} (l : list A) : StronglySorted (fun a b => a <> b) l -> NoDup l.
Proof.
  induction 1; constructor; auto. intros Hin. rewrite Forall_forall in H0. apply (H0 a Hin). reflexivity.
Qed.

(* sibling names distinct (at the top and in every visited directory) *)
Definition sibs_distinct (roots : list node) : Prop :=
  StronglySorted (fun a b => a <> b) (map ncomp roots) /\ sibs_all (fun a b => a <> b) roots.
(* children sorted by name, as the archiver stores them (and as the merge-walk needs them) *)
Definition sibs_sorted (roots : list node) : Prop :=
  StronglySorted (fun a b => (a ?= b)%N = Lt) (map ncomp roots) /\ sibs_all (fun a b => (a ?= b)%N = Lt) roots.

Lemma flat_nodup roots : forallb nnb roots = true -> sibs_distinct roots -> NoDup (map fst (flat_list [] roots)).
Proof.
  intros Hn [H1 H2]. apply ss_neq_nodup.
  apply (flat_list_pairs (fun a b => a <> b) (fun p q => p <> q)); auto.
  - intros p x Hx E. rewrite <- (app_nil_r p) in E at 1. apply app_inv_head in E. congruence.
  - intros pre a b x y Hab E. apply app_inv_head in E. congruence.
Qed.
Lemma flat_sorted roots : forallb nnb roots = true -> sibs_sorted roots ->
  StronglySorted (fun p q => ncmp p q = Lt) (map fst (flat_list [] roots)).
Proof.
  intros Hn [H1 H2].
  apply (flat_list_pairs (fun a b => (a ?= b)%N = Lt) (fun p q => ncmp p q = Lt)); auto.
  - intros p x Hx. apply ncmp_prefix_lt. assumption.
  - intros pre a b x y Hab. apply ncmp_sib. assumption.
Qed.
Lemma sibs_all_impl (r r' : name -> name -> Prop) : (forall a b, r a b -> r' a b) ->
  forall l, sibs_all r l -> sibs_all r' l.
Proof.
  intros Hr.
  assert (HS : forall l, StronglySorted r l -> StronglySorted r' l).
  { induction 1; constructor; auto. eapply Forall_impl; [|eassumption]. auto. }
  assert (HN : forall n, sibs_ok r n -> sibs_ok r' n).
  { induction n as [nm it ch IH] using node_ind'. simpl. destruct (is_idir it); [|auto].
    intros [A B]. split; [auto|]. rewrite sibs_all_eq in *. clear A. induction ch; simpl in *; [auto|].
    inv IH. destruct B as [B1 B2]. split; [apply H1; assumption|apply IHch; assumption]. }
  induction l; simpl; [auto|]. intros [A B]. auto.
Qed.
Lemma sorted_distinct roots : sibs_sorted roots -> sibs_distinct roots.
Proof.
  intros [H1 H2].
  assert (Hr : forall a b : name, (a ?= b)%N = Lt -> a <> b) by (intros a b H ->; rewrite N.compare_refl in H; discriminate).
  split; [|apply (sibs_all_impl (fun a b : name => (a ?= b)%N = Lt)); assumption].
  clear H2. induction H1; constructor; auto. eapply Forall_impl; [|eassumption]. auto.
Qed.

(* proper prefixes of a path of the flattening are directory nodes of the flattening *)
Lemma flat_prefix_closed : forall ch pre x j, forallb nnb ch = true -> In x (flat_list pre ch) ->
  length pre < j < length (fst x) -> exists mt mo, In (firstn j (fst x), IDir mt mo) (flat_list pre ch).
Proof.
  assert (HN : forall n pre x j, nnb n = true -> In x (flat_node pre n) ->
     length pre < j < length (fst x) -> exists mt mo, In (firstn j (fst x), IDir mt mo) (flat_node pre n)).
  { induction n as [nm it ch IH] using node_ind'. intros pre x j Hn Hx Hj.
    destruct (flat_node_shape nm it ch pre Hn) as (En & Ef & Hc). rewrite Ef in *.
    set (a := ncomp (Node nm it ch)) in *.
    destruct Hx as [<-|Hx]; [simpl in Hj; rewrite app_length in Hj; simpl in Hj; lia|].
    destruct (is_idir it) eqn:Ed; [|destruct Hx]. specialize (Hc eq_refl).
    destruct (flat_list_prefix ch (pre ++ [a]) x Hc Hx) as (c & t & _ & Et).
    destruct (Nat.eq_dec j (length (pre ++ [a]))) as [->|Hne].
    - destruct it; try discriminate. exists mtime, mode. left. rewrite Et, firstn_exact. reflexivity.
    - assert (HL : forall l, Forall (fun n => forall pre x j, nnb n = true -> In x (flat_node pre n) ->
                   length pre < j < length (fst x) -> exists mt mo, In (firstn j (fst x), IDir mt mo) (flat_node pre n)) l ->
                 forallb nnb l = true -> forall p, In x (flat_list p l) -> length p < j < length (fst x) ->
                 exists mt mo, In (firstn j (fst x), IDir mt mo) (flat_list p l)).
      { clear. induction l; simpl; intros HF Hb p Hx Hj; [destruct Hx|]. inv HF. apply andb_true_iff in Hb as [H1' H2'].
        apply in_app_or in Hx as [Hx|Hx].
        - destruct (H1 _ _ _ H1' Hx Hj) as (m & mo & H). exists m, mo. apply in_or_app. left. assumption.
        - destruct (IHl H2 H2' p Hx Hj) as (m & mo & H). exists m, mo. apply in_or_app. right. assumption. }
      destruct (HL ch IH Hc (pre ++ [a]) Hx) as (m & mo & H).
      { rewrite app_length in *. simpl in *. lia. }
      exists m, mo. right. assumption. }
  induction ch as [|c cs IHc]; simpl; intros pre x j Hb Hx Hj; [destruct Hx|].
  apply andb_true_iff in Hb as [H1 H2]. apply in_app_or in Hx as [Hx|Hx].
  - destruct (HN _ _ _ _ H1 Hx Hj) as (m & mo & H). exists m, mo. apply in_or_app. left. assumption.
  - destruct (IHc _ _ _ H2 Hx Hj) as (m & mo & H). exists m, mo. apply in_or_app. right. assumption.
Qed.

(* index consistency on the blobs of the tree *)
Definition tree_blobs (roots : list node) : list blob := flat_map (fun f : fileT => snd f) (files_of (flat_list [] roots)).
Definition index_consistent (roots : list node) : Prop :=
  forall b b', In b (tree_blobs roots) -> In b' (tree_blobs roots) -> bkey b = bkey b' -> b_data b = b_data b'.

Theorem nodes_ok_of_tree roots :
  forallb nnb roots = true -> sibs_distinct roots -> index_consistent roots -> nodes_ok (flat_list [] roots).
Proof.
  intros Hn Hd Hi. split; [apply flat_nodup; assumption|]. split; [|split].
  - intros x Hx. destruct (flat_list_prefix roots [] x Hn Hx) as (c & t & _ & E). rewrite E. discriminate.
  - intros x j Hx Hj. apply (flat_prefix_closed roots [] x j Hn Hx). simpl. lia.
  - intros f f' b b' Hf Hf' Hb Hb' Hk. apply Hi; auto; unfold tree_blobs; apply in_flat_map; eauto.
Qed.
